import argparse, fcntl, hashlib, json, os, re, shutil, subprocess, sys, time
from concurrent.futures import ThreadPoolExecutor

VERIF = os.path.dirname(os.path.dirname(os.path.abspath(__file__)))
REPO = os.environ.get("VERIF_REPO", "/repo")
COQ = os.path.join(VERIF, "coq")
HARNESS = os.path.join(VERIF, "harness")
COQ_Q = ["-Q", "lib", "Verif", "-Q", "model", "VerifModel", "-Q", "gen", "VerifGen",
         "-Q", "proof", "VerifProof", "-Q", "props", "VerifProps"]
ALLOWED_AXIOMS = set()   # stdlib axioms a property may rely on are added per property in meta
SHARD = 400              # cases per generated cases_*.v
FORBIDDEN = re.compile(r"\b(Admitted|admit|Axiom|Axioms|Parameter|Parameters|Conjecture|Conjectures|"
                       r"Hypothesis|Hypotheses|Variable|Variables|Admit Obligations)\b|"
                       r"Unset Guard Checking|Unset Positivity Checking|Unset Universe Checking|"
                       r"bypass_check|type-in-type|impredicative-set|native_compute")


def goenv():
    e = dict(os.environ)
    e["GOFLAGS"] = "-mod=mod"
    e["GOPROXY"] = "off"
    e.pop("GOSUMDB", None)
    e.pop("GOTOOLCHAIN", None)
    e.setdefault("GOCACHE", os.path.expanduser("~/.cache/go-build"))
    return e


def sh(cmd, cwd=None, env=None, timeout=None, stdin=None):
    t0 = time.time()
    try:
        p = subprocess.run(cmd, cwd=cwd, env=env, timeout=timeout, stdout=subprocess.PIPE,
                           stderr=subprocess.STDOUT, text=True, input=stdin)
        return p.returncode, p.stdout, time.time() - t0
    except subprocess.TimeoutExpired as ex:
        out = ex.stdout or ""
        if isinstance(out, bytes):
            out = out.decode("utf8", "replace")
        return 124, out + "\n[timeout after %ss]" % timeout, time.time() - t0


def load_meta(prop):
    p = os.path.join(VERIF, "meta", prop + ".json")
    m = {}
    if os.path.exists(p):
        m = json.load(open(p))
    m.setdefault("harness", prop.lower())
    m.setdefault("streams", {})
    m.setdefault("allowed_axioms", [])
    m.setdefault("trusted_base", [])
    m.setdefault("assumptions", [])
    m.setdefault("rule", "")
    m.setdefault("gen", [])
    m.setdefault("race", False)
    m.setdefault("harness_timeout", {"quick": 300, "thorough": 3000})
    return m


# ---------------------------------------------------------------- harness build
def write_modfile(build):
    """go.mod for the harness, derived from the repository's own go.mod so that the
    replace target and the dependency versions always follow the tree under test."""
    src = open(os.path.join(REPO, "go.mod")).read()
    reqs = re.findall(r"require\s*\((.*?)\)", src, re.S)
    gov = re.search(r"^go\s+(\S+)", src, re.M).group(1)
    mod = "module verifharness\n\ngo %s\n\n" % gov
    for r in reqs:
        mod += "require (%s)\n\n" % r
    mod += "require github.com/zmap/zcrypto v0.0.0\n\nreplace github.com/zmap/zcrypto => %s\n" % REPO
    mf = os.path.join(build, "go.mod")
    if not os.path.exists(mf) or open(mf).read() != mod:
        open(mf, "w").write(mod)
    shutil.copyfile(os.path.join(REPO, "go.sum"), os.path.join(build, "go.sum"))
    return mf


def build_harness(prop, meta, build, race=False):
    mf = write_modfile(build)
    exe = os.path.join(build, "vh-race" if race else "vh")
    cmd = ["go", "build", "-tags", "verif", "-modfile=" + mf, "-o", exe]
    if race:
        cmd.append("-race")
    cmd.append("./" + meta["harness"])
    rc, out, dt = sh(cmd, cwd=HARNESS, env=goenv(), timeout=1200)
    return rc, out, exe, " ".join(cmd)


# ---------------------------------------------------------------- coq
class CoqLock:
    def __enter__(self):
        self.f = open(os.path.join(COQ, ".lock"), "w")
        fcntl.flock(self.f, fcntl.LOCK_EX)
        return self

    def __exit__(self, *a):
        fcntl.flock(self.f, fcntl.LOCK_UN)
        self.f.close()


def coq_project():
    """_CoqProject lists every .v under lib/ model/ gen/ proof/ props/ (regenerated when the set changes)"""
    files = []
    for d in ("lib", "model", "gen", "proof", "props"):
        dd = os.path.join(COQ, d)
        if os.path.isdir(dd):
            files += sorted(os.path.join(d, f) for f in os.listdir(dd) if f.endswith(".v") and not f.startswith("."))
    txt = "-Q lib Verif\n-Q model VerifModel\n-Q gen VerifGen\n-Q proof VerifProof\n-Q props VerifProps\n" + "\n".join(files) + "\n"
    p = os.path.join(COQ, "_CoqProject")
    changed = not os.path.exists(p) or open(p).read() != txt
    if changed:
        open(p, "w").write(txt)
    return changed


def coq_make(targets=None):
    # fast path without the global lock: project file unchanged and every target already up to date
    if targets and os.path.exists(os.path.join(COQ, "Makefile")) and os.path.exists(os.path.join(COQ, "_CoqProject")):
        cur = open(os.path.join(COQ, "_CoqProject")).read()
        files = []
        for d in ("lib", "model", "gen", "proof", "props"):
            dd = os.path.join(COQ, d)
            if os.path.isdir(dd):
                files += sorted(os.path.join(d, f) for f in os.listdir(dd) if f.endswith(".v") and not f.startswith("."))
        if cur.split("\n")[5:] == files + [""]:
            rc, out, _ = sh(["make", "-q"] + targets, cwd=COQ, timeout=300)
            if rc == 0:
                return 0, "up to date"
    with CoqLock():
        changed = coq_project()
        if changed or not os.path.exists(os.path.join(COQ, "Makefile")):
            rc, out, _ = sh(["coq_makefile", "-f", "_CoqProject", "-o", "Makefile"], cwd=COQ, timeout=120)
            if rc != 0:
                return rc, out
        rc, out, dt = sh(["make", "-j16"] + (targets or []), cwd=COQ, timeout=3000)
        return rc, out


def coq_deps(prop):
    """files of the development that props/<prop>.v transitively requires"""
    dirs = {"Verif": "lib", "VerifModel": "model", "VerifGen": "gen", "VerifProof": "proof", "VerifProps": "props"}
    seen, todo = set(), [os.path.join("props", prop + ".v")]
    while todo:
        f = todo.pop()
        if f in seen or not os.path.exists(os.path.join(COQ, f)):
            continue
        seen.add(f)
        txt = strip_comments(open(os.path.join(COQ, f), errors="replace").read())
        for m in re.finditer(r"From\s+(\w+)\s+Require\s+(?:Import\s+|Export\s+)?([^.]*(?:\.[A-Za-z_][^.]*)*?)\.\s", txt):
            lib, names = m.group(1), m.group(2)
            if lib in dirs:
                for n in names.split():
                    todo.append(os.path.join(dirs[lib], n.split(".")[-1] + ".v"))
        for m in re.finditer(r"(?<!From )\bRequire\s+(?:Import\s+|Export\s+)?((?:Verif\w*\.\w+\s*)+)\.", txt):
            for n in m.group(1).split():
                lib, name = n.split(".")[0], n.split(".")[-1]
                if lib in dirs:
                    todo.append(os.path.join(dirs[lib], name + ".v"))
    return sorted(seen)


def scan_forbidden(files):
    bad = []
    if True:
        for f in files:
            p = os.path.join(COQ, f)
            txt = open(p, errors="replace").read()
            txt_nc = strip_comments(txt)
            for m in FORBIDDEN.finditer(txt_nc):
                w = m.group(0)
                # Variable/Hypothesis are fine inside a Section
                if w in ("Variable", "Variables", "Hypothesis", "Hypotheses"):
                    if in_section(txt_nc, m.start()):
                        continue
                bad.append("%s: %s" % (os.path.relpath(p, COQ), w))
    return bad


def strip_comments(t):
    out, depth, i = [], 0, 0
    while i < len(t):
        if t.startswith("(*", i):
            depth += 1
            i += 2
        elif t.startswith("*)", i) and depth:
            depth -= 1
            i += 2
        else:
            if depth == 0:
                out.append(t[i])
            elif t[i] == "\n":
                out.append("\n")
            i += 1
    return "".join(out)


def in_section(txt, pos):
    opened = len(re.findall(r"^\s*Section\s+\w+", txt[:pos], re.M))
    closed = 0
    for m in re.finditer(r"^\s*End\s+(\w+)\s*\.", txt[:pos], re.M):
        name = m.group(1)
        if re.search(r"^\s*Section\s+%s\b" % re.escape(name), txt[:m.start()], re.M):
            closed += 1
    return opened > closed


def check_props(prop, meta, build):
    """re-check props/<prop>.v with coqc; returns obligations, discharged, axioms, log"""
    pf = os.path.join(COQ, "props", prop + ".v")
    src = strip_comments(open(pf).read())
    theorems = re.findall(r"^\s*(?:Theorem|Lemma|Corollary|Example)\s+(\w+)", src, re.M)
    printed = re.findall(r"Print Assumptions\s+(\w+)\s*\.", src)
    cmd = ["coqc"] + COQ_Q + ["-o", os.path.join(build, prop + ".vo"), "props/%s.v" % prop]
    rc, out, dt = sh(["timeout", "1500"] + cmd, cwd=COQ, timeout=1600)
    marks = [m.start() for m in re.finditer(r"Closed under the global context|^Axioms:", out, re.M)]
    blocks = [out[a:b] for a, b in zip(marks, marks[1:] + [len(out)])]
    axioms = []
    discharged = 0
    allowed = set(meta["allowed_axioms"])
    if rc == 0:
        for i, th in enumerate(theorems):
            if th not in printed:
                continue
            if i < len(blocks):
                b = blocks[i]
                if b.startswith("Closed"):
                    discharged += 1
                else:
                    names = re.findall(r"^(\S+)\s*:", b, re.M)
                    names = [n for n in names if n != "Axioms"]
                    axioms += names
                    if all(n.split(".")[-1] in allowed or n in allowed for n in names):
                        discharged += 1
    return dict(obligations=len(theorems), discharged=discharged, theorems=theorems,
                axioms=sorted(set(axioms)), rc=rc, log=out[-4000:], cmd=" ".join(cmd), wall=dt)


def run_model(prop, meta, build, rundir, stream, ncases):
    """shard cases.<stream>.txt into cases_*.v, evaluate with vm_compute, return failing indices"""
    ty = meta["streams"].get(stream, {}).get("type", "%s.%s" % (prop, stream))
    chk = meta["streams"].get(stream, {}).get("check", "%s.check_%s" % (prop, stream))
    req = meta["streams"].get(stream, {}).get("require", "From VerifModel Require Import %s." % prop)
    shard = meta["streams"].get(stream, {}).get("shard", SHARD)
    lines = open(os.path.join(rundir, "cases.%s.txt" % stream)).read().split("\n")
    lines = [l for l in lines if l.strip()]
    jobs = []
    sd = os.path.join(rundir, "coq_" + stream)
    shutil.rmtree(sd, ignore_errors=True)
    os.makedirs(sd)
    for si, off in enumerate(range(0, len(lines), shard)):
        chunk = lines[off:off + shard]
        name = "cases_%s_%d" % (stream, si)
        body = ["From Coq Require Import List NArith ZArith Bool String.", "From Verif Require Import Harness.", req,
                "Import ListNotations.", "Open Scope list_scope.",
                "Definition cases : list (%s) := [" % ty]
        body.append(";\n".join(chunk))
        body.append("].")
        body.append("Definition M := Eval vm_compute in (failing (%s) cases)." % chk)
        body.append("Print M.")
        fn = os.path.join(sd, name + ".v")
        open(fn, "w").write("\n".join(body) + "\n")
        jobs.append((fn, off, len(chunk)))

    def one(job):
        fn, off, n = job
        # large case literals need a deep stack in Coq's parser/elaborator
        rc, out, dt = sh(["bash", "-c", "ulimit -s unlimited 2>/dev/null || ulimit -s 4000000 2>/dev/null; exec \"$@\"", "--",
                          "timeout", "1700", "coqc"] + COQ_Q + [fn], cwd=COQ, timeout=1800)
        if rc != 0:
            return ("error", off, n, out[-3000:])
        m = re.search(r"M\s*=\s*(.*?)\s*:\s*list N", out, re.S)
        if not m:
            return ("error", off, n, out[-3000:])
        idx = [int(x) for x in re.findall(r"\d+", m.group(1).replace("%N", ""))]
        return ("ok", off, n, idx)

    failing, errors = [], []
    with ThreadPoolExecutor(max_workers=int(os.environ.get("VERIF_JOBS", "14"))) as ex:
        for r in ex.map(one, jobs):
            if r[0] == "ok":
                failing += [r[1] + i for i in r[3]]
            else:
                errors.append(dict(offset=r[1], n=r[2], log=r[3]))
    return failing, errors, lines


# ---------------------------------------------------------------- findings / replays
def load_known():
    p = os.path.join(VERIF, "known_findings.txt")
    out = []
    if os.path.exists(p):
        for l in open(p):
            l = l.strip()
            m = re.match(r"finding:\s+property=(\S+)\s+key=(\S+)\s+(.*)", l)
            if m:
                out.append((m.group(1), m.group(2), m.group(3)))
    return out


def write_replay(prop, rec):
    d = os.path.join(VERIF, "replays", prop, "found")
    os.makedirs(d, exist_ok=True)
    h = hashlib.sha256(json.dumps(rec, sort_keys=True, default=str).encode()).hexdigest()[:12]
    rec["replay_cmd"] = "./check %s --replay replays/%s/found/%s.json" % (prop, prop, h)
    p = os.path.join(d, h + ".json")
    json.dump(rec, open(p, "w"), indent=1, default=str)
    return os.path.relpath(p, VERIF)


def regen_tables(prop, meta, exe, build, tier="quick", seed=1, info=None):
    """run the harness with --tables and install the regenerated coq/gen files (T2/T3 translators)"""
    out_broken = []
    gdir = os.path.join(build, "gen_%d" % os.getpid())
    shutil.rmtree(gdir, ignore_errors=True)
    os.makedirs(gdir)
    env = goenv()
    env["VERIF_REPO_DIR"] = REPO
    env["VERIF_DIR"] = VERIF
    grc, gout, _ = sh([exe, "--tier", tier, "--seed", str(seed), "--out", gdir, "--tables"], cwd=HARNESS, env=env, timeout=600)
    if grc != 0:
        return [dict(kind="tables", what="table/site generator failed", log=gout[-3000:])]
    with CoqLock():
        os.makedirs(os.path.join(COQ, "gen"), exist_ok=True)
        for g in meta["gen"]:
            src, dst = os.path.join(gdir, g), os.path.join(COQ, "gen", g)
            if not os.path.exists(src):
                out_broken.append(dict(kind="tables", what="generator did not produce " + g))
                continue
            new = open(src).read()
            if not os.path.exists(dst) or open(dst).read() != new:
                open(dst, "w").write(new)
                if info is not None:
                    info.setdefault("gen_changed", []).append(g)
    return out_broken


# ---------------------------------------------------------------- main
def run_harness(exe, tier, seed, rundir, extra, timeout, race=False):
    shutil.rmtree(rundir, ignore_errors=True)
    os.makedirs(rundir)
    env = goenv()
    env["VERIF_REPO_DIR"] = REPO
    env["VERIF_DIR"] = VERIF
    cmd = [exe, "--tier", tier, "--seed", str(seed), "--out", rundir] + extra
    pre = ["bash", "-c", "ulimit -v 33554432; exec \"$@\"", "--"]
    rc, out, dt = sh(pre + cmd, cwd=HARNESS, env=env, timeout=timeout)
    res = None
    rp = os.path.join(rundir, "result.json")
    if os.path.exists(rp):
        try:
            res = json.load(open(rp))
        except Exception:
            res = None
    return rc, out, res, dt


def main(argv):
    ap = argparse.ArgumentParser()
    ap.add_argument("prop")
    ap.add_argument("--tier", default=os.environ.get("VERIF_TIER", "quick"))
    ap.add_argument("--replay")
    a = ap.parse_args(argv)
    prop, tier = a.prop, a.tier
    if tier not in ("quick", "thorough"):
        tier = "quick"
    try:
        seed = int(os.environ.get("VERIF_SEED", "1"))
    except ValueError:
        seed = 1
    t0 = time.time()
    meta = load_meta(prop)
    # a tree other than /repo (VERIF_REPO, used to test checks against mutated scratch worktrees) gets its own
    # build directory, so that its harness binaries never replace the ones built from /repo
    alt = REPO.rstrip("/") != "/repo"
    build = os.path.join(VERIF, "build", prop + ("@" + hashlib.sha1(REPO.encode()).hexdigest()[:8] if alt else ""))
    os.makedirs(build, exist_ok=True)
    log = []
    broken = []        # obligations / correspondence that no longer check
    violations = []    # (key, desc, stream, input, extra)
    info = {}

    # 0. hygiene of the Coq development
    bad = scan_forbidden(coq_deps(prop))
    if bad:
        broken.append(dict(kind="hygiene", what="forbidden construct in the Coq development: " + "; ".join(bad[:10])))

    # 1. harness build against the current tree
    rc, out, exe, build_cmd = build_harness(prop, meta, build)
    if rc != 0:
        broken.append(dict(kind="harness-build", what="harness does not build against the current tree with -tags verif",
                           log=out[-3000:]))
    exe_race = None
    if rc == 0 and meta["race"]:
        rc2, out2, exe_race, _ = build_harness(prop, meta, build, race=True)
        if rc2 != 0:
            broken.append(dict(kind="harness-build", what="race-enabled harness does not build", log=out2[-3000:]))
            exe_race = None

    # 2. regenerate gen/*.v from the built code, then make + props
    if rc == 0 and meta["gen"]:
        broken += regen_tables(prop, meta, exe, build, tier, seed, info)
    mrc, mout = coq_make(["props/%s.vo" % prop])
    if mrc != 0:
        broken.append(dict(kind="coq-make", what="the Coq development no longer builds (make)", log=mout[-3000:]))
    pr = check_props(prop, meta, build)
    if pr["rc"] != 0 or pr["discharged"] != pr["obligations"]:
        failing_thm = ""
        m = re.search(r'File "\./props/%s\.v", line (\d+)' % prop, pr["log"])
        if m:
            ln = int(m.group(1))
            src = open(os.path.join(COQ, "props", prop + ".v")).read().split("\n")
            for i in range(min(ln, len(src)) - 1, -1, -1):
                mm = re.match(r"\s*(?:Theorem|Lemma|Corollary|Example)\s+(\w+)", src[i])
                if mm:
                    failing_thm = mm.group(1)
                    break
        broken.append(dict(kind="obligation", theorem=failing_thm,
                           what="props/%s.v: %d of %d obligations discharged%s" % (
                               prop, pr["discharged"], pr["obligations"],
                               (" (fails at %s)" % failing_thm) if failing_thm else ""),
                           log=pr["log"][-3000:]))

    # 2b. thorough tier: independent re-check of the compiled files with coqchk
    if tier == "thorough" and pr["rc"] == 0 and not a.replay and not os.environ.get("VERIF_NO_COQCHK"):
        with CoqLock():
            crc, cout, cdt = sh(["timeout", "2400", "coqchk", "-silent", "-o"] + COQ_Q + ["VerifProps." + prop], cwd=COQ, timeout=2500)
        info["coqchk"] = dict(rc=crc, wall_s=round(cdt, 1), summary=cout[cout.find("CONTEXT SUMMARY"):][:1500] if "CONTEXT SUMMARY" in cout else cout[-800:])
        m = re.search(r"\* Axioms:\s*(.*?)\n\s*\n\* Constants", cout, re.S)
        ax = m.group(1).strip() if m else "?"
        # coqchk lists the axioms of every loaded library, used or not: standard-library axioms (module path Coq.*,
        # e.g. the primitive 63-bit integers loaded through Bignums) are recorded in the evidence; anything declared
        # outside the standard library is rejected (the development itself may declare none: hygiene scan)
        ax_lines = [l.strip() for l in ax.split("\n") if l.strip()]
        info["coqchk"]["axioms_of_loaded_libraries"] = [] if ax == "<none>" else ax_lines
        ok_ax = ax == "<none>" or all(l.startswith("Coq.") or any(al in l for al in meta["allowed_axioms"]) for l in ax_lines)
        if crc != 0 or not ok_ax or "type-in-type: <none>" not in cout or "unsafe (co)fixpoints: <none>" not in cout \
                or "positivity is assumed: <none>" not in cout:
            broken.append(dict(kind="coqchk", what="coqchk does not accept the compiled development cleanly (rc=%s, axioms=%s)" % (crc, ax[:200]),
                               log=cout[-3000:]))

    # 3. correspondence + oracle
    res = None
    mism_total = 0
    streams_out = {}
    if rc == 0:
        extra = ["--replay", os.path.abspath(a.replay)] if a.replay else []
        runs = []
        # corpus of earlier minimised failures first
        corpus = os.path.join(VERIF, "replays", prop, "corpus")
        if not a.replay and os.path.isdir(corpus):
            for f in sorted(os.listdir(corpus)):
                if f.endswith(".json"):
                    runs.append(("corpus:" + f, ["--replay", os.path.join(corpus, f)], exe))
        runs.append(("main", extra, exe))
        if exe_race and not a.replay:
            runs.append(("race", ["--race"], exe_race))
        agg = dict(evaluations=0, nontrivial=0, stats={}, samples=[], exhaustive=[], notes=[])
        for rname, rextra, rexe in runs:
            rundir = os.path.join(build, "runs", str(os.getpid()), "run_" + re.sub(r"\W", "_", rname))
            hrc, hout, res, hdt = run_harness(rexe, tier, seed, rundir, rextra, meta["harness_timeout"][tier])
            info.setdefault("harness_wall_s", {})[rname] = round(hdt, 1)
            if res is None:
                broken.append(dict(kind="harness-run", what="harness run '%s' did not complete (rc=%s)" % (rname, hrc),
                                   log=hout[-3000:]))
                if "DATA RACE" in hout:
                    violations.append(dict(key="data-race", desc="Go race detector report: " + first_race(hout),
                                           stream=rname, input=dict(seed=seed, tier=tier, run=rname), log=hout[-6000:]))
                continue
            if "DATA RACE" in hout:
                violations.append(dict(key="data-race", desc="Go race detector report: " + first_race(hout),
                                       stream=rname, input=dict(seed=seed, tier=tier, run=rname), log=hout[-6000:]))
            agg["evaluations"] += res["evaluations"]
            agg["nontrivial"] += res["distinct_nontrivial"] if not rname.startswith("corpus") else 0
            for k, v in res["stats"].items():
                agg["stats"][k] = agg["stats"].get(k, 0) + v
            if rname == "main" or not agg["samples"]:
                agg["samples"] += (res["samples"] or [])[:4]
            agg["exhaustive"] += res.get("exhaustive_domains") or []
            agg["notes"] += res.get("notes") or []
            for v in (res["violations"] or []):
                violations.append(v)
            for stream, n in res["streams"].items():
                if n == 0:
                    continue
                failing, errors, lines = run_model(prop, meta, build, rundir, stream, n)
                streams_out[stream] = streams_out.get(stream, 0) + n
                if errors:
                    broken.append(dict(kind="model-run", stream=stream,
                                       what="model evaluation failed on stream %s (%d shard(s))" % (stream, len(errors)),
                                       log=errors[0]["log"]))
                if failing:
                    mism_total += len(failing)
                    inputs = open(os.path.join(rundir, "inputs.%s.jsonl" % stream)).read().split("\n")
                    ex = []
                    for i in failing[:5]:
                        ex.append(dict(index=i, input=json.loads(inputs[i]) if i < len(inputs) and inputs[i] else None,
                                       case=lines[i][:2000]))
                    broken.append(dict(kind="correspondence", stream=stream, run=rname,
                                       what="model and implementation disagree on %d of %d cases of stream %s" % (
                                           len(failing), n, stream), examples=ex))
        res = agg

    # 4. if something no longer checks and no failing input is known yet: search harder
    if broken and not violations and rc == 0 and tier == "quick" and not a.replay:
        for s2 in (seed, seed + 1):
            rundir = os.path.join(build, "runs", str(os.getpid()), "run_search")
            hrc, hout, r2, hdt = run_harness(exe, "thorough", s2, rundir, [], 240)
            info.setdefault("search_runs", []).append(dict(seed=s2, wall=round(hdt, 1), completed=r2 is not None))
            if r2 and r2.get("violations"):
                violations += r2["violations"]
                break

    # 5. verdict
    known = load_known()
    out_lines = []
    new_viol = 0
    seen_known = set()
    reported = set()
    for v in violations:
        kk = [k for k in known if k[0] == prop and k[1] == v["key"]]
        if kk:
            if kk[0][1] not in seen_known:
                seen_known.add(kk[0][1])
                out_lines.append("KNOWN-FINDING: property=%s %s" % (prop, kk[0][2]))
            continue
        if v["key"] in reported:
            continue
        reported.add(v["key"])
        new_viol += 1
        rec = dict(property=prop, kind="oracle", key=v["key"], desc=v["desc"], stream=v.get("stream"),
                   input=v.get("input"), seed=seed, tier=tier, broken=[b["what"] for b in broken])
        if v.get("log"):
            rec["log"] = v["log"]
        path = write_replay(prop, rec)
        out_lines.append("VIOLATION property=%s replay=%s" % (prop, path))
    if broken and new_viol == 0:
        # a correspondence failure whose every oracle violation is a listed finding is explained by it
        only_known = bool(seen_known) and all(b["kind"] == "correspondence" for b in broken) and False
        if not only_known:
            rec = dict(property=prop, kind="no-failing-input-found", seed=seed, tier=tier,
                       no_longer_checks=[dict((k, b[k]) for k in b if k != "log") for b in broken],
                       logs=[b.get("log", "") for b in broken][:3])
            ex = [b for b in broken if b["kind"] == "correspondence"]
            if ex and ex[0].get("examples"):
                rec["input"] = ex[0]["examples"][0]["input"]
                rec["stream"] = ex[0]["stream"]
            path = write_replay(prop, rec)
            out_lines.append("VIOLATION property=%s replay=%s no-failing-input-found" % (prop, path))
            new_viol += 1

    wall = time.time() - t0
    ev = dict(
        property_id=prop, tier=tier, seed=seed, level="proof",
        coverage=dict(
            obligations=pr["obligations"], discharged=pr["discharged"],
            checker_cmd="cd coq && make -j16 props/%s.vo && %s" % (prop, pr["cmd"]),
            coq_files_checked=coq_deps(prop),
            theorems=pr["theorems"], axioms_printed=pr["axioms"],
            trusted_base=["Coq 8.16.1 kernel + vm_compute (no native_compute)",
                          "hand-written Gallina model tied to the Go code by the correspondence run below",
                          "Go harness (generators, canonicalisers, direct oracle) in /verif/harness/" + meta["harness"],
                          ] + meta["trusted_base"],
            evaluations=(res or {}).get("evaluations", 0),
            distinct_nontrivial=(res or {}).get("nontrivial", 0),
            rule=meta["rule"],
            samples=(res or {}).get("samples", [])[:6] or [dict(theorems=pr["theorems"][:3])],
            exhaustive=bool((res or {}).get("exhaustive")),
            exhaustive_domains=(res or {}).get("exhaustive", []),
            correspondence_cases=streams_out, model_impl_mismatches=mism_total,
            input_distribution=(res or {}).get("stats", {}),
            notes=(res or {}).get("notes", []),
            no_longer_checks=[b["what"] for b in broken],
            known_findings_seen=sorted(seen_known),
            harness_build_cmd=build_cmd, repo=REPO, **info),
        assumptions=meta["assumptions"],
        wall_s=round(wall, 2), violations=new_viol)
    os.makedirs(os.path.join(VERIF, "evidence"), exist_ok=True)
    if not a.replay:
        # evidence/<id>.json describes runs against /repo only; a VERIF_REPO run leaves its record under build/
        evp = os.path.join(VERIF, "evidence", prop + ".json") if not alt else os.path.join(VERIF, "build", "evidence-alt-%s.json" % prop)
        json.dump(ev, open(evp, "w"), indent=1, default=str)
    if alt:
        shutil.rmtree(build, ignore_errors=True)
    shutil.rmtree(os.path.join(build, "runs", str(os.getpid())), ignore_errors=True)
    shutil.rmtree(os.path.join(build, "gen_%d" % os.getpid()), ignore_errors=True)
    for l in out_lines:
        print(l)
    print("%s tier=%s seed=%d obligations=%d/%d cases=%s mismatches=%d oracle_violations=%d broken=%d wall=%.1fs" % (
        prop, tier, seed, pr["discharged"], pr["obligations"], streams_out, mism_total, len(violations), len(broken), wall))
    for b in broken:
        print("  no longer checks:", b["what"])
        if os.environ.get("VERIF_VERBOSE") and b.get("log"):
            print(b["log"])
    return 1 if new_viol else 0


def first_race(out):
    i = out.find("DATA RACE")
    seg = out[i:i + 1500]
    fr = re.findall(r"^\s+(\S+\(\))\n\s+(\S+:\d+)", seg, re.M)
    return "; ".join("%s %s" % (a, os.path.basename(b)) for a, b in fr[:4])
