(* C21 — cryptobyte builders and readers are exact inverses.
   Property theorems only; each is closed by [exact] of a lemma of proof/C21Proofs.v.
   Model: model/C21.v (write programs [w], [build] = specification builder,
   [l_build] = the back-patching builder on the shared buffer; read programs [r],
   [rd]/[rds] = the String methods; [expects rs ws tail] = the values a matching
   read program must return for what [ws] wrote, [tail] being the bytes that follow). *)
From Coq Require Import List NArith ZArith Bool Arith.
From Verif Require Import Harness.
From VerifModel Require Import C21.
From VerifProof Require Import C21Proofs C21Total.
Import ListNotations.
Open Scope N_scope.

(* MAIN (first sentence of the property; all programs, all nesting depths, any trailing
   bytes): whatever the Builder wrote, every matching read program — one matching
   String method per written value, in order, bodies of length-prefixed / ASN.1 blocks
   read recursively, with optional readers whose tag is absent and PeekASN1Tag
   interleaved anywhere — succeeds, returns the written values, and leaves exactly the
   unread remainder.  LIM = 2^32-6: beyond it readASN1's header arithmetic overflows. *)
Theorem C21_read_build : forall rs ws tail bs vs,
  build ws = Some bs -> blen bs < LIM -> expects rs ws tail = Some vs ->
  rds rs (bs ++ tail) = Some (vs, tail).
Proof. exact read_build. Qed.
Print Assumptions C21_read_build.

(* the domain on which the premise [expects ... = Some vs] always holds: every well-formed
   program (64-bit integers in range, OID arcs < 2^28, civil times; [wf_w]) is matched by its
   canonical read program (one reader per writer, [reader_of]) - so for every such program
   the Builder accepts, reading back succeeds, returns the written values [vs] and leaves
   exactly the trailing bytes *)
Theorem C21_canonical_read_back : forall ws bs tail,
  forallb wf_w ws = true -> build ws = Some bs -> blen bs < LIM ->
  exists vs, expects (map reader_of ws) ws tail = Some vs /\
             rds (map reader_of ws) (bs ++ tail) = Some (vs, tail).
Proof. exact canonical_read_back. Qed.
Print Assumptions C21_canonical_read_back.

(* the Builder as written (one shared buffer, reserved length bytes, flushChild's
   back-patching, the content shift for long-form DER lengths, sticky errors) computes
   the specification builder, from any initial buffer *)
Theorem C21_flush_child_refines_spec : forall ws res,
  l_build ws res = option_map (app res) (build ws).
Proof. exact l_build_refines. Qed.
Print Assumptions C21_flush_child_refines_spec.

(* a length prefix holds exactly the length of what the continuation wrote; the
   Builder fails exactly when that length does not fit the prefix *)
Theorem C21_length_prefix_correct : forall k body,
  build_w (WLen k body) =
  match build body with
  | Some c => if blen c <? 256 ^ N.of_nat k then Some (be_n k (blen c) ++ c) else None
  | None => None
  end.
Proof. exact length_prefix_correct. Qed.
Print Assumptions C21_length_prefix_correct.

Theorem C21_asn1_header_correct : forall tag body,
  build_w (WAsn1 tag body) =
  if tag mod 32 =? 31 then None else
  match build body with
  | Some c => match asn1_len_octets (blen c) with Some p => Some (tag :: p ++ c) | None => None end
  | None => None
  end.
Proof. exact asn1_header_correct. Qed.
Print Assumptions C21_asn1_header_correct.

(* second sentence of the property, tag absent: every optional reader (ReadOptionalASN1,
   SkipOptionalASN1, ReadOptionalASN1Integer, ...OctetString, ...Boolean) whose tag is not
   the next byte, or at the end of the input, returns the default and leaves the input
   untouched; PeekASN1Tag never consumes *)
Theorem C21_optional_absent_untouched : forall y s a,
  absent_value y (hd_error s) = Some a -> rd y s = Some (a, s).
Proof. exact absent_untouched. Qed.
Print Assumptions C21_optional_absent_untouched.

(* tag present: exactly the element is consumed *)
Theorem C21_optional_present_consumes_element : forall tag c el tail,
  h_asn1 tag (Some c) = Some el -> blen c < 4294967290 ->
  rd (ROptAsn1 tag) (el ++ tail) = Some (VOpt true (VBytes c), tail) /\
  rd (RSkipOpt tag) (el ++ tail) = Some (VUnit, tail).
Proof. exact optional_present_asn1. Qed.
Print Assumptions C21_optional_present_consumes_element.

Theorem C21_optional_boolean_present : forall b d tail,
  rd (ROptBool d) ([1; 1; if b : bool then 255 else 0] ++ tail) = Some (VOpt true (VBool b), tail).
Proof. exact optional_present_bool. Qed.
Print Assumptions C21_optional_boolean_present.

(* witness of the defect repaired by commit 46d85f5 (ReadOptionalASN1Boolean parsed the
   element after the BOOLEAN): the old reader on 01 01 ff 05 00 and 01 01 ff 01 01 00 *)
Theorem C21_old_optional_boolean_refuted :
  old_read_optional_bool false [1; 1; 255; 5; 0] = None /\
  old_read_optional_bool false [1; 1; 255; 1; 1; 0] = Some (false, []) /\
  rd (ROptBool false) [1; 1; 255; 5; 0] = Some (VOpt true (VBool true), [5; 0]).
Proof. exact old_optional_bool_refuted. Qed.
Print Assumptions C21_old_optional_boolean_refuted.

(* INTEGER contents: the three integer writers produce the same octets for the same
   value (so any integer reader whose range holds the value reads any of them) *)
Theorem C21_integer_content_unique : forall c c' z,
  int_content c z -> int_content c' z -> c = c'.
Proof. exact int_content_unique. Qed.
Print Assumptions C21_integer_content_unique.

(* the hypotheses of the main theorem are met by a program with nested blocks, a
   long-form length, present and absent optional readers and trailing bytes *)
Theorem C21_nonvacuous :
  exists bs vs, build demo_ws = Some bs /\ blen bs < LIM /\ (200 < blen bs) /\
                expects demo_rs demo_ws [9; 9] = Some vs /\ length vs = 7%nat.
Proof. exact demo_nonvacuous. Qed.
Print Assumptions C21_nonvacuous.
