(* C21 — cryptobyte builders and readers are exact inverses.  Property theorems only. *)
From Coq Require Import List NArith ZArith Bool Arith.
From Verif Require Import Harness.
From VerifModel Require Import C21.
From VerifProof Require Import C21Proofs.
Import ListNotations.
Open Scope N_scope.

(* an optional reader whose tag is not the next byte (or at the end of the input)
   returns the default and leaves the input untouched; PeekASN1Tag never consumes *)
Theorem C21_optional_absent_untouched : forall y s a,
  absent_value y (hd_error s) = Some a -> rd y s = Some (a, s).
Proof. exact absent_untouched. Qed.
Print Assumptions C21_optional_absent_untouched.
