(* C07 — Chain verification returns only valid chains and partitions them by date.
   Property theorems only; each is closed by [exact] of a lemma from
   proof/C07Proofs.v and followed by Print Assumptions.
   [sigok child parent] is the cryptographic signature check (any function),
   [ip_of] is net.ParseIP (any function); both are universally quantified.
   The pools are built with AddCert from the option's certificate lists (C08). *)
From Coq Require Import List NArith ZArith Bool Arith.
From Verif Require Import Harness AbsCert.
From VerifModel Require C08 C09.
From VerifModel Require Import C07.
From VerifProof Require C08Proofs C09Proofs.
From VerifProof Require Import C07Proofs.
Import ListNotations.

(* Every chain in current ++ expired ++ never is [good]: it is [c] alone with c among the roots,
   or pre ++ [root] where pre = c followed by intermediates (see C07_valid_chain_reading), and it
   satisfies the requested extended key usages: unless ExtKeyUsageAny was requested, some
   requested usage (default serverAuth) is accepted by every certificate of the chain. *)
Theorem C07_verify_chains_sound : forall sigok ip_of c o ch,
  let r := verify sigok ip_of c o in
  In ch (r_current r ++ r_expired r ++ r_never r) ->
  good sigok (pool_of (o_roots o)) (pool_of (o_inters o)) c ch /\
  (any_requested o = false ->
   exists u, In u (eff_usages o) /\ forallb (eku_accepts u) ch = true).
Proof. exact verify_chains_sound. Qed.
Print Assumptions C07_verify_chains_sound.

(* what [good] says, position by position: starts at c; ends at a certificate whose fingerprint
   is among the roots; every element is validly signed by the next (CheckSignatureFrom: issuer
   name = subject, parent allowed to sign, signature verifies); every interior element is a CA
   certificate taken from the intermediates; every element after the first respects its path
   length (i - 1 intermediates below position i); no subject+key repeats among c and the
   intermediates and the root's fingerprint differs from all of theirs; at most 10 certificates
   below the root *)
Theorem C07_valid_chain_reading : forall sigok roots inters c ch,
  C08Proofs.Inv roots ->
  good sigok roots inters c ch ->
  hd_error ch = Some c /\
  In (c_fp (last ch c)) (map c_fp (C08.certs roots)) /\
  links sigok ch /\
  (forall i x, 1 <= i -> S i < length ch -> nth_error ch i = Some x ->
               (c_bc_valid x = true /\ c_is_ca x = true) /\ In x (C08.certs inters)) /\
  (forall i x, 1 <= i -> nth_error ch i = Some x ->
               c_bc_valid x = true -> (0 <= c_max_path_len x)%Z ->
               (Z.of_nat i - 1 <= c_max_path_len x)%Z) /\
  NoDup (map subj_key (removelast ch)) /\
  ~ In (c_fp (last ch c)) (map c_fp (removelast ch)) /\
  length ch <= 11.
Proof. exact (fun sigok roots inters c ch I G => good_spec sigok roots inters I c ch G). Qed.
Print Assumptions C07_valid_chain_reading.

Theorem C07_link_means : forall sigok child parent,
  check_sig_from sigok child parent = true ->
  c_subject parent = c_issuer child /\ sigok child parent = true /\ c_pk_known parent = true.
Proof. exact C08Proofs.check_sig_from_true. Qed.
Print Assumptions C07_link_means.

(* a pool's members are the supplied certificates *)
Theorem C07_pool_members : forall l x,
  (In x (map c_fp (C08.certs (pool_of l))) <-> In x (map c_fp l)) /\
  (forall y, In y (C08.certs (pool_of l)) -> In y l).
Proof. exact (fun l x => conj (pool_of_fps l x) (pool_of_incl l)). Qed.
Print Assumptions C07_pool_members.

(* no certificate repeats, given that a fingerprint determines subject and key *)
Theorem C07_no_repeats : forall sigok roots inters c ch,
  good sigok roots inters c ch ->
  C08Proofs.Inv roots ->
  (forall x y, In x ch -> In y ch -> c_fp x = c_fp y -> subj_key x = subj_key y) ->
  NoDup (map c_fp ch).
Proof. exact good_nodup_fp. Qed.
Print Assumptions C07_no_repeats.

(* current / expired / never are the three filters of one list of found (non-empty) chains *)
Theorem C07_date_partition : forall sigok ip_of c o,
  let r := verify sigok ip_of c o in
  exists found,
    r_current r = filter (is_current (o_now o)) found /\
    r_expired r = filter (is_expired (o_now o)) found /\
    r_never r = filter (is_never (o_now o)) found /\
    Forall (fun ch => ch <> []) found.
Proof. exact verify_date_partition. Qed.
Print Assumptions C07_date_partition.

(* ... and the filters are: window contains now / does not but is non-empty / is empty;
   exactly one of them holds *)
Theorem C07_date_classes : forall now ch,
  ch <> [] ->
  ((is_current now ch = true <-> (lo_of ch < now < hi_of ch)%Z) /\
   (is_expired now ch = true <-> ~ (lo_of ch < now < hi_of ch)%Z /\ (lo_of ch < hi_of ch)%Z) /\
   (is_never now ch = true <-> (hi_of ch <= lo_of ch)%Z)) /\
  ((is_current now ch = true /\ is_expired now ch = false /\ is_never now ch = false) \/
   (is_current now ch = false /\ is_expired now ch = true /\ is_never now ch = false) \/
   (is_current now ch = false /\ is_expired now ch = false /\ is_never now ch = true)).
Proof. exact (fun now ch H => conj (date_classes now ch H) (partition_exclusive now ch H)). Qed.
Print Assumptions C07_date_classes.

(* the window is the common validity window: latest NotBefore, earliest NotAfter *)
Theorem C07_window : forall ch,
  ch <> [] ->
  Forall (fun c => (c_not_before c <= lo_of ch)%Z /\ (hi_of ch <= c_not_after c)%Z) ch /\
  (exists c, In c ch /\ lo_of ch = c_not_before c) /\
  (exists c, In c ch /\ hi_of ch = c_not_after c).
Proof. exact bounds_spec. Qed.
Print Assumptions C07_window.

(* FilterByDate on any input: the three filters, and its panic branch is dead *)
Theorem C07_filter_by_date : forall chains now,
  filter_by_date chains now =
  (filter (is_current now) chains, filter (is_expired now) chains, filter (is_never now) chains, false).
Proof. exact filter_partition. Qed.
Print Assumptions C07_filter_by_date.

Theorem C07_result_date_classes : forall sigok ip_of c o ch,
  let r := verify sigok ip_of c o in
  (In ch (r_current r) -> (lo_of ch < o_now o < hi_of ch)%Z) /\
  (In ch (r_expired r) -> ~ (lo_of ch < o_now o < hi_of ch)%Z /\ (lo_of ch < hi_of ch)%Z) /\
  (In ch (r_never r) -> (hi_of ch <= lo_of ch)%Z).
Proof. exact verify_date_classes. Qed.
Print Assumptions C07_result_date_classes.

(* a nil error implies a current chain and a matching DNS name when one was requested
   (hostname_ok is the C09 rule) *)
Theorem C07_nil_err_implies : forall sigok ip_of c o,
  let r := verify sigok ip_of c o in
  r_err r = None ->
  r_current r <> [] /\
  (o_dns o <> [] -> C09Proofs.hostname_ok ip_of (hcert_of c) (o_dns o)).
Proof. exact nil_err_implies. Qed.
Print Assumptions C07_nil_err_implies.

(* the chain builder terminates within its fuel (depth <= maxIntermediateCount + 1) and never
   indexes a pool out of range; FilterByDate never panics *)
Theorem C07_no_fault : forall sigok ip_of c o, r_fault (verify sigok ip_of c o) = false.
Proof. exact verify_no_fault. Qed.
Print Assumptions C07_no_fault.

(* checkChainForKeyUsage, exactly *)
Theorem C07_eku_check_spec : forall ch req,
  check_chain_for_key_usage ch req = true <->
  ch <> [] /\ (req = [] \/ exists u, In u req /\ forallb (eku_accepts u) ch = true).
Proof. exact eku_check_spec. Qed.
Print Assumptions C07_eku_check_spec.

(* ValidateWithStupidDetail *)
Theorem C07_validate_sound : forall sigok ip_of c o,
  let '(chs, trusted, matches, err, fault) := validate sigok ip_of c o in
  fault = false /\
  Forall (good sigok (pool_of (o_roots o)) (pool_of (o_inters o)) c) chs /\
  (trusted = true -> chs <> []) /\
  (o_dns o <> [] -> (matches = true <-> C09Proofs.hostname_ok ip_of (hcert_of c) (o_dns o))) /\
  (err = None -> chs <> [] /\ (o_dns o <> [] -> C09Proofs.hostname_ok ip_of (hcert_of c) (o_dns o))).
Proof. exact validate_sound. Qed.
Print Assumptions C07_validate_sound.

(* non-vacuity *)
Theorem C07_example_verify :
  let r := verify ex_sig (fun _ => None) ex_leaf (ex_opts 350) in
  map (map c_fp) (r_current r) = [[3; 2; 1]]%N /\ r_expired r = [] /\ r_err r = None /\
  let r2 := verify ex_sig (fun _ => None) ex_leaf (ex_opts 450) in
  r_current r2 = [] /\ map (map c_fp) (r_expired r2) = [[3; 2; 1]]%N /\ r_err r2 = Some EExpired.
Proof. exact example_verify. Qed.
Print Assumptions C07_example_verify.

(* documented incompleteness of the memo table (not part of the property): see the proof file *)
Theorem C07_memo_example :
  let r := verify memo_sig (fun _ => None) memo_L
                  (mkOptions [memo_R] [memo_C; memo_A; memo_D; memo_A'] 300 [] []) in
  map (map c_fp) (r_current r) = [[6; 3; 2; 1]; [6; 3; 2; 1]]%N /\ r_err r = None.
Proof. exact example_memo. Qed.
Print Assumptions C07_memo_example.
