(* C10 — The PKI graph is determined by its certificate set.
   Property theorems only; each is closed by [exact] of a lemma from
   proof/C10Proofs.v and followed by Print Assumptions.

   [state_after empty_graph ops] is the graph after any sequence [ops] of
   AddCert / AddRoot; [fp_inj (certs ops)] says that two inserted certificates
   with the same SHA-256 fingerprint are the same certificate. *)
From Coq Require Import List NArith ZArith Bool Arith Permutation.
From Verif Require Import Harness AbsCertG.
From VerifModel Require Import C10.
From VerifProof Require Import C10Proofs.
Import ListNotations.

(* no addOrPanic call ever panics, whatever is inserted in whatever order *)
Theorem C10_add_never_panics : forall ops,
  run empty_graph ops = Some (state_after empty_graph ops).
Proof. exact hist_never_panics. Qed.
Print Assumptions C10_add_never_panics.

(* one node per distinct (subject, SPKI) pair of the inserted certificates *)
Theorem C10_one_node_per_subject_key : forall ops,
  let g := state_after empty_graph ops in
  NoDup (g_nodes g) /\
  (forall n, In n (g_nodes g) -> exists c, In c (certs ops) /\ node_of c = n) /\
  (fp_inj (certs ops) -> forall c, In c (certs ops) -> In (node_of c) (g_nodes g)).
Proof. exact hist_nodes. Qed.
Print Assumptions C10_one_node_per_subject_key.

(* one edge per distinct certificate *)
Theorem C10_one_edge_per_certificate : forall ops,
  let g := state_after empty_graph ops in
  NoDup (map e_fp (g_edges g)) /\
  (forall e, In e (g_edges g) -> In (e_cert e) (certs ops)) /\
  (fp_inj (certs ops) -> forall c, In c (certs ops) -> exists e, In e (g_edges g) /\ e_cert e = c).
Proof. exact hist_edges. Qed.
Print Assumptions C10_one_edge_per_certificate.

(* roots = the certificates ever added with AddRoot *)
Theorem C10_roots_are_the_added_roots : forall ops e,
  In e (g_edges (state_after empty_graph ops)) ->
  (e_root e = true <-> exists c, In (AddRoot c) ops /\ c_fp c = e_fp e).
Proof. exact hist_roots. Qed.
Print Assumptions C10_roots_are_the_added_roots.

(* the child of an edge is the node of its certificate's (subject, SPKI) *)
Theorem C10_child_is_subject_node : forall ops e,
  In e (g_edges (state_after empty_graph ops)) ->
  e_child e = node_of (e_cert e) /\ In (e_child e) (g_nodes (state_after empty_graph ops)).
Proof. exact hist_child. Qed.
Print Assumptions C10_child_is_subject_node.

(* the issuer of an edge is the first-created node that carries the issuer name and verifies it *)
Theorem C10_issuer_is_first_verifying_node : forall ops e,
  In e (g_edges (state_after empty_graph ops)) ->
  e_iss e = find (issues (e_cert e)) (g_nodes (state_after empty_graph ops)).
Proof. exact hist_issuer_first. Qed.
Print Assumptions C10_issuer_is_first_verifying_node.

(* an issuer is a node of the graph with the issuer name whose key verifies the certificate *)
Theorem C10_issuer_sound : forall ops e n,
  let g := state_after empty_graph ops in
  In e (g_edges g) -> e_iss e = Some n ->
  In n (g_nodes g) /\ fst n = c_iss (e_cert e) /\ verifies n (e_cert e) = true.
Proof. exact (fun ops => ginv_issuer_sound _ (ginv_history ops)). Qed.
Print Assumptions C10_issuer_sound.

(* an edge has no issuer exactly when no such node exists (correctness of the fix-up) *)
Theorem C10_issuer_none_iff_no_candidate : forall ops e,
  let g := state_after empty_graph ops in
  In e (g_edges g) ->
  (e_iss e = None <->
   ~ exists n, In n (g_nodes g) /\ fst n = c_iss (e_cert e) /\ verifies n (e_cert e) = true).
Proof. exact (fun ops => ginv_issuer_none_iff _ (ginv_history ops)). Qed.
Print Assumptions C10_issuer_none_iff_no_candidate.

(* missingIssuerNode holds exactly the issuer-less edges, under their issuer name *)
Theorem C10_missing_is_the_issuerless_edges : forall ops,
  let g := state_after empty_graph ops in
  NoDup (g_missing g) /\
  forall m, In m (g_missing g) <->
            exists e, In e (g_edges g) /\ e_iss e = None /\ m = (c_iss (e_cert e), e_fp e).
Proof. exact (fun ops => ginv_missing_exact _ (ginv_history ops)). Qed.
Print Assumptions C10_missing_is_the_issuerless_edges.

(* the adjacency maps are the inverse images of issuer / child *)
Theorem C10_adjacency_is_inverse_image : forall ops,
  let g := state_after empty_graph ops in
  NoDup (g_children g) /\ NoDup (g_parents g) /\
  (forall t, In t (g_children g) <->
     exists e p, In e (g_edges g) /\ e_iss e = Some p /\ t = (p, e_child e, e_fp e)) /\
  (forall t, In t (g_parents g) <->
     exists e p, In e (g_edges g) /\ e_iss e = Some p /\ t = (e_child e, p, e_fp e)).
Proof. exact (fun ops => ginv_adjacency _ (ginv_history ops)). Qed.
Print Assumptions C10_adjacency_is_inverse_image.

(* rootEdges of a node = the root edges whose child it is (what the walk uses to end a chain) *)
Theorem C10_root_edges_exact : forall ops,
  let g := state_after empty_graph ops in
  NoDup (g_roots g) /\
  forall n f, In (n, f) (g_roots g) <->
              exists e, In e (g_edges g) /\ e_root e = true /\ e_child e = n /\ e_fp e = f.
Proof. exact (fun ops => rinv_roots_exact _ (rinv_history ops)). Qed.
Print Assumptions C10_root_edges_exact.

(* any two insertion orders of the same insertions give the same nodes, the same
   edges with the same root flags and children, and the same issuer for every
   edge that at most one node of the graph can issue *)
Theorem C10_order_independent : forall ops ops',
  Permutation ops ops' -> fp_inj (certs ops) ->
  let g := state_after empty_graph ops in
  let g' := state_after empty_graph ops' in
  (forall n, In n (g_nodes g) <-> In n (g_nodes g')) /\
  (forall c r, (exists e, In e (g_edges g) /\ e_cert e = c /\ e_root e = r) <->
               (exists e', In e' (g_edges g') /\ e_cert e' = c /\ e_root e' = r)) /\
  (forall e e', In e (g_edges g) -> In e' (g_edges g') -> e_cert e = e_cert e' ->
     e_child e = e_child e' /\
     (unique_issuer (g_nodes g) (e_cert e) -> e_iss e = e_iss e')).
Proof. exact order_independent. Qed.
Print Assumptions C10_order_independent.

(* non-vacuity: a dangling edge is parked, then fixed up when its issuer's node appears,
   and the result equals the graph built in the other order up to edge order *)
Theorem C10_fixup_example :
  let r := mkCert 0 0 0 0 true true (-1) 0 9 [0%N] in
  let i := mkCert 1 1 0 1 true true (-1) 0 9 [0%N] in
  let g1 := state_after empty_graph [AddCert i] in
  let g2 := state_after empty_graph [AddCert i; AddRoot r] in
  g_missing g1 = [(0, 1)]%N /\ map e_iss (g_edges g1) = [None] /\
  g_missing g2 = [] /\ map e_iss (g_edges g2) = [Some (0, 0); Some (0, 0)]%N /\
  g_parents g2 = [((0, 0), (0, 0), 0); ((1, 1), (0, 0), 1)]%N /\
  map e_root (g_edges g2) = [false; true].
Proof. exact fixup_example. Qed.
Print Assumptions C10_fixup_example.

(* the exception in the property is real: with two nodes that verify the same
   certificate, the chosen issuer depends on the insertion order *)
Theorem C10_ambiguous_issuer_depends_on_order :
  let a := mkCert 0 0 0 0 true true (-1) 0 9 [0%N] in
  let b := mkCert 1 0 0 1 true true (-1) 0 9 [1%N] in
  let x := mkCert 2 2 0 2 false false 0 0 9 [0; 1]%N in
  map e_iss (filter (fun e => N.eqb (e_fp e) 2) (g_edges (state_after empty_graph [AddCert a; AddCert b; AddCert x])))
    = [Some (0, 0)]%N /\
  map e_iss (filter (fun e => N.eqb (e_fp e) 2) (g_edges (state_after empty_graph [AddCert b; AddCert a; AddCert x])))
    = [Some (0, 1)]%N.
Proof. exact ambiguous_example. Qed.
Print Assumptions C10_ambiguous_issuer_depends_on_order.
