(* C02 — Operations on any parsed certificate are total and deterministic.
   Property theorems only. *)
From Coq Require Import String Ascii.
From Coq Require Import List NArith ZArith Bool Permutation Sorting.Sorted.
From VerifModel Require Import C01Prim C02.
From VerifProof Require Import C02Proofs.
Import ListNotations.

(* CertificatePoliciesData.MarshalJSON (repaired) over whatever the policies branch of
   parseCertificate stored: never a panic, and every emitted notice carries the notice
   reference of its own user notice *)
Theorem C02_policies_json_total : forall ps,
  policies_json true (policies_parse ps) =
  Ok (map (fun p => (p_id p, p_cps p, notices_repaired (p_notices p))) ps).
Proof. exact policies_json_total. Qed.
Print Assumptions C02_policies_json_total.

(* the code before the repair panicked exactly for 0 < #notice references < #explicit texts *)
Theorem C02_policies_json_unrepaired_panics_iff : forall p,
  policies_json false (policies_parse [p]) = Panic <->
  0 < length (orgs_of (p_notices p)) < length (texts_of (p_notices p)).
Proof. exact policies_json_unrepaired_panics_iff. Qed.
Print Assumptions C02_policies_json_unrepaired_panics_iff.

Theorem C02_policies_json_unrepaired_witness :
  policies_json false (policies_parse
    [{| p_id := 1; p_cps := []; p_notices := [{| n_text := Some 1%N; n_ref := None |};
                                               {| n_text := Some 2%N; n_ref := Some (7%N, [1%N]) |}] |}]) = Panic.
Proof. exact policies_json_unrepaired_witness. Qed.
Print Assumptions C02_policies_json_unrepaired_witness.

(* purgeNameDuplicates: the JSON name list is sorted, duplicate-free, has exactly the given names ... *)
Theorem C02_names_canonical : forall names,
  StronglySorted (fun a b => lex_leb a b = true) (purge names) /\ NoDup (purge names) /\
  forall x, In x (purge names) <-> In x names.
Proof. exact purge_canonical. Qed.
Print Assumptions C02_names_canonical.

(* ... whatever order the Go map yields its keys in ... *)
Theorem C02_names_independent_of_map_order : forall (order : list string -> list string) names,
  (forall l, Permutation (order l) l) -> purge_with order names = purge names.
Proof. exact purge_map_order_irrelevant. Qed.
Print Assumptions C02_names_independent_of_map_order.

(* ... and is a function of the set of names (two serialisations agree) *)
Theorem C02_names_function_of_set : forall names names',
  (forall x, In x names <-> In x names') -> purge names = purge names'.
Proof. exact purge_set_function. Qed.
Print Assumptions C02_names_function_of_set.

(* every key the repaired parsePublicKey returns, in either parsing mode, can be handed to
   CheckSignatureFromKey with any algorithm without entering a primitive outside its precondition *)
Theorem C02_parsed_key_safe_for_verify : forall perm s k a,
  parse_pk true perm s = Ok k -> dispatch a k = Ok tt.
Proof. exact pk_safe_for_verify. Qed.
Print Assumptions C02_parsed_key_safe_for_verify.

Theorem C02_self_signature_check_total : forall perm self_issued a s,
  self_sig_check true perm self_issued a s <> Panic.
Proof. exact self_sig_check_total. Qed.
Print Assumptions C02_self_signature_check_total.

(* before the repair: self-issued certificate, 31-byte Ed25519 key *)
Theorem C02_self_signature_check_unrepaired_panics : forall perm,
  self_sig_check false perm true AEd (SEd 31) = Panic.
Proof. exact self_sig_check_unrepaired_panics. Qed.
Print Assumptions C02_self_signature_check_unrepaired_panics.
