(* C16 — CT structures serialise canonically and verify soundly.
   Property theorems only; each is closed by [exact] of a lemma from
   proof/C16Proofs.v and followed by Print Assumptions.

   Model functions (C16.v) mirror the Go code of ct/serialization.go,
   x509/ct/serialization.go and ct/signatures.go; [rfc_*] (C16Proofs.v) are the
   RFC 6962 layouts written independently.  Go's types bound the fields:
   uint64 timestamps (< two64), [32]byte log ids / key hashes / root hashes. *)
From Coq Require Import List NArith Bool Arith.
From Verif Require Import Harness Wire16.
From VerifModel Require Import C16.
From VerifProof Require Import C16Proofs.
Import ListNotations.
Open Scope N_scope.

(* ---- fails or fits: an over-long field is an error, never a truncation ---- *)
Theorem C16_write_uint_exact : forall v n bs,
  write_uint v n = Some bs <-> v < pow256 n /\ bs = be_encode n v.
Proof. exact write_uint_exact. Qed.
Print Assumptions C16_write_uint_exact.

Theorem C16_write_var_bytes_is_vector : forall v n, write_var_bytes v n = vec_encode n v.
Proof. exact write_var_bytes_vec. Qed.
Print Assumptions C16_write_var_bytes_is_vector.

Theorem C16_var_roundtrip : forall v n bs rest,
  (1 <= n <= 8)%nat -> write_var_bytes v n = Some bs ->
  read_var_bytes (bs ++ rest) n = ROk v rest /\ length bs = (n + length v)%nat.
Proof. exact var_roundtrip. Qed.
Print Assumptions C16_var_roundtrip.

(* canonical: the decoder accepts only what the encoder produces *)
Theorem C16_read_var_canonical : forall bs n v rest,
  (1 <= n <= 8)%nat -> bytes_ok bs -> read_var_bytes bs n = ROk v rest ->
  exists e, vec_encode n v = Some e /\ bs = e ++ rest.
Proof. exact read_var_canonical. Qed.
Print Assumptions C16_read_var_canonical.

(* ---- DigitallySigned (both copies) ---- *)
Theorem C16_ds_roundtrip : forall d here bs rest,
  marshal_ds_here d here = Some bs ->
  unmarshal_ds (bs ++ rest) = Some (d, rest) /\ len bs = 4 + len (ds_sig d).
Proof. exact ds_roundtrip. Qed.
Print Assumptions C16_ds_roundtrip.

Theorem C16_ds_fails_iff_overlong : forall d, marshal_ds d = None <-> 65535 < len (ds_sig d).
Proof. exact marshal_ds_none. Qed.
Print Assumptions C16_ds_fails_iff_overlong.

Theorem C16_ds_canonical : forall bs d rest,
  bytes_ok bs -> unmarshal_ds bs = Some (d, rest) -> exists e, marshal_ds d = Some e /\ bs = e ++ rest.
Proof. exact unmarshal_ds_canonical. Qed.
Print Assumptions C16_ds_canonical.

(* the code before the repair (uint16(len) written without a check) broke the
   round trip: witness with a 65536-byte signature *)
Theorem C16_ds_unrepaired_refuted :
  let d := {| ds_hash := 4; ds_alg := 3; ds_sig := repeat 0 (N.to_nat 65536) |} in
  match marshal_ds_here_old d None with
  | Some bs =>
      len bs = 65540 /\
      match unmarshal_ds bs with
      | Some (d', rest) => len (ds_sig d') = 0 /\ len rest = 65536
      | None => False
      end
  | None => False
  end /\ marshal_ds d = None.
Proof. exact marshal_ds_old_refuted. Qed.
Print Assumptions C16_ds_unrepaired_refuted.

(* ---- SCT ---- *)
Theorem C16_sct_roundtrip : forall s here bs rest,
  serialize_sct_here s here = Some bs ->
  length (sct_logid s) = 32%nat -> sct_ts s < two64 ->
  deserialize_sct (bs ++ rest) = Some (s, rest) /\ Some (len bs) = serialized_length s.
Proof. exact sct_roundtrip. Qed.
Print Assumptions C16_sct_roundtrip.

Theorem C16_sct_fails_iff : forall s,
  serialize_sct s = None <->
  sct_version s <> 0 \/ 65535 < len (sct_ext s) \/ 65535 < len (ds_sig (sct_sig s)).
Proof. exact serialize_sct_none. Qed.
Print Assumptions C16_sct_fails_iff.

Theorem C16_sct_canonical : forall bs s rest,
  bytes_ok bs -> deserialize_sct bs = Some (s, rest) -> exists e, serialize_sct s = Some e /\ bs = e ++ rest.
Proof. exact deserialize_sct_canonical. Qed.
Print Assumptions C16_sct_canonical.

(* ---- MerkleTreeLeaf and certificate chains: the RFC 6962 encoding decodes to the value ---- *)
Theorem C16_leaf_roundtrip : forall l bs rest,
  rfc_leaf l = Some bs -> lf_version l = 0 -> lf_type l = 0 -> canonical_entry (lf_entry l) ->
  read_merkle_tree_leaf (bs ++ rest) = Some (l, rest).
Proof. exact leaf_roundtrip. Qed.
Print Assumptions C16_leaf_roundtrip.

Theorem C16_chain_roundtrip : forall l bs rest,
  rfc_chain l = Some bs -> unmarshal_x509_chain (bs ++ rest) = Some l.
Proof. exact chain_roundtrip. Qed.
Print Assumptions C16_chain_roundtrip.

Theorem C16_precert_chain_roundtrip : forall pre l bs rest,
  rfc_precert_chain pre l = Some bs -> unmarshal_precert_chain (bs ++ rest) = Some (pre :: l).
Proof. exact precert_chain_roundtrip. Qed.
Print Assumptions C16_precert_chain_roundtrip.

(* exactly what readASN1CertList's element loop accepts: whole items followed by
   fewer than k stray bytes (it is lenient there; the round trip is unaffected) *)
Theorem C16_cert_list_loop_shape : forall k, (1 <= k <= 8)%nat -> forall fuel body acc out,
  bytes_ok body -> cert_list_loop fuel body k acc = Some out ->
  exists l enc tail, out = rev acc ++ l /\ rfc_items k l = Some enc /\ body = enc ++ tail /\ (length tail < k)%nat.
Proof. exact cert_list_loop_shape. Qed.
Print Assumptions C16_cert_list_loop_shape.

(* canonical: ReadMerkleTreeLeaf accepts only RFC 6962 encodings (what it returns re-encodes
   to exactly the bytes it consumed) *)
Theorem C16_leaf_canonical : forall bs l rest,
  bytes_ok bs -> read_merkle_tree_leaf bs = Some (l, rest) ->
  exists enc, rfc_leaf l = Some enc /\ bs = enc ++ rest /\
              lf_version l = 0 /\ lf_type l = 0 /\ canonical_entry (lf_entry l).
Proof. exact leaf_canonical. Qed.
Print Assumptions C16_leaf_canonical.

(* the chain reader accepts the RFC 6962 chain encoding and, leniently, a list body that ends
   with 1 or 2 stray bytes (tail = [] is exactly rfc_chain); nothing else *)
Theorem C16_cert_list_shape : forall bs l rest,
  bytes_ok bs -> read_asn1_cert_list bs 3 3 = Some (l, rest) ->
  exists items tail e, rfc_items 3 l = Some items /\ (length tail < 3)%nat /\
                       vec_encode 3 (items ++ tail) = Some e /\ bs = e ++ rest.
Proof. exact cert_list_shape. Qed.
Print Assumptions C16_cert_list_shape.

(* ---- signature inputs follow RFC 6962 byte for byte ---- *)
Theorem C16_sct_input_is_rfc6962 : forall version ts l,
  sct_sig_input version ts l =
  if (version =? 0) && (lf_type l =? 0) then rfc_sct_input ts (lf_entry l) else None.
Proof. exact sct_input_is_rfc6962. Qed.
Print Assumptions C16_sct_input_is_rfc6962.

Theorem C16_sct_input_decodes_as_leaf : forall version ts l bs rest,
  sct_sig_input version ts l = Some bs -> ts < two64 ->
  (te_type (lf_entry l) = 1 -> length (te_ikh (lf_entry l)) = 32%nat) ->
  read_merkle_tree_leaf (bs ++ rest) =
  Some ({| lf_version := 0; lf_type := 0; lf_entry := normal_entry ts (lf_entry l) |}, rest).
Proof. exact sct_input_decodes. Qed.
Print Assumptions C16_sct_input_decodes_as_leaf.

(* a signature over the input covers timestamp, entry type, signed entry and extensions *)
Theorem C16_sct_input_injective : forall v ts l v' ts' l' bs,
  sct_sig_input v ts l = Some bs -> sct_sig_input v' ts' l' = Some bs ->
  ts < two64 -> ts' < two64 ->
  (te_type (lf_entry l) = 1 -> length (te_ikh (lf_entry l)) = 32%nat) ->
  (te_type (lf_entry l') = 1 -> length (te_ikh (lf_entry l')) = 32%nat) ->
  normal_entry ts (lf_entry l) = normal_entry ts' (lf_entry l').
Proof. exact sct_input_injective. Qed.
Print Assumptions C16_sct_input_injective.

Theorem C16_sth_input_is_rfc6962 : forall s bs,
  sth_sig_input s = Some bs <->
  sth_version s = 0 /\ length (sth_root s) = 32%nat /\ bs = rfc_sth_input (sth_ts s) (sth_size s) (sth_root s).
Proof. exact sth_input_is_rfc6962. Qed.
Print Assumptions C16_sth_input_is_rfc6962.

Theorem C16_sth_input_injective : forall s s' bs,
  sth_sig_input s = Some bs -> sth_sig_input s' = Some bs ->
  sth_ts s < two64 -> sth_size s < two64 -> sth_ts s' < two64 -> sth_size s' < two64 ->
  sth_ts s = sth_ts s' /\ sth_size s = sth_size s' /\ sth_root s = sth_root s'.
Proof. exact sth_input_injective. Qed.
Print Assumptions C16_sth_input_injective.

Theorem C16_sct_sth_inputs_disjoint : forall version ts l s bs bs',
  sct_sig_input version ts l = Some bs -> sth_sig_input s = Some bs' -> bs <> bs'.
Proof. exact sct_sth_inputs_disjoint. Qed.
Print Assumptions C16_sct_sth_inputs_disjoint.

(* ---- verifier: accepts exactly a signature by the log key over the RFC 6962 input ----
   [sha256], [rsa_verify] (PKCS#1 v1.5 with SHA-256) and [ecdsa_verify]
   (ecdsa.VerifyASN1) are arbitrary: the statement holds for every primitive *)
Theorem C16_new_verifier_policy : forall k,
  new_verifier k = true <-> (exists bits, k = KRsa bits /\ 2048 <= bits) \/ k = KEcdsa true.
Proof. exact new_verifier_policy. Qed.
Print Assumptions C16_new_verifier_policy.

Theorem C16_verify_exact :
  forall (K : Type) (kind : K -> keykind) (sha256 : bytes -> bytes)
         (rsa_verify ecdsa_verify : K -> bytes -> bytes -> bool) k data d,
  verify_signature kind sha256 rsa_verify ecdsa_verify k data d = true <->
  signs kind sha256 rsa_verify ecdsa_verify k data d.
Proof. exact (@verify_exact). Qed.
Print Assumptions C16_verify_exact.

Theorem C16_verify_sct_exact :
  forall (K : Type) (kind : K -> keykind) (sha256 : bytes -> bytes)
         (rsa_verify ecdsa_verify : K -> bytes -> bytes -> bool) k s l,
  verify_sct_signature kind sha256 rsa_verify ecdsa_verify k s l = true <->
  sct_version s = 0 /\ lf_type l = 0 /\
  exists data, rfc_sct_input (sct_ts s) (lf_entry l) = Some data /\
               signs kind sha256 rsa_verify ecdsa_verify k data (sct_sig s).
Proof. exact (@verify_sct_exact). Qed.
Print Assumptions C16_verify_sct_exact.

Theorem C16_verify_sth_exact :
  forall (K : Type) (kind : K -> keykind) (sha256 : bytes -> bytes)
         (rsa_verify ecdsa_verify : K -> bytes -> bytes -> bool) k s sg,
  verify_sth_signature kind sha256 rsa_verify ecdsa_verify k s sg = true <->
  sth_version s = 0 /\ length (sth_root s) = 32%nat /\
  signs kind sha256 rsa_verify ecdsa_verify k (rfc_sth_input (sth_ts s) (sth_size s) (sth_root s)) sg.
Proof. exact (@verify_sth_exact). Qed.
Print Assumptions C16_verify_sth_exact.

(* ---- non-vacuity: the premises of the round-trip theorems are met ---- *)
Theorem C16_nonvacuous :
  let d := {| ds_hash := 4; ds_alg := 3; ds_sig := [48; 0] |} in
  let s := {| sct_version := 0; sct_logid := repeat 7 32; sct_ts := 1234567890123; sct_ext := [1; 2]; sct_sig := d |} in
  let e := {| te_ts := 5; te_type := 1; te_x509 := []; te_ikh := repeat 9 32; te_tbs := [48; 3; 1; 2; 3]; te_ext := [] |} in
  let l := {| lf_version := 0; lf_type := 0; lf_entry := e |} in
  (exists bs, serialize_sct s = Some bs /\ deserialize_sct bs = Some (s, []) /\ len bs = 51) /\
  (exists bs, rfc_leaf l = Some bs /\ canonical_entry e /\ read_merkle_tree_leaf bs = Some (l, [])) /\
  (exists bs, sct_sig_input 0 5 l = Some bs /\ rfc_leaf l = Some bs) /\
  (exists bs, rfc_chain [[1]; []; [2; 3]] = Some bs /\ unmarshal_x509_chain bs = Some [[1]; []; [2; 3]]).
Proof. exact nonvacuous. Qed.
Print Assumptions C16_nonvacuous.
