(* C33 — JSON encodings of zcrypto value types round-trip.
   Property theorems only; each is closed by [exact] of a lemma from
   proof/C33JsonProofs.v, proof/C33Proofs.v or proof/C33ProofsX.v.

   Reading guide: [X_to_json]/[enc c] is the model of MarshalJSON (glue +
   encoding/json's view of the auxiliary struct), [X_of_json]/[dec c] the model of
   UnmarshalJSON; results are [Ok v | Err | Panic].  Go ints are Z, byte strings
   are Coq strings, a *big.Int is its magnitude bytes ([None] = nil). *)
From Coq Require Import List NArith ZArith Bool String Ascii.
From VerifModel Require Import C33Json C33.
From VerifGen Require Import C33Tables_gen.
From VerifProof Require Import C33JsonProofs C33Proofs C33ProofsX.
Import ListNotations.
Local Open Scope string_scope.

(* ---------------- text leaf codecs ---------------- *)
Theorem C33_base64_roundtrip : forall s, b64dec (b64enc s) = Some s.
Proof. exact b64_roundtrip. Qed.
Print Assumptions C33_base64_roundtrip.

Theorem C33_hex_roundtrip : forall up s, hex_dec (hex_enc up s) = Some s.
Proof. exact hex_roundtrip. Qed.
Print Assumptions C33_hex_roundtrip.

(* dot notation of an OID with at least one arc, arcs within the parser's integer width *)
Theorem C33_oid_dot_notation_roundtrip : forall bits o,
  o <> [] -> Forall (fun z => (- 2 ^ (Z.of_N bits - 1) <= z < 2 ^ (Z.of_N bits - 1))%Z) o ->
  parse_oid bits (oid_str o) = Some o.
Proof. exact oid_roundtrip. Qed.
Print Assumptions C33_oid_dot_notation_roundtrip.

(* encoding/json on an auxiliary struct whose members round-trip and whose keys are distinct *)
Theorem C33_struct_members_roundtrip : forall T U (fs : fields T U) valid norm,
  fields_rt fs valid norm -> forall v, valid v -> dec_fields fs (enc_fields fs v) = Ok (norm v).
Proof. exact @fields_roundtrip. Qed.
Print Assumptions C33_struct_members_roundtrip.

(* ---------------- enumerated types: every code point ---------------- *)
Theorem C33_tls_version_roundtrip : forall v, (0 <= v < 2 ^ 16)%Z -> version_of_json (version_to_json v) = Ok v.
Proof. exact version_roundtrip. Qed.
Print Assumptions C33_tls_version_roundtrip.

Theorem C33_cipher_suite_roundtrip : forall v, (0 <= v < 2 ^ 16)%Z -> cipher_of_json (cipher_to_json v) = Ok v.
Proof. exact cipher_roundtrip. Qed.
Print Assumptions C33_cipher_suite_roundtrip.

Theorem C33_compression_method_roundtrip : forall v, (0 <= v < 2 ^ 8)%Z -> compression_of_json (compression_to_json v) = Ok v.
Proof. exact compression_roundtrip. Qed.
Print Assumptions C33_compression_method_roundtrip.

Theorem C33_curve_id_roundtrip : forall v, (0 <= v < 2 ^ 16)%Z -> curve_of_json (curve_to_json v) = Ok v.
Proof. exact curve_roundtrip. Qed.
Print Assumptions C33_curve_id_roundtrip.

Theorem C33_point_format_roundtrip : forall v, (0 <= v < 2 ^ 8)%Z -> point_format_of_json (point_format_to_json v) = Ok v.
Proof. exact point_format_roundtrip. Qed.
Print Assumptions C33_point_format_roundtrip.

(* decoded BY NAME, with the "unknown.N" fall-back: finite check against the regenerated
   signatureNames / hashNames tables (fails to build when two codes share a name) *)
Theorem C33_signature_and_hash_roundtrip : forall s h, (0 <= s < 2 ^ 8)%Z -> (0 <= h < 2 ^ 8)%Z ->
  sighash_of_json (sighash_to_json s h) = Ok (s, h).
Proof. exact sighash_roundtrip. Qed.
Print Assumptions C33_signature_and_hash_roundtrip.

(* every Go int, named or "ClientAuthType(N)" *)
Theorem C33_client_auth_type_roundtrip : forall v, (- 2 ^ 63 <= v < 2 ^ 63)%Z ->
  client_auth_of_json (client_auth_to_json v) = Ok v.
Proof. exact client_auth_roundtrip. Qed.
Print Assumptions C33_client_auth_type_roundtrip.

Theorem C33_key_usage_roundtrip : forall v, (0 <= v < 2 ^ 32)%Z -> key_usage_of_json (key_usage_to_json v) = Ok v.
Proof. exact key_usage_roundtrip. Qed.
Print Assumptions C33_key_usage_roundtrip.

(* declared public-key algorithms (0 .. total_key_algorithms-1), decoded by name *)
Theorem C33_public_key_algorithm_roundtrip : forall v, (0 <= v < pubkey_alg_count)%Z ->
  pubkey_alg_of_json (pubkey_alg_to_json v) = Ok v.
Proof. exact pubkey_alg_roundtrip. Qed.
Print Assumptions C33_public_key_algorithm_roundtrip.

(* named signature algorithms, decoded by OID (RSA-PSS by name).  The unknown
   algorithm 0 is an error on purpose: x509/json_test.go requires it. *)
Theorem C33_signature_algorithm_roundtrip : forall v, (1 <= v < sig_alg_count)%Z ->
  sig_alg_of_json (sig_alg_to_json v) = Ok v.
Proof. exact sig_alg_roundtrip. Qed.
Print Assumptions C33_signature_algorithm_roundtrip.

Theorem C33_signature_algorithm_unknown_is_an_error : sig_alg_of_json (sig_alg_to_json 0) = Err.
Proof. exact sig_alg_unknown_is_an_error. Qed.
Print Assumptions C33_signature_algorithm_unknown_is_an_error.

Theorem C33_tls_curve_id_roundtrip : forall v, (0 <= v < 2 ^ 16)%Z -> dec c_ecid (enc c_ecid v) = Ok v.
Proof. exact ecid_roundtrip. Qed.
Print Assumptions C33_tls_curve_id_roundtrip.

(* ---------------- key parameters ---------------- *)
(* okmag b: b is a magnitude as big.Int.Bytes() returns it (no leading zero byte), 8*|b| fits an int *)
Theorem C33_crypto_parameter_roundtrip : forall p, ookmag p -> dec c_cparam (enc c_cparam p) = Ok (or_empty p).
Proof. exact (fun p H => codec_rt_dec c_cparam _ _ p cparam_rt H). Qed.
Print Assumptions C33_crypto_parameter_roundtrip.

(* a point without Y (X25519) comes back without Y; a nil X is written as an empty value and comes back as 0 *)
Theorem C33_ecpoint_roundtrip : forall p, ecpoint_ok p ->
  dec c_ecpoint (enc c_ecpoint p) = Ok (Some (or_empty (fst p)), snd p).
Proof. exact (fun p H => codec_rt_dec c_ecpoint _ _ p ecpoint_rt H). Qed.
Print Assumptions C33_ecpoint_roundtrip.

(* the defect that was repaired: the unrepaired UnmarshalJSON dereferences the absent Y *)
Theorem C33_ecpoint_unrepaired_panics : ecpoint_dec_unrepaired (ecpoint_enc (Some (bs [5%N]), None)) = Panic.
Proof. exact ecpoint_unrepaired_panics. Qed.
Print Assumptions C33_ecpoint_unrepaired_panics.

Theorem C33_dh_params_roundtrip : forall p, dh_ok p -> dec c_dh (enc c_dh p) = Ok (dh_norm p).
Proof. exact (fun p H => codec_rt_dec c_dh _ _ p dh_rt H). Qed.
Print Assumptions C33_dh_params_roundtrip.

Theorem C33_ecdh_params_roundtrip : forall p, ecdh_ok p -> dec c_ecdh (enc c_ecdh p) = Ok (ecdh_norm p).
Proof. exact (fun p H => codec_rt_dec c_ecdh _ _ p ecdh_rt H). Qed.
Print Assumptions C33_ecdh_params_roundtrip.

Theorem C33_rsa_public_key_roundtrip : forall p, rsapub_ok p -> dec c_rsapub (enc c_rsapub p) = Ok (rsapub_norm p).
Proof. exact (fun p H => codec_rt_dec c_rsapub _ _ p rsapub_rt H). Qed.
Print Assumptions C33_rsa_public_key_roundtrip.

Theorem C33_rsa_client_params_roundtrip : forall p : rsaclient_t, (0 <= fst p <= 65535)%Z ->
  dec c_rsaclient (enc c_rsaclient p) = Ok p.
Proof. exact (fun p H => codec_rt_dec c_rsaclient _ _ p rsaclient_rt H). Qed.
Print Assumptions C33_rsa_client_params_roundtrip.

(* ---------------- pkix ---------------- *)
Theorem C33_aux_oid_roundtrip : forall o, o <> [] /\ arcs64 o /\ nonneg o -> dec c_auxoid (enc c_auxoid o) = Ok o.
Proof. exact (fun o H => codec_rt_dec c_auxoid _ _ o auxoid_rt H). Qed.
Print Assumptions C33_aux_oid_roundtrip.

Theorem C33_attribute_type_and_value_roundtrip : forall a : oid_t * option string, arcs64 (fst a) ->
  dec c_atv (enc c_atv a) = Ok (fst a, or_empty (snd a)).
Proof. exact (fun a H => codec_rt_dec c_atv _ _ a atv_rt H). Qed.
Print Assumptions C33_attribute_type_and_value_roundtrip.

Theorem C33_other_name_roundtrip : forall a : oid_t * string, fst a <> [] /\ arcs64 (fst a) ->
  dec c_othername (enc c_othername a) = Ok a.
Proof. exact (fun a H => codec_rt_dec c_othername _ _ a othername_rt H). Qed.
Print Assumptions C33_other_name_roundtrip.

Theorem C33_edi_party_name_roundtrip : forall e : edi_t, dec c_edi (enc c_edi e) = Ok e.
Proof. exact (fun e => codec_rt_dec c_edi _ _ e edi_rt I). Qed.
Print Assumptions C33_edi_party_name_roundtrip.

Theorem C33_extension_roundtrip : forall e : ext_t, fst e <> [] /\ arcs64 (fst e) -> dec c_ext (enc c_ext e) = Ok e.
Proof. exact (fun e H => codec_rt_dec c_ext _ _ e ext_rt H). Qed.
Print Assumptions C33_extension_roundtrip.

(* a distinguished name (any attribute sequence): decoding never fails and every typed list is
   the list of the values of that attribute type, in RDN order; CommonName / SerialNumber the first *)
Theorem C33_name_roundtrip : forall attrs, dec c_name (enc c_name attrs) = Ok (name_norm attrs).
Proof. exact (fun a => codec_rt_dec c_name _ _ a name_rt I). Qed.
Print Assumptions C33_name_roundtrip.

Theorem C33_name_members : forall attrs,
  let n := name_norm attrs in
  n_country n = bucket o_country attrs /\ n_org n = bucket o_org attrs /\ n_ou n = bucket o_ou attrs
  /\ n_locality n = bucket o_locality attrs /\ n_province n = bucket o_province attrs
  /\ n_street n = bucket o_street attrs /\ n_postal n = bucket o_postal attrs /\ n_dc n = bucket o_dc attrs
  /\ n_email n = bucket o_email attrs /\ n_given n = bucket o_given attrs /\ n_surname n = bucket o_surname attrs
  /\ n_orgids n = bucket o_orgid attrs /\ n_jc n = bucket o_jc attrs /\ n_jl n = bucket o_jl attrs
  /\ n_jp n = bucket o_jp attrs
  /\ n_cn n = hd_s (bucket o_cn attrs) /\ n_serial n = hd_s (bucket o_serial attrs).
Proof. exact name_members. Qed.
Print Assumptions C33_name_members.

(* ---------------- x509 ---------------- *)
Theorem C33_general_names_roundtrip : forall g, gn_ok g -> dec c_gn (enc c_gn g) = Ok (gn_norm g).
Proof. exact (fun g H => codec_rt_dec c_gn _ _ g gn_rt H). Qed.
Print Assumptions C33_general_names_roundtrip.

Theorem C33_subtree_ip_roundtrip : forall g, subip_ok g -> dec c_subip (enc c_subip g) = Ok g.
Proof. exact (fun g H => codec_rt_dec c_subip _ _ g subip_rt H). Qed.
Print Assumptions C33_subtree_ip_roundtrip.

Theorem C33_name_constraints_roundtrip : forall c, nc_ok c -> dec c_nc (enc c_nc c) = Ok (nc_norm c).
Proof. exact (fun c H => codec_rt_dec c_nc _ _ c nc_rt H). Qed.
Print Assumptions C33_name_constraints_roundtrip.

Theorem C33_fingerprint_roundtrip : forall f, dec c_fingerprint (enc c_fingerprint f) = Ok f.
Proof. exact (fun f => codec_rt_dec c_fingerprint _ _ f fingerprint_rt I). Qed.
Print Assumptions C33_fingerprint_roundtrip.

(* ---------------- CT ---------------- *)
Theorem C33_digitally_signed_roundtrip : forall d, ds_ok d ->
  exists j, ds_marshal d = Ok j /\ ds_unmarshal j = Ok d.
Proof. exact ds_rt. Qed.
Print Assumptions C33_digitally_signed_roundtrip.

Theorem C33_digitally_signed_too_long_is_an_error : forall d, (65535 < slen (snd (snd d)))%N -> ds_marshal d = Err.
Proof. exact ds_too_long. Qed.
Print Assumptions C33_digitally_signed_too_long_is_an_error.

Theorem C33_sha256_hash_roundtrip : forall h, String.length h = 32%nat -> sha256_unmarshal (sha256_marshal h) = Ok h.
Proof. exact sha256_rt. Qed.
Print Assumptions C33_sha256_hash_roundtrip.

(* ---------------- totality ---------------- *)
(* no UnmarshalJSON of the (repaired) model panics, whatever tree it is given *)
Theorem C33_unmarshal_never_panics : forall t j, of_json t j <> Panic.
Proof. exact of_json_total. Qed.
Print Assumptions C33_unmarshal_never_panics.
