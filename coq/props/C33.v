(* C33 — JSON encodings of zcrypto value types round-trip.  Property theorems only. *)
From Coq Require Import List NArith ZArith Bool String.
From VerifModel Require Import C33Json C33.
From VerifProof Require Import C33JsonProofs C33Proofs.
Import ListNotations.

Theorem C33_cipher_suite_roundtrip : forall v, (0 <= v < 2 ^ 16)%Z -> cipher_of_json (cipher_to_json v) = Ok v.
Proof. exact cipher_roundtrip. Qed.
Print Assumptions C33_cipher_suite_roundtrip.

Theorem C33_fingerprint_roundtrip : forall f, dec c_fingerprint (enc c_fingerprint f) = Ok f.
Proof. exact fingerprint_roundtrip. Qed.
Print Assumptions C33_fingerprint_roundtrip.
