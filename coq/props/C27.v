(* C27 — TLS peers authenticate each other as configured.
   Property theorems only; each is closed by [exact] of a lemma from proof/C27Proofs.v and
   followed by Print Assumptions. *)
From Coq Require Import List NArith Bool Arith.
From Verif Require Import Harness.
From VerifModel Require Import C27.
From VerifProof Require Import C27Proofs.
Import ListNotations.
Open Scope N_scope.

(* with verification enabled (InsecureSkipVerify = false) a client completes only if the server's
   chain verifies to the configured roots, for the configured name, at the configured time, and
   the server proved possession of the leaf key *)
Theorem C27_client_complete_implies : forall k f mode c,
  client_completes (handshake false k f mode c) = true ->
  s_chain_ok f = true /\ s_time_ok f = true /\ s_name_ok f = true /\ s_key_matches f = true /\
  (k <> KxRSA -> s_sig_intact f = true).
Proof. exact client_complete_implies. Qed.
Print Assumptions C27_client_complete_implies.

Theorem C27_server_complete_needs_client_acceptance : forall skip k f mode c,
  server_completes (handshake skip k f mode c) = true -> client_judges skip k f = Done.
Proof. exact server_complete_needs_client_acceptance. Qed.
Print Assumptions C27_server_complete_needs_client_acceptance.

(* per client-auth mode: Require* => a certificate was presented and possession proved;
   any presented certificate => possession proved; *VerifyClientCert* => its chain verifies *)
Theorem C27_server_complete_implies : forall skip k f mode c,
  server_completes (handshake skip k f mode c) = true ->
  (requires_client_cert mode = true ->
     c_presents c = true /\ c_key_matches c = true /\ c_sig_intact c = true) /\
  (requests_client_cert mode = true -> c_presents c = true ->
     c_key_matches c = true /\ c_sig_intact c = true) /\
  (verifies_client_cert mode = true -> c_presents c = true -> c_chain_ok c = true).
Proof. exact server_complete_implies. Qed.
Print Assumptions C27_server_complete_implies.

(* and nothing else is needed: authentic peers complete *)
Theorem C27_handshake_completes_when_authentic : forall skip k f mode c,
  s_chain_ok f = true -> s_time_ok f = true -> s_name_ok f = true ->
  s_key_matches f = true -> s_sig_intact f = true ->
  (requests_client_cert mode = true ->
     (c_presents c = false -> requires_client_cert mode = false) /\
     (c_presents c = true -> c_key_matches c = true /\ c_sig_intact c = true /\
                            (verifies_client_cert mode = true -> c_chain_ok c = true))) ->
  handshake skip k f mode c = Done.
Proof. exact handshake_completes_when_authentic. Qed.
Print Assumptions C27_handshake_completes_when_authentic.

(* what the signatures cover *)
Theorem C27_signed_params_layout : forall cr sr params,
  length cr = 32%nat -> length sr = 32%nat ->
  firstn 32 (signed_params cr sr params) = cr /\
  firstn 32 (skipn 32 (signed_params cr sr params)) = sr /\
  skipn 64 (signed_params cr sr params) = params.
Proof. exact signed_params_layout. Qed.
Print Assumptions C27_signed_params_layout.

Theorem C27_signed_tls13_layout : forall ctx th,
  firstn 64 (signed_tls13 ctx th) = repeat 32 64 /\
  skipn 64 (signed_tls13 ctx th) = ctx ++ [0] ++ th /\
  Forall (fun b => b = 32) (repeat 32 64).
Proof. exact signed_tls13_layout. Qed.
Print Assumptions C27_signed_tls13_layout.

Theorem C27_nonvacuous :
  handshake false KxECDHE good_server 4 good_client = Done /\
  handshake false Kx13 (mkServerFacts true false true true true) 0 good_client = Abort AlertBadCertificate true false /\
  handshake false Kx13 good_server 4 (mkClientFacts true true false true) = Abort AlertDecryptError false true /\
  handshake true KxDHE (mkServerFacts false false false false true) 0 good_client = Done.
Proof. exact examples. Qed.
Print Assumptions C27_nonvacuous.
