(* C12 — Verifier results are a consistent view of the walked chains.
   Property theorems only; each is closed by [exact] of a lemma from
   proof/C12Proofs.v and followed by Print Assumptions.

   [verify g c t name onecrl crlset = Some r]: the VerificationResult for
   certificate [c] at time [t] over any graph [g] reachable by AddCert/AddRoot.
   [name] = None for an empty Name, Some ok with ok = (VerifyHostname = nil);
   [onecrl] = None for no OneCRL, Some b with b = (OneCRL lists c);
   [crlset] = None for no CRLSet, Some ks with ks = the issuer SPKIs under which
   the CRLSet lists c. *)
From Coq Require Import List NArith ZArith Bool Arith Permutation.
From Verif Require Import Harness AbsCertG.
From VerifModel Require Import C10 C11 C12.
From VerifProof Require Import C10Proofs C11Proofs C12Proofs C12Revocation.
From VerifModel Require C15.
Import ListNotations.
Local Open Scope Z_scope.

(* Verify always produces a result: the panic in FilterByDate (valid && !wasValid) is unreachable *)
Theorem C12_verify_total : forall g c t name onecrl crlset,
  exists r, verify g c t name onecrl crlset = Some r.
Proof. exact verify_total. Qed.
Print Assumptions C12_verify_total.

(* current, expired and never-valid chains partition the chains the walk finds *)
Theorem C12_result_partitions_walk : forall ops c t name onecrl crlset r,
  let g := state_after empty_graph ops in
  verify g c t name onecrl crlset = Some r ->
  Permutation (r_current r ++ r_expiredc r ++ r_never r) (walk g c).
Proof. exact (fun ops => result_partitions_walk _ (ginv_history ops) (rinv_history ops)). Qed.
Print Assumptions C12_result_partitions_walk.

(* current = every certificate of the chain is valid at t *)
Theorem C12_current_iff : forall ops c t name onecrl crlset r,
  let g := state_after empty_graph ops in
  verify g c t name onecrl crlset = Some r -> forall ch,
  (In ch (r_current r) <-> In ch (walk g c) /\ forall x, In x ch -> c_nb x < t < c_na x).
Proof. exact (fun ops => current_iff _ (ginv_history ops) (rinv_history ops)). Qed.
Print Assumptions C12_current_iff.

(* expired = not current, but the validity periods of its certificates have a common instant *)
Theorem C12_expired_iff : forall ops c t name onecrl crlset r,
  let g := state_after empty_graph ops in
  verify g c t name onecrl crlset = Some r -> forall ch,
  (In ch (r_expiredc r) <->
   In ch (walk g c) /\ ~ (forall x, In x ch -> c_nb x < t < c_na x) /\
   (forall a b, In a ch -> In b ch -> c_nb a < c_na b)).
Proof. exact (fun ops => expired_iff _ (ginv_history ops) (rinv_history ops)). Qed.
Print Assumptions C12_expired_iff.

(* never valid = some NotAfter is not after some NotBefore *)
Theorem C12_never_iff : forall ops c t name onecrl crlset r,
  let g := state_after empty_graph ops in
  verify g c t name onecrl crlset = Some r -> forall ch,
  (In ch (r_never r) <-> In ch (walk g c) /\ ~ (forall a b, In a ch -> In b ch -> c_nb a < c_na b)).
Proof. exact (fun ops => never_iff _ (ginv_history ops) (rinv_history ops)). Qed.
Print Assumptions C12_never_iff.

(* valid-at-expiration chains = the walked chains valid one second before the certificate's NotAfter *)
Theorem C12_valid_at_expiry_iff : forall ops c t name onecrl crlset r,
  let g := state_after empty_graph ops in
  verify g c t name onecrl crlset = Some r -> forall ch,
  (In ch (r_vae r) <-> In ch (walk g c) /\ forall x, In x ch -> c_nb x < c_na c - 1 < c_na x).
Proof. exact (fun ops => valid_at_expiry_iff _ (ginv_history ops) (rinv_history ops)). Qed.
Print Assumptions C12_valid_at_expiry_iff.

(* ... which are the current chains of a verification at NotAfter - 1 s *)
Theorem C12_valid_at_expiry_is_current_at_expiry : forall ops c t name onecrl crlset r,
  let g := state_after empty_graph ops in
  verify g c t name onecrl crlset = Some r -> forall r',
  verify g c (c_na c - 1) name onecrl crlset = Some r' ->
  Permutation (r_vae r) (r_current r').
Proof. exact (fun ops => valid_at_expiry_is_current_at_expiry _ (ginv_history ops) (rinv_history ops)). Qed.
Print Assumptions C12_valid_at_expiry_is_current_at_expiry.

Theorem C12_expired_flag : forall g c t name onecrl crlset r,
  verify g c t name onecrl crlset = Some r ->
  (r_expired r = true <-> ~ (c_nb c < t < c_na c)).
Proof. exact expired_flag. Qed.
Print Assumptions C12_expired_flag.

(* parents = the distinct (by fingerprint) second certificates of the relevant chains:
   the current chains, or the valid-at-expiration chains when the certificate is expired *)
Theorem C12_parents_are_second_certs : forall g c t name onecrl crlset r,
  verify g c t name onecrl crlset = Some r ->
  let rel := if r_expired r then r_vae r else r_current r in
  NoDup (map c_fp (r_parents r)) /\
  (forall p, In p (r_parents r) -> exists ch, In ch rel /\ second ch = Some p) /\
  (forall ch p, In ch rel -> second ch = Some p -> exists q, In q (r_parents r) /\ c_fp q = c_fp p).
Proof. exact parents_are_second_certs. Qed.
Print Assumptions C12_parents_are_second_certs.

(* all parents are certificates for one (subject, key): the issuer node of the start edge
   ("All parents should have the same (SPKI, Subject) fingerprint. If not, there's a bug.") *)
Theorem C12_parents_share_subject_and_key : forall ops c t name onecrl crlset r,
  let g := state_after empty_graph ops in
  verify g c t name onecrl crlset = Some r -> forall p,
  In p (r_parents r) -> e_iss (start_edge g c) = Some (node_of p).
Proof. exact (fun ops => parents_same_node _ (ginv_history ops) (rinv_history ops)). Qed.
Print Assumptions C12_parents_share_subject_and_key.

(* root if in the root store; else intermediate if CA with a parent; else leaf if it has a parent; else unknown *)
Theorem C12_type_rule : forall g c t name onecrl crlset r,
  verify g c t name onecrl crlset = Some r ->
  r_type r = (if is_root g c then 3
              else if c_ca c && negb (Nat.eqb (length (r_parents r)) 0) then 2
              else if negb (Nat.eqb (length (r_parents r)) 0) then 1 else 0)%N.
Proof. exact type_rule. Qed.
Print Assumptions C12_type_rule.

(* a name error exactly when a name was given and the hostname check failed *)
Theorem C12_name_error_rule : forall g c t name onecrl crlset r,
  verify g c t name onecrl crlset = Some r ->
  (r_name_error r = true <-> name = Some false).
Proof. exact name_error_rule. Qed.
Print Assumptions C12_name_error_rule.

(* in-revocation-set exactly when OneCRL lists the certificate or the CRLSet lists it under the SPKI of a parent *)
Theorem C12_in_revocation_set_iff : forall g c t name onecrl crlset r,
  verify g c t name onecrl crlset = Some r ->
  (r_inrev r = true <->
   onecrl = Some true \/ exists ks p, crlset = Some ks /\ In p (r_parents r) /\ In (c_key p) ks).
Proof. exact in_revocation_set_iff. Qed.
Print Assumptions C12_in_revocation_set_iff.

(* the same flag stated over the OneCRL records themselves (composition with the C15 model of mozilla.OneCRL:
   [C15.parse_onecrl rs] = the set built from the records, [onecrl_lists] = OneCRL.Check(c) != nil): with no CRLSet the
   flag is set exactly when some subject+key record names c's (raw subject, SPKI hash) — wherever it stands among records
   of the same subject — or some issuer/serial record names c's (issuer, serial) *)
Theorem C12_in_revocation_set_onecrl_records : forall g c t name rs oc subj kh issuer serial r,
  C15.parse_onecrl rs = Some oc ->
  verify g c t name (Some (onecrl_lists oc subj kh issuer serial)) None = Some r ->
  (r_inrev r = true <->
   exists es, C15.decode_records rs = Some es /\
     (In (C15.OBlocked subj kh) es \/ exists e, Z.of_N e = serial /\ In (C15.OListed issuer e) es)).
Proof. exact in_revocation_set_onecrl_records. Qed.
Print Assumptions C12_in_revocation_set_onecrl_records.

(* consistency: an expired certificate has no current chain *)
Theorem C12_expired_no_current : forall ops c t name onecrl crlset r,
  let g := state_after empty_graph ops in
  verify g c t name onecrl crlset = Some r ->
  e_cert (start_edge g c) = c -> r_expired r = true -> r_current r = [].
Proof. exact (fun ops => expired_no_current _ (ginv_history ops) (rinv_history ops)). Qed.
Print Assumptions C12_expired_no_current.
