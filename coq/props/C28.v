(* C28 — The client handshake log records what was actually exchanged.
   Property theorems only; each is closed by [exact] of a lemma from proof/C28Proofs.v and
   followed by Print Assumptions.  enc_* are the RFC encoders, dec_* the model's decoders,
   *_log_of the projection onto the log fields (model/C28.v); the name and signatureAlgorithms
   tables are those regenerated from the built code. *)
From Coq Require Import List NArith Bool Arith.
From Verif Require Import Harness.
From VerifGen Require Import C28Tables_gen.
From VerifModel Require Import C28.
From VerifProof Require Import C28Proofs.
Import ListNotations.
Open Scope N_scope.

(* ---- the independent parse is faithful to the wire formats (left inverse of the encoders) ---- *)
Theorem C28_client_hello_roundtrip : forall h,
  hello_ok h -> dec_client_hello (enc_client_hello h) = Some h.
Proof. exact dec_client_hello_enc. Qed.
Print Assumptions C28_client_hello_roundtrip.

Theorem C28_server_hello_roundtrip : forall h,
  server_hello_ok h -> dec_server_hello (enc_server_hello h) = Some h.
Proof. exact dec_server_hello_enc. Qed.
Print Assumptions C28_server_hello_roundtrip.

Theorem C28_certificate_roundtrip : forall l,
  Forall (fun c => blen c < 16777216) l -> blen (flat_map enc_vec24 l) < 16777216 ->
  dec_certificate (enc_certificate l) = Some l.
Proof. exact dec_certificate_enc. Qed.
Print Assumptions C28_certificate_roundtrip.

Theorem C28_skx_ecdhe_roundtrip : forall k,
  skx_p k = [] -> skx_g k = [] -> dec_skx_ecdhe (has_scheme k) (enc_skx_ecdhe k) = Some k.
Proof. exact dec_skx_ecdhe_enc. Qed.
Print Assumptions C28_skx_ecdhe_roundtrip.

Theorem C28_skx_dhe_roundtrip : forall k,
  skx_curve k = 0 -> dec_skx_dhe (has_scheme k) (enc_skx_dhe k) = Some k.
Proof. exact dec_skx_dhe_enc. Qed.
Print Assumptions C28_skx_dhe_roundtrip.

Theorem C28_new_session_ticket_roundtrip : forall lt t,
  lt < 4294967296 -> dec_new_session_ticket (enc_new_session_ticket lt t) = Some (lt, t).
Proof. exact dec_new_session_ticket_enc. Qed.
Print Assumptions C28_new_session_ticket_roundtrip.

Theorem C28_handshake_framing : forall msgs,
  Forall msg_ok msgs -> dec_msgs (flat_map enc_msg msgs) = Some msgs.
Proof. exact dec_msgs_enc. Qed.
Print Assumptions C28_handshake_framing.

(* ---- log_fields_are_wire_fields ---- *)
(* the ClientHello / ServerHello parts of the log are functions of the message that was sent *)
Theorem C28_client_hello_log_is_wire : forall h,
  hello_ok h -> bind (dec_client_hello (enc_client_hello h)) ch_log_of = ch_log_of h.
Proof. exact ch_log_of_wire. Qed.
Print Assumptions C28_client_hello_log_is_wire.

Theorem C28_server_hello_log_is_wire : forall h a,
  server_hello_ok h -> bind (dec_server_hello (enc_server_hello h)) (fun x => sh_log_of x a) = sh_log_of h a.
Proof. exact sh_log_of_wire. Qed.
Print Assumptions C28_server_hello_log_is_wire.

(* field by field: fixed fields are the wire fields, flags say whether the extension is present,
   list fields are the decoded body of the extension of that type *)
Theorem C28_client_hello_log_fields : forall h l,
  ch_log_of h = Some l ->
  cl_version l = h_vers h /\ cl_random l = h_random h /\ cl_sid l = h_sid h /\
  cl_suites l = h_suites h /\ cl_comps l = h_comps h /\
  cl_ocsp l = has_ext ext_status_request (h_exts h) /\
  cl_ticket l = has_ext ext_ticket (h_exts h) /\
  cl_reneg l = has_ext ext_reneg (h_exts h) /\
  cl_scts l = has_ext ext_sct (h_exts h) /\
  cl_ems l = has_ext ext_ems (h_exts h) /\
  (forall name, find_ext ext_sni (h_exts h) = Some (enc_sni name) -> cl_sni l = name) /\
  (forall cs, find_ext ext_curves (h_exts h) = Some (enc_u16_list16 cs) -> cl_curves l = cs) /\
  (forall vs, find_ext ext_versions (h_exts h) = Some (enc_u16_list8 vs) -> cl_versions l = vs) /\
  (forall ps, find_ext ext_alpn (h_exts h) = Some (enc_alpn ps) -> cl_alpn l = ps) /\
  (forall ss, find_ext ext_sigalgs (h_exts h) = Some (enc_u16_list16 ss) -> cl_sigalgs l = map_sig_algs ss) /\
  (forall t, t <> [] -> find_ext ext_ticket (h_exts h) = Some t -> cl_session_ticket l = Some t).
Proof. exact ch_log_fields. Qed.
Print Assumptions C28_client_hello_log_fields.

(* byte strings are complete: the random of any ClientHello that parses has 32 bytes *)
Theorem C28_random_complete : forall b h, dec_client_hello b = Some h -> blen (h_random h) = 32.
Proof. exact dec_client_hello_random. Qed.
Print Assumptions C28_random_complete.

(* a whole TLS <= 1.2 ECDHE handshake: every part of the log is the projection of the messages sent *)
Theorem C28_log_fields_are_wire_fields : forall ch sh certs k cpub nst a cl sl ka pt cpt,
  hello_ok ch -> server_hello_ok sh -> a_skx_rejected a = false ->
  ch_log_of ch = Some cl -> sh_log_of sh a = Some sl -> sl_selected_version sl = None ->
  Forall (fun c => blen c < 16777216) certs -> blen (flat_map enc_vec24 certs) < 16777216 ->
  ka_of_suite (sl_suite sl) = Some ka -> (ka = 1 \/ ka = 2) ->
  skx_p k = [] -> skx_g k = [] ->
  has_scheme k = (771 <=? sl_version sl) ->
  point_of (skx_curve k) (skx_public k) = Some pt ->
  point_of (skx_curve k) cpub = Some cpt ->
  (forall s, skx_scheme k = Some s -> logged_sig_and_hash_ecdhe s <> None) ->
  (forall lt t, nst = Some (lt, t) -> lt < 4294967296) ->
  log_of_msgs [(1, enc_client_hello ch); (16, enc_vec8 cpub)]
              ([(2, enc_server_hello sh); (11, enc_certificate certs); (12, enc_skx_ecdhe k)] ++
               match nst with Some (lt, t) => [(4, enc_new_session_ticket lt t)] | None => [] end ++ [(14, [])]) a
  = Some (mkLog cl sl certs
            (Some (mkSkxLog (skx_curve k) (Some pt) None (skx_sig k)
                     (match skx_scheme k with Some s => logged_sig_and_hash_ecdhe s | None => None end)))
            (Some (CkxEcdh (skx_curve k) cpt))
            (Some (a_client_finished a)) (Some (a_server_finished a))
            (match nst with
             | Some (lt, t) => Some (t, Some lt)
             | None => match cl_session_ticket cl with Some t => Some (t, None) | None => None end
             end)
            (Some (a_master a)) (Some (a_premaster a))).
Proof. exact log_of_full_ecdhe_handshake. Qed.
Print Assumptions C28_log_fields_are_wire_fields.

(* the record layer in front of it: each side's messages are recovered from its own records, for
   any interleaving of the two directions and any fragmentation of the flights *)
Theorem C28_log_of_transcript : forall recs cmsgs smsgs cfrags sfrags v crest srest a,
  Forall msg_ok cmsgs -> Forall msg_ok smsgs ->
  concat cfrags = flat_map enc_msg cmsgs -> concat sfrags = flat_map enc_msg smsgs ->
  filter (fun x => Bool.eqb (fst x) true) recs
    = map (fun f => (true, enc_record 22 v f)) cfrags ++ (true, enc_record 20 v [1]) :: crest ->
  filter (fun x => Bool.eqb (fst x) false) recs
    = map (fun f => (false, enc_record 22 v f)) sfrags ++ (false, enc_record 20 v [1]) :: srest ->
  log_of recs a = log_of_msgs cmsgs smsgs a.
Proof. exact log_of_transcript. Qed.
Print Assumptions C28_log_of_transcript.

(* ---- sig_hash_is_wire_scheme ---- *)
Theorem C28_sig_hash_is_wire_scheme : forall ka k,
  (ka = 1 \/ ka = 2) -> skx_p k = [] -> skx_g k = [] -> forall s, skx_scheme k = Some s ->
  forall l, skx_log_of ka 771 (enc_skx_ecdhe k) = Some l ->
  kl_sig_and_hash l = logged_sig_and_hash_ecdhe s /\ kl_sig_raw l = skx_sig k /\ kl_curve l = skx_curve k.
Proof. exact sig_hash_is_wire_scheme. Qed.
Print Assumptions C28_sig_hash_is_wire_scheme.

Theorem C28_sig_hash_is_wire_scheme_dhe : forall ka k,
  ka <> 1 -> ka <> 2 -> skx_curve k = 0 -> forall s, skx_scheme k = Some s ->
  forall l, skx_log_of ka 771 (enc_skx_dhe k) = Some l ->
  kl_sig_and_hash l = Some (s mod 256, s / 256) /\ kl_sig_raw l = skx_sig k.
Proof. exact sig_hash_is_wire_scheme_dhe. Qed.
Print Assumptions C28_sig_hash_is_wire_scheme_dhe.

(* the logged pair determines the wire scheme (every supported scheme) *)
Theorem C28_logged_pair_determines_scheme : forall s1 s2,
  In s1 supported_signature_algorithms -> In s2 supported_signature_algorithms ->
  logged_sig_and_hash_ecdhe s1 = logged_sig_and_hash_ecdhe s2 -> s1 = s2.
Proof. exact logged_pair_determines_scheme. Qed.
Print Assumptions C28_logged_pair_determines_scheme.

(* ---- name_table_consistent: the JSON names of the logged codes are the RFC names of the
   scheme's signature algorithm and hash, for every scheme the package supports ---- *)
Theorem C28_name_table_consistent : forall s,
  In s supported_signature_algorithms ->
  exists sg h, logged_sig_and_hash_ecdhe s = Some (sg, h) /\
               name_of signature_names_tbl sg = rfc_sig_name s /\
               name_of hash_names_tbl h = rfc_hash_name s /\ rfc_hash_name s <> [].
Proof. exact name_table_consistent. Qed.
Print Assumptions C28_name_table_consistent.

(* non-vacuity / the defect of DESIGN section 8 row 13 as a regression witness: ecdsa_secp256r1_sha256
   (04 03) on the wire is shown as (ecdsa, 4 = sha256) *)
Theorem C28_sig_hash_example :
  option_map kl_sig_and_hash
    (skx_log_of 2 771 (enc_skx_ecdhe (mkSkx 29 [1;2;3] [] [] (Some 1027) [9;9])))
  = Some (Some (sig_ecdsa, 4)).
Proof. exact sig_hash_example. Qed.
Print Assumptions C28_sig_hash_example.
