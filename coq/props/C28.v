(* C28 — The client handshake log records what was actually exchanged: property theorems only. *)
From Coq Require Import List NArith Bool Arith.
From Verif Require Import Harness.
From VerifGen Require Import C28Tables_gen.
From VerifModel Require Import C28.
From VerifProof Require Import C28Proofs.
Import ListNotations.
Open Scope N_scope.

Theorem C28_dec_u8_enc : forall n rest, dec_u8 (enc_u8 n ++ rest) = Some (n, rest).
Proof. exact dec_u8_enc. Qed.
Print Assumptions C28_dec_u8_enc.
