(* C01 — Parsers of untrusted bytes never panic or hang.  Property theorems only.
   [fine r] = r is neither Panic nor OutOfFuel: the decoder returned a value or an
   error; the fuel every loop is given is a function of the input length, so
   "never out of fuel" is the termination proof. *)
From Coq Require Import List NArith ZArith Bool Arith.
From VerifModel Require Import C01Prim C01 C01Pss C02.
From VerifProof Require Import C01Proofs C01PssProofs C02Proofs.
Import ListNotations.

(* ---------------- encoding/asn1 ---------------- *)
Theorem C01_asn1_base128_total : forall bs off,
  parse_base128 bs off <> Panic /\ parse_base128 bs off <> OutOfFuel.
Proof. exact parse_base128_total. Qed.
Print Assumptions C01_asn1_base128_total.

(* parseTagAndLength, both parsing modes, any offset: a value or an error; on success at
   least two octets were consumed and the new offset is inside the input *)
Theorem C01_asn1_header_total : forall perm bs off,
  (parse_tl perm bs off <> Panic /\ parse_tl perm bs off <> OutOfFuel) /\
  forall t off', parse_tl perm bs off = Ok (t, off') -> off + 2 <= off' <= length bs.
Proof. exact parse_tl_spec. Qed.
Print Assumptions C01_asn1_header_total.

(* the decoded length is below 2^31: offset + length cannot overflow a 64-bit int *)
Theorem C01_asn1_header_length_bound : forall perm bs off t off',
  Forall (fun b => (b < 256)%N) bs -> parse_tl perm bs off = Ok (t, off') -> (t_len t < 2 ^ 31)%N.
Proof. exact parse_tl_length_bound. Qed.
Print Assumptions C01_asn1_header_length_bound.

(* SEQUENCE OF / SET OF: the element-counting loop terminates ... *)
Theorem C01_asn1_sequence_of_total : forall perm bs,
  seq_of_count perm bs <> Panic /\ seq_of_count perm bs <> OutOfFuel.
Proof. exact seq_of_count_total. Qed.
Print Assumptions C01_asn1_sequence_of_total.

(* ... and the slice it sizes has at most len/2 elements (allocation linear in the input) *)
Theorem C01_asn1_sequence_of_alloc_bound : forall perm bs n,
  seq_of_count perm bs = Ok n -> 2 * n <= length bs.
Proof. exact seq_of_count_alloc_bound. Qed.
Print Assumptions C01_asn1_sequence_of_alloc_bound.

(* ---------------- SCT list extension ---------------- *)
Theorem C01_sct_list_total : forall v, parse_sct_list v <> Panic /\ parse_sct_list v <> OutOfFuel.
Proof. exact parse_sct_list_total. Qed.
Print Assumptions C01_sct_list_total.

Theorem C01_sct_list_count_bound : forall v n, parse_sct_list v = Ok n -> 2 * n <= length v.
Proof. exact parse_sct_list_count_bound. Qed.
Print Assumptions C01_sct_list_count_bound.

(* ---------------- revocation sets ---------------- *)
Theorem C01_crlset_total : forall b json_ok,
  crlset_parse b json_ok <> Panic /\ crlset_parse b json_ok <> OutOfFuel.
Proof. exact crlset_parse_total. Qed.
Print Assumptions C01_crlset_total.

Theorem C01_sst_total : forall good b, sst_parse good b <> Panic /\ sst_parse good b <> OutOfFuel.
Proof. exact sst_parse_total. Qed.
Print Assumptions C01_sst_total.

(* every certificate buffer the (repaired) SST loop allocates is no longer than the input *)
Theorem C01_sst_alloc_bound : forall (b r2 : bytes) out,
  length r2 <= length b -> sst_loop r2 [] (S (length r2)) = Ok out ->
  Forall (fun c => length c <= length b) out.
Proof. exact sst_alloc_bound. Qed.
Print Assumptions C01_sst_alloc_bound.

(* ---------------- use after parse (model in C02.v) ---------------- *)
(* a key that parsePublicKey (repaired) returns, in either mode, never makes a verification
   primitive panic; in particular the self-signature test inside parseCertificate is total *)
Theorem C01_parsed_key_safe_for_verify : forall perm s k a,
  parse_pk true perm s = C01Prim.Ok k -> dispatch a k = C01Prim.Ok tt.
Proof. exact pk_safe_for_verify. Qed.
Print Assumptions C01_parsed_key_safe_for_verify.

Theorem C01_self_signature_check_total : forall perm self_issued a s,
  self_sig_check true perm self_issued a s <> Panic.
Proof. exact self_sig_check_total. Qed.
Print Assumptions C01_self_signature_check_total.

(* refuted for the code before the repair: 31-byte Ed25519 key in a self-issued certificate *)
Theorem C01_self_signature_check_unrepaired_panics : forall perm,
  self_sig_check false perm true AEd (SEd 31) = Panic.
Proof. exact self_sig_check_unrepaired_panics. Qed.
Print Assumptions C01_self_signature_check_unrepaired_panics.

(* ---------------- rsa: emsaPSSVerify index arithmetic (model in C01Pss.v) ---------------- *)
(* for every salt-length option VerifyPSS lets through (>= -1), every hash size, every encoded
   message and whatever the unmasking leaves in DB, no slice or index of emsaPSSVerify is out of range *)
Theorem C01_rsa_pss_verify_total : forall hLen mLen em emBits sLen0 db_after h_ok,
  (0 <= hLen)%Z -> (-1 <= sLen0)%Z -> (0 <= emBits)%Z ->
  zlen db_after = ((emBits + 7) / 8 - hLen - 1)%Z ->
  pss_verify false hLen mLen em emBits sLen0 db_after h_ok <> Panic.
Proof. exact pss_verify_total. Qed.
Print Assumptions C01_rsa_pss_verify_total.

(* the independently seeded change (PSSSaltLengthEqualsHash resolved only after step 9) panics:
   SHA-256 with a 264-bit modulus *)
Theorem C01_rsa_pss_verify_moved_resolution_panics :
  pss_verify true 32 32 (repeat 0%N 32 ++ [188%N]) 263 salt_equals_hash (@nil N) true = Panic.
Proof. exact pss_verify_moved_panics. Qed.
Print Assumptions C01_rsa_pss_verify_moved_resolution_panics.
