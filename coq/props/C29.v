(* C29 — Fingerprinted ClientHellos are sent exactly as configured.
   Property theorems only; each is closed by [exact] of a lemma from proof/C29Proofs.v
   and followed by Print Assumptions.

   fp_marshal c ts rnd : the bytes ClientFingerprintConfiguration.marshal produces for configuration c
                         (ts = the 4 timestamp bytes, rnd = the bytes served by Config.Rand), None = error
   dec_msg KCH         : the C30 model of clientHelloMsg.unmarshal
   fp_expected         : value-level specification of what must be read back: the configured version,
                         random, session id, suites, compression methods, and the slots obtained by
                         applying the configured extensions in order (apply_ext) *)
From Coq Require Import List NArith Bool Arith.
From Verif Require Import Harness WireTLS.
From VerifModel Require Import C30 C29.
From VerifProof Require Import C30Proofs C30ExtProofs C29Proofs.
Import ListNotations.
Open Scope N_scope.

(* layout: the wire bytes are the handshake header, the C30 fixed-part format of the configured
   version / random / session id / cipher suites / compression methods, and (when not empty) the
   uint16-prefixed concatenation of the extensions' encodings in the configured order *)
Theorem C29_hello_layout : forall c ts rnd h,
  fp_valid c = true -> blen ts = 4 -> (32 <= length rnd)%nat -> fp_marshal c ts rnd = Some h ->
  enc_hello 1 f_ch_base
    (ch_base (fp_vers c) (fp_client_random c ts rnd) (fp_sid c) (fp_suites c) (fp_comps c))
    (concat_map ext_marshal (fp_exts c)) = Some h.
Proof. exact fp_marshal_is_hello. Qed.
Print Assumptions C29_hello_layout.

(* each built-in extension type: either nothing is sent, or a well-formed extension
   (type, uint16 length, body) whose arm of the ClientHello parser reads the configured values back *)
Theorem C29_ext_wellformed : forall st e st',
  apply_ext st e = Some st' ->
  (ext_marshal e = [] /\ st' = st) \/
  (exists t b en v, ext_marshal e = raw_ext t b /\ t < 65536 /\ blen b < 65536 /\
     find_entry tb_ch t b = Some en /\ e_last en = false /\
     e_h en (sget (e_slot en) st) b = Some (v, []) /\ st' = sset (e_slot en) v st).
Proof. exact apply_ext_sound. Qed.
Print Assumptions C29_ext_wellformed.

(* the ClientHello parser reads the whole hello back as configured *)
Theorem C29_hello_read_back : forall c ts rnd h m,
  fp_valid c = true -> blen ts = 4 -> (32 <= length rnd)%nat ->
  fp_marshal c ts rnd = Some h -> fp_expected c ts rnd = Some m ->
  dec_msg KCH false h = Some m.
Proof. exact fp_hello_decodes. Qed.
Print Assumptions C29_hello_read_back.

(* a configuration that uses every built-in extension type is in the domain; two host_names are
   encoded well-formed (one name_type per entry) and refused by the parser; no host_name sends nothing *)
Theorem C29_nonvacuous :
  fp_valid ex_cfg = true /\ is_some (fp_marshal ex_cfg ex_ts ex_rnd) = true /\
  is_some (fp_expected ex_cfg ex_ts ex_rnd) = true /\
  (let c2 := mkCfg 771 (nrep 32 1) false [] [47] [0] [XSNI [[97]; [98]]] true in
   ext_marshal (XSNI [[97]; [98]]) = [0; 0; 0; 10; 0; 8; 0; 0; 1; 97; 0; 0; 1; 98] /\
   match fp_marshal c2 [] [] with Some h => dec_msg KCH false h | None => None end = None) /\
  ext_marshal (XSNI []) = [].
Proof. exact example_cfg. Qed.
Print Assumptions C29_nonvacuous.
