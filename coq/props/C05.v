(* C05 — CSRs, CRLs and revocation lists round-trip and self-verify.
   Property theorems only; each is closed by [exact] of a lemma from
   proof/C05Proofs.v.

   Model: model/C05.v — build_csr_tbs / parse_csr mirror CreateCertificateRequest
   / ParseCertificateRequest, build_crl_tbs / parse_crl mirror
   Certificate.CreateCRL / ParseCRL, build_rl_tbs / parse_rl mirror
   CreateRevocationList / ParseRevocationList (crl_parser.go). *)
From Coq Require Import List NArith ZArith Bool Arith Permutation.
From Verif Require Import Harness DerTree DerPrim.
From VerifGen Require Import C04_gen.
From VerifModel Require Import C04 C05.
From VerifProof Require Import C04Proofs C04Top C05Proofs.
Import ListNotations.
Local Open Scope N_scope.

(* ---- certificate requests ---- *)
Theorem C05_csr_roundtrip : forall i tbs a sig,
  wf_csr i -> build_csr_tbs i = Some (tbs, a) ->
  let t := ci_t i in
  exists f,
    parse_csr (emit (seq [tbs; a; Prim 0 3 (0 :: sig)])) = Some f /\
    cf_version f = 0%Z /\
    cf_sigalg f = expected_sigalg (ci_key i) (c_sigalg t) /\
    name_rel (c_subject t) (cf_subject f) /\
    cf_exts f = csr_extensions t /\
    cf_dns f = c_dns t /\ cf_emails f = c_emails t /\ cf_ips f = map san_ip (c_ips t).
Proof. exact csr_roundtrip. Qed.
Print Assumptions C05_csr_roundtrip.

(* ---- legacy CRLs ---- *)
Theorem C05_crl_roundtrip : forall i tbs a sig,
  wf_crl i -> build_crl_tbs i = Some (tbs, a) ->
  exists f,
    parse_crl (emit (seq [tbs; a; Prim 0 3 (0 :: sig)])) = Some f /\
    lf_version f = 1%Z /\
    lf_sigalg f = default_sigalg (l_key i) /\
    name_rel (l_issuer i) (lf_issuer f) /\
    lf_this f = l_now i /\ lf_next f = Some (l_expiry i) /\
    lf_revoked f = l_revoked i /\
    lf_exts f = crl_exts i.
Proof. exact crl_roundtrip. Qed.
Print Assumptions C05_crl_roundtrip.

(* ---- v2 revocation lists ---- *)
Theorem C05_rl_roundtrip : forall i tbs a sig rest,
  wf_rl i -> build_rl_tbs i = Some (tbs, a) ->
  exists f,
    parse_rl (emit (seq [tbs; a; Prim 0 3 (0 :: sig)]) ++ rest) = Some f /\
    rf_sigalg f = expected_sigalg (r_key i) (r_sigalg i) /\
    name_rel (r_issuer i) (rf_issuer f) /\
    rf_this f = r_this i /\ rf_next f = Some (r_next i) /\
    rf_revoked f = map expected_pentry (r_revoked i) /\
    rf_number f = Some (r_number i) /\
    rf_aki f = r_issuer_ski i /\
    rf_exts f = rl_exts i.
Proof. exact rl_roundtrip. Qed.
Print Assumptions C05_rl_roundtrip.

(* reason code: nil or zero -> no extension and nil when parsed; otherwise the code *)
Theorem C05_reason_code_rule : forall e : rl_entry, let '(_, _, reason, _) := e in
  (-2 ^ 55 < match reason with Some z => z | None => 0 end < 2 ^ 55)%Z ->
  entry_reason (rl_entry_exts e) None = Some (reason_out reason).
Proof. exact reason_code_rule. Qed.
Print Assumptions C05_reason_code_rule.

(* whatever reasonCode extensions the caller put into ExtraExtensions, the entry
   carries exactly the synthesised one (or none) *)
Theorem C05_user_reason_ext_replaced : forall e : rl_entry,
  let '(_, _, reason, extra) := e in
  filter (fun x => oid_eqb (ext_id x) oid_reason) (rl_entry_exts e) =
  match reason_out reason with
  | Some z => [(oid_reason, false, emit (d_enum z))]
  | None => []
  end.
Proof. exact user_reason_ext_replaced. Qed.
Print Assumptions C05_user_reason_ext_replaced.

(* on what the writers produce the cryptobyte-based name reader agrees with the asn1-based one *)
Theorem C05_name_readers_agree : forall n d,
  wf_name_cb n = true -> build_name n = Some d -> read_name_cb d = read_name d.
Proof. exact read_name_cb_build. Qed.
Print Assumptions C05_name_readers_agree.

(* the v2 reader's OID decoder (four octets per value) *)
Theorem C05_oid_roundtrip_cryptobyte : forall o bs,
  wf_oid_cb o = true -> enc_oid o = Some bs -> dec_oid_cb bs = Some o.
Proof. exact dec_enc_oid_cb. Qed.
Print Assumptions C05_oid_roundtrip_cryptobyte.

(* ---- self-verification; premise: the signature scheme verifies what it signs ---- *)
Theorem C05_csr_self_verifies :
  forall (sign : keykind -> N -> bytes -> bytes) (verify : keykind -> N -> bytes -> bytes -> bool),
  (forall k alg msg, verify k alg msg (sign k alg msg) = true) ->
  forall i tbs a sig f,
    wf_csr i -> build_csr_tbs i = Some (tbs, a) ->
    parse_csr (emit (seq [tbs; a; Prim 0 3 (0 :: sig)])) = Some f ->
    verify (ci_key i) (cf_sigalg f) (emit tbs)
           (sign (ci_key i) (expected_sigalg (ci_key i) (c_sigalg (ci_t i))) (emit tbs)) = true.
Proof. exact csr_self_verifies. Qed.
Print Assumptions C05_csr_self_verifies.

Theorem C05_crl_verifies :
  forall (sign : keykind -> N -> bytes -> bytes) (verify : keykind -> N -> bytes -> bytes -> bool),
  (forall k alg msg, verify k alg msg (sign k alg msg) = true) ->
  forall i tbs a sig f,
    wf_crl i -> build_crl_tbs i = Some (tbs, a) ->
    parse_crl (emit (seq [tbs; a; Prim 0 3 (0 :: sig)])) = Some f ->
    verify (l_key i) (lf_sigalg f) (emit tbs) (sign (l_key i) (default_sigalg (l_key i)) (emit tbs)) = true.
Proof. exact crl_verifies. Qed.
Print Assumptions C05_crl_verifies.

Theorem C05_rl_verifies :
  forall (sign : keykind -> N -> bytes -> bytes) (verify : keykind -> N -> bytes -> bytes -> bool),
  (forall k alg msg, verify k alg msg (sign k alg msg) = true) ->
  forall i tbs a sig f,
    wf_rl i -> build_rl_tbs i = Some (tbs, a) ->
    parse_rl (emit (seq [tbs; a; Prim 0 3 (0 :: sig)])) = Some f ->
    verify (r_key i) (rf_sigalg f) (emit tbs)
           (sign (r_key i) (expected_sigalg (r_key i) (r_sigalg i)) (emit tbs)) = true.
Proof. exact rl_verifies. Qed.
Print Assumptions C05_rl_verifies.

(* ---- non-vacuity: inputs inside the domains that build, parse and show the
   boundary behaviours (closed boolean checks, see proof/C05Proofs.v) ---- *)
Theorem C05_nonvacuous_csr : wf_csr ex_csr /\ ex_csr_check = true.
Proof. exact (conj ex_csr_wf ex_csr_builds). Qed.
Print Assumptions C05_nonvacuous_csr.

Theorem C05_nonvacuous_crl : wf_crl ex_crl /\ ex_crl_check = true.
Proof. exact (conj ex_crl_wf ex_crl_builds). Qed.
Print Assumptions C05_nonvacuous_crl.

Theorem C05_nonvacuous_rl : wf_rl ex_rl /\ ex_rl_check = true.
Proof. exact (conj ex_rl_wf ex_rl_builds). Qed.
Print Assumptions C05_nonvacuous_rl.
