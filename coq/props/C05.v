(* C05 — CSRs, CRLs and revocation lists round-trip and self-verify.  Property theorems only. *)
From Coq Require Import List NArith ZArith Bool Arith.
From Verif Require Import Harness DerTree DerPrim.
From VerifModel Require Import C04 C05.
From VerifProof Require Import C05Proofs.
Import ListNotations.
Local Open Scope N_scope.

Theorem C05_placeholder : oid_reason = [2; 5; 29; 21].
Proof. exact placeholder. Qed.
Print Assumptions C05_placeholder.
