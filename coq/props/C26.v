(* C26 — TLS key derivation matches the RFC definitions.
   Property theorems only.  Left-hand sides are the model of the Go code
   (model/C26.v: the pHash loop with a / j / copy, prf10 with its secret split,
   the key-block slicing, the HKDF reader loop, the cryptobyte label builder);
   right-hand sides are the RFC equations transcribed in model/C26Rfc.v.
   The generic theorems hold for EVERY hash function with a fixed non-zero
   output length (premises shown); the [real_] ones are their instances for the
   executable MD5 / SHA-1 / SHA-256 / SHA-384 of coq/lib and have no premises.
   All are for every secret, label, seed and output length (no 0..512 bound). *)
From Coq Require Import List NArith Bool Arith.
From Verif Require Import Harness Sha256 Sha512 Sha1 Md5 Hmac.
From VerifModel Require Import C26 C26Rfc.
From VerifProof Require Import C26Proofs.
Import ListNotations.

(* RFC 5246 section 5: the Go loop writes the first [length result] bytes of
   HMAC(secret, A(1)+seed) + HMAC(secret, A(2)+seed) + ..., whatever result held
   before and however many further terms [m] one cares to write down *)
Theorem C26_p_hash_is_rfc5246 :
  forall (hm : bytes -> bytes -> bytes) (hl : nat),
    0 < hl -> (forall k m, length (hm k m) = hl) ->
    forall secret seed result m,
      length result <= m * hl ->
      p_hash hm result secret seed = firstn (length result) (p_stream hm secret seed m).
Proof. exact p_hash_is_rfc. Qed.
Print Assumptions C26_p_hash_is_rfc5246.

Theorem C26_real_p_hash_is_rfc5246 : forall a secret seed n,
  p_hash (hmac_of a) (zeros n) secret seed = P_hash (hmac_of a) secret seed n.
Proof. exact real_p_hash_is_rfc. Qed.
Print Assumptions C26_real_p_hash_is_rfc5246.

(* RFC 2246 section 5: S1 / S2 are the first / last ceil(len/2) bytes ... *)
Theorem C26_split_premaster_is_rfc2246 : forall secret,
  split_premaster secret = (S1 secret, S2 secret) /\
  length (S1 secret) = ceil_half (length secret) /\ length (S2 secret) = ceil_half (length secret).
Proof. exact split_premaster_rfc2246. Qed.
Print Assumptions C26_split_premaster_is_rfc2246.

(* ... which partition an even-length secret and share the middle byte of an odd-length one *)
Theorem C26_split_even : forall secret,
  Nat.even (length secret) = true -> S1 secret ++ S2 secret = secret.
Proof. exact S1_S2_even. Qed.
Print Assumptions C26_split_even.

Theorem C26_split_odd_shares_middle_byte : forall secret,
  Nat.odd (length secret) = true ->
  exists pre mid post, secret = pre ++ [mid] ++ post /\ S1 secret = pre ++ [mid] /\
                       S2 secret = [mid] ++ post /\ length pre = length post.
Proof. exact S1_S2_odd. Qed.
Print Assumptions C26_split_odd_shares_middle_byte.

(* RFC 2246 section 5: PRF = P_MD5(S1, label + seed) XOR P_SHA-1(S2, label + seed) *)
Theorem C26_prf10_is_rfc2246 :
  forall (md5_f sha1_f : bytes -> bytes) (l_md5 l_sha1 : nat),
    (forall m, length (md5_f m) = l_md5) -> (forall m, length (sha1_f m) = l_sha1) ->
    0 < l_md5 -> 0 < l_sha1 ->
    forall secret label seed n,
      prf10 md5_f sha1_f (zeros n) secret label seed = PRF_tls10 md5_f sha1_f secret label seed n.
Proof. exact prf10_is_rfc2246. Qed.
Print Assumptions C26_prf10_is_rfc2246.

(* RFC 5246 section 5: PRF = P_<hash>(secret, label + seed) *)
Theorem C26_prf12_is_rfc5246 :
  forall (h : bytes -> bytes) (B l n : nat) secret label seed,
    0 < l -> (forall m, length (h m) = l) ->
    prf12 (hmac h B) (zeros n) secret label seed = PRF_tls12 h B secret label seed n.
Proof. exact prf12_is_rfc5246. Qed.
Print Assumptions C26_prf12_is_rfc5246.

(* selection by version and suite hash, with the real hashes: TLS 1.0/1.1 -> MD5/SHA-1 PRF,
   TLS 1.2 -> SHA-256 or (suiteSHA384) SHA-384 PRF, anything else -> panic *)
Theorem C26_real_prf_is_rfc : forall version s n secret label seed,
  rprf version s n secret label seed
  = match prf_kind_for version s with
    | Some k => Some (PRF md5 sha1 sha256 sha384 k secret label seed n)
    | None => None
    end.
Proof. exact real_prf_is_rfc. Qed.
Print Assumptions C26_real_prf_is_rfc.

Theorem C26_prf_selection : forall version s,
  prf_kind_for version s =
    if (version =? 769)%N || (version =? 770)%N then Some Prf10
    else if (version =? 771)%N then Some (if s then Prf12_384 else Prf12_256) else None.
Proof. exact prf_kind_for_spec. Qed.
Print Assumptions C26_prf_selection.

(* RFC 5246 8.1: master_secret = PRF(pre_master_secret, "master secret", ClientHello.random + ServerHello.random)[0..47] *)
Theorem C26_master_secret_is_rfc :
  forall (md5_f sha1_f sha256_f sha384_f : bytes -> bytes) (l1 l2 l3 l4 : nat),
    (forall m, length (md5_f m) = l1) -> (forall m, length (sha1_f m) = l2) ->
    (forall m, length (sha256_f m) = l3) -> (forall m, length (sha384_f m) = l4) ->
    0 < l1 -> 0 < l2 -> 0 < l3 -> 0 < l4 ->
    forall version s pms cr sr,
      master_from_premaster md5_f sha1_f sha256_f sha384_f version s pms cr sr
      = match prf_kind_for version s with
        | Some k => Some (PRF md5_f sha1_f sha256_f sha384_f k pms label_master (cr ++ sr) 48)
        | None => None
        end.
Proof. exact master_secret_is_rfc. Qed.
Print Assumptions C26_master_secret_is_rfc.

(* RFC 5246 6.3: the six keys are consecutive, non-overlapping pieces of
   PRF(master_secret, "key expansion", server_random + client_random) in the order
   client MAC, server MAC, client key, server key, client IV, server IV *)
Theorem C26_key_block_split :
  forall (md5_f sha1_f sha256_f sha384_f : bytes -> bytes) (l1 l2 l3 l4 : nat),
    (forall m, length (md5_f m) = l1) -> (forall m, length (sha1_f m) = l2) ->
    (forall m, length (sha256_f m) = l3) -> (forall m, length (sha384_f m) = l4) ->
    0 < l1 -> 0 < l2 -> 0 < l3 -> 0 < l4 ->
    forall version s master cr sr macLen keyLen ivLen cm sm ck sk civ siv,
      keys_from_master md5_f sha1_f sha256_f sha384_f version s master cr sr macLen keyLen ivLen
        = Some (cm, sm, ck, sk, civ, siv) ->
      exists k, prf_kind_for version s = Some k /\
        cm ++ sm ++ ck ++ sk ++ civ ++ siv
          = PRF md5_f sha1_f sha256_f sha384_f k master label_keyexp (sr ++ cr) (2 * macLen + 2 * keyLen + 2 * ivLen) /\
        length cm = macLen /\ length sm = macLen /\ length ck = keyLen /\ length sk = keyLen /\
        length civ = ivLen /\ length siv = ivLen.
Proof. exact key_block_split. Qed.
Print Assumptions C26_key_block_split.

Theorem C26_real_key_block_split :
  forall version s master cr sr macLen keyLen ivLen cm sm ck sk civ siv,
    keys_from_master md5 sha1 sha256 sha384 version s master cr sr macLen keyLen ivLen
      = Some (cm, sm, ck, sk, civ, siv) ->
    exists k, prf_kind_for version s = Some k /\
      cm ++ sm ++ ck ++ sk ++ civ ++ siv
        = PRF md5 sha1 sha256 sha384 k master label_keyexp (sr ++ cr) (2 * macLen + 2 * keyLen + 2 * ivLen) /\
      length cm = macLen /\ length sm = macLen /\ length ck = keyLen /\ length sk = keyLen /\
      length civ = ivLen /\ length siv = ivLen.
Proof. exact real_key_block_split. Qed.
Print Assumptions C26_real_key_block_split.

(* RFC 5246 7.4.9 / RFC 2246 7.4.9: verify_data = PRF(master_secret, finished_label, Hash(handshake_messages))[0..11] *)
Theorem C26_verify_data_is_rfc :
  forall (md5_f sha1_f sha256_f sha384_f : bytes -> bytes) (l1 l2 l3 l4 : nat),
    (forall m, length (md5_f m) = l1) -> (forall m, length (sha1_f m) = l2) ->
    (forall m, length (sha256_f m) = l3) -> (forall m, length (sha384_f m) = l4) ->
    0 < l1 -> 0 < l2 -> 0 < l3 -> 0 < l4 ->
    forall version s server master msgs,
      finished_sum md5_f sha1_f sha256_f sha384_f version s server master msgs
      = match prf_kind_for version s with
        | Some k => Some (PRF md5_f sha1_f sha256_f sha384_f k master
                              (if server then label_sfin else label_cfin)
                              (handshake_hash md5_f sha1_f sha256_f sha384_f k (concat msgs)) 12)
        | None => None
        end.
Proof. exact verify_data_is_rfc. Qed.
Print Assumptions C26_verify_data_is_rfc.

(* RFC 5705 section 4: PRF(master_secret, label, client_random + server_random [+ context_value_length + context_value])[length];
   reserved labels and contexts of 2^16 bytes or more are refused *)
Theorem C26_ekm_is_rfc5705 :
  forall (md5_f sha1_f sha256_f sha384_f : bytes -> bytes) (l1 l2 l3 l4 : nat),
    (forall m, length (md5_f m) = l1) -> (forall m, length (sha1_f m) = l2) ->
    (forall m, length (sha256_f m) = l3) -> (forall m, length (sha384_f m) = l4) ->
    0 < l1 -> 0 < l2 -> 0 < l3 -> 0 < l4 ->
    forall version s master cr sr label context n,
      ekm md5_f sha1_f sha256_f sha384_f version s master cr sr label context n
      = if reserved_label label then Some Err
        else match context with
             | Some c =>
                 if (65536 <=? N.of_nat (length c))%N then Some Err
                 else match prf_kind_for version s with
                      | Some k => Some (Ok (PRF md5_f sha1_f sha256_f sha384_f k master label
                                                (cr ++ sr ++ u16_bytes (N.of_nat (length c)) ++ c) n))
                      | None => None
                      end
             | None =>
                 match prf_kind_for version s with
                 | Some k => Some (Ok (PRF md5_f sha1_f sha256_f sha384_f k master label (cr ++ sr) n))
                 | None => None
                 end
             end.
Proof. exact ekm_is_rfc5705. Qed.
Print Assumptions C26_ekm_is_rfc5705.

Theorem C26_reserved_labels : forall label,
  reserved_label label = true <->
  label = label_cfin \/ label = label_sfin \/ label = label_master \/ label = label_keyexp.
Proof. exact reserved_label_spec. Qed.
Print Assumptions C26_reserved_labels.

Theorem C26_u16_is_big_endian : forall n, (n < 65536)%N -> u16_bytes n = [(n / 256)%N; (n mod 256)%N].
Proof. exact u16_bytes_spec. Qed.
Print Assumptions C26_u16_is_big_endian.

(* RFC 5869 2.3: OKM = first L octets of T(1) | T(2) | ..., T(i) = HMAC(PRK, T(i-1) | info | i); L <= 255 HashLen *)
Theorem C26_hkdf_expand_is_rfc5869 :
  forall (H : bytes -> bytes) (B hl : nat),
    0 < hl -> (forall m, length (H m) = hl) ->
    forall prk info n,
      hkdf_expand H B hl prk info n
      = if n <=? 255 * hl then Some (HKDF_Expand (hmac H B) prk info n) else None.
Proof. exact hkdf_expand_is_rfc5869. Qed.
Print Assumptions C26_hkdf_expand_is_rfc5869.

(* RFC 8446 7.1: HKDF-Expand-Label(Secret, Label, Context, Length) = HKDF-Expand(Secret, HkdfLabel, Length);
   outside the encodable range the Go code panics *)
Theorem C26_expand_label_is_rfc8446 :
  forall (H : bytes -> bytes) (B hl : nat),
    0 < hl -> (forall m, length (H m) = hl) ->
    forall secret label context n,
      hl <= 257 ->
      expand_label H B hl secret label context n
      = if (length (tls13_prefix ++ label) <=? 255) && (length context <=? 255) && (n <=? 255 * hl)
        then Some (HKDF_Expand (hmac H B) secret (HkdfLabel n label context) n) else None.
Proof. exact expand_label_is_rfc8446. Qed.
Print Assumptions C26_expand_label_is_rfc8446.

Theorem C26_real_expand_label_is_rfc8446 : forall a secret label context n,
  (a = SHA256 \/ a = SHA384) ->
  expand_label (hash_of a) (block_of a) (size_of a) secret label context n
  = if (length (tls13_prefix ++ label) <=? 255) && (length context <=? 255) && (n <=? 255 * size_of a)
    then Some (HKDF_Expand (hmac_of a) secret (HkdfLabel n label context) n) else None.
Proof. exact real_expand_label_is_rfc8446. Qed.
Print Assumptions C26_real_expand_label_is_rfc8446.

(* the HkdfLabel encoding separates (Length, Label, Context) triples *)
Theorem C26_hkdf_label_injective : forall L1 L2 l1 l2 c1 c2,
  (N.of_nat L1 < 65536)%N -> (N.of_nat L2 < 65536)%N ->
  length (tls13_prefix ++ l1) <= 255 -> length (tls13_prefix ++ l2) <= 255 ->
  length c1 <= 255 -> length c2 <= 255 ->
  HkdfLabel L1 l1 c1 = HkdfLabel L2 l2 c2 -> L1 = L2 /\ l1 = l2 /\ c1 = c2.
Proof. exact HkdfLabel_injective. Qed.
Print Assumptions C26_hkdf_label_injective.

(* RFC 8446 7.1: Derive-Secret(Secret, Label, Messages) = HKDF-Expand-Label(Secret, Label, Transcript-Hash(Messages), Hash.length) *)
Theorem C26_derive_secret_is_rfc8446 : forall H B hl secret label transcript,
  derive_secret H B hl secret label transcript
  = expand_label H B hl secret label (H (match transcript with None => [] | Some ms => concat ms end)) hl.
Proof. exact derive_secret_is_rfc8446. Qed.
Print Assumptions C26_derive_secret_is_rfc8446.

(* RFC 8446 7.3: write_key / write_iv with the suite key length and the 12-byte AEAD nonce *)
Theorem C26_traffic_key_is_rfc8446 : forall H B hl secret keyLen,
  traffic_key H B hl secret keyLen
  = match expand_label H B hl secret label_key [] keyLen, expand_label H B hl secret label_iv [] 12 with
    | Some k, Some iv => Some (k, iv)
    | _, _ => None
    end.
Proof. exact traffic_key_is_rfc8446. Qed.
Print Assumptions C26_traffic_key_is_rfc8446.

Theorem C26_traffic_key_lengths :
  forall (H : bytes -> bytes) (B hl : nat),
    0 < hl -> (forall m, length (H m) = hl) ->
    forall secret keyLen,
      hl <= 257 -> keyLen <= 255 * hl ->
      exists k iv, traffic_key H B hl secret keyLen = Some (k, iv) /\ length k = keyLen /\ length iv = 12.
Proof. exact traffic_key_lengths. Qed.
Print Assumptions C26_traffic_key_lengths.

(* RFC 5869 2.2 / RFC 8446 7.1: Extract = HMAC(salt, IKM), absent inputs are HashLen zero bytes;
   a zero salt is the empty HMAC key *)
Theorem C26_extract_is_rfc : forall H B hl new_secret current,
  extract H B hl new_secret current
  = hmac H B (match current with [] => zeros hl | _ => current end)
         (match new_secret with None => zeros hl | Some s => s end).
Proof. exact extract_is_rfc. Qed.
Print Assumptions C26_extract_is_rfc.

Theorem C26_zero_salt_is_empty_key : forall H B n msg, n <= B -> hmac H B (zeros n) msg = hmac H B [] msg.
Proof. exact hmac_zero_key. Qed.
Print Assumptions C26_zero_salt_is_empty_key.

(* RFC 8446 4.4.4: verify_data = HMAC(finished_key, Transcript-Hash(...)), finished_key = HKDF-Expand-Label(BaseKey, "finished", "", Hash.length) *)
Theorem C26_finished13_is_rfc8446 : forall H B hl base_key transcript,
  finished13 H B hl base_key transcript
  = match expand_label H B hl base_key label_finished [] hl with
    | Some finished_key => Some (hmac H B finished_key (H (concat transcript)))
    | None => None
    end.
Proof. exact finished13_is_rfc8446. Qed.
Print Assumptions C26_finished13_is_rfc8446.

(* non-vacuity / known answers: RFC 5869 A.1, RFC 8448 section 3, the shared middle byte *)
From Coq Require String.
Import String.  (* string literals only *)
Theorem C26_known_answer_rfc5869_a1 :
  let ikm := repeat 11%N 22 in
  let salt := [0;1;2;3;4;5;6;7;8;9;10;11;12]%N in
  let info := [240;241;242;243;244;245;246;247;248;249]%N in
  let prk := hkdf_extract sha256 64 32 ikm salt in
  to_hex prk = str "077709362c2e32df0ddc3f0dc47bba6390b6c73bb50f9c3122ec844ad7c2b3e5"%string /\
  option_map to_hex (hkdf_expand sha256 64 32 prk info 42)
  = Some (str "3cb25f25faacd57a90434f64d0362f2a2d2d0a90cf1a5a4c5db02d56ecc4c5bf34007208d5b887185865"%string).
Proof. exact rfc5869_a1. Qed.
Print Assumptions C26_known_answer_rfc5869_a1.

Theorem C26_known_answer_rfc8448 :
  let early := extract sha256 64 32 None [] in
  to_hex early = str "33ad0a1c607ec03b09e6cd9893680ce210adf300aa1f2660e1b22e10f170f92a"%string /\
  option_map to_hex (derive_secret sha256 64 32 early [100;101;114;105;118;101;100]%N None)
  = Some (str "6f2615a108c702c5678f54fc9dbab69716c076189c48250cebeac3576c3611ba"%string).
Proof. exact rfc8448_early_derived. Qed.
Print Assumptions C26_known_answer_rfc8448.

Theorem C26_split_example :
  split_premaster [1;2;3;4;5]%N = ([1;2;3]%N, [3;4;5]%N) /\ split_premaster [1;2;3;4]%N = ([1;2]%N, [3;4]%N).
Proof. exact split_shared_middle. Qed.
Print Assumptions C26_split_example.
