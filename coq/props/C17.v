(* C17 — The CT scanner processes every log entry exactly once without races.
   Property theorems only; each is closed by [exact] of a lemma from
   proof/C17*.v and followed by Print Assumptions.

   Full statement: for any log server that answers each range request with a
   non-empty prefix of the requested entries or a transient error, and for any
   batch size, fetcher count and matcher count, Scan hands every entry in the
   scanned range to the matcher exactly once, with its correct index, returns
   the start index plus the number of entries processed, and terminates.  Its
   counters and shared state are accessed without data races. *)
From Coq Require Import String.
From Coq Require Import List NArith Bool Arith Permutation.
From Verif Require Import Harness Lts.
From VerifGen Require Import C17Summary_gen.
From VerifModel Require Import C17 C17Pipe C17Summary.
From VerifProof Require Import C17Proofs C17PipeProofs C17SummaryProofs.
Import ListNotations.
Open Scope N_scope.

(* the batches of Scan partition [start, stop), for every batch size >= 1 *)
Theorem C17_ranges_partition : forall start stop batch,
  1 <= batch ->
  concat (map indices (ranges start stop batch)) = nseq start (N.to_nat (stop - start)).
Proof. exact ranges_partition. Qed.
Print Assumptions C17_ranges_partition.

(* fetcherJob's retry loop: whatever finite sequence of errors, empty answers
   and truncated answers precedes the complete ones, the entries passed on are
   lo..hi, each once, in order, each labelled with its own index *)
Theorem C17_fetch_range_exact : forall answers lo hi,
  lo <= hi ->
  snd (fetch_range lo hi answers) = map (fun i => (i, i)) (nseq lo (N.to_nat (hi + 1 - lo))).
Proof. exact fetch_range_exact. Qed.
Print Assumptions C17_fetch_range_exact.

(* one fetcher, one matcher: the whole scan delivers start..stop-1 in order *)
Theorem C17_scan_seq_delivers : forall o start stop batch kinds script,
  1 <= batch ->
  s_delivered (scan_seq o start stop batch kinds script) =
  map (fun i => (i, i)) (nseq start (N.to_nat (stop - start))).
Proof. exact scan_seq_delivered. Qed.
Print Assumptions C17_scan_seq_delivers.

Theorem C17_scan_seq_returns : forall o start stop batch kinds script,
  1 <= batch -> start <= stop ->
  s_ret (scan_seq o start stop batch kinds script) = stop /\
  c_certs (s_counters (scan_seq o start stop batch kinds script)) = stop - start.
Proof. exact scan_seq_returns. Qed.
Print Assumptions C17_scan_seq_returns.

(* any F, M >= 1, any channel capacities >= 1, EVERY interleaving of the main
   goroutine, the fetchers and the matchers: when no step is left, the entries
   handed to processEntry are exactly (i, i) for i in [start, stop), each once *)
Theorem C17_scan_exactly_once : forall capF capJ M F start stop batch script s,
  (1 <= capF)%nat -> (1 <= capJ)%nat -> (1 <= M)%nat -> (1 <= F)%nat -> 1 <= batch ->
  preach capF capJ M (pinit F start stop batch script) s ->
  terminal capF capJ M s ->
  Permutation (delivered s) (map (fun i => (i, i)) (nseq start (N.to_nat (stop - start)))).
Proof. exact scan_exactly_once. Qed.
Print Assumptions C17_scan_exactly_once.

Theorem C17_scan_returns_start_plus_processed : forall capF capJ M F start stop batch script s,
  (1 <= capF)%nat -> (1 <= capJ)%nat -> (1 <= M)%nat -> (1 <= F)%nat -> 1 <= batch -> start <= stop ->
  preach capF capJ M (pinit F start stop batch script) s ->
  terminal capF capJ M s ->
  pret start s = stop.
Proof. exact scan_returns_start_plus_processed. Qed.
Print Assumptions C17_scan_returns_start_plus_processed.

(* no infinite run under any scheduling, and an explicit bound on its length *)
Theorem C17_scan_terminates : forall capF capJ M,
  well_founded (fun s' s => pstep capF capJ M s s').
Proof. exact scan_terminates. Qed.
Print Assumptions C17_scan_terminates.

Theorem C17_scan_run_length_bounded : forall capF capJ M n s s',
  psteps capF capJ M n s s' -> (n + measure s' <= measure s)%nat.
Proof. exact scan_run_length_bounded. Qed.
Print Assumptions C17_scan_run_length_bounded.

(* the final counters do not depend on the interleaving *)
Theorem C17_counters_schedule_independent : forall capF capJ M F o kinds start stop batch script s,
  (1 <= capF)%nat -> (1 <= capJ)%nat -> (1 <= M)%nat -> (1 <= F)%nat -> 1 <= batch ->
  preach capF capJ M (pinit F start stop batch script) s ->
  terminal capF capJ M s ->
  totals o start kinds (delivered s) = s_counters (scan_seq o start stop batch kinds script).
Proof. exact scan_counters_schedule_independent. Qed.
Print Assumptions C17_counters_schedule_independent.

(* T3: the access summary generated from scanner.go obeys the discipline
   (finite check on the generated data) ... *)
Theorem C17_summary_checked : summary_ok = true.
Proof. exact summary_checked. Qed.
Print Assumptions C17_summary_checked.

(* ... hence, for every number of fetchers and matchers, no reachable state of
   the interleaving semantics has two goroutines about to perform conflicting
   accesses: while the workers run, after they are joined, and before they start *)
Theorem C17_counters_race_free : forall (n : string -> nat) s,
  reachable (mid_system n) s -> ~ race s.
Proof. exact counters_race_free_mid. Qed.
Print Assumptions C17_counters_race_free.

Theorem C17_counters_race_free_after_join : forall s, reachable final_system s -> ~ race s.
Proof. exact counters_race_free_final. Qed.
Print Assumptions C17_counters_race_free_after_join.

Theorem C17_counters_race_free_before_start : forall s, reachable [scan_init] s -> ~ race s.
Proof. exact counters_race_free_init. Qed.
Print Assumptions C17_counters_race_free_before_start.

(* atomic increments never lose an update, under any schedule *)
Theorem C17_atomic_counter_exact : forall sched ts x ts' x',
  all_atomic ts -> crun ts x sched = (ts', x') ->
  x' + remaining ts' = x + remaining ts /\ all_atomic ts'.
Proof. exact atomic_counter_exact. Qed.
Print Assumptions C17_atomic_counter_exact.

(* witnesses kept from the defect (repaired in /repo): x++ from two matchers
   loses an update; the pre-repair summary is rejected and races *)
Theorem C17_counter_lost_update_refuted :
  snd (crun [(0, [CLoad; CStoreInc]); (0, [CLoad; CStoreInc])] 0 [0; 1; 0; 1]%nat) = 1
  /\ remaining (fst (crun [(0, [CLoad; CStoreInc]); (0, [CLoad; CStoreInc])] 0 [0; 1; 0; 1]%nat)) = 0.
Proof. exact counter_lost_update_refuted. Qed.
Print Assumptions C17_counter_lost_update_refuted.

Theorem C17_unfixed_matchers_race :
  disc_from pol_mid [] matcher_before_fix = false /\
  exists s, reachable [matcher_before_fix; matcher_before_fix] s /\ race s.
Proof. exact (conj unfixed_summary_rejected unfixed_matchers_race). Qed.
Print Assumptions C17_unfixed_matchers_race.

(* non-vacuity: a concrete run of the pipeline reaches a terminal state *)
Theorem C17_pipe_nonvacuous :
  exists s, preach 2 2 2 (pinit 2 5 8 2 [[APrefix 1]]) s /\ terminal 2 2 2 s /\
            delivered s = [(7, 7); (6, 6); (5, 5)].
Proof. exact pipe_nonvacuous. Qed.
Print Assumptions C17_pipe_nonvacuous.
