(* C20 — Permissive parsing is a conservative extension of strict parsing.
   Property theorems only; each is closed by [exact] of a lemma from
   proof/C20Proofs.v and followed by Print Assumptions. *)
From Coq Require Import List NArith ZArith Bool Arith String.
From Verif Require Import Harness.
From VerifModel Require Import C20 C20Shapes.
From VerifGen Require Import C20Sites_gen.
From VerifProof Require Import C20Proofs.
Import ListNotations.

(* (1) the asn1 decoder: for every field-parameter set, every target type of the
   universe (all nesting depths) and every input, a strict-mode success of
   parseField is reproduced by permissive mode with the same value and the same
   remaining bytes *)
Theorem C20_parse_field_perm_conservative : forall p t bs r,
  parse_field false p t bs = Some r -> parse_field true p t bs = Some r.
Proof. exact perm_conservative. Qed.
Print Assumptions C20_parse_field_perm_conservative.

(* … and the same for Unmarshal (value, number of bytes left over) *)
Theorem C20_unmarshal_perm_conservative : forall p t bs v n,
  unmarshal false p t bs = Some (v, n) -> unmarshal true p t bs = Some (v, n).
Proof. exact unmarshal_perm_conservative. Qed.
Print Assumptions C20_unmarshal_perm_conservative.

(* non-vacuity: permissive mode accepts strictly more *)
Theorem C20_perm_accepts_more :
  unmarshal false no_params (TInt false) [2; 129; 1; 5]%N = None /\
  unmarshal true no_params (TInt false) [2; 129; 1; 5]%N = Some (VInt 5, 0%N).
Proof. exact perm_accepts_more. Qed.
Print Assumptions C20_perm_accepts_more.

(* (2) a program all of whose mode tests have one of the conservative shapes and
   all of whose mode-dependent calls reject in strict mode when the callee
   fails (callees being conservative themselves) reproduces every non-rejecting
   strict-mode outcome in permissive mode *)
Theorem C20_conservative_shapes_monotone : forall (S : Type) (st : stmt S),
  conservative st = true -> callees_ok st ->
  forall s o, exec false st s = o -> o <> ORej -> exec true st s = o.
Proof. exact conservative_shapes_monotone. Qed.
Print Assumptions C20_conservative_shapes_monotone.

(* each named shape, with arbitrary contents, is an instance *)
Theorem C20_conservative_shape_sound : forall (S : Type) (sh : pshape) (c : S -> bool) (a r : stmt S),
  pshape_conservative sh = true -> callees_ok a ->
  forall s o, exec false (shape_stmt sh c a r) s = o -> o <> ORej -> exec true (shape_stmt sh c a r) s = o.
Proof. exact conservative_shape_sound. Qed.
Print Assumptions C20_conservative_shape_sound.

(* finite checks over the site list regenerated from the tree under test:
   every syntactic use of AllowPermissiveParsing in encoding/asn1 and x509 has
   a conservative shape, and the list has as many entries as there are
   identifier occurrences *)
Theorem C20_all_psites_conservative :
  forallb (fun x => pshape_conservative (psite_shape x)) psites = true.
Proof. exact all_psites_conservative. Qed.
Print Assumptions C20_all_psites_conservative.

Theorem C20_psites_complete : N.of_nat (List.length psites) = textual_uses.
Proof. exact psites_complete. Qed.
Print Assumptions C20_psites_complete.

(* every call of asn1.Unmarshal* (or of a package function that reaches it) in a
   function reachable from ParseCertificate returns / propagates the error or
   guards it with a conservative P shape — except exactly five calls: the
   alternative decode in QCStatements.Parse and the two recorded findings.
   FULL STATEMENT WANTED: no exception.  Not provable on this tree: see
   known_findings.txt (x509-perm-differs-selfsigned, x509-perm-differs-sigalg-params). *)
Theorem C20_calls_handled_partial :
  forallb (fun x => cshape_conservative (call_shape x) || is_known_swallow x) calls = true
  /\ List.length (filter (fun x => negb (cshape_conservative (call_shape x))) calls) = 5%nat.
Proof. exact calls_handled_except_known. Qed.
Print Assumptions C20_calls_handled_partial.

(* (3) the skeleton of x509.parseCertificate (three propagating decodes, then the
   extension loop in which every handler has the Guarded shape): a strict-mode
   success is reproduced by permissive mode with the same result, whatever the
   handlers are, provided each decode is itself conservative (which (1) proves
   for asn1.Unmarshal) *)
Theorem C20_cert_perm_conservative : forall (S : Type) (pubkey subject issuer : callee S) (next : S -> S)
    (n_ext sel : S -> nat) (handlers : list (callee S)),
  callee_conservative pubkey -> callee_conservative subject -> callee_conservative issuer ->
  Forall callee_conservative handlers ->
  forall s s',
    exec false (parse_certificate_skeleton pubkey subject issuer next n_ext sel handlers) s = ORet s' ->
    exec true (parse_certificate_skeleton pubkey subject issuer next n_ext sel handlers) s = ORet s'.
Proof. exact cert_perm_conservative. Qed.
Print Assumptions C20_cert_perm_conservative.

(* a handler that drops the error of a mode-dependent decode is not conservative
   (KeyUsage / BasicConstraints before the repair; the two recorded findings) *)
Theorem C20_swallow_refuted :
  callee_conservative perm_only_decode /\
  exec false (Seq (swallowing perm_only_decode) Ret) 0%nat = ORet 0%nat /\
  exec true (Seq (swallowing perm_only_decode) Ret) 0%nat = ORet 1%nat.
Proof. exact swallow_refuted. Qed.
Print Assumptions C20_swallow_refuted.

(* … and neither is an unrestricted mode test *)
Theorem C20_unknown_shape_refuted :
  exec false (Seq (IfModeRaw (Eff (fun s => (s + 1)%nat)) Skip) Ret) 0%nat = ORet 0%nat /\
  exec true (Seq (IfModeRaw (Eff (fun s => (s + 1)%nat)) Skip) Ret) 0%nat = ORet 1%nat.
Proof. exact unknown_shape_refuted. Qed.
Print Assumptions C20_unknown_shape_refuted.
