(* C09 — Hostname verification follows the documented matching rules.
   Property theorems only; each is closed by [exact] of a lemma from
   proof/C09Proofs.v and followed by Print Assumptions.
   [ip_of] stands for net.ParseIP (trusted stdlib): it is universally quantified. *)
From Coq Require Import List NArith Bool Arith.
From Verif Require Import Harness.
From VerifModel Require Import C09.
From VerifProof Require Import C09Proofs.
Import ListNotations.
Local Open Scope N_scope.

(* VerifyHostname accepts exactly when: the (unbracketed) host is an IP literal equal to an
   IP SAN; or it is not an IP literal and matches a DNS SAN case-insensitively (certificate has
   a SAN extension) / the common name (no SAN extension). *)
Theorem C09_verify_spec : forall ip_of c h,
  verify_hostname ip_of c h = true <->
  match ip_of (unbracket h) with
  | Some ip => exists s, In s (ips c) /\ ip_equal ip s = true
  | None =>
      if has_san c
      then exists d, In d (dns c) /\ name_matches (lower_ascii d) (lower_ascii h)
      else name_matches (lower_ascii (cn c)) (lower_ascii h)
  end.
Proof. exact verify_spec. Qed.
Print Assumptions C09_verify_spec.

(* the matcher: one trailing dot ignored on each side, neither side empty, same number of
   labels, every pattern label is "*" or equal to the host label *)
Theorem C09_match_spec : forall p h,
  match_hostnames p h = true <->
  trim_dot p <> [] /\ trim_dot h <> [] /\
  Forall2 (fun pl hl => pl = [star] \/ pl = hl) (split_dot (trim_dot p)) (split_dot (trim_dot h)).
Proof. exact match_spec. Qed.
Print Assumptions C09_match_spec.

(* on names given as label lists the matcher is exactly the label-by-label relation *)
Theorem C09_match_labels : forall pls hls,
  pls <> [] -> hls <> [] -> Forall nodot pls -> Forall nodot hls ->
  join_dot pls <> [] -> join_dot hls <> [] ->
  ~ ends_with_dot (join_dot pls) -> ~ ends_with_dot (join_dot hls) ->
  (match_hostnames (join_dot pls) (join_dot hls) = true <->
   Forall2 (fun pl hl => pl = [star] \/ pl = hl) pls hls).
Proof. exact match_labels. Qed.
Print Assumptions C09_match_labels.

(* split_dot is the inverse of joining with dots (strings.Split) *)
Theorem C09_split_join : forall ls, ls <> [] -> Forall nodot ls -> split_dot (join_dot ls) = ls.
Proof. exact split_join. Qed.
Print Assumptions C09_split_join.

Theorem C09_join_split : forall s, join_dot (split_dot s) = s /\ Forall nodot (split_dot s).
Proof. exact (fun s => conj (join_split s) (split_nodot s)). Qed.
Print Assumptions C09_join_split.

(* exactly one trailing dot is ignored *)
Theorem C09_trim_dot : forall s,
  trim_dot (s ++ [dot]) = s /\ (~ ends_with_dot s -> trim_dot s = s).
Proof. exact (fun s => conj (trim_dot_snoc s) (trim_dot_id s)). Qed.
Print Assumptions C09_trim_dot.

Theorem C09_trailing_dot_ignored : forall p h,
  (~ ends_with_dot h -> match_hostnames p (h ++ [dot]) = match_hostnames p h) /\
  (~ ends_with_dot p -> match_hostnames (p ++ [dot]) h = match_hostnames p h).
Proof. exact (fun p h => conj (match_trailing_dot_host p h) (match_trailing_dot_pattern p h)). Qed.
Print Assumptions C09_trailing_dot_ignored.

(* toLowerCaseASCII with its rune-iteration shortcut is bytewise ASCII lower-casing on every
   byte string, valid UTF-8 or not *)
Theorem C09_lowercase_bytewise : forall s, go_lower s = map lower_byte s.
Proof. exact go_lower_spec. Qed.
Print Assumptions C09_lowercase_bytewise.

Theorem C09_lower_byte : forall b,
  (65 <= b <= 90 -> lower_byte b = b + 32) /\ (~ (65 <= b <= 90) -> lower_byte b = b).
Proof. exact lower_byte_spec. Qed.
Print Assumptions C09_lower_byte.

(* matching is case-insensitive in host, SAN names and common name *)
Theorem C09_case_insensitive : forall ip_of c c' h h',
  ip_of (unbracket h) = None -> ip_of (unbracket h') = None ->
  lower_ascii h = lower_ascii h' ->
  has_san c = has_san c' ->
  map lower_ascii (dns c) = map lower_ascii (dns c') ->
  lower_ascii (cn c) = lower_ascii (cn c') ->
  verify_hostname ip_of c h = verify_hostname ip_of c' h'.
Proof. exact case_insensitive. Qed.
Print Assumptions C09_case_insensitive.

(* with a SAN extension the common name is irrelevant *)
Theorem C09_san_suppresses_cn : forall ip_of c h cn',
  has_san c = true ->
  verify_hostname ip_of c h =
  verify_hostname ip_of {| ips := ips c; has_san := true; dns := dns c; cn := cn' |} h.
Proof. exact san_suppresses_cn. Qed.
Print Assumptions C09_san_suppresses_cn.

(* without one the DNS name list is irrelevant *)
Theorem C09_cn_only_without_san : forall ip_of c h dns',
  has_san c = false ->
  verify_hostname ip_of c h =
  verify_hostname ip_of {| ips := ips c; has_san := false; dns := dns'; cn := cn c |} h.
Proof. exact cn_used_without_san. Qed.
Print Assumptions C09_cn_only_without_san.

(* an IP literal is matched against IP SANs only; a non-literal never against IP SANs *)
Theorem C09_ip_never_matches_names : forall ip_of c h ip san' dns' cn',
  ip_of (unbracket h) = Some ip ->
  verify_hostname ip_of c h =
  verify_hostname ip_of {| ips := ips c; has_san := san'; dns := dns'; cn := cn' |} h.
Proof. exact ip_never_matches_names. Qed.
Print Assumptions C09_ip_never_matches_names.

Theorem C09_name_never_matches_ips : forall ip_of c h ips',
  ip_of (unbracket h) = None ->
  verify_hostname ip_of c h =
  verify_hostname ip_of {| ips := ips'; has_san := has_san c; dns := dns c; cn := cn c |} h.
Proof. exact name_never_matches_ips. Qed.
Print Assumptions C09_name_never_matches_ips.

(* equality with an IP SAN: same 16 bytes, or the SAN is the 4-byte form of an IPv4-mapped address *)
Theorem C09_ip_equal : forall ip s,
  length ip = 16%nat ->
  (ip_equal ip s = true <->
   (length s = 16%nat /\ s = ip) \/ (length s = 4%nat /\ ip = v4in6 ++ s)).
Proof. exact ip_equal_spec. Qed.
Print Assumptions C09_ip_equal.

(* brackets are removed from "[x]" (x non-empty) and from nothing else that does not start with "[" *)
Theorem C09_unbracket : forall s,
  (s <> [] -> unbracket (lbrack :: s ++ [rbrack]) = s) /\
  (hd 0 s <> lbrack -> unbracket s = s).
Proof. exact (fun s => conj (unbracket_bracketed s) (unbracket_plain s)). Qed.
Print Assumptions C09_unbracket.

(* non-vacuity *)
Theorem C09_examples :
  match_hostnames [42;46;97;46;98] [120;46;97;46;98;46] = true /\
  match_hostnames [42;46;97;46;98] [97;46;98] = false /\
  match_hostnames [42;46;97;46;98] [121;46;120;46;97;46;98] = false /\
  match_hostnames [97;46;42;46;98] [97;46;120;46;98] = true /\
  go_lower [65;195;90;239;191;189] = [97;195;122;239;191;189] /\
  unbracket [91;58;58;49;93] = [58;58;49] /\
  ip_equal ([0;0;0;0;0;0;0;0;0;0;255;255;1;2;3;4]) [1;2;3;4] = true.
Proof. exact examples. Qed.
Print Assumptions C09_examples.
