(* C23 — The RSA fork computes what standard RSA computes.
   Property theorems only.  The model (model/C23.v) is parametrised by the
   modular exponentiation; every theorem below is about the instance
   [Zpow_mod] (square-and-multiply on Z, Zpow_facts).  The last theorem states
   that the word-level instance evaluated by the correspondence run is the same
   function (it is the only one that depends on the Uint63 axioms). *)
From Coq Require Import List ZArith NArith Bool Zpow_facts Znumtheory.
From Verif Require Import Harness.
From VerifModel Require Import C23 C23Fast.
From VerifProof Require Import C23Proofs C23FastProofs.
Import ListNotations.
Open Scope Z_scope.

(* ---- arithmetic facts the private operation rests on ---- *)

(* Garner's recombination as written in decrypt (h = m1-m2; if h<0 {h+=p}; h = h*qinv mod p;
   m = h*q+m2) recovers x from its residues *)
Theorem C23_garner_correct : forall p q qinv x,
  1 < p -> 1 < q -> (qinv * q) mod p = 1 -> 0 <= x < p * q ->
  garner p q qinv (x mod p) (x mod q) = Ok x.
Proof. exact garner_correct. Qed.
Print Assumptions C23_garner_correct.

(* Fermat's little theorem over Z (proved here; it is not in the standard library) *)
Theorem C23_fermat_little : forall p a, prime p -> ~ (p | a) -> a ^ (p - 1) mod p = 1.
Proof. exact fermat_little. Qed.
Print Assumptions C23_fermat_little.

(* RSA is a permutation of Z_n: for every residue, coprime to n or not *)
Theorem C23_rsa_inverse : forall p q e d m,
  prime p -> prime q -> p <> q -> 0 <= e -> 0 <= d ->
  (e * d) mod (p - 1) = 1 -> (e * d) mod (q - 1) = 1 ->
  0 <= m < p * q ->
  ((m ^ e mod (p * q)) ^ d) mod (p * q) = m.
Proof. exact rsa_inverse. Qed.
Print Assumptions C23_rsa_inverse.

(* ---- the private operation ---- *)

(* the CRT branch returns c^d mod n (full statement: no Fermat premise left) *)
Theorem C23_decrypt_crt_correct : forall k p q n e d qinv c,
  valid_crt_key k p q n e d qinv -> 0 <= c < n ->
  decrypt_crt Zpow_mod c p q (pre_dp k) (pre_dq k) (pre_qinv k) = Ok (c ^ d mod n).
Proof. exact decrypt_crt_correct. Qed.
Print Assumptions C23_decrypt_crt_correct.

(* CRT = plain: dropping the precomputed values never changes what decrypt returns
   (bytes, error or panic; any ciphertext; with and without the re-encryption check) *)
Theorem C23_decrypt_crt_eq_plain : forall k p q n e d qinv ct chk,
  valid_crt_key k p q n e d qinv ->
  decrypt Zpow_mod k ct chk = decrypt Zpow_mod (without_precomputation k) ct chk.
Proof. exact decrypt_crt_eq_plain. Qed.
Print Assumptions C23_decrypt_crt_eq_plain.

(* Precompute on a two-prime key that Validate accepts succeeds, switches decrypt to
   the CRT branch, and leaves every result of decrypt unchanged *)
Theorem C23_precompute_preserves_decrypt : forall k p q n e d,
  pN (pub k) = Some n -> pE (pub k) = Some e -> pD k = Some d -> primes k = [p; q] ->
  prime p -> prime q -> p <> q -> n = p * q -> 0 <= e -> 0 <= d ->
  (e * d) mod (p - 1) = 1 -> (e * d) mod (q - 1) = 1 ->
  pre_dp k = None ->
  exists k', precompute k = Ok k' /\ uses_crt k' = true /\
             forall ct chk, decrypt Zpow_mod k' ct chk = decrypt Zpow_mod (without_precomputation k) ct chk.
Proof. exact precompute_preserves_decrypt. Qed.
Print Assumptions C23_precompute_preserves_decrypt.

(* decrypt = RSADP followed by I2OSP(., k); the fault check never rejects a valid key *)
Theorem C23_decrypt_spec : forall k p q n e d qinv ct chk,
  valid_crt_key k p q n e d qinv -> os2ip ct < n ->
  decrypt Zpow_mod k ct chk = Ok (i2osp (Z.to_nat (bytelen n)) (os2ip ct ^ d mod n)).
Proof. exact decrypt_spec. Qed.
Print Assumptions C23_decrypt_spec.

Theorem C23_encrypt_then_decrypt : forall k p q n e d qinv pt chk,
  valid_crt_key k p q n e d qinv -> os2ip pt < n ->
  exists c, encrypt Zpow_mod (pub k) pt = Ok c /\
            decrypt Zpow_mod k c chk = Ok (i2osp (Z.to_nat (bytelen n)) (os2ip pt)).
Proof. exact encrypt_then_decrypt. Qed.
Print Assumptions C23_encrypt_then_decrypt.

(* ---- the public operation and PKCS #1 v1.5 signatures ---- *)

(* encrypt = RSAEP followed by I2OSP(., k): left padding to k = Size() bytes *)
Theorem C23_encrypt_spec : forall k n e pt,
  pN k = Some n -> pE k = Some e -> 0 <= e ->
  encrypt Zpow_mod k pt =
  if n <=? os2ip pt then Err
  else Ok (i2osp (Z.to_nat (bytelen n)) (os2ip pt ^ e mod n)).
Proof. exact encrypt_spec. Qed.
Print Assumptions C23_encrypt_spec.

Theorem C23_left_pad_is_i2osp : forall k c,
  0 <= c -> bytelen c <= k ->
  left_pad k (big_bytes c) = Ok (i2osp (Z.to_nat k) c) /\
  length (i2osp (Z.to_nat k) c) = Z.to_nat k /\
  os2ip (i2osp (Z.to_nat k) c) = c mod 256 ^ Z.of_nat (Z.to_nat k).
Proof. exact left_pad_is_i2osp. Qed.
Print Assumptions C23_left_pad_is_i2osp.

(* verification is exact: VerifyPKCS1v15 accepts iff e >= 2, |sig| = k, sig < n and
   sig^e mod n = OS2IP(EM) for the EMSA-PKCS1-v1_5 encoding EM of (hash, digest).
   This is RFC 8017 8.2.2, which is what crypto/rsa implements for e < 2^31. *)
Theorem C23_verify_pkcs1v15_exact : forall k n e hash hashed sig,
  pN k = Some n -> pE k = Some e -> bytes_ok hashed ->
  (verify_pkcs1v15 Zpow_mod k hash hashed sig = Ok tt <->
   2 <= e /\ zlen sig = bytelen n /\ os2ip sig < n /\
   exists em, construct_em k hash hashed = Ok em /\ os2ip sig ^ e mod n = os2ip em).
Proof. exact verify_pkcs1v15_exact. Qed.
Print Assumptions C23_verify_pkcs1v15_exact.

Theorem C23_sign_then_verify : forall k p q n e d qinv h hashed em,
  valid_crt_key k p q n e d qinv -> 2 <= e -> bytes_ok hashed ->
  construct_em (pub k) h hashed = Ok em ->
  exists s, sign_pkcs1v15 Zpow_mod k h hashed = Ok s /\
            verify_pkcs1v15 Zpow_mod (pub k) h hashed s = Ok tt.
Proof. exact sign_then_verify. Qed.
Print Assumptions C23_sign_then_verify.

(* ---- malformed public keys: an error, never a panic ---- *)

Theorem C23_verify_no_panic : forall k h d s,
  known_hash h -> verify_pkcs1v15 Zpow_mod k h d s <> Panic.
Proof. exact verify_pkcs1v15_no_panic. Qed.
Print Assumptions C23_verify_no_panic.

Theorem C23_malformed_pub_is_error : forall k,
  ~ well_formed_pub k ->
  (forall h d s, verify_pkcs1v15 Zpow_mod k h d s = Err) /\
  (forall r m, encrypt_pkcs1v15 Zpow_mod k r m = Err).
Proof. exact malformed_pub_is_error. Qed.
Print Assumptions C23_malformed_pub_is_error.

Theorem C23_malformed_pub_private_ops_error : forall k,
  ~ well_formed_pub (pub k) ->
  (forall h d, known_hash h -> sign_pkcs1v15 Zpow_mod k h d = Err) /\
  (forall ct, decrypt_pkcs1v15 Zpow_mod k ct = Err).
Proof. exact malformed_pub_private_ops_error. Qed.
Print Assumptions C23_malformed_pub_private_ops_error.

Theorem C23_encrypt_pkcs1v15_no_panic : forall k r m, encrypt_pkcs1v15 Zpow_mod k r m <> Panic.
Proof. exact encrypt_pkcs1v15_no_panic. Qed.
Print Assumptions C23_encrypt_pkcs1v15_no_panic.

(* the code before commits 19ff9dc / bd00636 (no checkPub in the verifiers and signers):
   nil N, nil E and negative E panic — DESIGN section 8 row 8 *)
Theorem C23_unchecked_verify_refuted :
  verify_pkcs1v15_unchecked Zpow_mod (mk_pub None (Some 65537)) 5%N [] [] = Panic /\
  verify_pkcs1v15_unchecked Zpow_mod (mk_pub (Some 143) None) 0%N [] [0%N] = Panic /\
  verify_pkcs1v15_unchecked Zpow_mod (mk_pub (Some 143) (Some (-3))) 0%N [] [0%N] = Panic.
Proof. exact unchecked_verify_refuted. Qed.
Print Assumptions C23_unchecked_verify_refuted.

(* non-vacuity: a toy key satisfies valid_crt_key (p = 11, q = 13, e = 7, d = 103) *)
Theorem C23_valid_key_nonvacuous :
  valid_crt_key (mk_priv (Some 143) (Some 7) (Some 103) [11; 13] (Some 3) (Some 7) (Some 6))
                11 13 143 7 103 6.
Proof. exact toy_key_valid. Qed.
Print Assumptions C23_valid_key_nonvacuous.

(* ---- what the correspondence run evaluates ---- *)
Theorem C23_fast_checks_are_model_checks :
  (forall c, C23Fast.check_bigcase c = C23.check_bigcase Zpow_mod c) /\
  (forall c, C23Fast.check_pubcase c = C23.check_pubcase Zpow_mod c) /\
  (forall c, C23Fast.check_privcase c = C23.check_privcase Zpow_mod c).
Proof. exact fast_checks_are_model_checks. Qed.
Print Assumptions C23_fast_checks_are_model_checks.
