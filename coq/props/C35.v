(* C35 — The LRU client session cache behaves as a bounded LRU map.
   Property theorems only; each is closed by [exact] of a lemma from
   proof/C35Proofs.v and followed by Print Assumptions. *)
From Coq Require Import List NArith Bool Arith.
From Verif Require Import Harness.
From VerifModel Require Import C35.
From VerifProof Require Import C35Proofs.
Import ListNotations.

(* every operation history from a fresh cache is a run of the abstract bounded
   LRU map [aput]/[aget] (recency list, truncate to capacity) *)
Theorem C35_refines_abstract_lru : forall n ops,
  run (new_cache n) ops = arun (cap (new_cache n)) [] ops.
Proof. exact lru_refines_abstract. Qed.
Print Assumptions C35_refines_abstract_lru.

Theorem C35_size_le_cap : forall n ops,
  length (q (state_after (new_cache n) ops)) <= cap (new_cache n).
Proof. exact size_le_cap. Qed.
Print Assumptions C35_size_le_cap.

Theorem C35_keys_nodup : forall n ops,
  NoDup (map fst (q (state_after (new_cache n) ops))).
Proof. exact keys_nodup. Qed.
Print Assumptions C35_keys_nodup.

Theorem C35_get_after_put : forall c k s, fst (get k (put k (Some s) c)) = Some s.
Proof. exact get_after_put. Qed.
Print Assumptions C35_get_after_put.

Theorem C35_get_returns_latest_live : forall n ops k s,
  lookup k (q (state_after (new_cache n) ops)) = Some s ->
  last_put k (rev ops) = Some (Some s).
Proof. exact get_returns_latest_live. Qed.
Print Assumptions C35_get_returns_latest_live.

Theorem C35_evicts_least_recent_first : forall c k s front kl vl,
  Inv c -> lookup k (q c) = None -> length (q c) = cap c ->
  q c = front ++ [(kl, vl)] ->
  q (put k (Some s) c) = (k, s) :: front
  /\ lookup kl (q (put k (Some s) c)) = None
  /\ forall k', k' <> k -> k' <> kl ->
       lookup k' (q (put k (Some s) c)) = lookup k' (q c).
Proof. exact evicts_least_recent_first. Qed.
Print Assumptions C35_evicts_least_recent_first.

Theorem C35_get_refreshes : forall c k s,
  lookup k (q c) = Some s ->
  get k c = (Some s, {| cap := cap c; q := (k, s) :: others k (q c) |}).
Proof. exact get_refreshes. Qed.
Print Assumptions C35_get_refreshes.

Theorem C35_put_nil_removes_only : forall c k,
  cap (put k None c) = cap c /\
  q (put k None c) = others k (q c) /\
  lookup k (q (put k None c)) = None /\
  forall k', k' <> k -> lookup k' (q (put k None c)) = lookup k' (q c).
Proof. exact put_nil_removes_only. Qed.
Print Assumptions C35_put_nil_removes_only.

(* the hypotheses of the eviction theorem are met by a reachable state *)
Theorem C35_nonvacuous :
  let c := state_after (new_cache 2) [Put 1 (Some 10); Put 2 (Some 20); Get 1]%N in
  Inv c /\ lookup 3%N (q c) = None /\ length (q c) = cap c /\
  q c = [(1, 10)]%N ++ [(2, 20)]%N /\
  q (put 3%N (Some 30%N) c) = [(3, 30); (1, 10)]%N.
Proof. exact inv_nonvacuous. Qed.
Print Assumptions C35_nonvacuous.
