(* C03 — Signature verification accepts exactly the genuine signatures.
   Property theorems only.  The signatureAlgorithmDetails tables (x509 and the OCSP copy) and
   rsa.hashPrefixes are regenerated from the built code on every run (gen/C03Tables_gen.v); the
   finite theorems below are re-proved over them each time. *)
From Coq Require Import List ZArith NArith Bool Zpow_facts.
From Verif Require Import Harness.
From VerifGen Require Import C03Tables_gen.
From VerifModel Require Import C23 C03 C03Run C03RunFast.
From VerifProof Require Import C23Proofs C03Proofs C03PssProofs C03FastProofs.
Import ListNotations.
Open Scope N_scope.

(* ---- the decision of CheckSignatureFromKey ----
   accepted iff the algorithm is one the switch maps to an available hash, the key is of the type
   the algorithm's table row names, and the primitive (RSA PKCS #1 v1.5 / PSS with salt = hash
   length / DSA / ECDSA incl. DER decoding / Ed25519) accepts the digest and the signature.
   The hash function and the primitive are parameters (the unforgeability assumption lives there). *)
Theorem C03_check_sig_exact :
  forall (Msg Digest Sig Key : Type) (ktype : Key -> keytype) (hashf : N -> Msg -> Digest)
         (prim : pad -> Key -> N -> Digest -> Sig -> bool) (tbl : list detail) a k m s,
    check_sig Msg Digest Sig Key ktype hashf prim tbl a k m s = ROk <->
    exists h, check_switch a = SwHash h /\
              (h = 0 \/ hash_available h = true) /\
              key_algo (ktype k) = Some (pka_of tbl a) /\
              prim (pad_of_algo a (ktype k)) k h (hashf h m) s = true.
Proof. exact check_sig_exact. Qed.
Print Assumptions C03_check_sig_exact.

(* a key of a type other than the one the claimed algorithm names is never accepted *)
Theorem C03_wrong_key_type_rejected :
  forall (Msg Digest Sig Key : Type) (ktype : Key -> keytype) (hashf : N -> Msg -> Digest)
         (prim : pad -> Key -> N -> Digest -> Sig -> bool) (tbl : list detail) a k m s,
    key_algo (ktype k) <> Some (pka_of tbl a) ->
    check_sig Msg Digest Sig Key ktype hashf prim tbl a k m s <> ROk.
Proof. exact check_sig_wrong_key_type. Qed.
Print Assumptions C03_wrong_key_type_rejected.

(* ---- sign side = verify side, for every API x key type x algorithm (finite domain: 5 APIs,
   10 key types, requested algorithm 0..20; regenerated tables) ---- *)
Theorem C03_sign_verify_agree :
  forall a k req o p h pd,
    In a all_apis -> In k all_keytypes -> In req all_algos ->
    sign_opts x509_details ocsp_details a k req = Some (o, p, h, pd) ->
    let alg := read_algo x509_details ocsp_details a o p in
    check_switch alg = SwHash h /\ (h = 0 \/ hash_available h = true) /\
    key_algo k = Some (pka_of x509_details alg) /\
    key_algo (parsed_key k) = Some (pka_of x509_details alg) /\
    pad_of_algo alg k = pd /\ pad_of_algo alg (parsed_key k) = pd.
Proof. exact sign_verify_agree. Qed.
Print Assumptions C03_sign_verify_agree.

(* objects the library signs itself verify with their own verification path exactly when the
   primitive accepts the signature under the hash and padding the creation side really used *)
Theorem C03_created_object_verifies_iff_primitive_accepts :
  forall (Msg Digest Sig Key : Type) (ktype : Key -> keytype) (hashf : N -> Msg -> Digest)
         (prim : pad -> Key -> N -> Digest -> Sig -> bool) a k req o p h pd key m s,
    In a all_apis -> In k all_keytypes -> In req all_algos ->
    sign_opts x509_details ocsp_details a k req = Some (o, p, h, pd) ->
    (ktype key = k \/ ktype key = parsed_key k) ->
    (check_sig Msg Digest Sig Key ktype hashf prim x509_details
               (read_algo x509_details ocsp_details a o p) key m s = ROk
     <-> prim pd key h (hashf h m) s = true).
Proof. exact created_object_verifies_iff_primitive_accepts. Qed.
Print Assumptions C03_created_object_verifies_iff_primitive_accepts.

(* the switch of CheckSignatureFromKey applies the hash of the algorithm's table row; the OCSP copy of
   the table agrees with the x509 table on every row it has *)
Theorem C03_switch_matches_table :
  forallb (switch_row_ok x509_details) all_algos = true /\
  forallb (fun a => match find_algo ocsp_details a with
                    | Some d => option_eqb (fun x y => (d_hash x =? d_hash y) && (d_pka x =? d_pka y) && oid_eqb (d_oid x) (d_oid y))
                                           (find_algo x509_details a) (Some d)
                    | None => true end) all_algos = true.
Proof. exact switch_matches_table. Qed.
Print Assumptions C03_switch_matches_table.

(* rsa.hashPrefixes as built is the DigestInfo table of the RSA model (C23) *)
Theorem C03_hash_prefixes_match :
  forallb (fun h => option_eqb bytes_eqb (assoc_n rsa_hash_prefixes h) (hash_prefix h)) all_algos = true /\
  forallb (fun kv => fst kv <=? 20) rsa_hash_prefixes = true.
Proof. exact (conj hash_prefixes_match hash_prefixes_keys_small). Qed.
Print Assumptions C03_hash_prefixes_match.

(* ---- structural exactness of the RSA paddings ---- *)

(* PKCS #1 v1.5 (from the RSA model): accepted iff e >= 2, |sig| = k, sig < n, sig^e mod n = OS2IP(EM) *)
Theorem C03_pkcs1v15_exact : forall k n e hash hashed sig,
  pN k = Some n -> pE k = Some e -> bytes_ok hashed ->
  (verify_pkcs1v15 Zpow_mod k hash hashed sig = Ok tt <->
   (2 <= e)%Z /\ zlen sig = bytelen n /\ (os2ip sig < n)%Z /\
   exists em, construct_em k hash hashed = Ok em /\ (os2ip sig ^ e mod n)%Z = os2ip em).
Proof. exact verify_pkcs1v15_exact. Qed.
Print Assumptions C03_pkcs1v15_exact.

(* ... and EM pins the digest *)
Theorem C03_pkcs1v15_digest_pinned : forall k h d d' em,
  h <> 0 -> construct_em k h d = Ok em -> construct_em k h d' = Ok em -> d = d'.
Proof. exact construct_em_digest_injective. Qed.
Print Assumptions C03_pkcs1v15_digest_pinned.

(* PSS: what emsaPSSEncode produces, emsaPSSVerify accepts (explicit salt length, salt = hash length,
   automatic), for any hash function with a fixed non-zero output length *)
Theorem C03_pss_verify_encode :
  forall (Hf : bytes -> bytes) (hLen : nat),
    (forall x, length (Hf x) = hLen) -> (0 < hLen)%nat ->
    forall mHash emBits salt em sLen,
      emsa_pss_encode Hf hLen mHash emBits salt = Ok em ->
      (sLen = zlen salt \/ (sLen = -1 /\ zlen salt = Z.of_nat hLen) \/ sLen = 0)%Z ->
      emsa_pss_verify Hf hLen mHash em emBits sLen = Ok tt.
Proof. exact pss_verify_encode. Qed.
Print Assumptions C03_pss_verify_encode.

(* PSS: whatever emsaPSSVerify accepts is the encoding of some salt of the required length —
   acceptance pins every byte of EM *)
Theorem C03_pss_verify_sound :
  forall (Hf : bytes -> bytes) (hLen : nat),
    (forall x, length (Hf x) = hLen) -> (0 < hLen)%nat ->
    forall mHash em emBits sLen,
      bytes_ok em ->
      emsa_pss_verify Hf hLen mHash em emBits sLen = Ok tt ->
      exists salt, emsa_pss_encode Hf hLen mHash emBits salt = Ok em /\
                   (sLen = 0 \/ zlen salt = if sLen =? -1 then Z.of_nat hLen else sLen)%Z.
Proof. exact pss_verify_sound. Qed.
Print Assumptions C03_pss_verify_sound.

(* dsa.Verify accepts only 0 < r < q and 0 < s < q *)
Theorem C03_dsa_range : forall pm p q g y h r s,
  dsa_verify pm p q g y h r s = true -> (0 < r < q)%Z /\ (0 < s < q)%Z.
Proof. exact dsa_range. Qed.
Print Assumptions C03_dsa_range.

(* ---- the code before the repairs (DESIGN section 8 rows 9 and 10) ---- *)
Theorem C03_csr_pss_unfixed_refuted :
  agree_cell (fun _ => csr_pss_unfixed x509_details) x509_details ocsp_details ACSR KRSA 13 = false.
Proof. exact csr_pss_unfixed_disagrees. Qed.
Print Assumptions C03_csr_pss_unfixed_refuted.

Theorem C03_check_sig_unfixed_refuted :
  check_sig_unfixed N (N * N) (option sigdesc) (keytype * N) fst (fun h m => (h, m)) ideal_prim
                    10 (KRSA, 1) 7 (Some (PadPKCS1, 1, 5, 7)) = ROk /\
  check_sig N (N * N) (option sigdesc) (keytype * N) fst (fun h m => (h, m)) ideal_prim x509_details
            10 (KRSA, 1) 7 (Some (PadPKCS1, 1, 5, 7)) = RMismatch.
Proof. exact check_sig_unfixed_accepts_mismatch. Qed.
Print Assumptions C03_check_sig_unfixed_refuted.

(* ---- what the correspondence run evaluates for dsa.Verify is the model's own check ---- *)
Theorem C03_dsa_fast_check_is_model_check :
  forall c, C03RunFast.check_dsacase c = C03.check_dsacase Zpow_mod c.
Proof. exact dsa_fast_check_is_model_check. Qed.
Print Assumptions C03_dsa_fast_check_is_model_check.
