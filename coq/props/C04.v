(* C04 — Certificate issuance round-trips through parsing.  Property theorems only. *)
From Coq Require Import List NArith ZArith Bool Arith.
From Verif Require Import Harness DerTree DerPrim.
From VerifModel Require Import C04.
From VerifProof Require Import C04Proofs.
Import ListNotations.

Theorem C04_ski_roundtrip : forall id, read_ski (build_ski id) = Some id.
Proof. exact ski_roundtrip. Qed.
Print Assumptions C04_ski_roundtrip.
