(* C04 — Certificate issuance round-trips through parsing.
   Property theorems only; each is closed by [exact] of a lemma from
   lib/DerTree.v, lib/DerPrim.v, proof/C04Proofs.v or proof/C04Top.v.

   Model: model/C04.v — build_tbs / build_extensions mirror CreateCertificate /
   buildExtensions on DER value trees, parse_cert / read_tbs / step_ext mirror
   ParseCertificate / parseCertificate.  [via read d] is "asn1.Unmarshal the
   extension value emit d, then run the extension's branch of the parser". *)
From Coq Require Import List NArith ZArith Bool Arith Permutation.
From Verif Require Import Harness DerTree DerPrim.
From VerifGen Require Import C04_gen.
From VerifModel Require Import C04.
From VerifProof Require Import C04Proofs C04Top.
Import ListNotations.
Local Open Scope N_scope.

(* ---- DER layer ---- *)
Theorem C04_der_parse_emit : forall d rest, wfb d = true -> parse (emit d ++ rest) = Some (d, rest).
Proof. exact parse_emit. Qed.
Print Assumptions C04_der_parse_emit.

Theorem C04_der_parse_wf : forall bs d rest, parse bs = Some (d, rest) -> wfb d = true.
Proof. exact parse_wf. Qed.
Print Assumptions C04_der_parse_wf.

Theorem C04_integer_roundtrip : forall z, dec_int (enc_int z) = Some z.
Proof. exact dec_enc_int. Qed.
Print Assumptions C04_integer_roundtrip.

Theorem C04_oid_roundtrip : forall o bs, wf_oid o = true -> enc_oid o = Some bs -> dec_oid bs = Some o.
Proof. exact dec_enc_oid. Qed.
Print Assumptions C04_oid_roundtrip.

(* validity to the second, UTCTime inside 1950..2049 and GeneralizedTime outside *)
Theorem C04_time_roundtrip : forall c tag bs,
  valid_civil c = true -> enc_time c = Some (tag, bs) -> dec_time tag bs = Some c.
Proof. exact dec_enc_time. Qed.
Print Assumptions C04_time_roundtrip.

(* ---- one theorem per extension ---- *)
Theorem C04_ku_roundtrip : forall ku, 0 < ku < 512 -> via read_ku (build_ku ku) = Some ku.
Proof. exact ku_roundtrip. Qed.
Print Assumptions C04_ku_roundtrip.

Theorem C04_eku_roundtrip : forall ekus unknown d,
  build_eku ekus unknown = Some d ->
  forallb wf_oid unknown = true ->
  (forall o, In o unknown -> eku_of_oid o = None) ->
  via read_eku d = Some (ekus, unknown).
Proof. exact eku_roundtrip. Qed.
Print Assumptions C04_eku_roundtrip.

(* every constant the builder knows is read back as the same constant
   (finite: the regenerated tables) *)
Theorem C04_eku_tables_agree : forall e o, eku_oid e = Some o -> wf_oid o = true /\ eku_of_oid o = Some e.
Proof. exact eku_oid_spec. Qed.
Print Assumptions C04_eku_tables_agree.

Theorem C04_bc_roundtrip : forall isca mpl zero,
  (-1 <= mpl < 2 ^ 55)%Z ->
  via read_bc (build_bc isca mpl zero) = Some (isca, eff_pathlen mpl zero).
Proof. exact bc_roundtrip. Qed.
Print Assumptions C04_bc_roundtrip.

(* MaxPathLen 0 without MaxPathLenZero means "no limit" (-1); with it, 0 *)
Theorem C04_bc_pathlen_cases : forall mpl zero,
  eff_pathlen mpl zero = if (mpl =? 0)%Z then (if zero then 0%Z else (-1)%Z) else mpl.
Proof. exact eff_pathlen_cases. Qed.
Print Assumptions C04_bc_pathlen_cases.

Theorem C04_ski_roundtrip : forall id, via read_ski (build_ski id) = Some id.
Proof. exact ski_roundtrip. Qed.
Print Assumptions C04_ski_roundtrip.

Theorem C04_aki_roundtrip : forall id, via read_aki (build_aki id) = Some id.
Proof. exact aki_roundtrip. Qed.
Print Assumptions C04_aki_roundtrip.

Theorem C04_aia_roundtrip : forall ocsp issuers d,
  build_aia ocsp issuers = Some d -> via read_aia d = Some (ocsp, issuers).
Proof. exact aia_roundtrip. Qed.
Print Assumptions C04_aia_roundtrip.

Theorem C04_san_roundtrip : forall dns emails ips,
  forallb ip_len_ok ips = true ->
  via read_san (build_san dns emails ips) = Some (dns, emails, map san_ip ips).
Proof. exact san_roundtrip. Qed.
Print Assumptions C04_san_roundtrip.

(* an IPv4 address comes back in 4 bytes whichever form the template held *)
Theorem C04_san_ip4_in_16 : forall a b c d,
  san_ip [a; b; c; d] = [a; b; c; d] /\ san_ip (v4_in_v6_prefix ++ [a; b; c; d]) = [a; b; c; d].
Proof. exact san_ip_v4. Qed.
Print Assumptions C04_san_ip4_in_16.

Theorem C04_policies_roundtrip : forall ps d,
  build_policies ps = Some d -> forallb wf_oid ps = true -> via read_policies d = Some ps.
Proof. exact policies_roundtrip. Qed.
Print Assumptions C04_policies_roundtrip.

Theorem C04_crldp_roundtrip : forall dps, via read_crldp (build_crldp dps) = Some dps.
Proof. exact crldp_roundtrip. Qed.
Print Assumptions C04_crldp_roundtrip.

(* names: every RDN comes back as a permutation of itself (DER SET OF is
   sorted), single-valued RDNs unchanged *)
Theorem C04_name_roundtrip : forall n d, wf_name n = true -> build_name n = Some d ->
  exists n', read_name d = Some n' /\ name_rel n n' /\ wfb d = true.
Proof. exact name_roundtrip. Qed.
Print Assumptions C04_name_roundtrip.

Theorem C04_name_single_valued : forall n n',
  name_rel n n' -> Forall (fun r => (length r <= 1)%nat) n -> n' = n.
Proof. exact name_rel_singletons. Qed.
Print Assumptions C04_name_single_valued.

Theorem C04_nc_roundtrip : forall perm excl d,
  wf_ncset perm = true -> wf_ncset excl = true -> build_nc perm excl = Some d ->
  exists p' e', via read_nc d = Some (p', e') /\ ncset_rel perm p' /\ ncset_rel excl e'.
Proof. exact nc_roundtrip. Qed.
Print Assumptions C04_nc_roundtrip.

(* defect 20, repaired: an IPv4 range with a 16-byte address and a 4-byte mask *)
Theorem C04_nc_ip4_in_16 : forall a b c d mask, length mask = 4%nat ->
  norm_ipnet (v4_in_v6_prefix ++ [a; b; c; d], mask) = ([a; b; c; d], mask) /\
  norm_ipnet ([a; b; c; d], mask) = ([a; b; c; d], mask).
Proof. exact norm_ipnet_v4_in_16. Qed.
Print Assumptions C04_nc_ip4_in_16.

Theorem C04_nc_ip_same_length : forall ip mask,
  length ip = length mask -> (length ip = 4%nat \/ length ip = 16%nat) ->
  norm_ipnet (ip, mask) = (ip, mask) /\ ipnet_ok (ip, mask) = true.
Proof. exact norm_ipnet_same_len. Qed.
Print Assumptions C04_nc_ip_same_length.

(* the witness of defect 20 on the faithful model of the old code *)
Theorem C04_defect20_witness :
  let n := (v4_in_v6_prefix ++ [10; 0; 0; 0], [255; 0; 0; 0]) in
  read_subtrees [subtree (Prim 2 7 (old_ip_and_mask n))] = None /\
  read_subtrees [subtree (Prim 2 7 (ip_and_mask n))] = Some (ncset_add_ip ncset_nil ([10; 0; 0; 0], [255; 0; 0; 0])).
Proof. exact defect20_witness. Qed.
Print Assumptions C04_defect20_witness.

(* ---- signature algorithm: what the parser reports is what was requested ---- *)
Theorem C04_sigalg_requested : forall k req alg,
  req <> 0 -> signing_alg k req = Some alg -> sigalg_of alg = req.
Proof. exact sigalg_requested_roundtrip. Qed.
Print Assumptions C04_sigalg_requested.

Theorem C04_sigalg_default : forall k alg, signing_alg k 0 = Some alg -> sigalg_of alg = default_sigalg k.
Proof. exact sigalg_default_roundtrip. Qed.
Print Assumptions C04_sigalg_default.

(* ---- extra extensions ---- *)
(* a generated extension is dropped when an extra extension carries its OID;
   the extra extensions follow, verbatim *)
Theorem C04_extra_overrides : forall t l, build_extensions t = Some l ->
  exists g, l = g ++ t_extra t /\
            (forall e, In e g -> oid_in_exts (ext_id e) (t_extra t) = false /\ In (ext_id e) known_oids).
Proof. exact extra_overrides. Qed.
Print Assumptions C04_extra_overrides.

(* ---- the composed statement ---- *)
Theorem C04_parse_build_fields : forall i tbs a,
  wf_input i -> build_tbs i = Some (tbs, a) ->
  let t := i_t i in
  exists f,
    read_tbs tbs = Some f /\ wfb tbs = true /\ wfb a = true /\
    f_version f = 3%Z /\
    f_serial f = t_serial t /\
    f_sigalg f = expected_sigalg (i_key i) (t_sigalg t) /\
    name_rel (i_issuer i) (f_issuer f) /\ name_rel (t_subject t) (f_subject f) /\
    f_nb f = t_nb t /\ f_na f = t_na t /\
    f_ku f = t_ku t /\ f_eku f = t_eku t /\ f_ueku f = t_ueku t /\
    f_bcvalid f = t_bcvalid t /\
    (t_bcvalid t = true ->
       f_isca f = t_isca t /\ f_mpl f = eff_pathlen (t_mpl t) (t_mplzero t) /\
       f_mplzero f = (eff_pathlen (t_mpl t) (t_mplzero t) =? 0)%Z) /\
    f_ski f = t_ski t /\ f_aki f = t_aki t /\
    f_ocsp f = t_ocsp t /\ f_issuing f = t_issuing t /\
    f_dns f = t_dns t /\ f_emails f = t_emails t /\ f_ips f = map san_ip (t_ips t) /\
    f_policies f = t_policies t /\
    ncset_rel (t_perm t) (f_perm f) /\ ncset_rel (t_excl t) (f_excl f) /\
    (nc_empty (t_perm t) && nc_empty (t_excl t) = false -> f_nc_crit f = t_nc_crit t) /\
    f_crldp f = t_crldp t /\
    exists g, f_exts f = g ++ t_extra t /\ Forall (fun e => In (ext_id e) known_oids) g.
Proof. exact parse_build_fields. Qed.
Print Assumptions C04_parse_build_fields.

(* ParseCertificate on the bytes CreateCertificate returns = reading the tree built *)
Theorem C04_parse_cert_of_build : forall i sig der,
  wf_input i -> build_cert i sig = Some der ->
  exists tbs a, build_tbs i = Some (tbs, a) /\ parse_cert der = read_tbs tbs.
Proof. exact parse_cert_of_build. Qed.
Print Assumptions C04_parse_cert_of_build.

(* the verifier is handed the algorithm the signer used; the signature scheme's
   own correctness is the premise [sign_verify] *)
Theorem C04_issued_sig_verifies :
  forall (sign : keykind -> N -> bytes -> bytes) (verify : keykind -> N -> bytes -> bytes -> bool),
  (forall k alg msg, verify k alg msg (sign k alg msg) = true) ->
  forall i tbs a f,
    wf_input i -> build_tbs i = Some (tbs, a) -> read_tbs tbs = Some f ->
    verify (i_key i) (f_sigalg f) (emit tbs)
           (sign (i_key i) (expected_sigalg (i_key i) (t_sigalg (i_t i))) (emit tbs)) = true.
Proof. exact issued_sig_verifies. Qed.
Print Assumptions C04_issued_sig_verifies.

(* ---- non-vacuity ---- *)
Theorem C04_nonvacuous_domain : wf_input ex_input.
Proof. exact ex_wf. Qed.
Print Assumptions C04_nonvacuous_domain.

Theorem C04_nonvacuous_builds : ex_check = true.
Proof. exact ex_builds. Qed.
Print Assumptions C04_nonvacuous_builds.
