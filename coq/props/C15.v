(* C15 — Browser revocation sets parse faithfully and decide membership exactly.
   Property theorems only; each is closed by [exact] of a lemma from
   proof/C15Proofs.v and followed by Print Assumptions.

   [json] (the JSON decoding of the CRLSet header), [pc] (x509.ParseCertificate
   projected to issuer string and serial) and the per-record decoding of OneCRL
   fields are arbitrary functions: the statements hold for every such primitive. *)
From Coq Require Import List NArith ZArith Bool Arith.
From Verif Require Import Harness Wire16.
From VerifModel Require Import C15.
From VerifProof Require Import C15Proofs.
Import ListNotations.
Open Scope N_scope.

(* ---- Google CRLSet ---- *)
(* a well-formed CRLSet (LE16 header length, header, then per issuer: 32-byte hash,
   LE32 count, (length byte, big-endian serial)* ) parses to the header fields and
   the issuer lists it encodes *)
Theorem C15_crlset_parse_encode : forall json hdr h issuers,
  json hdr = Some h -> N.of_nat (length hdr) < 65536 -> Forall wf_issuer issuers ->
  parse_crlset json (encode_crlset hdr issuers) =
  Some {| cs_sequence := h_sequence h; cs_numparents := h_numparents h; cs_blocked := h_blocked h;
          cs_issuers := fold_left issuer_step issuers [] |}.
Proof. exact crlset_parse_encode. Qed.
Print Assumptions C15_crlset_parse_encode.

(* and conversely: whatever google.Parse accepts is the encoding of what it returns
   (no other byte string parses to a set) *)
Theorem C15_crlset_parse_sound : forall json input s,
  bytes_ok input -> parse_crlset json input = Some s ->
  exists hdr h issuers,
    json hdr = Some h /\ N.of_nat (length hdr) < 65536 /\ Forall wf_issuer issuers /\
    input = encode_crlset hdr issuers /\
    s = {| cs_sequence := h_sequence h; cs_numparents := h_numparents h; cs_blocked := h_blocked h;
           cs_issuers := fold_left issuer_step issuers [] |}.
Proof. exact crlset_parse_sound. Qed.
Print Assumptions C15_crlset_parse_sound.

(* ... where the list of an issuer is the one of its last occurrence in the file
   (issuers are distinct in a real CRLSet; a duplicate replaces the earlier list) *)
Theorem C15_crlset_lookup_last_wins : forall issuers k,
  alookup k (fold_left issuer_step issuers []) =
  match find (fun e => bytes_eqb k (hex_encode (fst e))) (rev issuers) with
  | Some e => Some (map be_decode (snd e))
  | None => None
  end.
Proof. exact crlset_lookup. Qed.
Print Assumptions C15_crlset_lookup_last_wins.

Theorem C15_crlset_check_iff : forall s serial q r,
  check_crlset s serial q = Some r <->
  r = serial /\ (In q (cs_blocked s) \/
                 exists es, alookup q (cs_issuers s) = Some es /\ In serial (map Z.of_N es)).
Proof. exact crlset_check_iff. Qed.
Print Assumptions C15_crlset_check_iff.

(* ---- Microsoft disallowedcert.sst ---- *)
Theorem C15_sst_blobs_encode : forall es after,
  Forall wf_sst_entry es -> sst_cert_blobs (encode_sst es after) = Some (certs_of es).
Proof. exact sst_blobs_encode. Qed.
Print Assumptions C15_sst_blobs_encode.

Theorem C15_sst_parse_encode : forall pc es after,
  Forall wf_sst_entry es ->
  parse_sst pc (encode_sst es after) =
  match parse_all pc (certs_of es) with
  | Some kvs => Some (fold_left (fun m kv => group_add (fst kv) (snd kv) m) kvs [])
  | None => None
  end.
Proof. exact sst_parse_encode. Qed.
Print Assumptions C15_sst_parse_encode.

(* the issuer's list is its serials in file order *)
Theorem C15_grouped_lookup : forall (kvs : list (bytes * Z)) k,
  alookup k (fold_left (fun m kv => group_add (fst kv) (snd kv) m) kvs []) =
  match values_of k kvs with [] => None | l => Some l end.
Proof. exact grouped_lookup. Qed.
Print Assumptions C15_grouped_lookup.

Theorem C15_sst_revoked_iff : forall pc es after m issuer serial,
  Forall wf_sst_entry es -> parse_sst pc (encode_sst es after) = Some m ->
  (check_listed m issuer serial = Some serial <->
   exists blob, In (ECert blob) es /\ pc blob = Some (issuer, serial)).
Proof. exact sst_revoked_iff. Qed.
Print Assumptions C15_sst_revoked_iff.

Theorem C15_sst_check_iff : forall m issuer serial r,
  check_listed m issuer serial = Some r <->
  r = serial /\ exists es, alookup issuer m = Some es /\ In serial es.
Proof. exact check_listed_iff. Qed.
Print Assumptions C15_sst_check_iff.

(* repaired code: an entry whose certificate does not parse is an error, not a nil dereference *)
Theorem C15_sst_bad_cert_fails : forall pc es after blob,
  Forall wf_sst_entry es -> In (ECert blob) es -> pc blob = None ->
  parse_sst pc (encode_sst es after) = None.
Proof. exact sst_bad_cert_fails. Qed.
Print Assumptions C15_sst_bad_cert_fails.

(* ---- Mozilla OneCRL ---- *)
Theorem C15_onecrl_parse : forall rs c,
  parse_onecrl rs = Some c <->
  exists es, decode_records rs = Some es /\
             c = {| oc_blocked := blocked_of es;
                    oc_issuers := fold_left (fun m kv => group_add (fst kv) (snd kv) m) (listed_of es) [] |}.
Proof. exact parse_onecrl_spec. Qed.
Print Assumptions C15_onecrl_parse.

Theorem C15_onecrl_check_key_iff : forall rs c subj kh issuer serial,
  parse_onecrl rs = Some c ->
  (check_onecrl c subj kh issuer serial = OByKey <->
   exists es, decode_records rs = Some es /\ In (OBlocked subj kh) es).
Proof. exact onecrl_check_key. Qed.
Print Assumptions C15_onecrl_check_key_iff.

Theorem C15_onecrl_check_serial_sound : forall rs c subj kh issuer serial e,
  parse_onecrl rs = Some c ->
  check_onecrl c subj kh issuer serial = OBySerial e ->
  Z.of_N e = serial /\
  exists es, decode_records rs = Some es /\ In (OListed issuer e) es /\ ~ In (OBlocked subj kh) es.
Proof. exact onecrl_check_serial. Qed.
Print Assumptions C15_onecrl_check_serial_sound.

Theorem C15_onecrl_check_serial_complete : forall rs c subj kh issuer e es,
  parse_onecrl rs = Some c -> decode_records rs = Some es ->
  In (OListed issuer e) es -> ~ In (OBlocked subj kh) es ->
  exists e', check_onecrl c subj kh issuer (Z.of_N e) = OBySerial e' /\ e' = e.
Proof. exact onecrl_check_listed. Qed.
Print Assumptions C15_onecrl_check_serial_complete.

Theorem C15_onecrl_bad_record_fails : forall rs r,
  In r rs -> decode_record r = None -> parse_onecrl rs = None.
Proof. exact onecrl_bad_record_fails. Qed.
Print Assumptions C15_onecrl_bad_record_fails.

(* ---- non-vacuity ---- *)
Theorem C15_nonvacuous :
  let hdr := [123; 125] in
  let h := {| h_sequence := 7; h_numparents := 1; h_blocked := [[107]] |} in
  let json := fun b : bytes => if bytes_eqb b hdr then Some h else None in
  let hash := repeat 171 32 in
  let issuers := [(hash, [[1; 2]; []; [0; 3]])] in
  Forall wf_issuer issuers /\
  (exists s, parse_crlset json (encode_crlset hdr issuers) = Some s /\
             alookup (hex_encode hash) (cs_issuers s) = Some [258; 0; 3] /\
             check_crlset s 258 (hex_encode hash) = Some 258%Z /\
             check_crlset s 4 (hex_encode hash) = None /\
             check_crlset s 4 [107] = Some 4%Z) /\
  (let pc := fun b : bytes => match b with [i; s] => Some ([i], Z.of_N s) | _ => None end in
   let es := [EProp 5 1 [9; 9]; ECert [65; 1]; ECert [66; 2]; ECert [65; 3]] in
   Forall wf_sst_entry es /\
   exists m, parse_sst pc (encode_sst es [0; 0; 0; 0; 0; 0; 0; 0]) = Some m /\
             alookup [65] m = Some [1; 3]%Z /\ check_listed m [65] 3 = Some 3%Z /\ check_listed m [66] 3 = None).
Proof. exact nonvacuous. Qed.
Print Assumptions C15_nonvacuous.
