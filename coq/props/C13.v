(* C13 — OCSP messages round-trip and bind to the issuer's signature.
   Property theorems only (closed by [exact]); model: model/C13.v; proofs: proof/C13Proofs.v
   (acceptance), proof/C13RoundTrip.v, proof/C13Request.v (round trips), proof/C13Determ.v.
   [sigok] (the signature check of x509) and [pcert] (x509.ParseCertificate on the embedded
   certificate) are universally quantified: every theorem holds for every such function. *)
From Coq Require Import List NArith ZArith Bool.
From Verif Require Import Harness DerTree DerPrim.
From VerifGen Require Import C13_gen.
From VerifModel Require Import C13.
From VerifProof Require Import C13Proofs C13RoundTrip C13Request C13Determ.
Import ListNotations.
Local Open Scope N_scope.

(* ---- round trips ---- *)
(* every BasicOCSPResponse value (any number of single responses, either responder id form,
   optional version / next update / reason / extensions / certificates) that is built is read
   back as exactly the values it was built from: the reader reduces to the acceptance step *)
Theorem C13_response_roundtrip : forall sigok pcert b cert issuer,
  good_basic b ->
  parse_response_for_cert sigok pcert (build_response b) cert issuer =
  accept_basic sigok pcert (pbasic_of b) cert issuer.
Proof. exact response_roundtrip. Qed.
Print Assumptions C13_response_roundtrip.

(* CreateResponse then ParseResponse: same status, serial, update and revocation times, reason,
   issuer hash, responder name, extensions; the signature checks are the premise *)
Theorem C13_create_response_roundtrip :
  forall sigok pcert tp keykind nh kh responder produced sg der tbs issuer,
  good_template tp -> wfb responder = true -> name_shape responder = true -> good_time produced ->
  create_response tp keykind nh kh responder produced sg = Some (der, tbs) ->
  forall emb,
    (forall alg,
       check_signatures sigok pcert issuer alg tbs sg
         (match tp_cert tp with Some c => [emit c] | None => [] end) = Some emb) ->
  exists r,
    parse_response sigok pcert der issuer = Acc r /\
    p_status r = status_of_template (tp_status tp) /\
    p_revoked r = (status_of_template (tp_status tp) =? 1) /\
    p_serial r = tp_serial tp /\ p_this r = tp_this tp /\ p_next r = tp_next tp /\
    p_revoked_at r = (if tp_status tp =? 1 then tp_revoked_at tp else zero_civil) /\
    p_reason r = (if tp_status tp =? 1 then tp_reason tp else 0%Z) /\
    p_hash r = (if tp_hash tp =? 0 then 3 else tp_hash tp) /\
    p_rname r = emit responder /\ p_rkey r = [] /\ p_exts r = tp_exts tp /\
    p_produced r = produced /\ p_tbs r = tbs /\ p_sig r = sg /\ p_cert r = emb.
Proof. exact create_response_roundtrip. Qed.
Print Assumptions C13_create_response_roundtrip.

(* requests: what Request.Marshal / CreateRequest writes, ParseRequest reads back *)
Theorem C13_request_roundtrip : forall r bs, marshal_request r = Some bs -> parse_request bs = Some r.
Proof. exact request_roundtrip. Qed.
Print Assumptions C13_request_roundtrip.

Theorem C13_create_request_roundtrip : forall hash nh kh serial bs,
  create_request hash nh kh serial = Some bs ->
  parse_request bs = Some {| rq_hash := if hash =? 0 then 3 else hash; rq_namehash := nh;
                             rq_keyhash := kh; rq_serial := serial |}.
Proof. exact create_request_roundtrip. Qed.
Print Assumptions C13_create_request_roundtrip.

(* ---- acceptance binds the signature ---- *)
(* accept with an issuer  =>  the signature that was checked covers exactly the TBSResponseData
   bytes the returned fields were read from, under the issuer key, or under the key of the
   first embedded certificate whose own TBS verifies under the issuer key *)
Theorem C13_accept_binds_signature : forall sigok pcert bs cert ik r,
  parse_response_for_cert sigok pcert bs cert (Some ik) = Acc r ->
  exists rbytes pb,
    unmarshal_struct parse_outer bs = Some (0%Z, ocsp_basic_oid, rbytes) /\
    unmarshal_struct parse_basic rbytes = Some pb /\
    p_tbs r = pb_tbs_raw pb /\ p_sig r = pb_sig pb /\
    p_sigalg r = sigalg_of_oid (pb_sigoid pb) sigalg_oids /\
    ((pb_certs pb = [] /\ p_cert r = None /\ sigok ik (p_sigalg r) (p_tbs r) (p_sig r) = true) \/
     (exists c rest ci, pb_certs pb = c :: rest /\ p_cert r = Some c /\ pcert c = Some ci /\
                        sigok (c_key ci) (p_sigalg r) (p_tbs r) (p_sig r) = true /\
                        sigok ik (c_alg ci) (c_tbs ci) (c_sig ci) = true)).
Proof. exact accept_binds_signature. Qed.
Print Assumptions C13_accept_binds_signature.

(* the TBS bytes are those of the first element of the BasicOCSPResponse, and the rest of the
   structure (responder id, producedAt, single responses) is read from that element alone *)
Theorem C13_tbs_is_first_element : forall rbytes pb,
  unmarshal_struct parse_basic rbytes = Some pb ->
  exists tbsn, wfb tbsn = true /\ pb_tbs_raw pb = emit tbsn /\
               tbs_view tbsn = Some (pb_rid pb, pb_produced pb, pb_singles pb).
Proof. exact unmarshal_basic_tbs. Qed.
Print Assumptions C13_tbs_is_first_element.

(* two accepted inputs with the same TBS bytes carry the same listed fields: changing any of
   them means changing bytes the signature covers *)
Theorem C13_accepted_bytes_determine_fields :
  forall sigok1 pcert1 sigok2 pcert2 bs1 bs2 cert i1 i2 r1 r2,
  parse_response_for_cert sigok1 pcert1 bs1 cert i1 = Acc r1 ->
  parse_response_for_cert sigok2 pcert2 bs2 cert i2 = Acc r2 ->
  p_tbs r1 = p_tbs r2 ->
  p_status r1 = p_status r2 /\ p_serial r1 = p_serial r2 /\ p_revoked r1 = p_revoked r2 /\
  p_produced r1 = p_produced r2 /\ p_this r1 = p_this r2 /\ p_next r1 = p_next r2 /\
  p_revoked_at r1 = p_revoked_at r2 /\ p_reason r1 = p_reason r2 /\ p_hash r1 = p_hash r2 /\
  p_rname r1 = p_rname r2 /\ p_rkey r1 = p_rkey r2 /\ p_exts r1 = p_exts r2.
Proof. exact accepted_bytes_determine_fields. Qed.
Print Assumptions C13_accepted_bytes_determine_fields.

(* tamper rejection, with unforgeability of the issuer key as the premise: whatever is accepted
   under the issuer has TBS bytes the issuer signed, or TBS bytes that verify under a
   certificate whose TBS the issuer signed *)
Theorem C13_tampering_rejected : forall sigok pcert ik (signed_by_issuer : bytes -> Prop) bs cert r,
  (forall alg m s, sigok ik alg m s = true -> signed_by_issuer m) ->
  parse_response_for_cert sigok pcert bs cert (Some ik) = Acc r ->
  signed_by_issuer (p_tbs r) \/
  (exists c ci, p_cert r = Some c /\ pcert c = Some ci /\ signed_by_issuer (c_tbs ci) /\
                sigok (c_key ci) (p_sigalg r) (p_tbs r) (p_sig r) = true).
Proof. exact tampering_rejected. Qed.
Print Assumptions C13_tampering_rejected.

(* ---- first matching serial ---- *)
Theorem C13_first_matching_serial : forall sigok pcert bs s issuer r,
  parse_response_for_cert sigok pcert bs (Some s) issuer = Acc r ->
  exists rbytes pb pre w post,
    unmarshal_struct parse_outer bs = Some (0%Z, ocsp_basic_oid, rbytes) /\
    unmarshal_struct parse_basic rbytes = Some pb /\
    pb_singles pb = pre ++ w :: post /\ w_serial w = s /\
    Forall (fun x => w_serial x <> s) pre /\
    p_serial r = s /\ p_this r = w_this w /\ p_next r = w_next w /\ p_exts r = w_exts w /\
    p_status r = (if w_good w then 0 else if w_unknown w then 2 else 1).
Proof. exact first_matching_serial. Qed.
Print Assumptions C13_first_matching_serial.

Theorem C13_no_cert_single : forall sigok pcert bs issuer r,
  parse_response_for_cert sigok pcert bs None issuer = Acc r ->
  exists rbytes pb w,
    unmarshal_struct parse_basic rbytes = Some pb /\ pb_singles pb = [w] /\ p_serial r = w_serial w.
Proof. exact no_cert_single. Qed.
Print Assumptions C13_no_cert_single.

(* non-vacuity: a concrete template goes through CreateResponse and is accepted *)
Theorem C13_nonvacuous :
  exists der tbs r,
    create_response
      {| tp_status := 1; tp_serial := 77%Z;
         tp_this := {| cy := 2024; cmo := 2; cd := 29; ch := 23; cmi := 59; cs := 59 |};
         tp_next := zero_civil;
         tp_revoked_at := {| cy := 2023; cmo := 7; cd := 1; ch := 0; cmi := 0; cs := 1 |};
         tp_reason := 1%Z; tp_hash := 0; tp_sigalg := 0; tp_exts := []; tp_cert := None |}
      3 [1;2;3] [4;5;6] (Cons 0 16 []) {| cy := 2024; cmo := 3; cd := 1; ch := 0; cmi := 0; cs := 0 |} [9;9]
    = Some (der, tbs) /\
    parse_response (fun _ _ _ _ => true) (fun _ => None) der (Some 1) = Acc r /\
    p_status r = 1 /\ p_serial r = 77%Z /\ p_tbs r = tbs.
Proof. exact nonvacuous. Qed.
Print Assumptions C13_nonvacuous.
