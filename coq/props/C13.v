(* C13 — OCSP messages round-trip and bind to the issuer's signature.
   Property theorems only (closed by [exact]); model: model/C13.v. *)
From Coq Require Import List NArith ZArith Bool.
From Verif Require Import Harness DerTree DerPrim.
From VerifGen Require Import C13_gen.
From VerifModel Require Import C13.
From VerifProof Require Import C13Proofs.
Import ListNotations.

Theorem C13_select_first_matching : forall s l w,
  select_single (Some s) l = Some w ->
  exists pre post, l = pre ++ w :: post /\ w_serial w = s /\
                   Forall (fun x => w_serial x <> s) pre.
Proof. exact select_first_matching. Qed.
Print Assumptions C13_select_first_matching.
