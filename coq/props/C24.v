(* C24 — TLS endpoints interoperate and negotiate correctly.
   Property theorems only; each is closed by [exact] of a lemma from proof/C24Proofs.v and
   followed by Print Assumptions.  [first_sat P l x] (C24Proofs) = x is the first element of l
   that satisfies P; [admissible supp ok id] = id is implemented, passes the server's filter
   and is in the other side's list.  The tables are those regenerated from the built code. *)
From Coq Require Import List NArith Bool Arith Permutation.
From Verif Require Import Harness.
From VerifGen Require Import C24Tables_gen.
From VerifModel Require Import C24.
From VerifProof Require Import C24Proofs.
Import ListNotations.
Open Scope N_scope.

(* ---- version: the highest one both ends support ---- *)
Theorem C24_version_is_max_shared : forall c s v,
  mutual_version s (supported_versions c) = Some v ->
  In v (supported_versions c) /\ In v (supported_versions s) /\
  forall w, In w (supported_versions c) -> In w (supported_versions s) -> w <= v.
Proof. exact version_is_max_shared. Qed.
Print Assumptions C24_version_is_max_shared.

Theorem C24_version_is_max_shared_legacy : forall s m v,
  mutual_version s (supported_versions_from_max m) = Some v ->
  In v (supported_versions s) /\ v <= m /\
  forall w, In w (supported_versions s) -> w <= m -> w <= v.
Proof. exact version_is_max_shared_legacy. Qed.
Print Assumptions C24_version_is_max_shared_legacy.

Theorem C24_version_exists_on_overlap : forall c s,
  (exists w, In w (supported_versions c) /\ In w (supported_versions s)) ->
  exists v, mutual_version s (supported_versions c) = Some v.
Proof. exact version_exists_on_overlap. Qed.
Print Assumptions C24_version_exists_on_overlap.

(* ---- suite: the documented rule of selectCipherSuite ---- *)
Theorem C24_suite_is_first_by_preference : forall ids supp ok id,
  select_cipher_suite ids supp ok = Some id <-> first_sat (admissible supp ok) ids id.
Proof. exact select_cipher_suite_first. Qed.
Print Assumptions C24_suite_is_first_by_preference.

Theorem C24_suite_in_both_and_ok : forall s k vers e client id,
  pick_cipher_suite s k vers e client = Some id ->
  In id client /\ In id (config_cipher_suites s) /\
  (exists row, suite_by_id id = Some row /\ cipher_suite_ok vers k e row = true) /\
  first_sat (admissible (snd (preference_lists s client)) (cipher_suite_ok vers k e))
            (fst (preference_lists s client)) id.
Proof. exact pick_cipher_suite_sound. Qed.
Print Assumptions C24_suite_in_both_and_ok.

(* the effective preference list is a reordering of the preferring side's list (AES-GCM
   de-prioritisation only permutes) ... *)
Theorem C24_preference_lists_perm : forall s client,
  let '(pref, supp) := preference_lists s client in
  if prefer_server s
  then Permutation pref (config_cipher_suites s) /\ supp = client
  else Permutation pref client /\ supp = config_cipher_suites s.
Proof. exact preference_lists_perm. Qed.
Print Assumptions C24_preference_lists_perm.

(* ... and is exactly that list for an explicitly configured server list, with AES-GCM hardware,
   or when the client offers no ChaCha20-Poly1305 suite *)
Theorem C24_preference_lists_exact : forall s client,
  (prefer_server s = true /\ cipher_suites s <> None) \/
  (prefer_server s = false /\
   (has_aesgcm_hw = true \/ forall x, In x client -> mem x nonaes_aead_ids = false)) ->
  fst (preference_lists s client) = if prefer_server s then config_cipher_suites s else client.
Proof. exact preference_lists_exact. Qed.
Print Assumptions C24_preference_lists_exact.

(* the server's filter (flag bits) admits exactly the suites whose key agreement its key can
   serve: every row of implementedCipherSuites x every table version x every key type x ecdheOk
   (finite, checked on the regenerated table); the one exception is an Ed25519 key below TLS 1.2 *)
Theorem C24_filter_matches_key_agreement : forall row vers k e,
  In row implemented_tbl -> In vers supported_versions_tbl -> ed_pre12 k vers = false ->
  cipher_suite_ok vers k e row = usable vers k e row.
Proof. exact filter_matches_ka. Qed.
Print Assumptions C24_filter_matches_key_agreement.

(* ---- ALPN ---- *)
Theorem C24_alpn_rule : forall client server,
  match select_alpn client server with
  | Some p => In p client /\ first_sat (fun x => mem x client) server p
  | None => forall p, In p client -> ~ In p server
  end.
Proof. exact alpn_rule. Qed.
Print Assumptions C24_alpn_rule.

Theorem C24_alpn_client_accepts : forall client server p,
  select_alpn client server = Some p -> mutual_protocol [p] client <> None.
Proof. exact alpn_client_accepts. Qed.
Print Assumptions C24_alpn_client_accepts.

(* ---- downgrade sentinel ---- *)
Theorem C24_canary_iff : forall s vers,
  server_canary s vers <> 0 <-> V12 <= max_supported_version s /\ vers < max_supported_version s.
Proof. exact canary_iff. Qed.
Print Assumptions C24_canary_iff.

Theorem C24_client_aborts_on_canary : forall c s vers,
  supported_versions c <> [] -> V12 <= max_supported_version c -> vers < max_supported_version c ->
  server_canary s vers <> 0 ->
  client_aborts c vers (server_canary s vers) = true.
Proof. exact client_aborts_on_canary. Qed.
Print Assumptions C24_client_aborts_on_canary.

Theorem C24_honest_never_aborts : forall c s vers,
  mutual_version s (supported_versions c) = Some vers ->
  client_aborts c vers (server_canary s vers) = false.
Proof. exact honest_never_aborts. Qed.
Print Assumptions C24_honest_never_aborts.

(* ---- the whole negotiation ---- *)
Theorem C24_negotiated_parameters : forall c s k vers suite alpn curve canary,
  negotiate c s k = Ok vers suite alpn curve canary ->
  (In vers (supported_versions c) /\ In vers (supported_versions s) /\
   forall w, In w (supported_versions c) -> In w (supported_versions s) -> w <= vers) /\
  In suite (client_hello_suites c) /\
  (if vers =? V13
   then In suite default_suites13 /\ is_tls13_id suite = true /\
        first_sat (fun x => mem x (snd (preference_lists13 s (client_hello_suites c))) && is_tls13_id x)
                  (fst (preference_lists13 s (client_hello_suites c))) suite
   else In suite (config_cipher_suites s) /\
        (exists row, suite_by_id suite = Some row /\
                     usable vers k (supports_ecdhe s (client_curves c)) row = true) /\
        first_sat (admissible (snd (preference_lists s (client_hello_suites c)))
                              (cipher_suite_ok vers k (supports_ecdhe s (client_curves c))))
                  (fst (preference_lists s (client_hello_suites c))) suite) /\
  alpn = select_alpn (next_protos c) (next_protos s) /\
  (canary <> 0 <-> V12 <= max_supported_version s /\ vers < max_supported_version s).
Proof. exact negotiate_ok_spec. Qed.
Print Assumptions C24_negotiated_parameters.

Theorem C24_negotiation_total_on_overlap : forall c s k vers,
  In vers (supported_versions c) -> In vers (supported_versions s) ->
  (forall w, In w (supported_versions c) -> In w (supported_versions s) -> w <= vers) ->
  ~ In fallback_scsv (client_hello_suites c) ->
  (if vers =? V13
   then (exists id, In id (client_hello_suites c) /\ is_tls13_id id = true) /\
        (exists g, In g (client_curves c) /\ In g (curve_preferences s))
   else exists id row, In id (client_hello_suites c) /\ In id (config_cipher_suites s) /\
                       suite_by_id id = Some row /\
                       usable vers k (supports_ecdhe s (client_curves c)) row = true) ->
  exists suite alpn curve canary, negotiate c s k = Ok vers suite alpn curve canary.
Proof. exact negotiation_total_on_overlap. Qed.
Print Assumptions C24_negotiation_total_on_overlap.

(* non-vacuity: default client against a TLS 1.0-1.2 server with an ECDSA key completes at
   TLS 1.2 with the server's preferred shared ALPN protocol and no sentinel; the same pair under
   a strip-to-TLS-1.1 attack is aborted by the client *)
Theorem C24_nonvacuous :
  exists suite curve, negotiate ex_client ex_server KP256 = Ok V12 suite (Some 2) curve 0
  /\ negotiate_downgraded ex_client ex_server KP256 V11 = Fail AlertIllegalParameter true.
Proof. exact negotiate_example. Qed.
Print Assumptions C24_nonvacuous.
