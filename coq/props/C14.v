(* C14 — CRL revocation lookup reports exactly the listed serials.
   Property theorems only; each is closed by [exact] of a lemma from proof/C14Proofs.v and
   followed by Print Assumptions.  Model: model/C14.v (CheckCRLForCert, gatherListExtensionInfo,
   pkix.Name.FillFromRDNSequence, asn1.Unmarshal into *big.Int, big.Int.String). *)
From Coq Require Import List NArith ZArith Bool Permutation.
From Verif Require Import Harness.
From VerifModel Require Import C14.
From VerifProof Require Import C14Proofs.
Import ListNotations.

(* linear search: revoked exactly when the serial is among the revoked entries *)
Theorem C14_revoked_iff_listed : forall entries s,
  fst (lookup_linear entries s) = true <-> In s (map r_serial entries).
Proof. exact revoked_iff_listed. Qed.
Print Assumptions C14_revoked_iff_listed.

(* ... with the revocation time of the first such entry *)
Theorem C14_time_of_first_entry : forall entries s t,
  lookup_linear entries s = (true, t) ->
  exists pre e post, entries = pre ++ e :: post /\ r_serial e = s /\ r_time e = t /\
                     ~ In s (map r_serial pre).
Proof. exact time_of_first_entry. Qed.
Print Assumptions C14_time_of_first_entry.

Theorem C14_not_listed_not_revoked : forall entries s,
  ~ In s (map r_serial entries) -> lookup_linear entries s = (false, zero_time).
Proof. exact not_listed_not_revoked. Qed.
Print Assumptions C14_not_listed_not_revoked.

(* the cache key (big.Int.String) identifies the serial *)
Theorem C14_dec_string_injective : forall a b, dec_string a = dec_string b -> a = b.
Proof. exact dec_string_injective. Qed.
Print Assumptions C14_dec_string_injective.

(* a cache built from the same entries (an entry never replaces an earlier one with the
   same serial) gives the same revoked flag and time as the linear search *)
Theorem C14_cache_agrees : forall entries s,
  lookup_cache (first_wins_cache entries) s = lookup_linear entries s.
Proof. exact cache_agrees. Qed.
Print Assumptions C14_cache_agrees.

(* that cache is a map: its keys are distinct *)
Theorem C14_first_wins_keys_nodup : forall entries, NoDup (map fst (first_wins_cache entries)).
Proof. exact first_wins_keys_nodup. Qed.
Print Assumptions C14_first_wins_keys_nodup.

(* a cache filled by plain assignment (later entries overwrite, as crl_test.go builds it) reports
   the LAST entry: same flag, same time when serials are distinct, a different time otherwise *)
Theorem C14_last_wins_is_last_entry : forall entries s,
  lookup_cache (last_wins_cache entries) s = lookup_linear (rev entries) s.
Proof. exact last_wins_is_last_entry. Qed.
Print Assumptions C14_last_wins_is_last_entry.

Theorem C14_last_wins_flag_agrees : forall entries s,
  fst (lookup_cache (last_wins_cache entries) s) = fst (lookup_linear entries s).
Proof. exact last_wins_flag_agrees. Qed.
Print Assumptions C14_last_wins_flag_agrees.

Theorem C14_last_wins_agrees_nodup : forall entries s,
  NoDup (map r_serial entries) ->
  lookup_cache (last_wins_cache entries) s = lookup_linear entries s.
Proof. exact last_wins_agrees_nodup. Qed.
Print Assumptions C14_last_wins_agrees_nodup.

Theorem C14_last_wins_differs :
  exists entries s, lookup_cache (last_wins_cache entries) s <> lookup_linear entries s.
Proof. exact last_wins_differs. Qed.
Print Assumptions C14_last_wins_differs.

(* extension classification: every CRL extension is the cRLNumber extension, or in the critical
   list, or in the other list — exactly one of them, order kept; the number is the last one's *)
Theorem C14_ext_classification_partition : forall exts,
  let g := gather exts in
  g_crit g = filter f_crit exts /\
  g_unk g = filter f_unk exts /\
  g_num g = last (map num_of (filter is_number exts)) None /\
  Permutation exts (filter is_number exts ++ g_crit g ++ g_unk g) /\
  (forall x, In x (g_crit g) <-> In x exts /\ is_number x = false /\ x_crit x = true) /\
  (forall x, In x (g_unk g) <-> In x exts /\ is_number x = false /\ x_crit x = false).
Proof. exact ext_classification_partition. Qed.
Print Assumptions C14_ext_classification_partition.

(* the CRL number is copied: every non-negative number below 256^126 (RFC 5280 allows 20
   octets), DER-encoded in a cRLNumber extension that is the last of its kind, is reported
   as itself *)
Theorem C14_crl_number_roundtrip : forall n,
  (n < 256 ^ 126)%N -> parse_crl_number (der_uint n) = Some (Z.of_N n).
Proof. exact crl_number_roundtrip. Qed.
Print Assumptions C14_crl_number_roundtrip.

Theorem C14_crl_number_reported : forall n,
  (n < 256 ^ 126)%N ->
  forall pre o c, oid_eqb o crl_number_oid = true ->
    g_num (gather (pre ++ [ {| x_oid := o; x_crit := c; x_val := der_uint n |} ])) = Some (Z.of_N n).
Proof. exact crl_number_reported. Qed.
Print Assumptions C14_crl_number_reported.

(* witness for the repaired defect: the decoding into an int reported 2^63 as 0 *)
Theorem C14_old_crl_number_refuted :
  old_crl_number (der_uint (2 ^ 63)) = 0%Z /\
  parse_crl_number (der_uint (2 ^ 63)) = Some (2 ^ 63)%Z.
Proof. exact old_crl_number_refuted. Qed.
Print Assumptions C14_old_crl_number_refuted.

(* version, update times, issuer (grouping, flattened attribute list) are copies; number and
   classification are those of [gather] *)
Theorem C14_header_fields_copied : forall c s ch,
  let r := check_crl c s ch in
  res_version r = c_version c /\ res_this r = c_this c /\ res_next r = c_next c /\
  res_orig r = c_issuer c /\ res_names r = concat (c_issuer c) /\
  res_num r = g_num (gather (c_exts c)) /\
  res_crit r = g_crit (gather (c_exts c)) /\ res_unk r = g_unk (gather (c_exts c)).
Proof. exact header_fields_copied. Qed.
Print Assumptions C14_header_fields_copied.

(* a Name field holds exactly the string values of the issuer attributes of its type *)
Theorem C14_issuer_field_values : forall i r v,
  In v (field_values i r) <->
  exists a, In a (concat r) /\ a_isstr a = true /\ field_of_oid (a_oid a) = Some i /\ a_val a = v.
Proof. exact issuer_field_values. Qed.
Print Assumptions C14_issuer_field_values.

(* the revoked flag and time of the whole function are those of the two lookups above *)
Theorem C14_result_revocation : forall c s ch,
  (res_revoked (check_crl c s ch), res_time (check_crl c s ch)) =
  match ch with
  | Some m => lookup_cache m s
  | None => lookup_linear (c_entries c) s
  end.
Proof. exact result_revocation. Qed.
Print Assumptions C14_result_revocation.
