(* C32 — TLS endpoints survive arbitrary peer behaviour.
   Property theorems only.  The model (model/C32.v) performs every index and
   slice through checked primitives that yield RPanic where Go would panic,
   and every recursion with fuel (RRFuel / HFuel when it runs out). *)
From Coq Require Import List NArith ZArith Bool Arith.
From Verif Require Import Harness.
From VerifModel Require Import C25 C32.
From VerifProof Require Import C32Proofs.
Import ListNotations.
Local Open Scope Z_scope.

(* the key-exchange processors never index or slice out of range, whatever the
   message body is *)
Theorem C32_rsa_ckx_total : forall ct, rsa_ckx ct <> RPanic.
Proof. exact rsa_ckx_total. Qed.
Print Assumptions C32_rsa_ckx_total.

Theorem C32_ecdhe_ckx_total : forall ct, ecdhe_ckx ct <> RPanic.
Proof. exact ecdhe_ckx_total. Qed.
Print Assumptions C32_ecdhe_ckx_total.

Theorem C32_dhe_ckx_total : forall p ct, dhe_ckx p ct <> RPanic.
Proof. exact dhe_ckx_total. Qed.
Print Assumptions C32_dhe_ckx_total.

Theorem C32_ecdhe_skx_total : forall tls12 is_rsa cert_rsa algs point_ok key,
  ecdhe_skx_view tls12 is_rsa cert_rsa algs point_ok key <> RPanic.
Proof. exact ecdhe_skx_view_total. Qed.
Print Assumptions C32_ecdhe_skx_total.

Theorem C32_verify_params_total : forall tls12 sig_type sah sig,
  verify_params tls12 sig_type sah sig <> RPanic.
Proof. exact verify_params_total. Qed.
Print Assumptions C32_verify_params_total.

Theorem C32_dhe_skx_total : forall tls12 sig_type sah skip_verify key,
  dhe_skx tls12 sig_type sah skip_verify key <> RPanic.
Proof. exact dhe_skx_total. Qed.
Print Assumptions C32_dhe_skx_total.

(* decrypt panics only on a record shorter than its header (never passed by
   the reader) and on the sequence-number wrap after 2^64 - 1 records *)
Theorem C32_decrypt_no_panic : forall stream cbc_dec aopen mac st rec,
  5 <= zlen rec -> inc_seq (seqno st) <> None ->
  half_decrypt stream cbc_dec aopen mac st rec <> Panic.
Proof. exact decrypt_no_panic. Qed.
Print Assumptions C32_decrypt_no_panic.

(* readRecordOrCCS terminates: the nesting of retryReadRecord is bounded by
   maxUselessRecords, so fuel 18 is never exhausted *)
Theorem C32_read_record_terminates : forall stream cbc_dec aopen mac expect_ccs c buf,
  0 <= rc_retry c -> rroc stream cbc_dec aopen mac 18 expect_ccs c buf <> RRFuel.
Proof. exact rroc_total. Qed.
Print Assumptions C32_read_record_terminates.

(* readHandshake terminates for every input stream *)
Theorem C32_read_handshake_total : forall stream cbc_dec aopen mac unm c buf,
  0 <= rc_retry c -> read_handshake stream cbc_dec aopen mac unm c buf <> HFuel.
Proof. exact read_handshake_total. Qed.
Print Assumptions C32_read_handshake_total.

(* c.hand never holds more than a maximal handshake message plus one record,
   and a delivered message is at most 4 + maxHandshake bytes *)
Theorem C32_handshake_buffer_bounded : forall stream cbc_dec aopen mac unm c buf t raw c' rest,
  0 <= rc_retry c -> zlen (rc_hand c) <= 4 + 65536 + 16384 ->
  read_handshake stream cbc_dec aopen mac unm c buf = HMsg t raw c' rest ->
  zlen (rc_hand c') <= 4 + 65536 + 16384 /\ zlen raw <= 4 + 65536 /\ 0 <= rc_retry c'.
Proof. exact handshake_buffer_bounded. Qed.
Print Assumptions C32_handshake_buffer_bounded.

(* once the transport is closed a read returns an error, it does not loop *)
Theorem C32_closed_transport_returns : forall stream cbc_dec aopen mac f expect_ccs c,
  rc_pending c = false -> rroc stream cbc_dec aopen mac (S f) expect_ccs c [] = RREnd EndEOF.
Proof. exact closed_transport_returns. Qed.
Print Assumptions C32_closed_transport_returns.

Theorem C32_closed_inside_record : forall stream cbc_dec aopen mac f expect_ccs c buf,
  rc_pending c = false -> 0 < zlen buf < 5 ->
  rroc stream cbc_dec aopen mac (S f) expect_ccs c buf = RREnd EndUnexpectedEOF.
Proof. exact closed_inside_record. Qed.
Print Assumptions C32_closed_inside_record.

(* data phase: whatever KeyUpdate messages the peer sends and whether or not
   the answers can be written, handleKeyUpdate never locks c.out while holding
   it, so Read and the following Write return (lock summary of conn.go) *)
Theorem C32_keyupdate_no_deadlock : forall acts write_fails, post_run acts write_fails <> PDeadlock.
Proof. exact post_run_no_deadlock. Qed.
Print Assumptions C32_keyupdate_no_deadlock.
