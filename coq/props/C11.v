(* C11 — Chain walking returns exactly the permitted root-terminated paths.
   Property theorems only; each is closed by [exact] of a lemma from
   proof/C11Proofs.v / proof/C11AsyncProofs.v and followed by Print Assumptions.

   [g] ranges over every graph reachable by AddCert / AddRoot
   ([state_after empty_graph ops], C10), [c] over every certificate (in the
   graph or not).  A path is a list of edges starting with the start edge;
   [permitted g c p] is the property's reading: every further edge is an edge of
   the graph into the issuer node of the edge before it ([nlink]: that edge is
   not a root, the (subject, key) of the new edge is not yet in the chain,
   fewer than 9 certificates so far, canAddToChain admits the certificate), and
   the last edge is a root.  The own issuer of the final root edge plays no role. *)
From Coq Require Import List NArith ZArith Bool Arith.
From Verif Require Import Harness AbsCertG.
From VerifModel Require Import C10 C11 C11Async.
From VerifProof Require Import C10Proofs C11Proofs C11AsyncProofs.
Import ListNotations.

(* soundness: every returned chain is the certificate list of a permitted path *)
Theorem C11_walk_sound : forall ops c ch,
  let g := state_after empty_graph ops in
  In ch (walk g c) -> exists p, permitted g c p /\ ch = map e_cert p.
Proof. exact (fun ops => walk_sound _ (ginv_history ops) (rinv_history ops)). Qed.
Print Assumptions C11_walk_sound.

(* completeness: every permitted path is returned *)
Theorem C11_walk_complete : forall ops c p,
  let g := state_after empty_graph ops in
  permitted g c p -> In (map e_cert p) (walk g c).
Proof. exact (fun ops => walk_complete _ (ginv_history ops) (rinv_history ops)). Qed.
Print Assumptions C11_walk_complete.

(* the two classes of permitted paths the walk missed before repair: a root certificate whose own
   issuer is not in the graph, and a root certificate whose own issuer occurs earlier in the chain *)
Theorem C11_root_with_unknown_issuer_is_found :
  let r := mkCert 0 1 9 1 true true (-1) 0 9 [] in
  let l := mkCert 1 3 1 4 false false 0 0 9 [1%N] in
  let g := state_after empty_graph [AddRoot r; AddCert l] in
  walk g l = [[l; r]].
Proof. exact root_with_unknown_issuer_example. Qed.
Print Assumptions C11_root_with_unknown_issuer_is_found.

Theorem C11_root_with_issuer_in_chain_is_found :
  let ab := mkCert 0 1 2 1 true true (-1) 0 9 [2%N] in
  let ba := mkCert 1 2 1 2 true true (-1) 0 9 [1%N] in
  let g := state_after empty_graph [AddCert ab; AddRoot ba] in
  walk g ab = [[ab; ba]].
Proof. exact root_with_issuer_in_chain_example. Qed.
Print Assumptions C11_root_with_issuer_in_chain_is_found.

(* no chain is returned twice *)
Theorem C11_walk_nodup : forall ops c, NoDup (walk (state_after empty_graph ops) c).
Proof. exact (fun ops c => walk_nodup _ c (ginv_history ops) (rinv_history ops)). Qed.
Print Assumptions C11_walk_nodup.

(* at most maxIntermediateCount = 9 certificates *)
Theorem C11_walk_length_bound : forall ops c ch,
  In ch (walk (state_after empty_graph ops) c) -> 1 <= length ch <= 9.
Proof. exact (fun ops => walk_length_bound _ (ginv_history ops) (rinv_history ops)). Qed.
Print Assumptions C11_walk_length_bound.

(* what a returned chain looks like, in terms of certificates: it starts at the
   certificate walked from; no two certificates share (subject, key); every
   certificate is followed by a certificate of the graph whose subject is its
   issuer name and whose key verifies it; certificates between start and root
   are CAs, and every certificate after the start respects its path length
   constraint for the number of certificates below it *)
Theorem C11_walk_chain_properties : forall ops c ch,
  let g := state_after empty_graph ops in
  In ch (walk g c) ->
  (exists c0 rest, ch = c0 :: rest /\ c_fp c0 = c_fp c) /\
  NoDup (map node_of ch) /\
  (forall s1 a b s2, ch = s1 ++ a :: b :: s2 ->
     c_subj b = c_iss a /\ verifies (node_of b) a = true /\ has_fp (c_fp b) (g_edges g) = true) /\
  (forall s1 x s2, ch = s1 ++ x :: s2 -> s1 <> [] ->
     (s2 <> [] -> c_bcv x = true /\ c_ca x = true) /\
     (c_bcv x = true -> (0 <= c_mpl x)%Z -> (Z.of_nat (length s1) - 1 <= c_mpl x)%Z)).
Proof. exact (fun ops => walk_chain_properties _ (ginv_history ops) (rinv_history ops)). Qed.
Print Assumptions C11_walk_chain_properties.

(* the walk stops at the first root edge: exactly the last edge of a returned chain is a root *)
Theorem C11_walk_stops_at_first_root : forall ops c ch,
  let g := state_after empty_graph ops in
  In ch (walk g c) ->
  exists p, ch = map e_cert p /\ forall s1 x s2, p = s1 ++ x :: s2 -> (e_root x = true <-> s2 = []).
Proof. exact (fun ops => walk_root_last _ (ginv_history ops) (rinv_history ops)). Qed.
Print Assumptions C11_walk_stops_at_first_root.

(* DESIGN §8 row 11 after repair f1334b8: nothing from the self-signed non-root S, one chain for the leaf *)
Theorem C11_selfsigned_cross_after_repair :
  let s  := mkCert 0 1 1 1 true true (-1) 0 9 [1%N] in
  let r  := mkCert 1 0 0 0 true true (-1) 0 9 [0%N] in
  let s' := mkCert 2 1 0 1 true true (-1) 0 9 [0%N] in
  let l  := mkCert 3 3 1 4 false false 0 0 9 [1%N] in
  let g := state_after empty_graph [AddCert s; AddRoot r; AddCert s'; AddCert l] in
  walk g s = [] /\ walk g l = [[l; s'; r]].
Proof. exact selfsigned_cross_example. Qed.
Print Assumptions C11_selfsigned_cross_after_repair.

(* WalkChainsAsync: one producer sending [items] (the chains in the order
   continueWalking finds them) and then closing, one consumer ranging over the
   channel.  For every capacity >= 1 and every interleaving (every trace of the
   transition system): what the consumer has is a prefix of [items]; when its
   loop has ended it has exactly [items] and the channel is closed; at most
   2|items|+2 steps exist; while the loop has not ended some goroutine can move
   (no deadlock), and a state where nothing can move is the finished state. *)
Theorem C11_async_delivers_same : forall (A : Type) (items : list A) cap ls s,
  1 <= cap -> trace A cap (init items) ls s ->
  (exists rest, got s ++ rest = items) /\
  (fin s = true -> got s = items /\ closed s = true) /\
  length ls <= 2 * length items + 2 /\
  (fin s = false -> exists l s', step cap s l = Some s') /\
  ((forall l, step cap s l = None) -> got s = items /\ closed s = true /\ fin s = true).
Proof. exact async_delivers_same. Qed.
Print Assumptions C11_async_delivers_same.

(* the same for any scheduler that skips blocked goroutines *)
Theorem C11_async_any_schedule : forall (A : Type) (items : list A) cap sched,
  1 <= cap ->
  let s := exec cap (init items) sched in
  (exists rest, got s ++ rest = items) /\
  (fin s = true -> got s = items /\ closed s = true) /\
  (fin s = false -> exists l s', step cap s l = Some s').
Proof. exact async_any_schedule. Qed.
Print Assumptions C11_async_any_schedule.
