(* C11 — Chain walking returns exactly the permitted root-terminated paths. *)
From Coq Require Import List NArith ZArith Bool Arith.
From Verif Require Import Harness AbsCertG.
From VerifModel Require Import C10 C11 C11Async.
From VerifProof Require Import C10Proofs C11AsyncProofs.
Import ListNotations.

Theorem C11_async_delivers_same : forall (A : Type) (items : list A) cap ls s,
  1 <= cap -> trace A cap (init items) ls s ->
  (exists rest, got s ++ rest = items) /\
  (fin s = true -> got s = items /\ closed s = true) /\
  length ls <= 2 * length items + 2 /\
  (fin s = false -> exists l s', step cap s l = Some s') /\
  ((forall l, step cap s l = None) -> got s = items /\ closed s = true /\ fin s = true).
Proof. exact async_delivers_same. Qed.
Print Assumptions C11_async_delivers_same.
