(* C08 — CertPool behaves as a fingerprint-keyed ordered set.
   Property theorems only; each is closed by [exact] of a lemma from
   proof/C08Proofs.v and followed by Print Assumptions.
   Histories are op sequences over a file of [n] pool registers
   (NewCertPool / AddCert / AppendCertsFromPEM / Sum, nil pools allowed as Sum
   arguments); [hrun] is the ghost history: the certificates ever added to
   each register, in order; [uniq []] keeps first occurrences by fingerprint. *)
From Coq Require Import List NArith ZArith Bool Arith Sorted.
From Verif Require Import Harness AbsCert.
From VerifModel Require Import C08.
From VerifProof Require Import C08Proofs.
Import ListNotations.

(* after any history every register holds exactly the distinct (by fingerprint) certificates
   added to it, in first-insertion order, and its three indices are consistent:
   bySHA256 maps each member's fingerprint to its position; byName / bySubjectKeyId map each key
   to the increasing, complete list of positions of the members carrying it *)
Theorem C08_pool_repr : forall n ops r,
  let p := reg (run_ops (init n) ops) r in
  (NoDup (map c_fp (certs p)) /\
   by_sha p = combine (map c_fp (certs p)) (seq 0 (length (certs p))) /\
   (forall k, amap_get (by_name p) k = positions (fun c => N.eqb (c_subject c) k) (certs p)) /\
   (forall k, amap_get (by_skid p) k = positions (fun c => optN_eqb (c_skid c) (Some k)) (certs p)))
  /\ certs p = uniq [] (hreg (hrun (hinit n) ops) r).
Proof. exact pool_repr. Qed.
Print Assumptions C08_pool_repr.

(* what [uniq] and [positions] mean *)
Theorem C08_uniq_spec : forall seen l,
  NoDup (map c_fp (uniq seen l)) /\
  forall x, In x (map c_fp (uniq seen l)) <-> In x (map c_fp l) /\ ~ In x seen.
Proof. exact (fun seen l => conj (uniq_nodup seen l) (uniq_in seen l)). Qed.
Print Assumptions C08_uniq_spec.

Theorem C08_positions_spec : forall f l,
  StronglySorted lt (positions f l) /\
  forall j, In j (positions f l) <-> exists c, nth_error l j = Some c /\ f c = true.
Proof. exact (fun f l => conj (positions_sorted f l) (positions_spec f l)). Qed.
Print Assumptions C08_positions_spec.

(* Size, Contains, Covers, Certificates and Subjects agree with that set *)
Theorem C08_observers_agree : forall n ops r,
  let st := run_ops (init n) ops in
  let hist := hrun (hinit n) ops in
  let p := reg st r in
  let S := uniq [] (hreg hist r) in
  certs p = S /\ size (Some p) = length S /\ subjects p = map c_subject S /\
  (forall c, contains (Some p) c = true <-> In (c_fp c) (map c_fp (hreg hist r))) /\
  (forall r', covers p (Some (reg st r')) = true <->
              incl (map c_fp (hreg hist r')) (map c_fp (hreg hist r))) /\
  covers p None = true /\ contains None = (fun _ => false) /\ size None = 0.
Proof. exact observers_agree. Qed.
Print Assumptions C08_observers_agree.

(* Sum is the ordered union, whatever its arguments (nil allowed) *)
Theorem C08_sum_is_union_in_order : forall a b,
  certs (sum a b) = uniq [] (opt_certs a ++ opt_certs b) /\ Inv (sum a b).
Proof. exact (fun a b => conj (sum_certs a b) (sum_inv a b)). Qed.
Print Assumptions C08_sum_is_union_in_order.

(* AppendCertsFromPEM adds the parseable CERTIFICATE blocks without headers, in order, and
   reports true iff there is at least one *)
Theorem C08_append_pem : forall s bs,
  append_pem s bs false = (fold_left add_cert (pem_certs bs) s, has_cert bs) /\
  (has_cert bs = true <-> exists c, In (BCert c) bs).
Proof. exact (fun s bs => conj (append_pem_spec bs s false) (has_cert_iff bs)). Qed.
Print Assumptions C08_append_pem.

(* parent lookup on any reachable pool, for any signature oracle: never indexes out of range,
   returns only pool members whose subject is the child's issuer and whose signature over the
   child verifies *)
Theorem C08_parents_sound : forall sigok n ops r c,
  let p := reg (run_ops (init n) ops) r in
  exists l, find_verified_parents sigok (Some p) c = Some l /\
  forall i, In i l ->
    i < size (Some p) /\
    exists par, nth_error (certs p) i = Some par /\
                check_sig_from sigok c par = true /\
                c_subject par = c_issuer c /\ sigok c par = true.
Proof. exact parents_sound_history. Qed.
Print Assumptions C08_parents_sound.

(* and exactly which: the verifying ones among the members with the child's authority key id,
   or, if there are none, among the members named as the child's issuer *)
Theorem C08_parents_exact : forall sigok p c,
  Inv p ->
  find_verified_parents sigok (Some p) c =
    Some (filter (verifies sigok (certs p) c) (candidates p c)) /\
  candidates p c =
    match c_akid c with
    | Some k =>
        match positions (fun x => optN_eqb (c_skid x) (Some k)) (certs p) with
        | [] => by_issuer_name p c
        | l => l
        end
    | None => by_issuer_name p c
    end.
Proof. exact (fun sigok p c I => conj (parents_exact sigok p c I) (candidates_spec p c I)). Qed.
Print Assumptions C08_parents_exact.

Theorem C08_nil_pool_has_no_parents : forall sigok c, find_verified_parents sigok None c = Some [].
Proof. exact (fun _ _ => eq_refl). Qed.
Print Assumptions C08_nil_pool_has_no_parents.

(* non-vacuity *)
Theorem C08_example_history :
  let a := ex_cert 1 7 (Some 5%N) in let b := ex_cert 2 7 None in let c := ex_cert 3 8 (Some 5%N) in
  let st := run_ops (init 2) [OAdd 0 a; OAdd 0 b; OAdd 0 a; OAdd 1 c; OAdd 1 b; OSum 1 (Some 1) (Some 0)] in
  fps (certs (reg st 0)) = [1; 2]%N /\ fps (certs (reg st 1)) = [3; 2; 1]%N /\
  amap_get (by_name (reg st 1)) 7%N = [1; 2] /\ amap_get (by_skid (reg st 1)) 5%N = [0; 2] /\
  covers (reg st 1) (Some (reg st 0)) = true /\ covers (reg st 0) (Some (reg st 1)) = false.
Proof. exact example_history. Qed.
Print Assumptions C08_example_history.
