(* C19 — strict DER decoding is canonical in both ASN.1 codecs.  Property theorems only. *)
From Coq Require Import List NArith ZArith Bool Arith.
From Verif Require Import Harness.
From VerifModel Require Import C21 C19.
From VerifProof Require Import C21Proofs C19Proofs.
Import ListNotations.
Open Scope N_scope.

Theorem C19_asn1_bool_canonical : forall bs b,
  a_parse_bool bs = Some b -> bs = [if b then 255 else 0].
Proof. exact a_bool_canonical. Qed.
Print Assumptions C19_asn1_bool_canonical.
