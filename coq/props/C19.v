(* C19 — strict DER decoding is canonical in both ASN.1 codecs.
   Property theorems only; each is closed by [exact] of a lemma of proof/C19Proofs.v.
   "Canonical" = whenever the decoder accepts, the same library's encoder applied to the
   decoded value reproduces the consumed bytes.  Byte strings are [bytes_ok] (every
   element < 256).  cryptobyte readers / Builder encoders: model/C21.v (shared with C21);
   encoding/asn1 primitives / marshal.go encoders: model/C19.v ([a_...]).
   All statements are for unbounded inputs (any content length the decoder accepts). *)
From Coq Require Import List NArith ZArith Bool Arith.
From Verif Require Import Harness.
From VerifModel Require Import C21 C19.
From VerifProof Require Import C21Proofs C19Proofs.
Import ListNotations.
Open Scope N_scope.

(* ---------------- tag / length headers ---------------- *)
(* cryptobyte readASN1: the element read is exactly what AddASN1 writes for its tag and
   contents (so the length is in the minimal form, definite, and the tag is low-form) *)
Theorem C19_cb_header_canonical : forall s tag hl el rest,
  read_asn1 s = Some (tag, hl, el, rest) -> bytes_ok s ->
  s = el ++ rest /\ h_asn1 tag (Some (skipn (N.to_nat hl) el)) = Some el.
Proof. exact cb_header_canonical. Qed.
Print Assumptions C19_cb_header_canonical.

(* encoding/asn1 parseTagAndLength: the consumed octets are what appendTagAndLength writes
   for the parsed (class, constructed, tag, length) — minimal tag and length forms only *)
Theorem C19_asn1_header_canonical : forall s t rest,
  a_parse_tag_and_length s = Some (t, rest) -> bytes_ok s ->
  s = a_tag_and_length_bytes t ++ rest.
Proof. exact a_header_canonical. Qed.
Print Assumptions C19_asn1_header_canonical.

Theorem C19_indefinite_length_rejected : forall tag s,
  read_asn1 (tag :: 128 :: s) = None /\
  (tag mod 32 <> 31 -> a_parse_tag_and_length (tag :: 128 :: s) = None).
Proof. exact indefinite_rejected. Qed.
Print Assumptions C19_indefinite_length_rejected.

(* ---------------- INTEGER ---------------- *)
(* arbitrary precision (parseBigInt / readASN1BigInt decode identically, makeBigInt /
   AddASN1BigInt encode identically) *)
Theorem C19_bigint_canonical : forall c,
  bytes_ok c -> check_asn1_integer c = true -> bigint_content (bigint_of_bytes c) = c.
Proof. exact bigint_canonical. Qed.
Print Assumptions C19_bigint_canonical.

Theorem C19_cb_int64_canonical : forall c z,
  bytes_ok c -> check_asn1_integer c = true -> asn1_signed c = Some z -> int64_content z = c.
Proof. exact cb_int64_canonical. Qed.
Print Assumptions C19_cb_int64_canonical.

Theorem C19_cb_uint64_canonical : forall c n,
  bytes_ok c -> check_asn1_integer c = true -> asn1_unsigned c = Some n -> uint64_content n = c.
Proof. exact cb_uint64_canonical. Qed.
Print Assumptions C19_cb_uint64_canonical.

Theorem C19_asn1_int64_canonical : forall c z,
  bytes_ok c -> a_parse_int64 c = Some z -> a_int64_bytes z = c.
Proof. exact a_int64_canonical. Qed.
Print Assumptions C19_asn1_int64_canonical.

Theorem C19_asn1_int32_canonical : forall c z,
  bytes_ok c -> a_parse_int32 c = Some z -> a_int64_bytes z = c /\ fits_signed 32 z = true.
Proof. exact a_int32_canonical. Qed.
Print Assumptions C19_asn1_int32_canonical.

Theorem C19_asn1_bigint_canonical : forall c z,
  bytes_ok c -> a_parse_bigint c = Some z -> bigint_content z = c.
Proof. exact a_bigint_canonical. Qed.
Print Assumptions C19_asn1_bigint_canonical.

Theorem C19_nonminimal_integer_rejected : forall b0 b1 l,
  (b0 = 0 /\ b1 < 128) \/ (b0 = 255 /\ 128 <= b1) ->
  check_asn1_integer (b0 :: b1 :: l) = false /\ a_parse_int64 (b0 :: b1 :: l) = None /\
  a_parse_int32 (b0 :: b1 :: l) = None /\ a_parse_bigint (b0 :: b1 :: l) = None.
Proof. exact nonminimal_integer_rejected. Qed.
Print Assumptions C19_nonminimal_integer_rejected.

(* ---------------- BOOLEAN ---------------- *)
Theorem C19_asn1_bool_canonical : forall bs b,
  a_parse_bool bs = Some b -> bs = [if b then 255 else 0].
Proof. exact a_bool_canonical. Qed.
Print Assumptions C19_asn1_bool_canonical.

Theorem C19_cb_bool_canonical : forall s b rest,
  read_bool s = Some (b, rest) -> bytes_ok s ->
  exists c, read_asn1_tag 1 s = Some (c, rest) /\ c = [if b then 255 else 0].
Proof. exact cb_bool_canonical. Qed.
Print Assumptions C19_cb_bool_canonical.

(* ---------------- BIT STRING ---------------- *)
Theorem C19_asn1_bitstring_canonical : forall bs d n,
  a_parse_bitstring bs = Some (d, n) -> a_bitstring_bytes d n = bs.
Proof. exact a_bitstring_canonical. Qed.
Print Assumptions C19_asn1_bitstring_canonical.

Theorem C19_cb_bitstring_canonical : forall c d n,
  bitstring_of_content c = Some (d, n) -> a_bitstring_bytes d n = c.
Proof. exact cb_bitstring_canonical. Qed.
Print Assumptions C19_cb_bitstring_canonical.

Theorem C19_padding_bits_rejected : forall pad data,
  data <> [] -> last data 0 mod 2 ^ pad <> 0 ->
  a_parse_bitstring (pad :: data) = None /\ bitstring_of_content (pad :: data) = None.
Proof. exact padding_bits_rejected. Qed.
Print Assumptions C19_padding_bits_rejected.

(* ---------------- OBJECT IDENTIFIER ---------------- *)
Theorem C19_cb_oid_canonical : forall c arcs,
  oid_of_content c = Some arcs -> bytes_ok c -> oid_content arcs = Some c.
Proof. exact cb_oid_canonical. Qed.
Print Assumptions C19_cb_oid_canonical.

Theorem C19_asn1_oid_canonical : forall bs arcs,
  a_parse_oid bs = Some arcs -> bytes_ok bs -> a_oid_bytes arcs = Some bs.
Proof. exact a_oid_canonical. Qed.
Print Assumptions C19_asn1_oid_canonical.

Theorem C19_leading_0x80_subidentifier_rejected : forall s,
  read_base128 (128 :: s) = None /\ a_base128 (128 :: s) = None.
Proof. exact leading_0x80_rejected. Qed.
Print Assumptions C19_leading_0x80_subidentifier_rejected.

(* witness of the defect repaired by commit e03288a: readBase128Int without the leading-0x80
   test reads 80 01 as 1, whose encoding is 01 (so 06 03 2a 80 01 was read as 1.2.1) *)
Theorem C19_old_cb_base128_refuted :
  old_base128_from 0 0 [128; 1] = Some (1, []) /\ b128_form 1 = [1] /\
  read_base128 [128; 1] = None /\ oid_of_content [42; 128; 1] = None /\
  oid_of_content [42; 1] = Some [1; 2; 1]%Z.
Proof. exact old_base128_refuted. Qed.
Print Assumptions C19_old_cb_base128_refuted.

(* ---------------- GeneralizedTime (cryptobyte) ---------------- *)
Theorem C19_cb_gentime_canonical : forall c t,
  gtime_of_content c = Some t -> gentime_content t = c /\ gentime_year_ok t = true.
Proof. exact cb_gentime_canonical. Qed.
Print Assumptions C19_cb_gentime_canonical.

(* the decoders accept something: long-form length, high tag number, negative integer,
   multi-octet sub-identifiers, padded BIT STRING, GeneralizedTime with a zone offset *)
Theorem C19_nonvacuous :
  read_asn1 [48; 129; 128] = None /\
  (exists el, read_asn1 ([48; 129; 128] ++ nrep 7 128 ++ [9]) = Some (48, 3, el, [9])) /\
  a_parse_tag_and_length [191; 129; 0; 130; 1; 0; 7] =
    Some ({| t_class := 2; t_compound := true; t_tag := 128; t_length := 256 |}, [7]) /\
  a_parse_int64 [255; 127] = Some (-129)%Z /\ asn1_signed [255; 127] = Some (-129)%Z /\
  a_parse_oid [42; 134; 72; 134; 247; 13] = Some [1; 2; 840; 113549]%Z /\
  oid_of_content [42; 134; 72; 134; 247; 13] = Some [1; 2; 840; 113549]%Z /\
  a_parse_bitstring [3; 168] = Some ([168], 5%Z) /\ bitstring_of_content [3; 168] = Some ([168], 5%Z) /\
  gtime_of_content [50;48;50;48;48;50;50;57;49;50;51;52;53;54;43;48;49;51;48] =
    Some {| gY := 2020; gMo := 2; gD := 29; gh := 12; gmi := 34; gs := 56; goff := 90 |}.
Proof. exact c19_nonvacuous. Qed.
Print Assumptions C19_nonvacuous.
