(* C30 — TLS handshake messages and session state round-trip and reject truncation.
   Property theorems only; each is closed by [exact] of a lemma from lib/WireTLS.v
   or proof/C30*.v and followed by Print Assumptions. *)
From Coq Require Import List NArith Bool Arith.
From Verif Require Import Harness WireTLS.
From VerifModel Require Import C30.
From VerifProof Require Import C30Proofs.
Import ListNotations.
Open Scope N_scope.

(* generic, for every format term of the codec DSL (any nesting depth) *)
Theorem C30_fmt_dec_enc : forall f, fmt_ok f = true ->
  forall v e, wf f v = true -> enc f v = Some e -> forall r, dec f (e ++ r) = Some (v, r).
Proof. exact dec_enc. Qed.
Print Assumptions C30_fmt_dec_enc.

Theorem C30_fmt_no_strict_prefix : forall f, fmt_ok f = true ->
  forall v e p q, wf f v = true -> enc f v = Some e -> e = p ++ q -> q <> [] -> dec f p = None.
Proof. exact no_strict_prefix. Qed.
Print Assumptions C30_fmt_no_strict_prefix.

Theorem C30_fmt_dec_suffix : forall f s v r, dec f s = Some (v, r) -> exists u, s = u ++ r.
Proof. exact dec_suffix. Qed.
Print Assumptions C30_fmt_dec_suffix.

(* part 1: every kind whose codec is a DSL format *)
Theorem C30_roundtrip_dsl : forall m e, is_dsl (kind_of m) = true ->
  valid m = true -> enc_msg m = Some e -> dec_msg (kind_of m) (has_of m) e = Some m.
Proof. exact roundtrip_dsl. Qed.
Print Assumptions C30_roundtrip_dsl.
