(* C30 — TLS handshake messages and session state round-trip and reject truncation.
   Property theorems only; each is closed by [exact] of a lemma from lib/WireTLS.v
   or proof/C30*.v and followed by Print Assumptions.

   msg       : a value of any of the 18 handshake message types or of the 2 session-state types
   enc_msg   : marshal   (None = the Go code panics: a field does not fit its length prefix)
   dec_msg   : unmarshal (None = unmarshal returns false)
   valid     : the round-trip domain (fields the decoder insists on being non-empty are
               non-empty; a field whose extension is not sent has its zero value; ...) *)
From Coq Require Import List NArith Bool Arith.
From Verif Require Import Harness WireTLS.
From VerifModel Require Import C30 C30Direct.
From VerifProof Require Import C30Proofs C30ExtProofs C30DirectProofs.
Import ListNotations.
Open Scope N_scope.

(* generic, for every format term of the codec DSL (any nesting depth) *)
Theorem C30_fmt_dec_enc : forall f, fmt_ok f = true ->
  forall v e, wf f v = true -> enc f v = Some e -> forall r, dec f (e ++ r) = Some (v, r).
Proof. exact dec_enc. Qed.
Print Assumptions C30_fmt_dec_enc.

Theorem C30_fmt_no_strict_prefix : forall f, fmt_ok f = true ->
  forall v e p q, wf f v = true -> enc f v = Some e -> e = p ++ q -> q <> [] -> dec f p = None.
Proof. exact no_strict_prefix. Qed.
Print Assumptions C30_fmt_no_strict_prefix.

Theorem C30_fmt_dec_suffix : forall f s v r, dec f s = Some (v, r) -> exists u, s = u ++ r.
Proof. exact dec_suffix. Qed.
Print Assumptions C30_fmt_dec_suffix.

(* generic, for every extension block described by a decode table and a writer list:
   decoding what the writers produced (followed by [tail]) rebuilds the slots *)
Theorem C30_ext_block_roundtrip : forall tb u tail wt init st bs,
  length init = length st ->
  NoDup (map w_slot wt) ->
  (forall j, ~ In j (map w_slot wt) -> sget j init = sget j st) ->
  wok_all tb init st tail wt ->
  enc_exts wt st = Some bs ->
  ext_loop tb u (length (bs ++ tail)) init (bs ++ tail) = ext_loop tb u (length tail) st tail.
Proof. exact ext_roundtrip. Qed.
Print Assumptions C30_ext_block_roundtrip.

(* every handshake message and session-state value of the round-trip domain decodes to itself *)
Theorem C30_roundtrip : forall m e,
  valid m = true -> enc_msg m = Some e -> dec_msg (kind_of m) (has_of m) e = Some m.
Proof. exact roundtrip_all. Qed.
Print Assumptions C30_roundtrip.

(* for every type whose encoding has no optional tail (all but the two hellos),
   no strict prefix of a valid encoding is accepted *)
Theorem C30_no_strict_prefix_accepted : forall m e p q,
  no_opt_tail (kind_of m) = true -> valid m = true -> enc_msg m = Some e -> e = p ++ q -> q <> [] ->
  dec_msg (kind_of m) (has_of m) p = None.
Proof. exact no_strict_prefix_all. Qed.
Print Assumptions C30_no_strict_prefix_accepted.

(* the hellos: the exact set of accepted strict prefixes is the single cut after the fixed
   part (4-byte header + encoding of the fields before the extensions), where the message
   without extensions is decoded *)
Theorem C30_hello_prefixes : forall m e p q,
  no_opt_tail (kind_of m) = false -> valid m = true -> enc_msg m = Some e -> e = p ++ q -> q <> [] ->
  dec_msg (kind_of m) (has_of m) p = None \/
  (dec_msg (kind_of m) (has_of m) p = Some (strip_exts m) /\
   exists b, hello_base_enc m = Some b /\ length p = (4 + length b)%nat).
Proof. exact hello_prefixes. Qed.
Print Assumptions C30_hello_prefixes.

(* the index-arithmetic decoders, mirrored statement by statement (model/C30Direct.v), accept exactly the
   inputs and produce exactly the values of the DSL formats by which the model describes them *)
Theorem C30_key_exchange_direct_mirror : forall t s,
  dec_all (FPair (FSkip [t]) (FBytes 3 false)) s = option_map (fun b => VP VU (VB b)) (dec_kx_direct s).
Proof. exact kx_direct_eq. Qed.
Print Assumptions C30_key_exchange_direct_mirror.

Theorem C30_new_session_ticket_direct_mirror : forall s,
  dec_all fmt_nst s = option_map (fun x => VP VU (VP (VN (fst x)) (VB (snd x)))) (dec_nst_direct s).
Proof. exact nst_direct_eq. Qed.
Print Assumptions C30_new_session_ticket_direct_mirror.

(* the domain is inhabited by messages that use every extension; a value outside it
   (certificate list ending in an empty certificate) indeed does not round-trip *)
Theorem C30_nonvacuous :
  (valid ex_ch = true /\ is_some (enc_msg ex_ch) = true) /\
  (valid ex_sh = true /\ is_some (enc_msg ex_sh) = true) /\
  (valid ex_cert13 = true /\ is_some (enc_msg ex_cert13) = true) /\
  (valid (MCertReq true [1; 64] [1027; 2052] [[48; 0]; []]) = true) /\
  (valid (MCert [[1]; []]) = false /\
   match enc_msg (MCert [[1]; []]) with Some e => dec_msg KCert false e | None => None end = None).
Proof. exact examples_valid. Qed.
Print Assumptions C30_nonvacuous.
