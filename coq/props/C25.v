(* C25 — TLS application data arrives intact or not at all.
   Property theorems only; each is closed by [exact] of a lemma from
   proof/C25Proofs.v and followed by Print Assumptions. *)
From Coq Require Import List NArith ZArith Bool Arith.
From Verif Require Import Harness.
From VerifModel Require Import C25.
From VerifProof Require Import C25Proofs.
Import ListNotations.

(* extractPadding (uint/int32 arithmetic modelled bit for bit) computes the
   RFC 2246 6.2.3.2 padding check for every payload shorter than 2^31 bytes *)
Theorem C25_extract_padding_spec : forall payload,
  wf_bytes payload -> (N.of_nat (length payload) < 2147483648)%N ->
  extract_padding payload = extract_padding_ref payload.
Proof. exact extract_padding_spec. Qed.
Print Assumptions C25_extract_padding_spec.
