(* C25 — TLS application data arrives intact or not at all.
   Property theorems only; each is closed by [exact] of a lemma from
   proof/C25*.v and followed by Print Assumptions.

   The primitives (stream cipher, CBC mode, AEAD, MAC) are universally
   quantified functions; what is assumed about them is spelled out as premises
   (the "laws").  Nothing is assumed about their security in these theorems. *)
From Coq Require Import List NArith ZArith Bool Arith.
From Verif Require Import Harness.
From VerifModel Require Import C25.
From VerifProof Require Import C25Proofs C25Record C25Stream C25Tamper.
Import ListNotations.
Local Open Scope Z_scope.

(* extractPadding (uint/int32 arithmetic modelled bit for bit) computes the
   RFC 2246 6.2.3.2 padding check for every payload shorter than 2^31 bytes *)
Theorem C25_extract_padding_spec : forall payload,
  wf_bytes payload -> (N.of_nat (length payload) < 2147483648)%N ->
  extract_padding payload = extract_padding_ref payload.
Proof. exact extract_padding_spec. Qed.
Print Assumptions C25_extract_padding_spec.

(* decrypt o encrypt = id for every cipher kind (stream+MAC, CBC+MAC with
   implicit or explicit IV, TLS 1.2 AEAD with or without explicit nonce, TLS 1.3
   AEAD with inner content type) and every version: a reader in the writer's
   state recovers exactly (payload, type) and ends in the writer's new state
   (sequence number, CBC chaining value, key-stream position) *)
Theorem C25_decrypt_encrypt :
  forall (stream : Z -> bytes -> bytes) (cbc_enc cbc_dec : bytes -> bytes -> bytes)
         (seal : bytes -> bytes -> bytes -> bytes) (aopen : bytes -> bytes -> bytes -> option bytes)
         (mac : bytes -> bytes) (BS MS OVH : Z),
  (forall pos a b, stream pos (a ++ b) = stream pos a ++ stream (pos + zlen a) b) ->
  (forall pos x, stream pos (stream pos x) = x) ->
  (forall pos x, zlen (stream pos x) = zlen x) ->
  (forall iv x, zlen (cbc_enc iv x) = zlen x) ->
  (forall iv x, zlen x mod BS = 0 -> cbc_dec iv (cbc_enc iv x) = x) ->
  (forall n ad p, zlen (seal n ad p) = zlen p + OVH) ->
  (forall n ad p, aopen n ad (seal n ad p) = Some p) ->
  (forall x, zlen (mac x) = MS) ->
  (forall x, wf_bytes (mac x)) ->
  forall st hdr payload rnd rec st' calls,
    wf_state BS MS OVH st -> wf_header st hdr payload ->
    half_encrypt stream cbc_enc seal mac st hdr payload rnd = Ok (rec, st', calls) ->
    exists calls', half_decrypt stream cbc_dec aopen mac st rec = Ok (payload, hd0 hdr, st', calls').
Proof. exact decrypt_encrypt. Qed.
Print Assumptions C25_decrypt_encrypt.

(* both sequence numbers advance by exactly one per record (or encrypt panics) *)
Theorem C25_encrypt_advances_seq :
  forall stream cbc_enc seal mac st hdr payload rnd rec st' calls,
    knd st <> KNull ->
    half_encrypt stream cbc_enc seal mac st hdr payload rnd = Ok (rec, st', calls) ->
    inc_seq (seqno st) = Some (seqno st') /\ knd st' = knd st /\ version st' = version st.
Proof. exact encrypt_seq. Qed.
Print Assumptions C25_encrypt_advances_seq.

(* fragmentation, for any primitives whatsoever: the plaintext fragments of a
   sequence of Writes (dynamic record sizing and the TLS 1.0 1/n-1 split
   included), in order, are exactly the bytes written, and every record carries
   between 1 and 2^14 plaintext bytes *)
Theorem C25_fragmentation :
  forall stream cbc_enc seal mac ws c rnd rs c' rnd',
    conn_writes stream cbc_enc seal mac c ws rnd = Ok (rs, c', rnd') ->
    concat (frags rs) = concat ws /\ Forall (fun f => 1 <= zlen f <= 16384) (frags rs).
Proof. exact conn_writes_fragments. Qed.
Print Assumptions C25_fragmentation.

(* the reader's result does not depend on how the transport segments the bytes *)
Theorem C25_segmentation_independent :
  forall stream cbc_dec aopen mac fuel st retry raw segs,
    read_app_segs stream cbc_dec aopen mac fuel st retry raw segs =
    read_app stream cbc_dec aopen mac fuel st retry (raw ++ concat segs).
Proof. exact read_segmentation_independent. Qed.
Print Assumptions C25_segmentation_independent.

(* the stream theorem: for every sequence of Writes and every segmentation of
   the resulting wire, a reader started in the writer's state returns exactly
   the bytes written, in order, and then a clean end of stream *)
Theorem C25_stream_intact :
  forall (stream : Z -> bytes -> bytes) (cbc_enc cbc_dec : bytes -> bytes -> bytes)
         (seal : bytes -> bytes -> bytes -> bytes) (aopen : bytes -> bytes -> bytes -> option bytes)
         (mac : bytes -> bytes) (BS MS OVH : Z),
  (forall pos a b, stream pos (a ++ b) = stream pos a ++ stream (pos + zlen a) b) ->
  (forall pos x, stream pos (stream pos x) = x) ->
  (forall pos x, zlen (stream pos x) = zlen x) ->
  (forall iv x, zlen (cbc_enc iv x) = zlen x) ->
  (forall iv x, zlen x mod BS = 0 -> cbc_dec iv (cbc_enc iv x) = x) ->
  (forall n ad p, zlen (seal n ad p) = zlen p + OVH) ->
  (forall n ad p, aopen n ad (seal n ad p) = Some p) ->
  (forall x, zlen (mac x) = MS) ->
  (forall x, wf_bytes (mac x)) ->
  forall c ws rnd rs c' rnd' segs fuel retry,
    wf_state BS MS OVH (cw_hs c) -> wf_limits (cw_hs c) -> supported_version (version (cw_hs c)) ->
    wf_bytes (concat ws) ->
    conn_writes stream cbc_enc seal mac c ws rnd = Ok (rs, c', rnd') ->
    concat segs = concat (wrecs rs) -> (length rs < fuel)%nat ->
    read_app_segs stream cbc_dec aopen mac fuel (cw_hs c) retry [] segs = (concat ws, EndEOF).
Proof. exact stream_intact. Qed.
Print Assumptions C25_stream_intact.

(* the sequence number is bound into what every record authenticates: the
   authenticator a sender produces in state st (the MAC input, or the AEAD
   nonce / additional data) and the one a receiver checks in state st both
   carry seqno st, and seq8 is injective below 2^64 *)
Theorem C25_seq_bound_sender :
  forall seal st hdr payload a,
    (seqno st < two64)%N -> sender_binds seal st hdr payload a -> auth_seq (version st) a = seqno st.
Proof. exact sender_seq. Qed.
Print Assumptions C25_seq_bound_sender.

Theorem C25_seq_bound_receiver :
  forall aopen st pt typ a,
    (seqno st < two64)%N -> receiver_binds aopen st pt typ a -> auth_seq (version st) a = seqno st.
Proof. exact receiver_seq. Qed.
Print Assumptions C25_seq_bound_receiver.

Theorem C25_encrypt_authenticates :
  forall stream cbc_enc seal mac BS MS OVH st hdr payload rnd rec st' calls,
    wf_state BS MS OVH st ->
    half_encrypt stream cbc_enc seal mac st hdr payload rnd = Ok (rec, st', calls) ->
    exists a, flat_map (enc_auth seal) calls = [a] /\ sender_binds seal st hdr payload a.
Proof. exact enc_auth_inv. Qed.
Print Assumptions C25_encrypt_authenticates.

(* every record the receiver accepts is either an unprotected TLS 1.3
   change_cipher_spec (state unchanged) or passed exactly one authenticator
   check that carries the receiver's sequence number, which then advances *)
Theorem C25_decrypt_authenticates :
  forall stream cbc_dec aopen mac BS MS OVH st rec pt typ st' calls,
    wf_state BS MS OVH st ->
    half_decrypt stream cbc_dec aopen mac st rec = Ok (pt, typ, st', calls) ->
    (version st = VersionTLS13 /\ typ = 20%N /\ calls = [] /\ st' = st) \/
    (inc_seq (seqno st) = Some (seqno st') /\ knd st' = knd st /\ version st' = version st /\
     exists a, flat_map dec_auth calls = [a] /\ receiver_binds aopen st pt typ a).
Proof. exact dec_accept_inv. Qed.
Print Assumptions C25_decrypt_authenticates.

(* "or not at all": the sender emits the chain S from state st0; the wire is
   then arbitrary (records modified, dropped, duplicated, reordered, injected).
   Under the explicit no-forgery premise on this run (every authenticator the
   receiver accepts is one the sender produced), the records the receiver
   delivers before its first (permanent) error are a prefix of the records
   sent; the only primitive law used is open (seal p) = p. *)
Theorem C25_tamper_detected :
  forall (stream : Z -> bytes -> bytes) (cbc_enc cbc_dec : bytes -> bytes -> bytes)
         (seal : bytes -> bytes -> bytes -> bytes) (aopen : bytes -> bytes -> bytes -> option bytes)
         (mac : bytes -> bytes) (BS MS OVH : Z),
  (forall n ad p, aopen n ad (seal n ad p) = Some p) ->
  forall st0 S st_end wire,
    wf_state BS MS OVH st0 -> (seqno st0 < two64)%N ->
    sent_chain stream cbc_enc seal mac st0 S st_end ->
    (forall a, In a (flat_map dec_auth (all_calls (recv stream cbc_dec aopen mac st0 wire))) ->
               In a (flat_map (enc_auth seal) (all_calls S))) ->
    is_prefix (map content (authenticated (recv stream cbc_dec aopen mac st0 wire))) (map content S).
Proof. exact tamper_detected. Qed.
Print Assumptions C25_tamper_detected.

(* ... and the application data delivered is a prefix of the application data sent *)
Theorem C25_tamper_app_data :
  forall (stream : Z -> bytes -> bytes) (cbc_enc cbc_dec : bytes -> bytes -> bytes)
         (seal : bytes -> bytes -> bytes -> bytes) (aopen : bytes -> bytes -> bytes -> option bytes)
         (mac : bytes -> bytes) (BS MS OVH : Z),
  (forall n ad p, aopen n ad (seal n ad p) = Some p) ->
  forall st0 S st_end wire,
    wf_state BS MS OVH st0 -> (seqno st0 < two64)%N ->
    sent_chain stream cbc_enc seal mac st0 S st_end ->
    (forall a, In a (flat_map dec_auth (all_calls (recv stream cbc_dec aopen mac st0 wire))) ->
               In a (flat_map (enc_auth seal) (all_calls S))) ->
    is_prefix (app_data (recv stream cbc_dec aopen mac st0 wire)) (app_data S).
Proof. exact tamper_app_data. Qed.
Print Assumptions C25_tamper_app_data.

(* non-vacuity: the laws have a model, and the hypotheses of the stream theorem
   are met by a concrete run whose result is the data *)
Theorem C25_laws_satisfiable :
  (forall pos a b, id_stream pos (a ++ b) = id_stream pos a ++ id_stream (pos + zlen a) b) /\
  (forall pos x, id_stream pos (id_stream pos x) = x) /\
  (forall pos x, zlen (id_stream pos x) = zlen x) /\
  (forall iv x, zlen (id_cbc iv x) = zlen x) /\
  (forall iv x, zlen x mod 16 = 0 -> id_cbc iv (id_cbc iv x) = x) /\
  (forall n ad p, zlen (pad_seal n ad p) = zlen p + 16) /\
  (forall n ad p, pad_open n ad (pad_seal n ad p) = Some p) /\
  (forall x, zlen (zero_mac x) = 20) /\
  (forall x, wf_bytes (zero_mac x)).
Proof. exact laws_satisfiable. Qed.
Print Assumptions C25_laws_satisfiable.

Theorem C25_stream_nonvacuous :
  wf_state 16 20 16 nv_state /\ wf_limits nv_state /\ supported_version (version nv_state) /\
  wf_bytes (concat nv_writes) /\
  exists rs c' rnd',
    conn_writes id_stream id_cbc pad_seal zero_mac nv_conn nv_writes [] = Ok (rs, c', rnd') /\
    length rs = 2%nat /\
    read_app_segs id_stream id_cbc pad_open zero_mac 3 nv_state 0 []
      (map (fun b => [b]) (concat (wrecs rs))) = (concat nv_writes, EndEOF).
Proof. exact stream_nonvacuous. Qed.
Print Assumptions C25_stream_nonvacuous.

(* the no-forgery premise is met by the undamaged wire of a concrete run, which
   then delivers everything *)
Theorem C25_tamper_nonvacuous :
  exists Sm w st2,
    send_all id_stream id_cbc pad_seal zero_mac nv_state nv_msgs = Some (Sm, w, st2) /\
    sent_chain id_stream id_cbc pad_seal zero_mac nv_state Sm st2 /\
    (forall a, In a (flat_map dec_auth (all_calls (recv id_stream id_cbc pad_open zero_mac nv_state w))) ->
               In a (flat_map (enc_auth pad_seal) (all_calls Sm))) /\
    map content (authenticated (recv id_stream id_cbc pad_open zero_mac nv_state w)) = map content Sm /\
    length Sm = 2%nat.
Proof. exact tamper_nonvacuous. Qed.
Print Assumptions C25_tamper_nonvacuous.
