(* C25 — TLS application data arrives intact or not at all.
   Property theorems only; each is closed by [exact] of a lemma from
   proof/C25*.v and followed by Print Assumptions.

   The primitives (stream cipher, CBC mode, AEAD, MAC) are universally
   quantified functions; what is assumed about them is spelled out as premises
   (the "laws").  Nothing is assumed about their security in these theorems. *)
From Coq Require Import List NArith ZArith Bool Arith.
From Verif Require Import Harness.
From VerifModel Require Import C25.
From VerifProof Require Import C25Proofs C25Record C25Stream.
Import ListNotations.
Local Open Scope Z_scope.

(* extractPadding (uint/int32 arithmetic modelled bit for bit) computes the
   RFC 2246 6.2.3.2 padding check for every payload shorter than 2^31 bytes *)
Theorem C25_extract_padding_spec : forall payload,
  wf_bytes payload -> (N.of_nat (length payload) < 2147483648)%N ->
  extract_padding payload = extract_padding_ref payload.
Proof. exact extract_padding_spec. Qed.
Print Assumptions C25_extract_padding_spec.

(* decrypt o encrypt = id for every cipher kind (stream+MAC, CBC+MAC with
   implicit or explicit IV, TLS 1.2 AEAD with or without explicit nonce, TLS 1.3
   AEAD with inner content type) and every version: a reader in the writer's
   state recovers exactly (payload, type) and ends in the writer's new state
   (sequence number, CBC chaining value, key-stream position) *)
Theorem C25_decrypt_encrypt :
  forall (stream : Z -> bytes -> bytes) (cbc_enc cbc_dec : bytes -> bytes -> bytes)
         (seal : bytes -> bytes -> bytes -> bytes) (aopen : bytes -> bytes -> bytes -> option bytes)
         (mac : bytes -> bytes) (BS MS OVH : Z),
  (forall pos a b, stream pos (a ++ b) = stream pos a ++ stream (pos + zlen a) b) ->
  (forall pos x, stream pos (stream pos x) = x) ->
  (forall pos x, zlen (stream pos x) = zlen x) ->
  (forall iv x, zlen (cbc_enc iv x) = zlen x) ->
  (forall iv x, zlen x mod BS = 0 -> cbc_dec iv (cbc_enc iv x) = x) ->
  (forall n ad p, zlen (seal n ad p) = zlen p + OVH) ->
  (forall n ad p, aopen n ad (seal n ad p) = Some p) ->
  (forall x, zlen (mac x) = MS) ->
  (forall x, wf_bytes (mac x)) ->
  forall st hdr payload rnd rec st' calls,
    wf_state BS MS OVH st -> wf_header st hdr payload ->
    half_encrypt stream cbc_enc seal mac st hdr payload rnd = Ok (rec, st', calls) ->
    exists calls', half_decrypt stream cbc_dec aopen mac st rec = Ok (payload, hd0 hdr, st', calls').
Proof. exact decrypt_encrypt. Qed.
Print Assumptions C25_decrypt_encrypt.

(* both sequence numbers advance by exactly one per record (or encrypt panics) *)
Theorem C25_encrypt_advances_seq :
  forall stream cbc_enc seal mac st hdr payload rnd rec st' calls,
    knd st <> KNull ->
    half_encrypt stream cbc_enc seal mac st hdr payload rnd = Ok (rec, st', calls) ->
    inc_seq (seqno st) = Some (seqno st') /\ knd st' = knd st /\ version st' = version st.
Proof. exact encrypt_seq. Qed.
Print Assumptions C25_encrypt_advances_seq.

(* fragmentation, for any primitives whatsoever: the plaintext fragments of a
   sequence of Writes (dynamic record sizing and the TLS 1.0 1/n-1 split
   included), in order, are exactly the bytes written, and every record carries
   between 1 and 2^14 plaintext bytes *)
Theorem C25_fragmentation :
  forall stream cbc_enc seal mac ws c rnd rs c' rnd',
    conn_writes stream cbc_enc seal mac c ws rnd = Ok (rs, c', rnd') ->
    concat (frags rs) = concat ws /\ Forall (fun f => 1 <= zlen f <= 16384) (frags rs).
Proof. exact conn_writes_fragments. Qed.
Print Assumptions C25_fragmentation.

(* the reader's result does not depend on how the transport segments the bytes *)
Theorem C25_segmentation_independent :
  forall stream cbc_dec aopen mac fuel st retry raw segs,
    read_app_segs stream cbc_dec aopen mac fuel st retry raw segs =
    read_app stream cbc_dec aopen mac fuel st retry (raw ++ concat segs).
Proof. exact read_segmentation_independent. Qed.
Print Assumptions C25_segmentation_independent.

(* the stream theorem: for every sequence of Writes and every segmentation of
   the resulting wire, a reader started in the writer's state returns exactly
   the bytes written, in order, and then a clean end of stream *)
Theorem C25_stream_intact :
  forall (stream : Z -> bytes -> bytes) (cbc_enc cbc_dec : bytes -> bytes -> bytes)
         (seal : bytes -> bytes -> bytes -> bytes) (aopen : bytes -> bytes -> bytes -> option bytes)
         (mac : bytes -> bytes) (BS MS OVH : Z),
  (forall pos a b, stream pos (a ++ b) = stream pos a ++ stream (pos + zlen a) b) ->
  (forall pos x, stream pos (stream pos x) = x) ->
  (forall pos x, zlen (stream pos x) = zlen x) ->
  (forall iv x, zlen (cbc_enc iv x) = zlen x) ->
  (forall iv x, zlen x mod BS = 0 -> cbc_dec iv (cbc_enc iv x) = x) ->
  (forall n ad p, zlen (seal n ad p) = zlen p + OVH) ->
  (forall n ad p, aopen n ad (seal n ad p) = Some p) ->
  (forall x, zlen (mac x) = MS) ->
  (forall x, wf_bytes (mac x)) ->
  forall c ws rnd rs c' rnd' segs fuel retry,
    wf_state BS MS OVH (cw_hs c) -> wf_limits (cw_hs c) -> supported_version (version (cw_hs c)) ->
    wf_bytes (concat ws) ->
    conn_writes stream cbc_enc seal mac c ws rnd = Ok (rs, c', rnd') ->
    concat segs = concat (wrecs rs) -> (length rs < fuel)%nat ->
    read_app_segs stream cbc_dec aopen mac fuel (cw_hs c) retry [] segs = (concat ws, EndEOF).
Proof. exact stream_intact. Qed.
Print Assumptions C25_stream_intact.

(* non-vacuity: the laws have a model, and the hypotheses of the stream theorem
   are met by a concrete run whose result is the data *)
Theorem C25_laws_satisfiable :
  (forall pos a b, id_stream pos (a ++ b) = id_stream pos a ++ id_stream (pos + zlen a) b) /\
  (forall pos x, id_stream pos (id_stream pos x) = x) /\
  (forall pos x, zlen (id_stream pos x) = zlen x) /\
  (forall iv x, zlen (id_cbc iv x) = zlen x) /\
  (forall iv x, zlen x mod 16 = 0 -> id_cbc iv (id_cbc iv x) = x) /\
  (forall n ad p, zlen (pad_seal n ad p) = zlen p + 16) /\
  (forall n ad p, pad_open n ad (pad_seal n ad p) = Some p) /\
  (forall x, zlen (zero_mac x) = 20) /\
  (forall x, wf_bytes (zero_mac x)).
Proof. exact laws_satisfiable. Qed.
Print Assumptions C25_laws_satisfiable.

Theorem C25_stream_nonvacuous :
  wf_state 16 20 16 nv_state /\ wf_limits nv_state /\ supported_version (version nv_state) /\
  wf_bytes (concat nv_writes) /\
  exists rs c' rnd',
    conn_writes id_stream id_cbc pad_seal zero_mac nv_conn nv_writes [] = Ok (rs, c', rnd') /\
    length rs = 2%nat /\
    read_app_segs id_stream id_cbc pad_open zero_mac 3 nv_state 0 []
      (map (fun b => [b]) (concat (wrecs rs))) = (concat nv_writes, EndEOF).
Proof. exact stream_nonvacuous. Qed.
Print Assumptions C25_stream_nonvacuous.
