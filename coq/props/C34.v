(* C34 — Concurrent use of a TLS connection is safe.
   Property theorems only; each is closed by [exact] and followed by
   Print Assumptions.

   Full statement: any interleaving of Read, Write, Handshake, ConnectionState,
   SetDeadline, CloseWrite and Close calls on a connection from multiple
   goroutines is free of data races, never deadlocks once the peer closes or
   deadlines expire, and preserves the byte stream of each direction.

   What is proved here, about the lock/field-access summary that the harness
   regenerates from tls/conn.go on every run (T3), in the interleaving semantics
   of lib/Lts.v + lib/LtsPhase.v:
     - no two goroutines are ever both about to perform conflicting accesses to
       a field of Conn (paths without renegotiation);
     - no cycle of goroutines each waiting for a mutex the next one holds (all
       paths, renegotiation included);
     - the activeCall interlock of Write/Close.
   Blocking I/O returning after close/deadline and the byte streams are
   exercised by the stress harness and the race detector, not proved (C25 has
   the record-layer stream theorem). *)
From Coq Require Import String.
From Coq Require Import List NArith Bool Arith Relations.
From Verif Require Import Harness Lts LtsPhase.
From VerifGen Require Import C34Summary_gen.
From VerifModel Require Import C34 C34Summary.
From VerifProof Require Import C34Proofs.
Import ListNotations.

(* ---- generic theorems of lib/Lts.v (proved once) ---- *)
Theorem C34_lockset_race_free : forall (pol : var -> option policy) (ps : list prog),
  forallb (disc_from pol []) ps = true -> forall s, reachable ps s -> ~ race s.
Proof. exact lockset_race_free. Qed.
Print Assumptions C34_lockset_race_free.

Theorem C34_ordered_acquisition_deadlock_free : forall (rank : lock -> nat) (ps : list prog),
  forallb (ordered_from rank []) ps = true ->
  forall s, reachable ps s -> forall i, ~ clos_trans nat (wf_edge s) i i.
Proof. exact ordered_acquisition_deadlock_free. Qed.
Print Assumptions C34_ordered_acquisition_deadlock_free.

Theorem C34_ordered_balanced_progress : forall (rank : lock -> nat) (ps : list prog),
  forallb (ordered_from rank []) ps = true -> forallb (balanced_from []) ps = true ->
  forall s, reachable ps s -> finished s \/ exists lbl s', lstep s lbl s'.
Proof. exact ordered_balanced_progress. Qed.
Print Assumptions C34_ordered_balanced_progress.

(* ---- generic theorems with the handshake phase (lib/LtsPhase.v) ---- *)
Theorem C34_phase_lockset_race_free : forall (hs : lock) (pol : var -> option xpolicy) (ps : list xprog),
  forallb (xdisc_from hs pol [] KUnknown) ps = true ->
  forall st, xreachable hs ps st -> ~ xrace st.
Proof. exact phase_lockset_race_free. Qed.
Print Assumptions C34_phase_lockset_race_free.

Theorem C34_phase_ordered_deadlock_free : forall (hs : lock) (rank1 rank2 : lock -> nat) (ps : list xprog),
  forallb (xordered_from hs rank1 rank2 [] KUnknown) ps = true ->
  forall st, xreachable hs ps st -> forall i, ~ clos_trans nat (xwf_edge (snd st)) i i.
Proof. exact phase_ordered_deadlock_free. Qed.
Print Assumptions C34_phase_ordered_deadlock_free.

(* ---- T3: the finite check on the summary generated from tls/conn.go ---- *)
Theorem C34_summary_checked : summary_ok = true.
Proof. exact summary_checked. Qed.
Print Assumptions C34_summary_checked.

(* same-critical-section obligation on the summary: after the handshake the write
   traffic secret is replaced only in a critical section of c.out in which the
   KeyUpdate record was written first (with mutual exclusion on c.out, proved
   above, this makes "reply + key switch" one step for concurrent Writes); the
   split shape is rejected *)
Theorem C34_key_update_atomic_checked : check_keyupdate = true.
Proof. exact keyupdate_checked. Qed.
Print Assumptions C34_key_update_atomic_checked.

Theorem C34_split_key_update_rejected : key_switch_atomic [] KUnknown false split_key_update = false.
Proof. exact split_key_update_rejected. Qed.
Print Assumptions C34_split_key_update_rejected.

(* any number of goroutines running any summarised non-renegotiating path *)
Theorem C34_conn_fields_guarded : forall ps,
  (forall p, In p ps -> In p race_paths) ->
  forall st, xreachable hs ps st -> ~ xrace st.
Proof. exact conn_fields_guarded. Qed.
Print Assumptions C34_conn_fields_guarded.

(* any number of goroutines running any summarised path *)
Theorem C34_conn_lock_order_phase_acyclic : forall ps,
  (forall p, In p ps -> In p all_paths) ->
  forall st, xreachable hs ps st -> forall i, ~ clos_trans nat (xwf_edge (snd st)) i i.
Proof. exact conn_lock_order_phase_acyclic. Qed.
Print Assumptions C34_conn_lock_order_phase_acyclic.

(* why the phase is needed: no single rank orders handshake() and
   handleRenegotiation(), and in the plain semantics the two shapes deadlock *)
Theorem C34_plain_order_impossible : forall rank : lock -> nat,
  forallb (ordered_from rank []) [hs_then_in; in_then_hs] = false.
Proof. exact plain_order_impossible. Qed.
Print Assumptions C34_plain_order_impossible.

Theorem C34_plain_semantics_deadlocks :
  exists s, reachable [hs_then_in; in_then_hs] s /\ clos_trans nat (wf_edge s) 0%nat 0%nat.
Proof. exact plain_semantics_deadlocks. Qed.
Print Assumptions C34_plain_semantics_deadlocks.

(* ---- the activeCall interlock ---- *)
Theorem C34_activecall_word_invariant : forall es s, ac_wf s -> ac_wf (ac_after s es).
Proof. exact ac_wf_run. Qed.
Print Assumptions C34_activecall_word_invariant.

Theorem C34_no_write_after_close_bit : forall es s,
  ac_wf s -> closed_bit s = true ->
  Forall2 (fun e o => e <> ERelease -> o = (1%N, false)) es (ac_run s es) /\
  closed_bit (ac_after s es) = true.
Proof. exact no_write_after_close_bit. Qed.
Print Assumptions C34_no_write_after_close_bit.

Theorem C34_close_waits_or_interrupts : forall s,
  ac_wf s -> closed_bit s = false ->
  let '(s', (code, alert)) := ac_step s EClose in
  code = 2%N /\ tclosed s' = true /\ closed_bit s' = true /\
  (alert = true <-> parked s = 0%nat).
Proof. exact close_waits_or_interrupts. Qed.
Print Assumptions C34_close_waits_or_interrupts.

Theorem C34_activecall_nonvacuous :
  ac_run ac_init [EWrite; EClose; EWrite; ERelease; EClose] =
  [(0, false); (2, false); (1, false); (3, false); (1, false)]%N.
Proof. exact ac_nonvacuous. Qed.
Print Assumptions C34_activecall_nonvacuous.
