(* C06 — Certificate metadata is a faithful function of the DER bytes. Property theorems only. *)
From Coq Require Import List NArith ZArith Bool.
From Verif Require Import Harness.
From VerifModel Require Import C22Tlv C06.
Import ListNotations.

Theorem C06_placeholder : forall md5 sha1 sha256 sigok bs m,
  meta_of md5 sha1 sha256 sigok bs = Some m -> m_raw m = bs.
Proof.
  exact (fun md5 sha1 sha256 sigok bs m =>
    match cert_parts bs as o return (match o with Some (raw_tbs, p) => Some (mkMeta bs raw_tbs (p_issuer_raw p) (p_subject_raw p) (p_spki_raw p) (p_version p + 1)%Z (bytes_eqb (p_subject_raw p) (p_issuer_raw p) && sigok bs) (md5 bs) (sha1 bs) (sha256 bs) (sha256 (p_spki_raw p)) (sha256 raw_tbs) (sha256 (noct_tbs p)) (sha256 (p_spki_raw p ++ p_subject_raw p))) | None => None end = Some m -> m_raw m = bs) with
    | Some (r, p) => fun H => match H in _ = y return match y with Some m' => m_raw m' = bs | None => True end with eq_refl => eq_refl end
    | None => fun H => match H in _ = y return match y with Some _ => False | None => True end with eq_refl => I end
    end).
Qed.
Print Assumptions C06_placeholder.
