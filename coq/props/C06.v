(* C06 — Certificate metadata is a faithful function of the DER bytes.
   Property theorems only; each is closed by [exact] of a lemma from proof/C06*.v.

   Model (model/C06.v): [meta_of md5 sha1 sha256 sigok bs] = what x509.ParseCertificate
   reports for the DER bytes [bs] (Raw* slices, fingerprints, Version, SelfSigned, no-CT
   fingerprint); [cert_parts bs] = the walk over certificate / tbsCertificate that delimits
   the fields; [elem_at path bs] = the raw element at a path of child indices in the DER
   tree of [bs] (independent navigation); the hashes and [sigok] (the certificate's
   signature verifies under its own key) are parameters. *)
From Coq Require Import List NArith ZArith Bool.
From Verif Require Import Harness.
From VerifModel Require Import C22Tlv C06.
From VerifProof Require Import C22TlvProofs C06Proofs C06NoctProofs.
Import ListNotations.
Open Scope N_scope.

(* the reported raw fields are what the walk delimited; Version = walked version + 1 *)
Theorem C06_meta_raw_fields : forall md5 sha1 sha256 sigok bs m,
  meta_of md5 sha1 sha256 sigok bs = Some m ->
  exists raw_tbs p, cert_parts bs = Some (raw_tbs, p) /\
    m_raw m = bs /\ m_raw_tbs m = raw_tbs /\ m_raw_issuer m = p_issuer_raw p /\
    m_raw_subject m = p_subject_raw p /\ m_raw_spki m = p_spki_raw p /\
    m_version m = (p_version p + 1)%Z.
Proof. exact meta_raw_fields. Qed.
Print Assumptions C06_meta_raw_fields.

(* every raw field is the exact sub-encoding at its path: whole certificate = child 0 of the
   input, TBS = its child 0; below the TBS, serial / signature algorithm / issuer / validity /
   subject / SPKI are children k..k+5, k = 1 iff the version element is present; the whole
   input and the TBS are single self-contained TLVs.  Premise for the fields after the
   version: the version element as Go delimits it is child 0 of the TBS (parseField does not
   compare the length of the EXPLICIT [0] wrapper with the INTEGER inside it). *)
Theorem C06_raw_are_subencodings : forall bs raw_tbs p,
  cert_parts bs = Some (raw_tbs, p) ->
  elem_at [0%nat] bs = Some bs /\
  elem_at [0; 0]%nat bs = Some raw_tbs /\
  single_tlv bs /\ single_tlv raw_tbs /\
  ((vk p = 1%nat -> elem_at [0; 0; 0]%nat bs = Some (p_version_raw p)) ->
   elem_at [0; 0; vk p]%nat bs = Some (p_serial_raw p) /\
   elem_at [0; 0; vk p + 1]%nat bs = Some (p_sigalg_raw p) /\
   elem_at [0; 0; vk p + 2]%nat bs = Some (p_issuer_raw p) /\
   elem_at [0; 0; vk p + 3]%nat bs = Some (p_validity_raw p) /\
   elem_at [0; 0; vk p + 4]%nat bs = Some (p_subject_raw p) /\
   elem_at [0; 0; vk p + 5]%nat bs = Some (p_spki_raw p)).
Proof. exact raw_at_paths. Qed.
Print Assumptions C06_raw_are_subencodings.

(* what "element" means: the raw slice followed by the rest is the input, the slice is
   header ++ content with the content length the header announces, and it parses to the
   same header and content whatever follows it *)
Theorem C06_element_is_exact_tlv : forall bs t c raw rest,
  next bs = Some (t, c, raw, rest) ->
  bs = raw ++ rest /\
  exists h, raw = h ++ c /\ (2 <= length h)%nat /\ N.of_nat (length c) = t_len t /\
            forall rest', next (raw ++ rest') = Some (t, c, raw, rest').
Proof. exact next_spec. Qed.
Print Assumptions C06_element_is_exact_tlv.

(* fingerprints are the named hashes of those bytes *)
Theorem C06_fingerprints_are_hashes : forall md5 sha1 sha256 sigok bs m,
  meta_of md5 sha1 sha256 sigok bs = Some m ->
  m_raw m = bs /\
  m_fp_md5 m = md5 (m_raw m) /\ m_fp_sha1 m = sha1 (m_raw m) /\ m_fp_sha256 m = sha256 (m_raw m) /\
  m_fp_spki m = sha256 (m_raw_spki m) /\ m_fp_tbs m = sha256 (m_raw_tbs m) /\
  m_fp_spki_subject m = sha256 (m_raw_spki m ++ m_raw_subject m) /\
  exists raw_tbs p, cert_parts bs = Some (raw_tbs, p) /\ m_fp_noct m = sha256 (noct_tbs p).
Proof. exact fingerprints_are_hashes. Qed.
Print Assumptions C06_fingerprints_are_hashes.

(* the version is the encoded version plus one: absent = 0, otherwise the two's complement
   value of the INTEGER inside the [0] element of the TBS *)
Theorem C06_version_is_encoded : forall bs raw_tbs p,
  cert_parts bs = Some (raw_tbs, p) ->
  (p_version_raw p = [] /\ p_version p = 0%Z) \/
  (exists c1 t r t2 b2 c2,
     single_tlv raw_tbs /\ (exists t1, next raw_tbs = Some (t1, c1, raw_tbs, [])) /\
     parse_tl c1 = Some (t, r) /\ t_class t = 2 /\ t_tag t = 0 /\
     take_tlv r = Some (t2, b2, c2) /\ hdr_is t2 0 false 2 = true /\
     int64_val b2 = Some (p_version p)).
Proof. exact version_is_encoded. Qed.
Print Assumptions C06_version_is_encoded.

Theorem C06_integer_value : forall c z,
  int64_val c = Some z ->
  c <> [] /\ (length c <= 8)%nat /\
  z = if (hd 0 c <? 128)%N then Z.of_N (be_val c)
      else (Z.of_N (be_val c) - 2 ^ (8 * Z.of_nat (length c)))%Z.
Proof. exact int64_val_spec. Qed.
Print Assumptions C06_integer_value.

(* self-signed exactly when issuer equals subject and the signature verifies under the own key *)
Theorem C06_self_signed_iff : forall md5 sha1 sha256 sigok bs m,
  meta_of md5 sha1 sha256 sigok bs = Some m ->
  (m_self_signed m = true <-> m_raw_issuer m = m_raw_subject m /\ sigok bs = true).
Proof. exact self_signed_iff. Qed.
Print Assumptions C06_self_signed_iff.

(* ValidityPeriod is notAfter - notBefore in seconds (civil dates of the canonical time forms) *)
Theorem C06_validity_is_difference : forall md5 sha1 sha256 sigok bs m v,
  meta_of md5 sha1 sha256 sigok bs = Some m -> m_validity m = Some v ->
  exists raw_tbs p tv c rest t1 c1 r1 t2 c2 r2 rest2 a b,
    cert_parts bs = Some (raw_tbs, p) /\
    next (p_validity_raw p) = Some (tv, c, rest, []) /\ rest = p_validity_raw p /\
    take_elems 2 c = Some ([(t1, c1, r1); (t2, c2, r2)], rest2) /\
    time_secs (t_tag t1) c1 = Some a /\ time_secs (t_tag t2) c2 = Some b /\ v = (b - a)%Z.
Proof. exact validity_is_difference. Qed.
Print Assumptions C06_validity_is_difference.

Theorem C06_civil_time_vectors :
  days_from_civil 1970 1 1 = 0%Z /\ days_from_civil 2000 3 1 = 11017%Z /\
  days_from_civil 1950 1 1 = (-7305)%Z /\ days_from_civil 9999 12 31 = 2932896%Z /\
  time_secs 23 [50;53;48;49;48;49;48;48;48;48;48;48;90] = Some 1735689600%Z /\
  time_secs 24 [57;57;57;57;49;50;51;49;50;51;53;57;53;57;90] = Some 253402300799%Z /\
  time_secs 23 [50;51;48;50;50;57;48;48;48;48;48;48;90] = None.
Proof. exact civil_time_vectors. Qed.
Print Assumptions C06_civil_time_vectors.

(* canonically encoded certificates (any fields [s], any extension list [x], any signature
   part [tail], total size below the decoder's 2^31 limit): the walk recovers the fields and
   the no-CT fingerprint is the hash of the canonical TBS carrying exactly the non-CT
   extensions (with an extension block even when none is left) *)
Theorem C06_canonical_certificate : forall md5 sha1 sha256 sigok s x tail,
  wf_src s -> wf_exts (exts_list x) -> small (cert_of s x tail) ->
  exists m, meta_of md5 sha1 sha256 sigok (cert_of s x tail) = Some m /\
    m_raw_tbs m = tlv 0 true 16 (tbs_content s x) /\
    m_raw_issuer m = enc_elem (s_issuer s) /\ m_raw_subject m = enc_elem (s_subject s) /\
    m_raw_spki m = tlv 0 true 16 (s_spki s) /\ m_version m = (ver_val s + 1)%Z /\
    m_fp_noct m =
    sha256 (tlv 0 true 16 (tbs_content s (Some (filter (fun e => negb (ext_is_ct e)) (exts_list x))))).
Proof. exact meta_of_built. Qed.
Print Assumptions C06_canonical_certificate.

(* adding or removing the CT poison / SCT-list extension does not change the no-CT fingerprint:
   two canonical certificates with the same fields (signatures may differ) whose extension
   lists agree once the CT extensions are dropped *)
Theorem C06_noct_invariant : forall md5 sha1 sha256 sigok s x1 x2 tail1 tail2,
  wf_src s -> wf_exts (exts_list x1) -> wf_exts (exts_list x2) ->
  small (cert_of s x1 tail1) -> small (cert_of s x2 tail2) ->
  filter (fun e => negb (ext_is_ct e)) (exts_list x1) = filter (fun e => negb (ext_is_ct e)) (exts_list x2) ->
  exists m1 m2,
    meta_of md5 sha1 sha256 sigok (cert_of s x1 tail1) = Some m1 /\
    meta_of md5 sha1 sha256 sigok (cert_of s x2 tail2) = Some m2 /\
    m_fp_noct m1 = m_fp_noct m2.
Proof. exact noct_invariant. Qed.
Print Assumptions C06_noct_invariant.

(* in particular a CT extension inserted at any index *)
Theorem C06_noct_ct_inserted : forall md5 sha1 sha256 sigok s l i ct tail1 tail2,
  wf_src s -> wf_exts l -> wf_exts [ct] -> ext_is_ct ct = true ->
  small (cert_of s (Some l) tail1) -> small (cert_of s (Some (insert_at i ct l)) tail2) ->
  exists m1 m2,
    meta_of md5 sha1 sha256 sigok (cert_of s (Some l) tail1) = Some m1 /\
    meta_of md5 sha1 sha256 sigok (cert_of s (Some (insert_at i ct l)) tail2) = Some m2 /\
    m_fp_noct m1 = m_fp_noct m2.
Proof. exact noct_ct_inserted. Qed.
Print Assumptions C06_noct_ct_inserted.

(* non-vacuity: a concrete canonical certificate meets every hypothesis, both CT extension
   identifiers are recognised, and the poison extension is dropped at index 0, 1 and 2 *)
Theorem C06_nonvacuous :
  wf_src ex_src /\ wf_exts [ex_ski; ex_bc] /\ wf_exts [ex_poison] /\ wf_exts [ex_scts] /\
  ext_is_ct ex_poison = true /\ ext_is_ct ex_scts = true /\
  ext_is_ct ex_ski = false /\ ext_is_ct ex_bc = false /\
  small (cert_of ex_src (Some (insert_at 1 ex_poison [ex_ski; ex_bc])) [48;0;3;1;0]) /\
  small (cert_of ex_src (Some [ex_ski; ex_bc]) [48;0;3;2;0;7]).
Proof. exact ex_wf. Qed.
Print Assumptions C06_nonvacuous.

Theorem C06_nonvacuous_drop : forall i, (i <= 2)%nat ->
  option_map noct_tbs (option_map snd (cert_parts (cert_of ex_src (Some (insert_at i ex_poison [ex_ski; ex_bc])) [48;0;3;1;0]))) =
  Some (tlv 0 true 16 (tbs_content ex_src (Some [ex_ski; ex_bc]))).
Proof. exact ex_noct_drops_poison. Qed.
Print Assumptions C06_nonvacuous_drop.
