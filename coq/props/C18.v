(* C18 — ASN.1 marshalling round-trips and is idempotent.
   Property theorems only; each is closed by [exact] of a lemma from proof/C18*.v
   and followed by Print Assumptions.  Encoder model: model/C18.v (marshal.go);
   decoder model: model/C20.v (asn1.go), run in strict mode. *)
From Coq Require Import List NArith ZArith Bool Arith.
From Verif Require Import Harness.
From VerifModel Require Import C20 C18.
From VerifProof Require Import C18Header C18Ints C18Prims C18Field C18Proofs C18Idem C18Example.
Import ListNotations.

(* the header: parseTagAndLength inverts appendTagAndLength (base-128 tag numbers, long-form lengths) *)
Theorem C18_header_roundtrip : forall c tag len comp rest,
  hdr_ok c tag len ->
  parse_tl false (emit_header c tag len comp ++ rest)
  = Some ({| t_class := c; t_tag := tag; t_len := len; t_comp := comp |}, rest).
Proof. exact header_roundtrip. Qed.
Print Assumptions C18_header_roundtrip.

(* INTEGER bodies: int / int64, int32 / Enumerated, *big.Int *)
Theorem C18_int64_roundtrip : forall z, (-9223372036854775808 <= z <= 9223372036854775807)%Z ->
  parse_int64 false (int_bytes z) = Some z.
Proof. exact int64_roundtrip. Qed.
Print Assumptions C18_int64_roundtrip.

Theorem C18_int32_roundtrip : forall z, (-2147483648 <= z <= 2147483647)%Z ->
  parse_int32 false (int_bytes z) = Some z.
Proof. exact int32_roundtrip. Qed.
Print Assumptions C18_int32_roundtrip.

Theorem C18_bigint_roundtrip : forall z, parse_bigint false (make_bigint z) = Some z.
Proof. exact bigint_roundtrip. Qed.
Print Assumptions C18_bigint_roundtrip.

(* BIT STRING, OBJECT IDENTIFIER, strings, times *)
Theorem C18_bits_roundtrip : forall bs n, bits_ok bs n ->
  parse_bitstring (make_bits bs n) = Some (VBits bs n).
Proof. exact bits_roundtrip. Qed.
Print Assumptions C18_bits_roundtrip.

Theorem C18_oid_roundtrip : forall arcs bs, oid_ok arcs -> make_oid arcs = Some bs -> parse_oid bs = Some arcs.
Proof. exact oid_roundtrip. Qed.
Print Assumptions C18_oid_roundtrip.

Theorem C18_string_roundtrip : forall st s bs,
  (st = TagIA5String \/ st = TagPrintableString \/ st = TagNumericString \/ (st = TagUTF8String /\ utf8_valid s = true)) ->
  make_string st s = Some bs -> bs = s /\ parse_string false st s = Some s.
Proof. exact string_roundtrip. Qed.
Print Assumptions C18_string_roundtrip.

Theorem C18_gentime_roundtrip : forall t bs, time_ok t -> make_gentime t = Some bs ->
  parse_gentime false bs = Some (trunc_time t).
Proof. exact gentime_roundtrip. Qed.
Print Assumptions C18_gentime_roundtrip.

Theorem C18_utctime_roundtrip : forall t bs, time_ok t -> make_utctime t = Some bs ->
  parse_utctime false bs = Some (trunc_time t).
Proof. exact utctime_roundtrip. Qed.
Print Assumptions C18_utctime_roundtrip.

(* FULL STATEMENT WANTED: for every value of the documented domain, strict Unmarshal of Marshal's output consumes
   all bytes and yields an equal value (sets up to order, times up to the second); re-marshalling the decoded value
   reproduces the bytes.
   PROVED HERE (named _partial): the first sentence, for every type of the universe at any nesting depth built from
   the 11 non-recursive kinds (bool, int, int32, int64, *big.Int, Enumerated, string, ObjectIdentifier, BitString,
   time.Time, []byte, Flag), structs and SEQUENCE OF, with every tag form (universal / implicit / explicit;
   context-specific, application, private; tag numbers >= 31), OPTIONAL, DEFAULT, omitempty and `set` on structs:
   the decoder returns exactly [norm p t v] (times cut to the second, nil []byte / BitString written as empty,
   a written Flag = true, omitted fields = their default) and no byte is left.
   MISSING (outside [dom]): RawValue fields, structs that start with a RawContent field, SET OF (the `set`
   parameter on a slice / SET-named slice types: sorting of the element encodings); these are covered by the
   correspondence run and the oracle only.  Re-marshalling and value equality: C18_marshal_roundtrip_partial. *)
Theorem C18_unmarshal_marshal_partial : forall p t v bs,
  dom p t v -> marshal p t v = Some bs -> unmarshal false p t bs = Some (norm p t v, 0%N).
Proof. exact unmarshal_marshal. Qed.
Print Assumptions C18_unmarshal_marshal_partial.

(* the same inside any context: the bytes after the encoding are left untouched; for an omitted field the
   decoder must be able to tell that what follows is not this field ([skips]) *)
Theorem C18_field_roundtrip_partial : forall t p v bs rest,
  dom p t v -> make_field p t v = Some bs -> (bs = [] -> skips p t rest) ->
  parse_field false p t (bs ++ rest) = Some (norm p t v, rest).
Proof. exact (proj1 roundtrip_all). Qed.
Print Assumptions C18_field_roundtrip_partial.

(* re-marshalling: Marshal of the decoded value reproduces the bytes, for canonical values ([canon]: decoding does not
   move a field across the "omitted" line — an empty omitempty slice is nil, a written value does not decode to the
   default) *)
Theorem C18_remarshal_partial : forall p t v bs,
  dom p t v -> canon p t v -> marshal p t v = Some bs ->
  unmarshal false p t bs = Some (norm p t v, 0%N) /\ marshal p t (norm p t v) = Some bs.
Proof. exact remarshal. Qed.
Print Assumptions C18_remarshal_partial.

(* the three sentences of the property together (same domain; _partial for the same missing constructors):
   Marshal, strict Unmarshal, Marshal again: every byte consumed, the decoded value equals the original up to
   [veq] (times compared to the second, nil = empty []byte / BitString / slice), and the bytes are reproduced.
   [flags_ok]: a Flag that is written is true ("set to true if present"). *)
Theorem C18_marshal_roundtrip_partial : forall p t v bs,
  dom p t v -> canon p t v -> flags_ok p t v -> marshal p t v = Some bs ->
  exists v', unmarshal false p t bs = Some (v', 0%N) /\ veq t v' v /\ marshal p t v' = Some bs.
Proof. exact marshal_roundtrip. Qed.
Print Assumptions C18_marshal_roundtrip_partial.

(* non-vacuity: struct { A int `optional,default:5`; B bool `private,explicit,tag:2`; C []int32 } = {5, true, [7,-1]}
   satisfies dom, canon and flags_ok; Marshal gives 30 0d e2 03 01 01 ff 30 06 02 01 07 02 01 ff *)
Theorem C18_example :
  dom no_params ex_ty ex_val /\ canon no_params ex_ty ex_val /\ flags_ok no_params ex_ty ex_val
  /\ marshal no_params ex_ty ex_val = Some ex_bytes
  /\ unmarshal false no_params ex_ty ex_bytes = Some (ex_val, 0%N).
Proof. exact example_roundtrip. Qed.
Print Assumptions C18_example.
