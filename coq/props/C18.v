(* C18 — ASN.1 marshalling round-trips and is idempotent. *)
From Coq Require Import List NArith ZArith Bool Arith.
From Verif Require Import Harness.
From VerifModel Require Import C20 C18.
From VerifProof Require Import C18Proofs.
Import ListNotations.

Theorem C18_bool_roundtrip : forall b : bool, parse_bool [if b then 255 else 0]%N = Some b.
Proof. exact bool_roundtrip. Qed.
Print Assumptions C18_bool_roundtrip.
