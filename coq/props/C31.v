(* C31 — Sessions resume only from authentic tickets.
   Property theorems only.  [hm] is HMAC-SHA-256 and [ctr] the AES-CTR keystream:
   arbitrary functions, with their output lengths as explicit premises where a
   theorem needs them (the correspondence run instantiates hm with the Gallina
   HMAC-SHA-256 and ctr with keystreams computed by Go's standard library).
   That a modified ticket cannot carry a valid MAC is HMAC unforgeability and is
   NOT proved; what is proved is that acceptance REQUIRES the MAC equation over
   all preceding bytes under a held key, for every byte string. *)
From Coq Require Import List NArith ZArith Bool Arith.
From Verif Require Import Harness Sha256 Sha512 Hmac.
From VerifGen Require Import C31_gen.
From VerifModel Require Import C31.
From VerifProof Require Import C31Proofs.
Import ListNotations.

(* ---- sealing / opening (tls/ticket.go) ---- *)

(* a ticket sealed under the first key opens to the sealed state, usedOldKey = false *)
Theorem C31_decrypt_encrypt :
  forall (hm : bytes -> bytes -> bytes) (ctr : bytes -> bytes -> nat -> bytes),
    (forall k m, length (hm k m) = 32) -> (forall k iv n, length (ctr k iv n) = n) ->
    forall k rest rand state t,
      length (kname k) = 16 -> 16 <= length rand ->
      encrypt_ticket hm ctr (k :: rest) rand state = Some t ->
      decrypt_ticket hm ctr (k :: rest) t = Some (state, false).
Proof. exact decrypt_encrypt. Qed.
Print Assumptions C31_decrypt_encrypt.

(* ... and, after any change of the key list, as long as its sealing key is still the first key of that
   name in the list; usedOldKey reports that it is no longer the sealing key *)
Theorem C31_open_sealed_under_held_key :
  forall (hm : bytes -> bytes -> bytes) (ctr : bytes -> bytes -> nat -> bytes),
    (forall k m, length (hm k m) = 32) -> (forall k iv n, length (ctr k iv n) = n) ->
    forall k rest rand state keys i t,
      length (kname k) = 16 -> 16 <= length rand ->
      encrypt_ticket hm ctr (k :: rest) rand state = Some t ->
      find_key (kname k) keys 0 = Some (i, k) ->
      decrypt_ticket hm ctr keys t = Some (state, Nat.ltb 0 i).
Proof. exact open_sealed. Qed.
Print Assumptions C31_open_sealed_under_held_key.

(* acceptance implies: at least 64 bytes, the first 16 name a held key, and the last 32 are that key's
   HMAC over EVERYTHING before them (name, IV and ciphertext are all covered) *)
Theorem C31_accept_implies_mac :
  forall (hm : bytes -> bytes -> bytes) (ctr : bytes -> bytes -> nat -> bytes) keys t p old,
    decrypt_ticket hm ctr keys t = Some (p, old) ->
    64 <= length t /\
    exists i k, In k keys /\ nth_error keys i = Some k /\
                kname k = firstn 16 t /\
                skipn (length t - 32) t = hm (khmac k) (firstn (length t - 32) t) /\
                old = Nat.ltb 0 i.
Proof. exact accept_implies_mac. Qed.
Print Assumptions C31_accept_implies_mac.

Theorem C31_real_accept_implies_mac : forall ctr keys t p old,
  decrypt_ticket hmac_sha256 ctr keys t = Some (p, old) ->
  64 <= length t /\
  exists i k, In k keys /\ nth_error keys i = Some k /\ kname k = firstn 16 t /\
              skipn (length t - 32) t = hmac_sha256 (khmac k) (firstn (length t - 32) t) /\
              old = Nat.ltb 0 i.
Proof. exact real_accept_implies_mac. Qed.
Print Assumptions C31_real_accept_implies_mac.

(* for given preceding bytes exactly one MAC is acceptable: any change confined to the MAC is rejected *)
Theorem C31_mac_determined :
  forall (hm : bytes -> bytes -> bytes) (ctr : bytes -> bytes -> nat -> bytes) keys body m1 m2 r1 r2,
    length m1 = 32 -> length m2 = 32 ->
    decrypt_ticket hm ctr keys (body ++ m1) = Some r1 ->
    decrypt_ticket hm ctr keys (body ++ m2) = Some r2 ->
    m1 = m2.
Proof. exact mac_determined. Qed.
Print Assumptions C31_mac_determined.

Theorem C31_truncated_rejected :
  forall (hm : bytes -> bytes -> bytes) (ctr : bytes -> bytes -> nat -> bytes) keys t,
    length t < 64 -> decrypt_ticket hm ctr keys t = None.
Proof. exact truncated_rejected. Qed.
Print Assumptions C31_truncated_rejected.

(* tickets of another server, or sealed under a key that was rotated out *)
Theorem C31_foreign_or_rotated_out_rejected :
  forall (hm : bytes -> bytes -> bytes) (ctr : bytes -> bytes -> nat -> bytes) keys t,
    (forall k, In k keys -> kname k <> firstn 16 t) -> decrypt_ticket hm ctr keys t = None.
Proof. exact unknown_name_rejected. Qed.
Print Assumptions C31_foreign_or_rotated_out_rejected.

(* ---- ticket keys (tls/common.go ticketKeys / SetSessionTicketKeys) ---- *)
Theorem C31_explicit_keys_win : forall h512 c now rand e es,
  k_explicit c = e :: es -> fst (fst (ticket_keys h512 c now rand)) = e :: es.
Proof. exact explicit_keys_win. Qed.
Print Assumptions C31_explicit_keys_win.

Theorem C31_rotation_head_fresh : forall h512 c now rand,
  auto_mode c ->
  exists k rest, fst (fst (ticket_keys h512 c now rand)) = k :: rest /\ (now - kcreated k < key_rotation)%Z.
Proof. exact rotation_head_fresh. Qed.
Print Assumptions C31_rotation_head_fresh.

Theorem C31_rotation_keeps_recent : forall h512 c now rand k,
  auto_mode c -> In k (k_auto c) -> (now - kcreated k < key_lifetime)%Z ->
  In k (fst (fst (ticket_keys h512 c now rand))) /\
  In k (k_auto (snd (fst (ticket_keys h512 c now rand)))).
Proof. exact rotation_keeps_live. Qed.
Print Assumptions C31_rotation_keeps_recent.

Theorem C31_rotation_drops_expired : forall h512 c now rand k0 rest,
  auto_mode c ->
  fst (fst (ticket_keys h512 c now rand)) = k0 :: rest ->
  k_auto c = [] \/ (exists h t, k_auto c = h :: t /\ (key_rotation <= now - kcreated h)%Z) ->
  forall k, In k rest -> (now - kcreated k < key_lifetime)%Z.
Proof. exact rotation_drops_expired. Qed.
Print Assumptions C31_rotation_drops_expired.

(* over any history of connections a key stays while every connection happened within its lifetime *)
Theorem C31_key_survives_history : forall h512 times c rand k,
  auto_mode c -> In k (k_auto c) ->
  (forall t, In t times -> (t - kcreated k < key_lifetime)%Z) ->
  In k (k_auto (run_gets h512 c rand times)).
Proof. exact key_survives_history. Qed.
Print Assumptions C31_key_survives_history.

(* ---- resumption decisions ---- *)
(* TLS <= 1.2: resumption implies an authentic, fresh ticket for the negotiated version whose suite the
   client still offers and the server still supports; the resumed suite is the ticket's *)
Theorem C31_resume12_implies :
  forall (hm : bytes -> bytes -> bytes) (ctr : bytes -> bytes -> nat -> bytes) keys s ticket cs st old suite,
    check12 hm ctr keys s ticket cs = Some (st, old, suite) ->
    v_disabled s = false /\
    (exists pt, decrypt_ticket hm ctr keys ticket = Some (pt, old) /\ unmarshal12 pt = Some st) /\
    stale (v_now s) (s_created st) = false /\
    s_vers st = v_vers s /\
    suite = s_suite st /\ In suite cs /\ In suite (v_suites s).
Proof. exact resume12_implies. Qed.
Print Assumptions C31_resume12_implies.

(* TLS <= 1.2: no authentic ticket, no resumption — and "no resumption" is the full-handshake branch of a
   total function, never an error *)
Theorem C31_unauthentic12_is_full_handshake :
  forall (hm : bytes -> bytes -> bytes) (ctr : bytes -> bytes -> nat -> bytes) keys s ticket cs,
    decrypt_ticket hm ctr keys ticket = None -> check12 hm ctr keys s ticket cs = None.
Proof. exact unauthentic12_never_resumes. Qed.
Print Assumptions C31_unauthentic12_is_full_handshake.

(* a ticket issued under key k for state st resumes, with st's version, suite and master secret, as long as
   k is held, the ticket is not stale and the suite is still offered and supported *)
Theorem C31_valid_ticket_resumes :
  forall (hm : bytes -> bytes -> bytes) (ctr : bytes -> bytes -> nat -> bytes),
    (forall k m, length (hm k m) = 32) -> (forall k iv n, length (ctr k iv n) = n) ->
    forall k rest rand st pt t keys i s cs,
      (s_vers st < 65536)%N -> (s_suite st < 65536)%N -> (s_created st < 2 ^ 64)%N -> s_master st <> [] ->
      marshal12 st = Some pt ->
      length (kname k) = 16 -> 16 <= length rand ->
      encrypt_ticket hm ctr (k :: rest) rand pt = Some t ->
      find_key (kname k) keys 0 = Some (i, k) ->
      v_disabled s = false ->
      stale (v_now s) (s_created st) = false ->
      v_vers s = s_vers st ->
      In (s_suite st) cs ->
      select_suite s (s_suite st) = Some (s_suite st) ->
      s_certs st = [] -> requires_client_cert (v_auth s) = false ->
      check12 hm ctr keys s t cs = Some (st, Nat.ltb 0 i, s_suite st).
Proof. exact valid_ticket_resumes. Qed.
Print Assumptions C31_valid_ticket_resumes.

Theorem C31_state12_roundtrip : forall st pt,
  (s_vers st < 65536)%N -> (s_suite st < 65536)%N -> (s_created st < 2 ^ 64)%N -> s_master st <> [] ->
  marshal12 st = Some pt -> unmarshal12 pt = Some st.
Proof. exact unmarshal12_marshal12. Qed.
Print Assumptions C31_state12_roundtrip.

(* TLS 1.3: a PSK is used only for an identity that is an authentic, fresh ticket whose suite has the hash
   of the negotiated suite and whose binder verifies *)
Theorem C31_psk13_implies :
  forall (hm : bytes -> bytes -> bytes) (ctr : bytes -> bytes -> nat -> bytes) cert_count binder_ok
         keys s h mode ids nb i st,
    check13 hm ctr cert_count binder_ok keys s h mode ids nb = UsePSK i st ->
    v_disabled s = false /\ mode = true /\ i < 5 /\
    exists label pt old, nth_error ids i = Some label /\
      decrypt_ticket hm ctr keys label = Some (pt, old) /\ unmarshal13 cert_count pt = Some st /\
      stale (v_now s) (t_created st) = false /\ hash13 (t_suite st) suites13 = Some h /\ binder_ok i st = true.
Proof. exact psk13_implies. Qed.
Print Assumptions C31_psk13_implies.

(* TLS 1.3: identities that do not open give a non-PSK handshake, not an alert *)
Theorem C31_unauthentic13_is_full_handshake :
  forall (hm : bytes -> bytes -> bytes) (ctr : bytes -> bytes -> nat -> bytes) cert_count binder_ok keys s h mode ids,
    (forall label, In label ids -> decrypt_ticket hm ctr keys label = None) ->
    check13 hm ctr cert_count binder_ok keys s h mode ids (length ids) = NoPSK.
Proof. exact unauthentic13_is_full_handshake. Qed.
Print Assumptions C31_unauthentic13_is_full_handshake.

(* TLS 1.3: an alert needs a binder-count mismatch or an AUTHENTIC ticket (with a wrong binder) *)
Theorem C31_abort13_needs_authentic_ticket :
  forall (hm : bytes -> bytes -> bytes) (ctr : bytes -> bytes -> nat -> bytes) cert_count binder_ok keys s h mode ids nb,
    check13 hm ctr cert_count binder_ok keys s h mode ids nb = Abort ->
    length ids <> nb \/
    exists label pt old st, In label ids /\ decrypt_ticket hm ctr keys label = Some (pt, old) /\
                            unmarshal13 cert_count pt = Some st.
Proof. exact abort13_needs_authentic_ticket. Qed.
Print Assumptions C31_abort13_needs_authentic_ticket.

(* ---- creation time of issued tickets (TLS <= 1.2 sendSessionTicket, the code as it is) ----
   The statement one would want,
     forall prev now, 0 <= now < 2^63 -> stale now (issue_created12 prev now) = false
   ("a ticket issued by a full handshake is fresh"), is FALSE of the faithful model: hs.sessionState is set
   as soon as the presented ticket opens, so the full handshake that follows an authentic but stale ticket
   stamps the new ticket with the stale creation time (known finding issued-ticket-backdated; not repaired
   because TestResumption depends on the behaviour). *)
Theorem C31_issued_without_opened_ticket_is_fresh : forall now,
  (0 <= now < 2 ^ 63)%Z -> stale now (issue_created12 None now) = false.
Proof. exact issued_without_opened_ticket_is_fresh. Qed.
Print Assumptions C31_issued_without_opened_ticket_is_fresh.

Theorem C31_issued_ticket_keeps_age : forall c now, issue_created12 (Some c) now = c.
Proof. exact issued_ticket_keeps_age. Qed.
Print Assumptions C31_issued_ticket_keeps_age.

Theorem C31_issued_after_stale_is_stale : forall c now,
  stale now c = true -> stale now (issue_created12 (Some c) now) = true.
Proof. exact issued_after_stale_is_stale. Qed.
Print Assumptions C31_issued_after_stale_is_stale.

Theorem C31_issued_by_full_handshake_is_fresh_refuted :
  exists prev now, (0 <= now < 2 ^ 63)%Z /\ stale now (issue_created12 prev now) = true.
Proof. exact issued_by_full_handshake_is_fresh_refuted. Qed.
Print Assumptions C31_issued_by_full_handshake_is_fresh_refuted.

(* non-vacuity by computation with the real HMAC: seal, open, rotate, rotate out, flip, truncate *)
Theorem C31_seal_open_example :
  let k1 := toy_key 10 in let k2 := toy_key 20 in
  let state := [1;2;3;4;5;6;7;8;9]%N in
  match encrypt_ticket hmac_sha256 toy_ctr [k1] (repeat 3%N 16) state with
  | Some t =>
      length t = 73 /\
      decrypt_ticket hmac_sha256 toy_ctr [k1] t = Some (state, false) /\
      decrypt_ticket hmac_sha256 toy_ctr [k2; k1] t = Some (state, true) /\
      decrypt_ticket hmac_sha256 toy_ctr [k2] t = None /\
      decrypt_ticket hmac_sha256 toy_ctr [k1] (xor_at t 40 1) = None /\
      decrypt_ticket hmac_sha256 toy_ctr [k1] (xor_at t 72 128) = None /\
      decrypt_ticket hmac_sha256 toy_ctr [k1] (firstn 72 t) = None
  | None => False
  end.
Proof. exact seal_open_example. Qed.
Print Assumptions C31_seal_open_example.
