(* C31 — Sessions resume only from authentic tickets.  Property theorems only. *)
From Coq Require Import List NArith ZArith Bool Arith.
From Verif Require Import Harness Sha256 Sha512 Hmac.
From VerifGen Require Import C31_gen.
From VerifModel Require Import C31.
From VerifProof Require Import C31Proofs.
Import ListNotations.

Theorem C31_truncated_rejected : forall hm ctr keys t,
  length t < 64 -> decrypt_ticket hm ctr keys t = None.
Proof. exact truncated_rejected. Qed.
Print Assumptions C31_truncated_rejected.
