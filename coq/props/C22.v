(* C22 — Distinguished names round-trip through RDN sequences.
   Property theorems only; each is closed by [exact] of a lemma from proof/C22*.v.

   Model (model/C22.v, model/C22Tlv.v): [to_rdn] = Name.ToRDNSequence, [fill] =
   Name.FillFromRDNSequence, [enc_rdnseq]/[dec_rdnseq] = asn1.Marshal/Unmarshal at
   pkix.RDNSequence (strict mode), [canon s] = s with every RDN in DER SET OF
   order, [get f n] = list field f of n, [sent f n] = what ToRDNSequence emits
   under the attribute type of field f, [small bs] = |bs| < 2^31 (the decoder's
   length limit), [good a] = string value + OID within the decoder's range. *)
From Coq Require Import List NArith Bool Arith Permutation Sorted.
From Verif Require Import Harness.
From VerifModel Require Import C22Tlv C22.
From VerifProof Require Import C22TlvProofs C22Proofs C22DerProofs C22TripProofs.
Import ListNotations.
Open Scope N_scope.

(* ---- first sentence of the property ----
   A Name built from its attribute fields (no ExtraNames, no OriginalRDNS), converted, DER-encoded,
   decoded and filled into a fresh Name: CommonName and SerialNumber come back equal, every emitted
   list field comes back as the same multiset, and as the same list whenever its attribute encodings
   are already in DER SET OF order (the encoder sorts SET OF); Names lists what was parsed and the
   filled Name converts back to the parsed sequence. *)
Theorem C22_fill_to_rdn_der : forall n bs,
  original n = None -> extra_names n = [] ->
  enc_rdnseq (to_rdn n) = Some bs -> small bs ->
  exists s',
    dec_rdnseq bs = Ok (s', []) /\
    let m := fill empty_name (Some s') in
    common_name m = common_name n /\
    serial_number m = serial_number n /\
    (forall f, In f emitted -> Permutation (get f m) (get f n)) /\
    (forall f, In f emitted ->
       sorted_on atv_key (map (fun v => (oid_of f, VStr v)) (get f n)) -> get f m = get f n) /\
    names m = concat s' /\
    to_rdn m = s'.
Proof. exact trip_fields. Qed.
Print Assumptions C22_fill_to_rdn_der.

(* the DER step alone, for any sequence of string attributes (mixed types inside an RDN allowed):
   decoding the encoding gives the sequence with each RDN sorted by attribute encoding, nothing left over *)
Theorem C22_der_round_trip : forall s bs,
  Forall (Forall good) s -> enc_rdnseq s = Some bs -> small bs ->
  dec_rdnseq bs = Ok (canon s, []).
Proof. exact der_round_trip. Qed.
Print Assumptions C22_der_round_trip.

(* [canon] only permutes inside RDNs, is the identity on DER-ordered input, and its output is DER-ordered *)
Theorem C22_canon_permutes : forall o s, Permutation (vals_of o (canon s)) (vals_of o s).
Proof. exact canon_perm. Qed.
Print Assumptions C22_canon_permutes.

Theorem C22_canon_fixes_sorted : forall s,
  (Forall (sorted_on atv_key) s -> canon s = s) /\ Forall (sorted_on atv_key) (canon s) /\
  canon (canon s) = canon s.
Proof. exact (fun s => conj (canon_sorted_id s) (conj (canon_is_sorted s) (canon_idempotent s))). Qed.
Print Assumptions C22_canon_fixes_sorted.

(* with ExtraNames (string values, encodable types): each field receives what was sent under its
   attribute type followed by the matching ExtraNames; the scalars are last-wins *)
Theorem C22_trip_with_extra_names : forall n bs,
  original n = None -> Forall good (extra_names n) ->
  enc_rdnseq (to_rdn n) = Some bs -> small bs ->
  dec_rdnseq bs = Ok (canon (to_rdn n), []) /\
  let m := fill empty_name (Some (canon (to_rdn n))) in
  (forall f, Permutation (get f m) (sent f n ++ vals_of (oid_of f) (singletons (extra_names n)))) /\
  (forall f, sorted_on atv_key (map (fun v => (oid_of f, VStr v)) (get f n)) ->
             get f m = sent f n ++ vals_of (oid_of f) (singletons (extra_names n))) /\
  common_name m = last (vals_of oidCommonName (singletons (extra_names n))) (common_name n) /\
  serial_number m = last (vals_of oidSerialNumber (singletons (extra_names n))) (serial_number n).
Proof.
  exact (fun n bs Ho Hx He Hs =>
    conj (trip_decodes n bs Ho Hx He Hs)
      (conj (fun f => trip_field_perm n f Ho)
        (conj (fun f => trip_field_exact n f Ho)
          (conj (trip_common_name n Ho) (trip_serial_number n Ho))))).
Qed.
Print Assumptions C22_trip_with_extra_names.

(* what FillFromRDNSequence does to any receiver with any argument (None = nil slice):
   every list field gains the string values of its attribute type in sequence order, the scalars
   take the last such value, Names gains every attribute, ExtraNames is untouched, OriginalRDNS := argument *)
Theorem C22_fill_spec : forall n s,
  (forall f, get f (fill n s) = get f n ++ vals_of (oid_of f) (seq_of s)) /\
  common_name (fill n s) = last (vals_of oidCommonName (seq_of s)) (common_name n) /\
  serial_number (fill n s) = last (vals_of oidSerialNumber (seq_of s)) (serial_number n) /\
  names (fill n s) = names n ++ concat (seq_of s) /\
  extra_names (fill n s) = extra_names n /\
  original (fill n s) = s.
Proof.
  exact (fun n s =>
    conj (fun f => fill_get f n s)
      (conj (fill_common_name n s) (conj (fill_serial_number n s)
        (conj (fill_names n s) (conj (fill_extra_names n s) (fill_original n s)))))).
Qed.
Print Assumptions C22_fill_spec.

(* ---- second sentence of the property ----
   A Name filled from a parsed (non-nil) sequence converts back to that same sequence,
   whatever the Name held before and whatever the sequence contains *)
Theorem C22_to_rdn_fill : forall n s, to_rdn (fill n (Some s)) = s.
Proof. exact to_rdn_fill_some. Qed.
Print Assumptions C22_to_rdn_fill.

(* the same without the OriginalRDNS shortcut, on the converter's image: Fill followed by
   ToRDNSequence from the attribute fields alone reproduces the sequence *)
Theorem C22_to_rdn_fill_image : forall n0,
  original n0 = None -> extra_names n0 = [] ->
  to_rdn (clear_original (fill empty_name (Some (to_rdn n0)))) = to_rdn n0.
Proof. exact to_rdn_fill_image. Qed.
Print Assumptions C22_to_rdn_fill_image.

(* what ToRDNSequence carries under each attribute type *)
Theorem C22_to_rdn_spec : forall f n,
  original n = None ->
  vals_of (oid_of f) (to_rdn n) = sent f n ++ vals_of (oid_of f) (singletons (extra_names n)).
Proof. exact (fun f n Ho => eq_trans (f_equal (vals_of (oid_of f)) (to_rdn_none n Ho)) (vals_of_to_rdn_fields f n)). Qed.
Print Assumptions C22_to_rdn_spec.

(* the DER identifier/length layer under the codec: header and OID body round trips *)
Theorem C22_header_round_trip : forall t tail,
  t_class t < 4 /\ t_tag t <= max_int32 /\ t_len t < 2147483648 ->
  parse_tl (enc_tl t ++ tail) = Some (t, tail).
Proof. exact parse_tl_enc. Qed.
Print Assumptions C22_header_round_trip.

Theorem C22_oid_round_trip : forall o,
  wf_oid o -> exists bs, enc_oid o = Some bs /\ parse_oid bs = Some o /\ bs <> [].
Proof. exact parse_oid_enc. Qed.
Print Assumptions C22_oid_round_trip.

(* non-vacuity: the hypotheses are met by a concrete name; values not in DER order really come back
   permuted ([b; aa; a] -> [a; b; aa]), values in DER order come back unchanged *)
Theorem C22_nonvacuous_unsorted :
  let n := ex_name [[98]; [97;97]; [97]] in
  exists bs, enc_rdnseq (to_rdn n) = Some bs /\ small bs /\
    option_map (get LCountry) (round_trip n) = Some [[97]; [98]; [97;97]] /\
    option_map common_name (round_trip n) = Some [90;195;188;114;105;99;104].
Proof. exact ex_unsorted. Qed.
Print Assumptions C22_nonvacuous_unsorted.

Theorem C22_nonvacuous_sorted :
  let n := ex_name [[97]; [98]; [97;97]] in
  sorted_on atv_key (map (fun v => (oid_of LCountry, VStr v)) (get LCountry n)) /\
  option_map (get LCountry) (round_trip n) = Some [[97]; [98]; [97;97]].
Proof. exact ex_sorted. Qed.
Print Assumptions C22_nonvacuous_sorted.
