(* Sha256.v — executable SHA-256 (FIPS 180-4) over bytes = list N.
   Words are N; every operation that may leave the 32-bit range is truncated
   explicitly with [w32] (land with 2^32-1 = mod 2^32, lemma [w32_mod]).
   State is an 8-tuple, so the digest length is 32 by construction
   ([sha256_length]).  Checked against the FIPS / NIST vectors below with
   vm_compute (tests, not theorems) and, on every run of C26, against Go's
   crypto/sha256 on generated inputs. *)
From Coq Require Import List NArith Arith Lia.
From Verif Require Import Harness.
Import ListNotations.
Local Open Scope N_scope.

Definition mask32 : N := 4294967295.
Definition w32 (x : N) : N := N.land x mask32.
Definition add32 (a b : N) : N := w32 (a + b).
Definition rotr32 (n x : N) : N := N.lor (N.shiftr x n) (w32 (N.shiftl x (32 - n))).
Definition not32 (x : N) : N := N.lxor (w32 x) mask32.

Definition Ch (x y z : N) := N.lxor (N.land x y) (N.land (not32 x) z).
Definition Maj (x y z : N) := N.lxor (N.lxor (N.land x y) (N.land x z)) (N.land y z).
Definition Sig0 x := N.lxor (N.lxor (rotr32 2 x) (rotr32 13 x)) (rotr32 22 x).
Definition Sig1 x := N.lxor (N.lxor (rotr32 6 x) (rotr32 11 x)) (rotr32 25 x).
Definition sig0 x := N.lxor (N.lxor (rotr32 7 x) (rotr32 18 x)) (N.shiftr x 3).
Definition sig1 x := N.lxor (N.lxor (rotr32 17 x) (rotr32 19 x)) (N.shiftr x 10).

Definition K256 : list N :=
 [0x428a2f98;0x71374491;0xb5c0fbcf;0xe9b5dba5;0x3956c25b;0x59f111f1;0x923f82a4;0xab1c5ed5;
  0xd807aa98;0x12835b01;0x243185be;0x550c7dc3;0x72be5d74;0x80deb1fe;0x9bdc06a7;0xc19bf174;
  0xe49b69c1;0xefbe4786;0x0fc19dc6;0x240ca1cc;0x2de92c6f;0x4a7484aa;0x5cb0a9dc;0x76f988da;
  0x983e5152;0xa831c66d;0xb00327c8;0xbf597fc7;0xc6e00bf3;0xd5a79147;0x06ca6351;0x14292967;
  0x27b70a85;0x2e1b2138;0x4d2c6dfc;0x53380d13;0x650a7354;0x766a0abb;0x81c2c92e;0x92722c85;
  0xa2bfe8a1;0xa81a664b;0xc24b8b70;0xc76c51a3;0xd192e819;0xd6990624;0xf40e3585;0x106aa070;
  0x19a4c116;0x1e376c08;0x2748774c;0x34b0bcb5;0x391c0cb3;0x4ed8aa4a;0x5b9cca4f;0x682e6ff3;
  0x748f82ee;0x78a5636f;0x84c87814;0x8cc70208;0x90befffa;0xa4506ceb;0xbef9a3f7;0xc67178f2].

Definition state8 := (N * N * N * N * N * N * N * N)%type.

Definition H256_init : state8 :=
  (0x6a09e667, 0xbb67ae85, 0x3c6ef372, 0xa54ff53a, 0x510e527f, 0x9b05688c, 0x1f83d9ab, 0x5be0cd19).

(* one round; [w] is the 16-word sliding window W[t..t+15] *)
Definition round256 (sw : state8 * list N) (k : N) : state8 * list N :=
  let '((a, b, c, d, e, f, g, h), w) := sw in
  match w with
  | [] => sw
  | w0 :: rest =>
      let t1 := add32 (add32 (add32 (add32 h (Sig1 e)) (Ch e f g)) k) w0 in
      let t2 := add32 (Sig0 a) (Maj a b c) in
      let wn := add32 (add32 (add32 (sig1 (nth 13 rest 0)) (nth 8 rest 0)) (sig0 (nth 0 rest 0))) w0 in
      ((add32 t1 t2, a, b, c, add32 d t1, e, f, g), rest ++ [wn])
  end.

Definition compress256 (st : state8) (block16 : list N) : state8 :=
  let '(a, b, c, d, e, f, g, h) := st in
  let '((a', b', c', d', e', f', g', h'), _) := fold_left round256 K256 (st, block16) in
  (add32 a a', add32 b b', add32 c c', add32 d d', add32 e e', add32 f f', add32 g g', add32 h h').

(* ---- bytes <-> words, big endian ---- *)
Definition be32_of (b0 b1 b2 b3 : N) : N :=
  N.lor (N.lor (N.lor (N.shiftl b0 24) (N.shiftl b1 16)) (N.shiftl b2 8)) b3.

Fixpoint words_be (l : bytes) : list N :=
  match l with
  | b0 :: b1 :: b2 :: b3 :: r => be32_of b0 b1 b2 b3 :: words_be r
  | _ => []
  end.

Definition byte (x : N) : N := N.land x 255.
Definition be32_bytes (x : N) : bytes :=
  [byte (N.shiftr x 24); byte (N.shiftr x 16); byte (N.shiftr x 8); byte x].
Definition be64_bytes (x : N) : bytes :=
  be32_bytes (N.shiftr x 32) ++ be32_bytes x.

(* ---- padding: msg || 0x80 || 0^k || len64, k minimal with total = 0 mod 64 ---- *)
Definition pad_zeros (len blk lenfield : nat) : nat :=
  (blk - ((len + 1 + lenfield) mod blk)) mod blk.

Definition pad256 (msg : bytes) : bytes :=
  let n := length msg in
  msg ++ [128] ++ repeat 0 (pad_zeros n 64 8) ++ be64_bytes (8 * N.of_nat n).

(* split into blocks of [sz] bytes; fuel = number of blocks *)
Fixpoint blocks (fuel sz : nat) (l : bytes) : list bytes :=
  match fuel with
  | O => []
  | S f => match l with
           | [] => []
           | _ => firstn sz l :: blocks f sz (skipn sz l)
           end
  end.

Definition sha256_state (msg : bytes) : state8 :=
  let p := pad256 msg in
  fold_left (fun st blk => compress256 st (words_be blk)) (blocks (S (length p / 64)) 64 p) H256_init.

Definition sha256 (msg : bytes) : bytes :=
  let '(a, b, c, d, e, f, g, h) := sha256_state msg in
  be32_bytes a ++ be32_bytes b ++ be32_bytes c ++ be32_bytes d ++
  be32_bytes e ++ be32_bytes f ++ be32_bytes g ++ be32_bytes h.

(* ---- facts ---- *)
Lemma w32_mod x : w32 x = x mod 2 ^ 32.
Proof. unfold w32, mask32. change 4294967295 with (N.ones 32). apply N.land_ones. Qed.

Lemma sha256_length msg : length (sha256 msg) = 32%nat.
Proof. unfold sha256. destruct (sha256_state msg) as [[[[[[[a b] c] d] e] f] g] h]. reflexivity. Qed.

(* ---- test vectors (FIPS 180-4 / NIST CAVP examples); tests by computation ---- *)
Definition hex_digit (n : N) : N := if n <? 10 then 48 + n else 87 + n.
Fixpoint to_hex (l : bytes) : bytes :=
  match l with [] => [] | b :: r => hex_digit (b / 16) :: hex_digit (b mod 16) :: to_hex r end.

Local Definition abc : bytes := [97;98;99].
Local Definition msg448 : bytes := (* "abcdbcdecdefdefgefghfghighijhijkijkljklmklmnlmnomnopnopq" *)
  [97;98;99;100;98;99;100;101;99;100;101;102;100;101;102;103;101;102;103;104;102;103;104;105;103;104;105;106;
   104;105;106;107;105;106;107;108;106;107;108;109;107;108;109;110;108;109;110;111;109;110;111;112;110;111;112;113].

Example sha256_abc : sha256 abc =
  [0xba;0x78;0x16;0xbf;0x8f;0x01;0xcf;0xea;0x41;0x41;0x40;0xde;0x5d;0xae;0x22;0x23;
   0xb0;0x03;0x61;0xa3;0x96;0x17;0x7a;0x9c;0xb4;0x10;0xff;0x61;0xf2;0x00;0x15;0xad].
Proof. vm_compute. reflexivity. Qed.

Example sha256_empty : sha256 [] =
  [0xe3;0xb0;0xc4;0x42;0x98;0xfc;0x1c;0x14;0x9a;0xfb;0xf4;0xc8;0x99;0x6f;0xb9;0x24;
   0x27;0xae;0x41;0xe4;0x64;0x9b;0x93;0x4c;0xa4;0x95;0x99;0x1b;0x78;0x52;0xb8;0x55].
Proof. vm_compute. reflexivity. Qed.

Example sha256_448 : sha256 msg448 =
  [0x24;0x8d;0x6a;0x61;0xd2;0x06;0x38;0xb8;0xe5;0xc0;0x26;0x93;0x0c;0x3e;0x60;0x39;
   0xa3;0x3c;0xe4;0x59;0x64;0xff;0x21;0x67;0xf6;0xec;0xed;0xd4;0x19;0xdb;0x06;0xc1].
Proof. vm_compute. reflexivity. Qed.

(* 1000 x 'a' : exercises many blocks; digest computed with an independent implementation (Python hashlib) *)
Example sha256_1000a : sha256 (repeat 97 1000) =
  [0x41;0xed;0xec;0xe4;0x2d;0x63;0xe8;0xd9;0xbf;0x51;0x5a;0x9b;0xa6;0x93;0x2e;0x1c;
   0x20;0xcb;0xc9;0xf5;0xa5;0xd1;0x34;0x64;0x5a;0xdb;0x5d;0xb1;0xb9;0x73;0x7e;0xa3].
Proof. vm_compute. reflexivity. Qed.
