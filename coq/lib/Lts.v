(* Lts.v — a small labelled interleaving semantics for lock-using threads and
   the two generic theorems of tie T3 (lockset discipline => no data race,
   ordered acquisition => no wait-for cycle), proved once.

   A thread is a straight-line list of steps
       Acquire l | Release l | Read x | Write x | AtomicLoad x | AtomicRMW x
   (locks and variables are named by strings so that generated summaries are
   readable and stable).  A state is, per thread, the locks it holds and the
   rest of its program.  One thread moves at a time; [Acquire l] is enabled
   only when no thread holds [l] (sync.Mutex: not re-entrant), [Release l] only
   when the thread itself holds [l]; memory accesses are always enabled and do
   not change the state (values are irrelevant for races and deadlocks).

   Used by C17 (scanner counters) and C34 (tls.Conn locks): the Go harness
   walks the Go AST and emits per-goroutine / per-method step lists
   (coq/gen/C17Summary_gen.v, coq/gen/C34Summary_gen.v); finite checks
   ([disc_from], [ordered_from] evaluated by vm_compute on the generated
   lists) instantiate the theorems below. *)
From Coq Require Import String.
From Coq Require Import List Bool Arith Lia Relations.
Import ListNotations.

Definition lock := string.
Definition var := string.

Inductive step :=
| Acquire (l : lock)
| Release (l : lock)
| Read (x : var)
| Write (x : var)
| AtomicLoad (x : var)
| AtomicRMW (x : var).

Definition prog := list step.

Record tstate := mkT { held : list lock; rest : prog }.
Definition state := list tstate.

Definition init (ps : list prog) : state := map (mkT []) ps.

Fixpoint remove_lock (l : lock) (h : list lock) : list lock :=
  match h with
  | [] => []
  | x :: r => if String.eqb l x then remove_lock l r else x :: remove_lock l r
  end.

Definition held_after (h : list lock) (a : step) : list lock :=
  match a with
  | Acquire l => l :: h
  | Release l => remove_lock l h
  | _ => h
  end.

Fixpoint upd {A} (l : list A) (i : nat) (x : A) : list A :=
  match l, i with
  | [], _ => []
  | _ :: r, O => x :: r
  | y :: r, S i' => y :: upd r i' x
  end.

Definition holds (s : state) (i : nat) (l : lock) : Prop :=
  exists t, nth_error s i = Some t /\ In l (held t).

Definition enabled (s : state) (i : nat) (a : step) : Prop :=
  match a with
  | Acquire l => forall j, ~ holds s j l
  | Release l => holds s i l
  | _ => True
  end.

(* label = (thread index, step taken) *)
Inductive lstep : state -> nat * step -> state -> Prop :=
| lstep_intro s i t a r :
    nth_error s i = Some t -> rest t = a :: r -> enabled s i a ->
    lstep s (i, a) (upd s i (mkT (held_after (held t) a) r)).

Inductive reachable_from (s0 : state) : state -> Prop :=
| reach_refl : reachable_from s0 s0
| reach_step s lbl s' : reachable_from s0 s -> lstep s lbl s' -> reachable_from s0 s'.

Definition reachable (ps : list prog) : state -> Prop := reachable_from (init ps).

(* ---------------------------------------------------------------- races *)
Definition step_var (a : step) : option var :=
  match a with
  | Read x | Write x | AtomicLoad x | AtomicRMW x => Some x
  | _ => None
  end.
Definition is_write (a : step) : bool :=
  match a with Write _ | AtomicRMW _ => true | _ => false end.
Definition is_plain (a : step) : bool :=
  match a with Read _ | Write _ => true | _ => false end.

(* two accesses conflict: same variable, at least one writes, at least one is
   not atomic (Go memory model: a data race) *)
Definition conflictb (a b : step) : bool :=
  match step_var a, step_var b with
  | Some x, Some y => String.eqb x y && (is_write a || is_write b) && (is_plain a || is_plain b)
  | _, _ => false
  end.

(* a state in which two different threads are each about to perform one of a
   pair of conflicting accesses *)
Definition race (s : state) : Prop :=
  exists i j ti tj a ra b rb,
    i <> j /\
    nth_error s i = Some ti /\ rest ti = a :: ra /\
    nth_error s j = Some tj /\ rest tj = b :: rb /\
    conflictb a b = true.

(* discipline: each shared variable has one policy *)
Inductive policy :=
| Guarded (l : lock)   (* every access (plain or atomic) is made holding l *)
| AtomicOnly           (* every access is atomic *)
| ReadOnly.            (* no thread writes (plain reads and atomic loads only) *)

Definition mem_inb (l : lock) (h : list lock) : bool := existsb (String.eqb l) h.

Definition access_ok (pol : var -> option policy) (h : list lock) (a : step) : bool :=
  match a with
  | Acquire _ | Release _ => true
  | Read x =>
      match pol x with Some (Guarded l) => mem_inb l h | Some ReadOnly => true | _ => false end
  | Write x =>
      match pol x with Some (Guarded l) => mem_inb l h | _ => false end
  | AtomicLoad x =>
      match pol x with
      | Some (Guarded l) => mem_inb l h | Some AtomicOnly => true | Some ReadOnly => true
      | None => false end
  | AtomicRMW x =>
      match pol x with Some (Guarded l) => mem_inb l h | Some AtomicOnly => true | _ => false end
  end.

(* the static check: walk the program with the lock set it will hold *)
Fixpoint disc_from (pol : var -> option policy) (h : list lock) (p : prog) : bool :=
  match p with
  | [] => true
  | a :: r => access_ok pol h a && disc_from pol (held_after h a) r
  end.

(* ---------------------------------------------------------------- lock order *)
Fixpoint ordered_from (rank : lock -> nat) (h : list lock) (p : prog) : bool :=
  match p with
  | [] => true
  | a :: r =>
      (match a with
       | Acquire l => forallb (fun k => rank k <? rank l) h
       | _ => true
       end) && ordered_from rank (held_after h a) r
  end.

Definition waits (s : state) (i : nat) (l : lock) : Prop :=
  exists t r, nth_error s i = Some t /\ rest t = Acquire l :: r.

(* i waits for a lock that j holds *)
Definition wf_edge (s : state) (i j : nat) : Prop :=
  exists l, waits s i l /\ holds s j l.

(* balanced: releases only what is held, never re-acquires a held lock, ends
   holding nothing *)
Fixpoint balanced_from (h : list lock) (p : prog) : bool :=
  match p with
  | [] => match h with [] => true | _ => false end
  | a :: r =>
      (match a with
       | Acquire l => negb (mem_inb l h)
       | Release l => mem_inb l h
       | _ => true
       end) && balanced_from (held_after h a) r
  end.

Definition finished (s : state) : Prop := forall t, In t s -> rest t = [].

(* ================================================================ proofs *)

Lemma nth_error_upd_eq {A} (l : list A) i x y :
  nth_error l i = Some y -> nth_error (upd l i x) i = Some x.
Proof.
  revert i; induction l as [|z l IH]; intros [|i] H; simpl in *; try discriminate; auto.
Qed.

Lemma nth_error_upd_neq {A} (l : list A) i j x :
  i <> j -> nth_error (upd l i x) j = nth_error l j.
Proof.
  revert i j; induction l as [|z l IH]; intros [|i] [|j] H; simpl; auto; try congruence.
Qed.

Lemma upd_length {A} (l : list A) i x : length (upd l i x) = length l.
Proof. revert i; induction l as [|z l IH]; intros [|i]; simpl; auto. Qed.

Lemma In_upd {A} (l : list A) i x y : In y (upd l i x) -> y = x \/ In y l.
Proof.
  revert i; induction l as [|z l IH]; intros [|i] H; simpl in *; auto.
  - destruct H; auto.
  - destruct H as [H|H]; auto. apply IH in H. tauto.
Qed.

Lemma Forall_upd {A} (P : A -> Prop) (l : list A) i x :
  Forall P l -> P x -> Forall P (upd l i x).
Proof.
  intros Hl Hx. apply Forall_forall. intros y Hy.
  apply In_upd in Hy as [->|Hy]; auto. rewrite Forall_forall in Hl; auto.
Qed.

Lemma mem_inb_In l h : mem_inb l h = true <-> In l h.
Proof.
  unfold mem_inb. rewrite existsb_exists. split.
  - intros [x [Hx E]]. apply String.eqb_eq in E. now subst.
  - intros H. exists l. split; auto. apply String.eqb_refl.
Qed.

Lemma In_remove_lock l k h : In l (remove_lock k h) -> In l h.
Proof.
  induction h as [|x h IH]; simpl; auto.
  destruct (String.eqb k x); simpl; tauto.
Qed.

Lemma remove_lock_not_in l h : ~ In l (remove_lock l h).
Proof.
  induction h as [|x h IH]; simpl; auto.
  destruct (String.eqb l x) eqn:E; simpl; auto.
  intros [H|H]; auto. subst. rewrite String.eqb_refl in E. discriminate.
Qed.

Lemma In_remove_lock_other l k h : In l h -> l <> k -> In l (remove_lock k h).
Proof.
  induction h as [|x h IH]; simpl; auto. intros [->|H] N.
  - destruct (String.eqb k l) eqn:E; [apply String.eqb_eq in E; congruence | now left].
  - destruct (String.eqb k x); simpl; auto.
Qed.

Lemma reachable_ind_inv (P : state -> Prop) s0 :
  P s0 -> (forall s lbl s', P s -> lstep s lbl s' -> P s') ->
  forall s, reachable_from s0 s -> P s.
Proof. intros H0 HS s R. induction R; eauto. Qed.

(* ---- mutual exclusion ---- *)
Definition excl (s : state) : Prop :=
  forall i j l, holds s i l -> holds s j l -> i = j.

Lemma holds_upd_same s i t' l :
  holds (upd s i t') i l -> In l (held t').
Proof.
  intros [t [Hn Hin]].
  destruct (nth_error s i) as [y|] eqn:E.
  - rewrite (nth_error_upd_eq s i t' y E) in Hn. now inversion Hn; subst.
  - exfalso. apply nth_error_None in E.
    assert (nth_error (upd s i t') i = None) as X by (apply nth_error_None; rewrite upd_length; auto).
    congruence.
Qed.

Lemma holds_upd_other s i t' k l :
  k <> i -> (holds (upd s i t') k l <-> holds s k l).
Proof.
  intros N. unfold holds. rewrite nth_error_upd_neq by auto. tauto.
Qed.

Lemma excl_init ps : excl (init ps).
Proof.
  intros i j l [t [Hn Hin]] _. exfalso. unfold init in Hn.
  apply nth_error_In in Hn. apply in_map_iff in Hn as [p [<- _]]. inversion Hin.
Qed.

Lemma excl_step s lbl s' : excl s -> lstep s lbl s' -> excl s'.
Proof.
  intros Hx Hs. inversion Hs as [s0 i t a r Hn Hr He]; subst.
  assert (Hsub : forall k l, holds (upd s i (mkT (held_after (held t) a) r)) k l ->
                 holds s k l \/ (k = i /\ a = Acquire l)).
  { intros k l H. destruct (Nat.eq_dec k i) as [->|N].
    - apply holds_upd_same in H. simpl in H.
      destruct a; simpl in H; try (left; exists t; split; auto; fail).
      + destruct H as [<-|H]; [right; auto | left; exists t; auto].
      + left. exists t. split; auto. eapply In_remove_lock; eauto.
    - left. now apply holds_upd_other in H. }
  intros k1 k2 l H1 H2.
  apply Hsub in H1. apply Hsub in H2.
  destruct H1 as [H1|[-> E1]], H2 as [H2|[-> E2]]; auto.
  - eapply Hx; eauto.
  - subst a. simpl in He. exfalso. eapply He; eauto.
  - subst a. simpl in He. exfalso. eapply He; eauto.
Qed.

Lemma excl_reachable ps s : reachable ps s -> excl s.
Proof.
  apply reachable_ind_inv; [apply excl_init | intros; eapply excl_step; eauto].
Qed.

(* ---- an invariant of the shape "static walk from (held, rest) succeeds" ---- *)
Section Walk.
  Variable chk : list lock -> prog -> bool.
  Hypothesis chk_step : forall h a r, chk h (a :: r) = true -> chk (held_after h a) r = true.

  Definition walk_inv (s : state) : Prop := Forall (fun t => chk (held t) (rest t) = true) s.

  Lemma walk_inv_init ps : forallb (chk []) ps = true -> walk_inv (init ps).
  Proof.
    intros H. apply Forall_forall. intros t Ht. unfold init in Ht.
    apply in_map_iff in Ht as [p [<- Hp]]. simpl.
    rewrite forallb_forall in H. auto.
  Qed.

  Lemma walk_inv_step s lbl s' : walk_inv s -> lstep s lbl s' -> walk_inv s'.
  Proof.
    intros Hi Hs. inversion Hs as [s0 i t a r Hn Hr He]; subst.
    apply Forall_upd; auto. simpl.
    apply chk_step. rewrite <- Hr.
    unfold walk_inv in Hi. rewrite Forall_forall in Hi. apply Hi.
    eapply nth_error_In; eauto.
  Qed.

  Lemma walk_inv_reachable ps s :
    forallb (chk []) ps = true -> reachable ps s -> walk_inv s.
  Proof.
    intros H. apply reachable_ind_inv; [now apply walk_inv_init | intros; eapply walk_inv_step; eauto].
  Qed.

  Lemma walk_inv_nth s i t : walk_inv s -> nth_error s i = Some t -> chk (held t) (rest t) = true.
  Proof.
    intros Hi Hn. unfold walk_inv in Hi. rewrite Forall_forall in Hi. apply Hi.
    eapply nth_error_In; eauto.
  Qed.
End Walk.

Lemma disc_from_step pol h a r : disc_from pol h (a :: r) = true -> disc_from pol (held_after h a) r = true.
Proof. simpl. intros H. apply andb_prop in H. tauto. Qed.

Lemma ordered_from_step rank h a r :
  ordered_from rank h (a :: r) = true -> ordered_from rank (held_after h a) r = true.
Proof. simpl. intros H. apply andb_prop in H. tauto. Qed.

Lemma balanced_from_step h a r : balanced_from h (a :: r) = true -> balanced_from (held_after h a) r = true.
Proof. simpl. intros H. apply andb_prop in H. tauto. Qed.

(* ================================================================ (a) *)
(* Every access to x is made holding L(x), or x is accessed only atomically,
   or x is never written: then no reachable state has two threads about to
   perform conflicting accesses. *)
Theorem lockset_race_free :
  forall (pol : var -> option policy) (ps : list prog),
    forallb (disc_from pol []) ps = true ->
    forall s, reachable ps s -> ~ race s.
Proof.
  intros pol ps Hd s Hr (i & j & ti & tj & a & ra & b & rb & Nij & Hi & Ri & Hj & Rj & C).
  pose proof (excl_reachable ps s Hr) as Hx.
  pose proof (walk_inv_reachable (disc_from pol) (disc_from_step pol) ps s Hd Hr) as Hw.
  pose proof (walk_inv_nth _ s i ti Hw Hi) as Di. rewrite Ri in Di.
  pose proof (walk_inv_nth _ s j tj Hw Hj) as Dj. rewrite Rj in Dj.
  simpl in Di, Dj. apply andb_prop in Di as [Ai _]. apply andb_prop in Dj as [Aj _].
  assert (G : forall l, mem_inb l (held ti) = true -> mem_inb l (held tj) = true -> False).
  { intros l Hl1 Hl2. apply mem_inb_In in Hl1, Hl2. apply Nij.
    apply (Hx i j l); [exists ti | exists tj]; auto. }
  unfold conflictb in C.
  destruct a as [la|la|x|x|x|x], b as [lb|lb|y|y|y|y]; simpl in C; try discriminate;
    repeat (apply andb_prop in C as [C ?]); apply String.eqb_eq in C; subst y;
    simpl in Ai, Aj; destruct (pol x) as [[l| |]|]; try discriminate; eauto.
Qed.

(* a single thread never races with itself *)
Theorem single_thread_race_free : forall p s, reachable [p] s -> ~ race s.
Proof.
  intros p s Hr.
  assert (L : length s = 1).
  { revert s Hr. apply reachable_ind_inv; [reflexivity|].
    intros s lbl s' H Hs. inversion Hs; subst. now rewrite upd_length. }
  intros (i & j & ti & tj & a & ra & b & rb & Nij & Hi & _ & Hj & _).
  assert (i < 1) by (rewrite <- L; apply nth_error_Some; congruence).
  assert (j < 1) by (rewrite <- L; apply nth_error_Some; congruence).
  lia.
Qed.

(* ================================================================ (b) *)
Lemma waits_unique s i l l' : waits s i l -> waits s i l' -> l = l'.
Proof.
  intros (t & r & Hn & Hr) (t' & r' & Hn' & Hr'). congruence.
Qed.

Lemma wf_path_source_waits s i j : clos_trans nat (wf_edge s) i j -> exists l, waits s i l.
Proof. intros P. induction P as [i j [l [W _]] | ]; eauto. Qed.

Lemma holds_dec_any s l : (exists j, holds s j l) \/ (forall j, ~ holds s j l).
Proof.
  induction s as [|t s [[j [tj [Hn Hin]]]|Hno]].
  - right. intros [|j] [t [Hn _]]; discriminate.
  - left. exists (S j), tj. auto.
  - destruct (in_dec string_dec l (held t)) as [Hin|Hnin].
    + left. exists 0, t. auto.
    + right. intros [|j] [tj [Hn Hin]]; simpl in Hn.
      * inversion Hn; subst. auto.
      * apply (Hno j). exists tj. auto.
Qed.

Lemma enabled_dec s i a : enabled s i a \/ ~ enabled s i a.
Proof.
  destruct a; simpl; auto.
  - destruct (holds_dec_any s l) as [[j Hj]|Hno]; [right; intros H; eapply H; eauto | left; auto].
  - destruct (nth_error s i) as [t|] eqn:E.
    + destruct (in_dec string_dec l (held t)) as [Hin|Hnin].
      * left. exists t. auto.
      * right. intros [t' [Hn Hin]]. assert (t' = t) by congruence. subst. auto.
    + right. intros [t' [Hn _]]. congruence.
Qed.

Section Order.
  Variable rank : lock -> nat.
  Variable ps : list prog.
  Hypothesis Hord : forallb (ordered_from rank []) ps = true.

  Lemma held_below_wanted s i l k :
    reachable ps s -> waits s i l -> holds s i k -> rank k < rank l.
  Proof.
    intros Hr (t & r & Hn & Hrest) (t' & Hn' & Hin).
    assert (t' = t) by congruence. subst t'.
    pose proof (walk_inv_reachable (ordered_from rank) (ordered_from_step rank) ps s Hord Hr) as Hw.
    pose proof (walk_inv_nth _ s i t Hw Hn) as O. rewrite Hrest in O. simpl in O.
    apply andb_prop in O as [O _]. rewrite forallb_forall in O.
    apply O in Hin. now apply Nat.ltb_lt in Hin.
  Qed.

  Lemma wf_path_rank s : reachable ps s ->
    forall i j, clos_trans nat (wf_edge s) i j ->
    forall li lj, waits s i li -> waits s j lj -> rank li < rank lj.
  Proof.
    intros Hr i j P. induction P as [i j [l [Wi Hj]] | i k j P1 IH1 P2 IH2]; intros li lj Hi Hwj.
    - assert (li = l) by (eapply waits_unique; eauto). subst li.
      eapply held_below_wanted; eauto.
    - destruct (wf_path_source_waits s k j P2) as [lk Hk].
      specialize (IH1 _ _ Hi Hk). specialize (IH2 _ _ Hk Hwj). lia.
  Qed.

  (* Acquisitions respect the strict order [rank]: no reachable state contains a
     cycle of threads each waiting for a lock the next one holds (including a
     thread waiting for a lock it holds itself). *)
  Theorem ordered_acquisition_deadlock_free :
    forall s, reachable ps s -> forall i, ~ clos_trans nat (wf_edge s) i i.
  Proof.
    intros s Hr i P.
    destruct (wf_path_source_waits s i i P) as [l W].
    pose proof (wf_path_rank s Hr i i P l l W W). lia.
  Qed.

  (* With balanced programs on top, the system as a whole never gets stuck:
     in every reachable state either all threads have finished or some thread
     can move. *)
  Hypothesis Hbal : forallb (balanced_from []) ps = true.

  Lemma finished_holds_nothing s i t :
    reachable ps s -> nth_error s i = Some t -> rest t = [] -> held t = [].
  Proof.
    intros Hr Hn Hrest.
    pose proof (walk_inv_reachable balanced_from balanced_from_step ps s Hbal Hr) as Hw.
    pose proof (walk_inv_nth _ s i t Hw Hn) as B. rewrite Hrest in B. simpl in B.
    destruct (held t); [reflexivity|discriminate].
  Qed.

  Lemma stuck_chain s : reachable ps s ->
    (forall lbl s', ~ lstep s lbl s') ->
    forall i t, nth_error s i = Some t -> rest t <> [] ->
    exists l, waits s i l /\ exists j lj, holds s j l /\ waits s j lj /\ rank l < rank lj.
  Proof.
    intros Hr Stuck i t Hn Hne.
    pose proof (walk_inv_reachable balanced_from balanced_from_step ps s Hbal Hr) as Hw.
    destruct (rest t) as [|a r] eqn:Hrest; [congruence|].
    assert (Ea : (exists l, a = Acquire l) \/ enabled s i a).
    { destruct a; simpl; eauto.
      right. pose proof (walk_inv_nth _ s i t Hw Hn) as B. rewrite Hrest in B. simpl in B.
      apply andb_prop in B as [B _]. apply mem_inb_In in B. exists t; auto. }
    destruct Ea as [[l ->]|En].
    2:{ exfalso. eapply Stuck. econstructor; eauto. }
    exists l. split; [exists t, r; auto|].
    (* l must be held by somebody, else the Acquire is enabled *)
    assert (Hh : exists j, holds s j l).
    { destruct (holds_dec_any s l) as [Y|Hno]; [exact Y|].
      exfalso. eapply (Stuck (i, Acquire l)). econstructor; eauto. }
    destruct Hh as [j Hj]. destruct Hj as [tj [Hnj Hinj]].
    destruct (rest tj) as [|b rb] eqn:Hrj.
    { rewrite (finished_holds_nothing s j tj Hr Hnj Hrj) in Hinj. inversion Hinj. }
    assert (Eb : (exists lj, b = Acquire lj) \/ enabled s j b).
    { destruct b; simpl; eauto.
      right. pose proof (walk_inv_nth _ s j tj Hw Hnj) as B. rewrite Hrj in B. simpl in B.
      apply andb_prop in B as [B _]. apply mem_inb_In in B. exists tj; auto. }
    destruct Eb as [[lj ->]|En].
    2:{ exfalso. eapply Stuck. econstructor; eauto. }
    exists j, lj. split; [exists tj; auto|]. split; [exists tj, rb; auto|].
    apply (held_below_wanted s j lj l Hr); [exists tj, rb; auto | exists tj; auto].
  Qed.

  (* every waited-for lock in a state has rank below this bound *)
  Fixpoint rank_bound (s : state) : nat :=
    match s with
    | [] => 0
    | t :: r => Nat.max (match rest t with Acquire l :: _ => S (rank l) | _ => 0 end) (rank_bound r)
    end.

  Lemma waits_below_bound s i l : waits s i l -> rank l < rank_bound s.
  Proof.
    intros (t & r & Hn & Hr). revert i Hn. induction s as [|t0 s IH]; intros [|i] Hn; simpl in *; try discriminate.
    - inversion Hn; subst. rewrite Hr. lia.
    - apply IH in Hn. lia.
  Qed.

  Theorem ordered_balanced_progress :
    forall s, reachable ps s -> finished s \/ exists lbl s', lstep s lbl s'.
  Proof.
    intros s Hr.
    (* decide whether some thread is unfinished *)
    assert (D : finished s \/ exists i t, nth_error s i = Some t /\ rest t <> []).
    { clear. induction s as [|t s [F|[i [t' [Hn Hne]]]]].
      - left. intros t [].
      - destruct (rest t) as [|a r] eqn:E.
        + left. intros t' [<-|Ht]; auto.
        + right. exists 0, t. simpl. split; auto. congruence.
      - right. exists (S i), t'. auto. }
    destruct D as [F|[i [t [Hn Hne]]]]; [now left|]. right.
    (* classical-free: bounded search for an enabled step is replaced by a
       contradiction argument on the rank of the waited-for lock *)
    assert (Dec : (exists lbl s', lstep s lbl s') \/ (forall lbl s', ~ lstep s lbl s')).
    { (* decidable because each thread's head step's enabledness is decidable *)
      assert (Hd : forall n, (exists lbl s', lstep s lbl s') \/
                  (forall k tk a r, k < n -> nth_error s k = Some tk -> rest tk = a :: r -> ~ enabled s k a)).
      { induction n as [|n [Hex|Hno]]; [right; intros; lia | now left |].
        destruct (nth_error s n) as [tn|] eqn:En.
        2:{ right. intros k tk a r Hk Hnk Hrk. destruct (Nat.eq_dec k n) as [->|]; [congruence|]. eapply Hno; eauto; lia. }
        destruct (rest tn) as [|a r] eqn:Rn.
        { right. intros k tk a r Hk Hnk Hrk. destruct (Nat.eq_dec k n) as [->|]; [congruence|]. eapply Hno; eauto; lia. }
        pose proof (enabled_dec s n a) as De.
        destruct De as [Y|N].
        - left. eexists _, _. econstructor; eauto.
        - right. intros k tk a' r' Hk Hnk Hrk. destruct (Nat.eq_dec k n) as [->|].
          + assert (tk = tn) by congruence. subst. assert (a' = a) by congruence. now subst.
          + eapply Hno; eauto; lia. }
      destruct (Hd (length s)) as [Hex|Hno]; [now left|]. right.
      intros lbl s' Hs. inversion Hs as [s0 k tk a r Hnk Hrk He]; subst.
      eapply Hno; eauto. apply nth_error_Some; congruence. }
    destruct Dec as [Y|Stuck]; [exact Y|]. exfalso.
    (* from any waiting thread there is another one waiting for a higher lock *)
    destruct (stuck_chain s Hr Stuck i t Hn Hne) as (l0 & W0 & _).
    assert (Climb : forall n, exists j l, waits s j l /\ n <= rank l).
    { induction n as [|n (j & l & W & Hle)].
      - exists i, l0. split; auto. lia.
      - destruct W as (tj & rj & Hnj & Hrj).
        destruct (stuck_chain s Hr Stuck j tj Hnj) as (l' & W' & j2 & l2 & _ & W2 & Hlt).
        { rewrite Hrj. discriminate. }
        assert (l' = l) by (eapply waits_unique; eauto; exists tj, rj; auto). subst l'.
        exists j2, l2. split; auto. lia. }
    destruct (Climb (rank_bound s)) as (j & l & W & Hle).
    pose proof (waits_below_bound s j l W). lia.
  Qed.
End Order.
