(* PackBytes.v -- compact byte-string literal for the generated correspondence case files.
   Kept apart from WireTLS.v so that the proved development does not depend on primitive
   integers (coqchk lists the Uint63 primitives as axioms); only case files import this. *)
From Coq Require Import List NArith ZArith.
From Coq Require Uint63.
From Verif Require Import Harness.
Import ListNotations.
Open Scope N_scope.

(* bytes packed 7 per primitive integer (big-endian; the last integer holds the remaining
   len mod 7 bytes): by far the cheapest literal for coqc to parse *)
Fixpoint be_bytes (n : nat) (x : N) : bytes :=
  match n with
  | O => []
  | S k => (x / 256 ^ N.of_nat k) mod 256 :: be_bytes k x
  end.

Fixpoint pk (len : N) (l : list Uint63.int) : bytes :=
  match l with
  | [] => []
  | x :: r => let k := N.min 7 len in
              be_bytes (N.to_nat k) (Z.to_N (Uint63.to_Z x)) ++ pk (len - k) r
  end.

