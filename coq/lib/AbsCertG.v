(* AbsCertG.v — abstract certificates for the PKI-graph properties (C10, C11, C12).

   A certificate is abstracted to the identifiers and fields the verifier
   package reads: SHA-256 fingerprint, raw subject, raw issuer, raw SPKI (each an
   identifier: equal bytes <-> equal identifier, the harness checks this when it
   builds a universe), the basic-constraints fields, the validity period in Unix
   seconds, and [c_vby]: the identifiers of the keys of the universe under which
   x509.CheckSignatureFromKey accepts the certificate's signature (one row of
   the signature matrix, computed with the implementation). *)
From Coq Require Import List NArith ZArith Bool Lia.
From Verif Require Import Harness.
Import ListNotations.

Record cert := mkCert {
  c_fp   : N;        (* Certificate.FingerprintSHA256 *)
  c_subj : N;        (* RawSubject *)
  c_iss  : N;        (* RawIssuer *)
  c_key  : N;        (* RawSubjectPublicKeyInfo *)
  c_ca   : bool;     (* IsCA *)
  c_bcv  : bool;     (* BasicConstraintsValid *)
  c_mpl  : Z;        (* MaxPathLen *)
  c_nb   : Z;        (* NotBefore, Unix seconds *)
  c_na   : Z;        (* NotAfter *)
  c_vby  : list N    (* keys that verify the signature *)
}.

(* a graph node: (subject, SPKI) *)
Definition node := (N * N)%type.
Definition node_of (c : cert) : node := (c_subj c, c_key c).
Definition node_eqb (a b : node) : bool := N.eqb (fst a) (fst b) && N.eqb (snd a) (snd b).

Definition memN (x : N) (l : list N) : bool := existsb (N.eqb x) l.
Definition mem_node (n : node) (l : list node) : bool := existsb (node_eqb n) l.

(* CheckSignatureFromKey(node's key, c) = nil *)
Definition verifies (n : node) (c : cert) : bool := memN (snd n) (c_vby c).
(* n can be the issuer node of c: subject = c's issuer name and the key verifies *)
Definition issues (c : cert) (n : node) : bool := N.eqb (fst n) (c_iss c) && verifies n c.

Definition cert_eqb (a b : cert) : bool :=
  N.eqb (c_fp a) (c_fp b) && N.eqb (c_subj a) (c_subj b) && N.eqb (c_iss a) (c_iss b) &&
  N.eqb (c_key a) (c_key b) && Bool.eqb (c_ca a) (c_ca b) && Bool.eqb (c_bcv a) (c_bcv b) &&
  Z.eqb (c_mpl a) (c_mpl b) && Z.eqb (c_nb a) (c_nb b) && Z.eqb (c_na a) (c_na b) &&
  list_eqb N.eqb (c_vby a) (c_vby b).

(* ---- generic executable helpers shared by the models ---- *)
Fixpoint insertN (x : N) (l : list N) : list N :=
  match l with
  | [] => [x]
  | y :: r => if N.leb x y then x :: l else y :: insertN x r
  end.
Definition sortN (l : list N) : list N := fold_right insertN [] l.

(* injective codes for sorting / comparing structured observables; ids < 2^20 *)
Definition K : N := 1048576%N.
Definition code_node (n : node) : N := (fst n * K + snd n)%N.
Definition code_onode (o : option node) : N :=
  match o with None => 0 | Some n => code_node n + 1 end%N.
Definition code3 (a b c : N) : N := ((a * (K * K * 4) + b) * K + c)%N.

(* all permutations, first element chosen left to right (the Go harness uses the same order) *)
Fixpoint picks {A} (pre l : list A) : list (A * list A) :=
  match l with
  | [] => []
  | x :: r => (x, rev_append pre r) :: picks (x :: pre) r
  end.
Fixpoint perms_fuel {A} (fuel : nat) (l : list A) : list (list A) :=
  match fuel with
  | O => [[]]
  | S f =>
      match l with
      | [] => [[]]
      | _ => flat_map (fun p => map (cons (fst p)) (perms_fuel f (snd p))) (picks [] l)
      end
  end.
Definition perms {A} (l : list A) : list (list A) := perms_fuel (length l) l.

(* ---- basic facts ---- *)
Lemma node_eqb_eq a b : node_eqb a b = true <-> a = b.
Proof.
  destruct a as [a1 a2], b as [b1 b2]; unfold node_eqb; simpl.
  rewrite andb_true_iff, !N.eqb_eq. split; [intros [-> ->]; reflexivity | intros E; inversion E; auto].
Qed.

Lemma node_eqb_refl a : node_eqb a a = true.
Proof. apply node_eqb_eq; reflexivity. Qed.

Lemma node_eqb_neq a b : node_eqb a b = false <-> a <> b.
Proof.
  split.
  - intros H E. apply node_eqb_eq in E. congruence.
  - intros H. destruct (node_eqb a b) eqn:E; [apply node_eqb_eq in E; contradiction | reflexivity].
Qed.

Lemma node_eq_dec (a b : node) : {a = b} + {a <> b}.
Proof. destruct (node_eqb a b) eqn:E; [left; now apply node_eqb_eq | right; now apply node_eqb_neq]. Qed.

Lemma memN_In x l : memN x l = true <-> In x l.
Proof.
  unfold memN. rewrite existsb_exists. split.
  - intros [y [Hy E]]. apply N.eqb_eq in E. now subst.
  - intros H. exists x. split; [assumption | apply N.eqb_refl].
Qed.

Lemma mem_node_In n l : mem_node n l = true <-> In n l.
Proof.
  unfold mem_node. rewrite existsb_exists. split.
  - intros [y [Hy E]]. apply node_eqb_eq in E. now subst.
  - intros H. exists n. split; [assumption | apply node_eqb_refl].
Qed.

Lemma mem_node_false n l : mem_node n l = false <-> ~ In n l.
Proof.
  rewrite <- mem_node_In. destruct (mem_node n l); split; intros H; try congruence; try reflexivity.
Qed.

Lemma issues_spec c n : issues c n = true <-> fst n = c_iss c /\ verifies n c = true.
Proof. unfold issues. now rewrite andb_true_iff, N.eqb_eq. Qed.
