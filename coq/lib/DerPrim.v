(* DerPrim.v — contents of DER primitives as encoding/asn1 writes and reads
   them: INTEGER (two's complement, minimal), BOOLEAN, base-128 and OBJECT
   IDENTIFIER, UTCTime / GeneralizedTime from civil tuples, PrintableString
   test.  Each codec comes with its round-trip lemma.  Used by C04, C05. *)
From Coq Require Import List NArith ZArith Bool Arith Lia.
From Verif Require Import Harness DerTree.
Import ListNotations.
Local Open Scope N_scope.

(* ------------------------------------------------------------------ *)
(* INTEGER: marshal.go makeBigInt / int64Encoder, asn1.go checkInteger +
   parseBigInt / parseInt64                                             *)
Definition enc_int (z : Z) : bytes :=
  if (z =? 0)%Z then [0]
  else if (0 <? z)%Z then
    let bs := be_min (Z.to_N z) in
    if 128 <=? hd 0 bs then 0 :: bs else bs
  else
    let bs := map (fun b => 255 - b) (be_min (Z.to_N (- z - 1))) in
    match bs with
    | [] => [255]
    | b :: _ => if b <? 128 then 255 :: bs else bs
    end.

Definition nonminimal (bs : bytes) : bool :=
  match bs with
  | b0 :: b1 :: _ => ((b0 =? 0) && (b1 <? 128)) || ((b0 =? 255) && (128 <=? b1))
  | _ => false
  end.

Definition dec_int (bs : bytes) : option Z :=
  match bs with
  | [] => None
  | b0 :: _ =>
      if nonminimal bs then None
      else Some (if b0 <? 128 then Z.of_N (be_val bs)
                 else (Z.of_N (be_val bs) - Z.of_N (256 ^ N.of_nat (length bs)))%Z)
  end.

(* Go int / int64 fields: parseInt64 refuses more than 8 content bytes *)
Definition dec_int64 (bs : bytes) : option Z :=
  if (8 <? length bs)%nat then None else dec_int bs.

Lemma le_val_app B a b : le_val B (a ++ b) = le_val B a + B ^ N.of_nat (length a) * le_val B b.
Proof.
  induction a as [|x a IH]; [cbn [app le_val length]; change (N.of_nat 0) with 0; rewrite N.pow_0_r; lia|].
  cbn [app le_val length]. rewrite IH, Nat2N.inj_succ, N.pow_succ_r'. lia.
Qed.

Lemma be_val_le bs : be_val bs = le_val 256 (rev bs).
Proof. rewrite <- (rev_involutive bs) at 1. apply be_val_rev. Qed.

Lemma be_val_cons b bs : be_val (b :: bs) = b * 256 ^ N.of_nat (length bs) + be_val bs.
Proof.
  rewrite !be_val_le. cbn [rev]. rewrite le_val_app, rev_length. cbn [le_val]. lia.
Qed.

Lemma le_val_compl ds : Forall (fun d => d < 256) ds ->
  le_val 256 (map (fun b => 255 - b) ds) + le_val 256 ds + 1 = 256 ^ N.of_nat (length ds).
Proof.
  induction 1 as [|d r Hd Hr IH]; [reflexivity|].
  cbn [map le_val length]. rewrite Nat2N.inj_succ, N.pow_succ_r'. lia.
Qed.

Lemma be_val_compl bs : Forall (fun d => d < 256) bs ->
  be_val (map (fun b => 255 - b) bs) + be_val bs + 1 = 256 ^ N.of_nat (length bs).
Proof.
  intros H. rewrite !be_val_le, <- map_rev, <- (rev_length bs).
  apply le_val_compl. now apply Forall_rev.
Qed.

Lemma be_min_cons n : n <> 0 -> exists h tl, be_min n = h :: tl /\ 0 < h < 256.
Proof.
  intros Hn. pose proof (be_min_hd_nz n Hn) as Hh. pose proof (be_min_lt n) as Hl.
  destruct (be_min n) as [|h tl] eqn:E.
  - apply be_min_nil_iff in E. contradiction.
  - exists h, tl. split; [reflexivity|]. simpl in Hh. inversion Hl; subst. lia.
Qed.

Lemma neg_arith (h P T C m : N) (z : Z) :
  0 < h < 256 -> 0 < P -> (255 - h) * P + C + (h * P + T) + 1 = 256 * P ->
  h * P + T = m -> Z.of_N m = (- z - 1)%Z ->
  (Z.of_N (255 * (256 * P) + ((255 - h) * P + C)) - Z.of_N (256 * (256 * P)))%Z = z /\
  (Z.of_N ((255 - h) * P + C) - Z.of_N (256 * P))%Z = z.
Proof.
  intros Hh HP Hc Hv Hm.
  assert (Hprod : (255 - h) * P = 255 * P - h * P) by nia.
  assert (HhP : h * P <= 255 * P) by nia.
  split; lia.
Qed.

Theorem dec_enc_int z : dec_int (enc_int z) = Some z.
Proof.
  unfold enc_int.
  destruct (Z.eqb_spec z 0) as [->|Hz]; [reflexivity|].
  destruct (Z.ltb_spec 0 z) as [Hp|Hn].
  - (* positive *)
    assert (Hn0 : Z.to_N z <> 0) by lia.
    destruct (be_min_cons _ Hn0) as (h & tl & E & Hh).
    pose proof (be_val_min (Z.to_N z)) as Hv. rewrite E in *. cbn [hd].
    destruct (N.leb_spec 128 h) as [Hb|Hs].
    + unfold dec_int. cbn [nonminimal].
      replace (0 =? 0) with true by reflexivity. replace (0 =? 255) with false by reflexivity.
      destruct (N.ltb_spec h 128) as [|_]; [lia|]. cbn [andb orb].
      replace (0 <? 128) with true by reflexivity.
      rewrite be_val_cons, Hv. f_equal. lia.
    + unfold dec_int.
      assert (Hnm : nonminimal (h :: tl) = false).
      { destruct tl as [|b1 tl']; [reflexivity|]. cbn [nonminimal].
        destruct (N.eqb_spec h 0) as [|_]; [lia|]. destruct (N.eqb_spec h 255) as [|_]; [lia|]. reflexivity. }
      rewrite Hnm. destruct (N.ltb_spec h 128) as [_|]; [|lia]. rewrite Hv. f_equal. lia.
  - (* negative *)
    set (m := Z.to_N (- z - 1)).
    destruct (N.eq_dec m 0) as [Hm0|Hm0].
    + assert (E : be_min m = []) by (now apply be_min_nil_iff). rewrite E. cbn [map].
      unfold dec_int. cbn. f_equal. lia.
    + destruct (be_min_cons _ Hm0) as (h & tl & E & Hh).
      pose proof (be_val_min m) as Hv. pose proof (be_min_lt m) as Hl.
      pose proof (be_val_compl _ Hl) as Hc. rewrite E in *. cbn [map] in *.
      set (cs := map (fun b => 255 - b) tl) in *.
      assert (Hlen : length cs = length tl) by (unfold cs; apply map_length).
      set (P := 256 ^ N.of_nat (length tl)) in *.
      assert (HP : 0 < P) by (unfold P; apply N.neq_0_lt_0, N.pow_nonzero; lia).
      rewrite (be_val_cons (255 - h) cs), (be_val_cons h tl), Hlen in Hc. fold P in Hc.
      cbn [length] in Hc. rewrite Nat2N.inj_succ, N.pow_succ_r' in Hc. fold P in Hc.
      rewrite be_val_cons in Hv. fold P in Hv.
      assert (Hm : Z.of_N m = (- z - 1)%Z) by (unfold m; lia).
      set (T := be_val tl) in *. set (C := be_val cs) in *.
      destruct (neg_arith h P T C m z Hh HP Hc Hv Hm) as [Ha Hb'].
      destruct (N.ltb_spec (255 - h) 128) as [Hs|Hb].
      * unfold dec_int. cbn [nonminimal].
        replace (255 =? 0) with false by reflexivity. replace (255 =? 255) with true by reflexivity.
        destruct (N.leb_spec 128 (255 - h)) as [|_]; [lia|]. cbn [andb orb].
        replace (255 <? 128) with false by reflexivity.
        rewrite be_val_cons. cbn [length]. rewrite Hlen, !Nat2N.inj_succ, !N.pow_succ_r'.
        rewrite be_val_cons, Hlen. fold P. fold C. f_equal. exact Ha.
      * unfold dec_int.
        assert (Hnm : nonminimal ((255 - h) :: cs) = false).
        { destruct cs as [|b1 cs']; [reflexivity|]. cbn [nonminimal].
          destruct (N.eqb_spec (255 - h) 0) as [|_]; [lia|].
          destruct (N.eqb_spec (255 - h) 255) as [|_]; [lia|]. reflexivity. }
        rewrite Hnm. destruct (N.ltb_spec (255 - h) 128) as [|_]; [lia|].
        cbn [length]. rewrite Hlen, Nat2N.inj_succ, N.pow_succ_r'.
        rewrite be_val_cons, Hlen. fold P. fold C. f_equal. exact Hb'.
Qed.

(* the encoding of a value that fits int64 has at most 8 bytes is not needed:
   path lengths and versions are small; we state the int64 reader only for
   values whose encoding is short *)
Lemma dec_enc_int64 z : (length (enc_int z) <= 8)%nat -> dec_int64 (enc_int z) = Some z.
Proof.
  intros H. unfold dec_int64. destruct (Nat.ltb_spec 8 (length (enc_int z))); [lia|apply dec_enc_int].
Qed.

(* ------------------------------------------------------------------ *)
(* BOOLEAN                                                             *)
Definition enc_bool (b : bool) : bytes := if b then [255] else [0].
Definition dec_bool (bs : bytes) : option bool :=
  match bs with
  | [b] => if b =? 0 then Some false else if b =? 255 then Some true else None
  | _ => None
  end.
Lemma dec_enc_bool b : dec_bool (enc_bool b) = Some b.
Proof. destruct b; reflexivity. Qed.

(* ------------------------------------------------------------------ *)
(* base 128 (appendBase128Int / parseBase128Int)                        *)
Definition enc_b128 (n : N) : bytes :=
  match le_digits 128 (nfuel n) n with
  | [] => [0]
  | d0 :: hi => map (fun d => 128 + d) (rev hi) ++ [d0]
  end.

Definition max_int32 : N := 2147483647.

(* the reader, parametrised by the number of octets it accepts per value and
   the largest value: encoding/asn1 takes 5 octets and values <= MaxInt32,
   zcrypto's cryptobyte takes 4 octets *)
Fixpoint dec_b128g (lim : nat) (maxv : N) (shifted : nat) (acc : N) (bs : bytes) : option (N * bytes) :=
  match bs with
  | [] => None                                               (* truncated *)
  | b :: r =>
      if (shifted =? lim)%nat then None                      (* too large *)
      else if (shifted =? 0)%nat && (b =? 128) then None     (* not minimal *)
      else
        let acc' := acc * 128 + b mod 128 in
        if b <? 128 then (if maxv <? acc' then None else Some (acc', r))
        else dec_b128g lim maxv (S shifted) acc' r
  end.

Definition dec_b128 := dec_b128g 5 max_int32.

Lemma le_digits_length B : 2 <= B -> forall k fuel n,
  n < B ^ N.of_nat k -> (length (le_digits B fuel n) <= k)%nat.
Proof.
  intros HB k; induction k as [|k IH]; intros fuel n Hn.
  - simpl in Hn. assert (n = 0) by lia. subst. destruct fuel; simpl; lia.
  - destruct fuel as [|f]; [simpl; lia|]. cbn [le_digits].
    destruct (n =? 0); [simpl; lia|]. cbn [length]. apply le_n_S. apply IH.
    rewrite Nat2N.inj_succ, N.pow_succ_r' in Hn. apply N.div_lt_upper_bound; lia.
Qed.

Definition acc128 (acc : N) (ds : list N) : N := fold_left (fun a d => a * 128 + d) ds acc.

Lemma acc128_rev ds : acc128 0 (rev ds) = le_val 128 ds.
Proof.
  unfold acc128. induction ds as [|d r IH]; [reflexivity|].
  cbn [rev le_val]. rewrite fold_left_app. cbn [fold_left]. rewrite IH. lia.
Qed.

Lemma dec_b128g_tail lim maxv : forall hs s acc d0 rest,
  Forall (fun d => d < 128) hs -> d0 < 128 -> (1 <= s)%nat -> (s + length hs < lim)%nat ->
  dec_b128g lim maxv s acc (map (fun d => 128 + d) hs ++ d0 :: rest) =
  let v := acc128 acc hs * 128 + d0 in
  if maxv <? v then None else Some (v, rest).
Proof.
  induction hs as [|h hs IH]; intros s acc d0 rest Hh Hd Hs Hl.
  - cbn [map app dec_b128g acc128 fold_left].
    destruct (Nat.eqb_spec s lim) as [|_]; [simpl in Hl; lia|].
    destruct (Nat.eqb_spec s 0) as [|_]; [lia|]. cbn [andb].
    rewrite N.mod_small by lia. destruct (N.ltb_spec d0 128); [reflexivity|lia].
  - apply Forall_cons_iff in Hh as [Hh1 Hh2]. cbn [length] in Hl.
    cbn [map app dec_b128g].
    destruct (Nat.eqb_spec s lim) as [|_]; [lia|].
    destruct (Nat.eqb_spec s 0) as [|_]; [lia|]. cbn [andb].
    destruct (N.ltb_spec (128 + h) 128) as [|_]; [lia|].
    replace ((128 + h) mod 128) with h
      by (apply N.mod_unique with (q := 1); lia).
    rewrite (IH (S s) (acc * 128 + h) d0 rest Hh2 Hd) by lia.
    reflexivity.
Qed.

Theorem dec_enc_b128g lim maxv n rest : (1 <= lim)%nat -> n <= maxv -> n < 128 ^ N.of_nat lim ->
  dec_b128g lim maxv 0 0 (enc_b128 n ++ rest) = Some (n, rest).
Proof.
  intros Hl1 Hn Hlim. unfold enc_b128.
  pose proof (le_val_digits 128 ltac:(lia) (nfuel n) n (nfuel_spec n)) as Hv.
  pose proof (le_digits_lt 128 ltac:(lia) (nfuel n) n) as Hlt.
  assert (Hlen : (length (le_digits 128 (nfuel n) n) <= lim)%nat) by (apply le_digits_length; [lia|exact Hlim]).
  destruct (N.eq_dec n 0) as [->|Hnz].
  { destruct lim as [|l]; [lia|]. cbn [le_digits nfuel N.log2 N.to_nat N.eqb app dec_b128g Nat.eqb andb].
    change (0 =? 128) with false. change (0 * 128 + 0 mod 128) with 0. change (0 <? 128) with true. cbv iota.
    destruct (N.ltb_spec maxv 0); [lia|reflexivity]. }
  pose proof (le_digits_last_nz 128 ltac:(lia) (nfuel n) n (nfuel_spec n) Hnz) as Hlast.
  destruct (le_digits 128 (nfuel n) n) as [|d0 hi] eqn:E.
  { simpl in Hv. lia. }
  apply Forall_cons_iff in Hlt as [Hd0 Hhi].
  cbn [le_val] in Hv. cbn [length] in Hlen.
  destruct (rev hi) as [|h hs] eqn:Er.
  - (* single digit *)
    assert (hi = []) by (destruct hi; [reflexivity|]; cbn [rev] in Er; destruct (rev hi); discriminate).
    subst hi. cbn [map app dec_b128g].
    destruct (Nat.eqb_spec 0 lim) as [|_]; [lia|]. cbn [Nat.eqb andb].
    destruct (N.eqb_spec d0 128) as [|_]; [lia|].
    rewrite N.mod_small by lia. destruct (N.ltb_spec d0 128) as [_|]; [|lia].
    simpl in Hv. replace (0 * 128 + d0) with n by lia.
    destruct (N.ltb_spec maxv n); [lia|reflexivity].
  - assert (Hrl : length (rev hi) = length hi) by apply rev_length.
    rewrite Er in Hrl. cbn [length] in Hrl.
    assert (Hrf : Forall (fun d => d < 128) (h :: hs)) by (rewrite <- Er; now apply Forall_rev).
    apply Forall_cons_iff in Hrf as [Hh Hhs].
    assert (Hhnz : h <> 0).
    { (* h is the last digit *)
      assert (Hl : last (d0 :: hi) 0 = h).
      { rewrite <- (rev_involutive hi), Er. cbn [rev].
        destruct (rev hs ++ [h]) eqn:E2; [destruct (rev hs); discriminate|].
        change (last (d0 :: n0 :: l) 0) with (last (n0 :: l) 0). rewrite <- E2.
        apply last_last. }
      rewrite Hl in Hlast. exact Hlast. }
    cbn [map app dec_b128g].
    destruct (Nat.eqb_spec 0 lim) as [|_]; [lia|]. cbn [Nat.eqb andb].
    destruct (N.eqb_spec (128 + h) 128) as [|_]; [lia|].
    destruct (N.ltb_spec (128 + h) 128) as [|_]; [lia|].
    replace ((128 + h) mod 128) with h by (apply N.mod_unique with (q := 1); lia).
    rewrite <- app_assoc. change ([d0] ++ rest) with (d0 :: rest).
    rewrite (dec_b128g_tail lim maxv hs 1 (0 * 128 + h) d0 rest Hhs Hd0) by lia.
    cbv zeta.
    assert (Hacc : acc128 (0 * 128 + h) hs = le_val 128 hi).
    { rewrite <- acc128_rev, Er. unfold acc128. cbn [fold_left]. reflexivity. }
    rewrite Hacc. replace (le_val 128 hi * 128 + d0) with n by lia.
    destruct (N.ltb_spec maxv n); [lia|reflexivity].
Qed.

Theorem dec_enc_b128 n rest : n <= max_int32 ->
  dec_b128 0 0 (enc_b128 n ++ rest) = Some (n, rest).
Proof.
  intros H. apply dec_enc_b128g; [lia|exact H|]. unfold max_int32 in H. simpl. lia.
Qed.

Lemma enc_b128_nonempty n : enc_b128 n <> [].
Proof.
  unfold enc_b128. destruct (le_digits 128 (nfuel n) n); [discriminate|].
  intro E. apply app_eq_nil in E as [_ E]. discriminate.
Qed.

(* ------------------------------------------------------------------ *)
(* OBJECT IDENTIFIER (makeObjectIdentifier + oidEncoder / parseObjectIdentifier) *)
Definition oid := list N.

Definition enc_oid (o : oid) : option bytes :=
  match o with
  | a :: b :: r =>
      if (2 <? a) || ((a <? 2) && (40 <=? b)) then None
      else Some (enc_b128 (a * 40 + b) ++ flat_map enc_b128 r)
  | _ => None
  end.

Fixpoint dec_b128g_list (lim : nat) (maxv : N) (fuel : nat) (bs : bytes) : option (list N) :=
  match bs with
  | [] => Some []
  | _ =>
      match fuel with
      | O => None
      | S f =>
          match dec_b128g lim maxv 0 0 bs with
          | None => None
          | Some (v, r) =>
              match dec_b128g_list lim maxv f r with
              | None => None
              | Some l => Some (v :: l)
              end
          end
      end
  end.

Definition dec_oidg (lim : nat) (maxv : N) (bs : bytes) : option oid :=
  match bs with
  | [] => None
  | _ =>
      match dec_b128g lim maxv 0 0 bs with
      | None => None
      | Some (v, r) =>
          match dec_b128g_list lim maxv (length r) r with
          | None => None
          | Some tl =>
              Some (if v <? 80 then (v / 40) :: (v mod 40) :: tl else 2 :: (v - 80) :: tl)
          end
      end
  end.

(* encoding/asn1's reader *)
Definition dec_oid := dec_oidg 5 max_int32.

(* valid for the writer, every value at most [bnd] *)
Definition wf_oidb (bnd : N) (o : oid) : bool :=
  match o with
  | a :: b :: r =>
      negb ((2 <? a) || ((a <? 2) && (40 <=? b)))
      && (a * 40 + b <=? bnd) && forallb (fun x => x <=? bnd) r
  | _ => false
  end.
Definition wf_oid := wf_oidb max_int32.

Lemma dec_b128g_list_enc lim maxv bnd : (1 <= lim)%nat -> bnd <= maxv -> bnd < 128 ^ N.of_nat lim -> forall r fuel,
  forallb (fun x => x <=? bnd) r = true ->
  (length (flat_map enc_b128 r) <= fuel)%nat ->
  dec_b128g_list lim maxv fuel (flat_map enc_b128 r) = Some r.
Proof.
  intros Hl1 Hb1 Hb2. induction r as [|x r IH]; intros fuel Hr Hf.
  - destruct fuel; reflexivity.
  - cbn [forallb] in Hr. apply andb_prop in Hr as [Hx Hr]. apply N.leb_le in Hx.
    cbn [flat_map] in *. rewrite app_length in Hf.
    pose proof (enc_b128_nonempty x) as Hne.
    assert (0 < length (enc_b128 x))%nat by (destruct (enc_b128 x); [contradiction|simpl; lia]).
    destruct fuel as [|f]; [lia|].
    destruct (enc_b128 x ++ flat_map enc_b128 r) eqn:E.
    { apply app_eq_nil in E as [E _]. contradiction. }
    rewrite <- E. cbn [dec_b128g_list].
    destruct (enc_b128 x ++ flat_map enc_b128 r) eqn:E2; [discriminate|]. rewrite <- E2.
    rewrite dec_enc_b128g by lia. rewrite IH by (auto; lia). reflexivity.
Qed.

Theorem dec_enc_oidg lim maxv bnd o bs : (1 <= lim)%nat -> bnd <= maxv -> bnd < 128 ^ N.of_nat lim ->
  wf_oidb bnd o = true -> enc_oid o = Some bs -> dec_oidg lim maxv bs = Some o.
Proof.
  intros Hl1 Hb1 Hb2.
  destruct o as [|a [|b r]]; try discriminate.
  cbn [wf_oidb enc_oid]. intros Hwf.
  apply andb_prop in Hwf as [Hwf Hr]. apply andb_prop in Hwf as [Hab Hv].
  apply negb_true_iff in Hab. rewrite Hab. intros E. injection E as <-.
  apply N.leb_le in Hv.
  unfold dec_oidg.
  destruct (enc_b128 (a * 40 + b) ++ flat_map enc_b128 r) eqn:E.
  { apply app_eq_nil in E as [E _]. now apply enc_b128_nonempty in E. }
  rewrite <- E. rewrite dec_enc_b128g by lia.
  rewrite (dec_b128g_list_enc lim maxv bnd Hl1 Hb1 Hb2) by (auto; lia).
  apply orb_false_iff in Hab as [Ha Hb]. apply N.ltb_ge in Ha.
  destruct (N.ltb_spec (a * 40 + b) 80) as [Hlt|Hge].
  - assert (Ha2 : a < 2) by lia. destruct (N.ltb_spec a 2) as [_|]; [|lia].
    cbn [andb] in Hb. apply N.leb_gt in Hb.
    f_equal. f_equal; [|f_equal].
    + symmetry. apply N.div_unique with (r := b); lia.
    + symmetry. apply N.mod_unique with (q := a); lia.
  - destruct (N.ltb_spec a 2) as [Hlt2|Hge2].
    + cbn [andb] in Hb. apply N.leb_gt in Hb. lia.
    + assert (a = 2) by lia. subst a. f_equal. f_equal. f_equal. lia.
Qed.

Theorem dec_enc_oid o bs : wf_oid o = true -> enc_oid o = Some bs -> dec_oid bs = Some o.
Proof.
  apply dec_enc_oidg; [lia|lia|]. unfold max_int32. simpl. lia.
Qed.

(* zcrypto's cryptobyte reader (ReadASN1ObjectIdentifier): four octets per value *)
Definition cb_max : N := 268435455.
Definition dec_oid_cb := dec_oidg 4 cb_max.
Definition wf_oid_cb := wf_oidb cb_max.

Theorem dec_enc_oid_cb o bs : wf_oid_cb o = true -> enc_oid o = Some bs -> dec_oid_cb bs = Some o.
Proof.
  apply dec_enc_oidg; [lia|lia|]. unfold cb_max. simpl. lia.
Qed.

Lemma wf_oid_cb_wf o : wf_oid_cb o = true -> wf_oid o = true.
Proof.
  unfold wf_oid_cb, wf_oid, wf_oidb. destruct o as [|a [|b r]]; try discriminate.
  intros H. apply andb_prop in H as [H Hr]. apply andb_prop in H as [H1 H2].
  rewrite H1. apply N.leb_le in H2. unfold cb_max, max_int32 in *.
  destruct (N.leb_spec (a * 40 + b) 2147483647); [|lia]. cbn [andb].
  rewrite forallb_forall in *. intros x Hx. specialize (Hr x Hx). apply N.leb_le in Hr. apply N.leb_le. lia.
Qed.

Definition oid_eqb (a b : oid) : bool := list_eqb N.eqb a b.

(* ------------------------------------------------------------------ *)
(* times.  A time is a civil tuple (UTC); time.Time <-> civil is Go's
   time package (trusted).                                              *)
Record civil := { cy : N; cmo : N; cd : N; ch : N; cmi : N; cs : N }.

Definition civil_eqb (a b : civil) : bool :=
  (cy a =? cy b) && (cmo a =? cmo b) && (cd a =? cd b) &&
  (ch a =? ch b) && (cmi a =? cmi b) && (cs a =? cs b).

Definition leap (y : N) : bool :=
  (y mod 4 =? 0) && (negb (y mod 100 =? 0) || (y mod 400 =? 0)).

Definition dim (y m : N) : N :=
  if m =? 2 then (if leap y then 29 else 28)
  else if (m =? 4) || (m =? 6) || (m =? 9) || (m =? 11) then 30 else 31.

Definition valid_civil (c : civil) : bool :=
  (1 <=? cmo c) && (cmo c <=? 12) && (1 <=? cd c) && (cd c <=? dim (cy c) (cmo c)) &&
  (ch c <? 24) && (cmi c <? 60) && (cs c <? 60).

Definition two (v : N) : bytes := [48 + (v / 10) mod 10; 48 + v mod 10].
Definition four (v : N) : bytes :=
  [48 + (v / 1000) mod 10; 48 + (v / 100) mod 10; 48 + (v / 10) mod 10; 48 + v mod 10].

Definition time_common (c : civil) : bytes :=
  two (cmo c) ++ two (cd c) ++ two (ch c) ++ two (cmi c) ++ two (cs c) ++ [90].

(* (universal tag, content): UTCTime (23) inside 1950..2049, else GeneralizedTime (24) *)
Definition enc_time (c : civil) : option (N * bytes) :=
  let y := cy c in
  if (1950 <=? y) && (y <? 2050) then
    Some (23, two (if y <? 2000 then y - 1900 else y - 2000) ++ time_common c)
  else if 9999 <? y then None
  else Some (24, four y ++ time_common c).

Definition digit (b : N) : option N := if (48 <=? b) && (b <=? 57) then Some (b - 48) else None.
Definition dec2 (a b : N) : option N :=
  match digit a, digit b with
  | Some x, Some y => Some (x * 10 + y)
  | _, _ => None
  end.

Definition mk_civil (y : N) (mo d h mi s : option N) : option civil :=
  match mo, d, h, mi, s with
  | Some mo, Some d, Some h, Some mi, Some s =>
      let c := {| cy := y; cmo := mo; cd := d; ch := h; cmi := mi; cs := s |} in
      if valid_civil c then Some c else None
  | _, _, _, _, _ => None
  end.

Definition utc_year (yy : N) : N := if 50 <=? yy then 1900 + yy else 2000 + yy.

(* "YYMMDDhhmmssZ" and the seconds-less "YYMMDDhhmmZ"; numeric zone offsets
   (which Go also reads) are not modelled: the writers never produce them *)
Definition dec_utctime (bs : bytes) : option civil :=
  match bs with
  | [y1; y2; m1; m2; d1; d2; h1; h2; n1; n2; s1; s2; z] =>
      if z =? 90 then
        match dec2 y1 y2 with
        | Some yy => mk_civil (utc_year yy) (dec2 m1 m2) (dec2 d1 d2) (dec2 h1 h2) (dec2 n1 n2) (dec2 s1 s2)
        | None => None
        end
      else None
  | [y1; y2; m1; m2; d1; d2; h1; h2; n1; n2; z] =>
      if z =? 90 then
        match dec2 y1 y2 with
        | Some yy => mk_civil (utc_year yy) (dec2 m1 m2) (dec2 d1 d2) (dec2 h1 h2) (dec2 n1 n2) (Some 0)
        | None => None
        end
      else None
  | _ => None
  end.

Definition dec_gentime (bs : bytes) : option civil :=
  match bs with
  | [y1; y2; y3; y4; m1; m2; d1; d2; h1; h2; n1; n2; s1; s2; z] =>
      if z =? 90 then
        match dec2 y1 y2, dec2 y3 y4 with
        | Some a, Some b => mk_civil (a * 100 + b) (dec2 m1 m2) (dec2 d1 d2) (dec2 h1 h2) (dec2 n1 n2) (dec2 s1 s2)
        | _, _ => None
        end
      else None
  | _ => None
  end.

Definition dec_time (tag : N) (bs : bytes) : option civil :=
  if tag =? 23 then dec_utctime bs else if tag =? 24 then dec_gentime bs else None.

Lemma dec2_two_all : forallb (fun v => match two v with
                                        | [a; b] => option_eqb N.eqb (dec2 a b) (Some v)
                                        | _ => false end)
                             (map N.of_nat (seq 0 100)) = true.
Proof. vm_compute. reflexivity. Qed.

Lemma dec2_two v : v < 100 -> dec2 (48 + (v / 10) mod 10) (48 + v mod 10) = Some v.
Proof.
  intros Hv. pose proof dec2_two_all as H. rewrite forallb_forall in H.
  specialize (H v). unfold two in H.
  assert (Hin : In v (map N.of_nat (seq 0 100))).
  { apply in_map_iff. exists (N.to_nat v). split; [lia|]. apply in_seq. lia. }
  specialize (H Hin).
  destruct (dec2 _ _) as [x|]; simpl in H; [|discriminate]. apply N.eqb_eq in H. now subst.
Qed.

Lemma valid_civil_bounds c : valid_civil c = true ->
  cmo c < 100 /\ cd c < 100 /\ ch c < 100 /\ cmi c < 100 /\ cs c < 100.
Proof.
  unfold valid_civil. intros H.
  repeat (apply andb_prop in H as [H ?]).
  repeat match goal with
         | H : (_ <=? _) = true |- _ => apply N.leb_le in H
         | H : (_ <? _) = true |- _ => apply N.ltb_lt in H
         end.
  assert (dim (cy c) (cmo c) <= 31).
  { unfold dim. destruct (_ =? 2); [destruct (leap _); lia|]. destruct (_ || _); lia. }
  lia.
Qed.

Lemma mk_civil_id c : valid_civil c = true ->
  mk_civil (cy c) (Some (cmo c)) (Some (cd c)) (Some (ch c)) (Some (cmi c)) (Some (cs c)) = Some c.
Proof. intros H. unfold mk_civil. destruct c; cbn in *. now rewrite H. Qed.

Lemma dec_utctime_13 y1 y2 m1 m2 d1 d2 h1 h2 n1 n2 s1 s2 :
  dec_utctime [y1; y2; m1; m2; d1; d2; h1; h2; n1; n2; s1; s2; 90] =
  match dec2 y1 y2 with
  | Some yy => mk_civil (utc_year yy) (dec2 m1 m2) (dec2 d1 d2) (dec2 h1 h2) (dec2 n1 n2) (dec2 s1 s2)
  | None => None
  end.
Proof. reflexivity. Qed.

Lemma dec_gentime_15 y1 y2 y3 y4 m1 m2 d1 d2 h1 h2 n1 n2 s1 s2 :
  dec_gentime [y1; y2; y3; y4; m1; m2; d1; d2; h1; h2; n1; n2; s1; s2; 90] =
  match dec2 y1 y2, dec2 y3 y4 with
  | Some a, Some b => mk_civil (a * 100 + b) (dec2 m1 m2) (dec2 d1 d2) (dec2 h1 h2) (dec2 n1 n2) (dec2 s1 s2)
  | _, _ => None
  end.
Proof. reflexivity. Qed.

Theorem dec_enc_time c tag bs : valid_civil c = true -> enc_time c = Some (tag, bs) ->
  dec_time tag bs = Some c.
Proof.
  intros Hv. destruct (valid_civil_bounds c Hv) as (Hmo & Hd & Hh & Hmi & Hs).
  unfold enc_time.
  destruct ((1950 <=? cy c) && (cy c <? 2050)) eqn:Hr.
  - intros E.
    assert (Et : tag = 23) by congruence.
    assert (Eb : bs = two (if cy c <? 2000 then cy c - 1900 else cy c - 2000) ++ time_common c) by congruence.
    clear E. subst tag bs. unfold dec_time. change (23 =? 23) with true. cbv iota.
    apply andb_prop in Hr as [H1 H2]. apply N.leb_le in H1. apply N.ltb_lt in H2.
    remember (if cy c <? 2000 then cy c - 1900 else cy c - 2000) as yy eqn:Eyy.
    assert (Hyy : yy < 100) by (subst yy; destruct (N.ltb_spec (cy c) 2000); lia).
    assert (Hy : utc_year yy = cy c).
    { unfold utc_year. subst yy. destruct (N.ltb_spec (cy c) 2000);
        [destruct (N.leb_spec 50 (cy c - 1900)); lia | destruct (N.leb_spec 50 (cy c - 2000)); lia]. }
    clear Eyy.
    unfold time_common, two. cbn [app]. rewrite dec_utctime_13.
    rewrite (dec2_two yy Hyy), !dec2_two by assumption.
    rewrite Hy. now apply mk_civil_id.
  - destruct (N.ltb_spec 9999 (cy c)) as [|Hy]; [discriminate|].
    intros E.
    assert (Et : tag = 24) by congruence.
    assert (Eb : bs = four (cy c) ++ time_common c) by congruence.
    clear E. subst tag bs. unfold dec_time.
    change (24 =? 23) with false. change (24 =? 24) with true. cbv iota.
    remember (cy c) as y eqn:Ey.
    unfold time_common, two, four. cbn [app]. rewrite dec_gentime_15.
    replace ((y / 1000) mod 10) with (((y / 100) / 10) mod 10)
      by (rewrite N.div_div by lia; reflexivity).
    replace ((y / 10) mod 10) with (((y mod 100) / 10) mod 10).
    2:{ pose proof (N.div_mod y 100 ltac:(lia)) as D.
        assert (y mod 100 < 100) by (apply N.mod_lt; lia).
        rewrite D at 2. rewrite N.mul_comm.
        replace (y / 100 * 100 + y mod 100) with (y mod 100 + (y / 100 * 10) * 10) by lia.
        rewrite N.div_add by lia. rewrite N.add_mod by lia.
        rewrite N.mod_mul by lia. rewrite N.add_0_r, N.mod_mod by lia. reflexivity. }
    replace (y mod 10) with ((y mod 100) mod 10).
    2:{ pose proof (N.div_mod y 100 ltac:(lia)) as D.
        rewrite D at 2. replace (100 * (y / 100) + y mod 100) with (y mod 100 + (y / 100 * 10) * 10) by lia.
        rewrite N.mod_add by lia. reflexivity. }
    assert (Hhi : y / 100 < 100) by (apply N.div_lt_upper_bound; lia).
    assert (Hlo : y mod 100 < 100) by (apply N.mod_lt; lia).
    rewrite (dec2_two (y / 100) Hhi), (dec2_two (y mod 100) Hlo), !dec2_two by assumption.
    replace (y / 100 * 100 + y mod 100) with y by (pose proof (N.div_mod y 100 ltac:(lia)); lia).
    subst y. now apply mk_civil_id.
Qed.

(* ------------------------------------------------------------------ *)
(* PrintableString test used when a Go string has no explicit type
   (isPrintable with rejectAsterisk, rejectAmpersand)                    *)
Definition is_printable_char (b : N) : bool :=
  ((97 <=? b) && (b <=? 122)) || ((65 <=? b) && (b <=? 90)) || ((48 <=? b) && (b <=? 57)) ||
  ((39 <=? b) && (b <=? 41)) || ((43 <=? b) && (b <=? 47)) ||
  (b =? 32) || (b =? 58) || (b =? 61) || (b =? 63).

(* tag chosen for a string attribute value: PrintableString 19 or UTF8String 12 *)
Definition string_tag (s : bytes) : N := if forallb is_printable_char s then 19 else 12.
