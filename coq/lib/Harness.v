(* Harness.v — glue used by every generated cases_*.v file.
   A correspondence case is a value of a model-specific type [case] holding
   the input the Go implementation was run on and the observable it produced;
   [check_case : case -> bool] re-runs the model on the input and compares. *)
From Coq Require Import List NArith ZArith Bool.
Import ListNotations.

Fixpoint failing_from {A} (chk : A -> bool) (i : N) (l : list A) : list N :=
  match l with
  | [] => []
  | x :: r => if chk x then failing_from chk (N.succ i) r
              else i :: failing_from chk (N.succ i) r
  end.

(* indices (0-based) of the cases on which model and implementation differ *)
Definition failing {A} (chk : A -> bool) (l : list A) : list N :=
  failing_from chk 0%N l.

Fixpoint list_eqb {A} (eqb : A -> A -> bool) (a b : list A) : bool :=
  match a, b with
  | [], [] => true
  | x :: a', y :: b' => eqb x y && list_eqb eqb a' b'
  | _, _ => false
  end.

Definition option_eqb {A} (eqb : A -> A -> bool) (a b : option A) : bool :=
  match a, b with
  | None, None => true
  | Some x, Some y => eqb x y
  | _, _ => false
  end.

Definition prod_eqb {A B} (ea : A -> A -> bool) (eb : B -> B -> bool)
  (a b : A * B) : bool := ea (fst a) (fst b) && eb (snd a) (snd b).

Definition bytes := list N.
Definition bytes_eqb : bytes -> bytes -> bool := list_eqb N.eqb.

Lemma list_eqb_refl {A} (eqb : A -> A -> bool) :
  (forall x, eqb x x = true) -> forall l, list_eqb eqb l l = true.
Proof. intros H l; induction l as [|x l IH]; simpl; [reflexivity|]. now rewrite H, IH. Qed.

Lemma list_eqb_eq {A} (eqb : A -> A -> bool) :
  (forall x y, eqb x y = true -> x = y) ->
  forall a b, list_eqb eqb a b = true -> a = b.
Proof.
  intros H a; induction a as [|x a IH]; intros [|y b] E; simpl in E; try discriminate; [reflexivity|].
  apply andb_prop in E as [E1 E2]. f_equal; [now apply H | now apply IH].
Qed.

Lemma bytes_eqb_eq a b : bytes_eqb a b = true -> a = b.
Proof. apply list_eqb_eq. intros x y; apply N.eqb_eq. Qed.
