(* AbsCert.v — the abstract certificate used by the CertPool (C08) and chain
   verification (C07) models.  Byte strings of the real certificate are
   interned by the harness: equal bytes <-> equal identifier, per name space
   (fingerprint/raw, name, SPKI, key id).  Times are Unix seconds.
   The cryptographic part of signature verification is never modelled: it is a
   Section variable / explicit matrix [sigok child parent]. *)
From Coq Require Import List NArith ZArith Bool.
From Verif Require Import Harness.
Import ListNotations.

Record cert := mkCert {
  c_fp : N;              (* FingerprintSHA256 (and Raw: the harness checks they are in bijection) *)
  c_subject : N;         (* RawSubject *)
  c_issuer : N;          (* RawIssuer *)
  c_spki : N;            (* RawSubjectPublicKeyInfo *)
  c_skid : option N;     (* SubjectKeyId, None = empty *)
  c_akid : option N;     (* AuthorityKeyId, None = empty; same name space as c_skid *)
  c_version : N;
  c_bc_valid : bool;     (* BasicConstraintsValid *)
  c_is_ca : bool;
  c_max_path_len : Z;    (* MaxPathLen, -1 = absent *)
  c_key_usage : N;       (* KeyUsage bit mask, 0 = absent *)
  c_pk_known : bool;     (* PublicKeyAlgorithm <> UnknownPublicKeyAlgorithm *)
  c_entrust : bool;      (* RawSubjectPublicKeyInfo = entrustBrokenSPKI *)
  c_ekus : list N;       (* ExtKeyUsage, canonical codes below *)
  c_unknown_ekus : nat;  (* len(UnknownExtKeyUsage) *)
  c_not_before : Z;
  c_not_after : Z;
  c_self_signed : bool;  (* SelfSigned, as set by the parser *)
  c_has_san : bool;
  c_dns : list bytes;
  c_ips : list bytes;
  c_cn : bytes
}.

(* canonical ExtKeyUsage codes assigned by the harness *)
Definition eku_any : N := 0.
Definition eku_server_auth : N := 1.
Definition eku_netscape_sgc : N := 2.
Definition eku_microsoft_sgc : N := 3.
(* every other usage v is 100 + v *)

Definition ku_cert_sign : N := 32.

Definition cert_same (a b : cert) : bool := N.eqb (c_fp a) (c_fp b).

Definition optN_eqb : option N -> option N -> bool := option_eqb N.eqb.

(* an explicit signature matrix: the (child fp, parent fp) pairs for which the
   implementation's parent.CheckSignature(child...) returned nil *)
Definition sigmatrix := list (N * N).
Fixpoint sig_mem (m : sigmatrix) (c p : N) : bool :=
  match m with
  | [] => false
  | (a, b) :: r => (N.eqb a c && N.eqb b p) || sig_mem r c p
  end.
Definition sig_of (m : sigmatrix) (c p : cert) : bool := sig_mem m (c_fp c) (c_fp p).

(* x509.go Certificate.CheckSignatureFrom: preconditions, then the signature *)
Section CheckSig.
  Variable sigok : cert -> cert -> bool.
  Definition check_sig_from (c parent : cert) : bool :=
    if ((N.eqb (c_version parent) 3 && negb (c_bc_valid parent))
        || (c_bc_valid parent && negb (c_is_ca parent)))
       && negb (c_entrust c)
    then false
    else if negb (N.eqb (c_key_usage parent) 0)
            && N.eqb (N.land (c_key_usage parent) ku_cert_sign) 0
    then false
    else if negb (c_pk_known parent) then false
    else if negb (N.eqb (c_subject parent) (c_issuer c)) then false
    else sigok c parent.
End CheckSig.
