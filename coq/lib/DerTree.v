(* DerTree.v — DER value trees: class / constructed / tag number + content or
   children, [emit] to bytes, a generic strict-DER [parse] back to trees, the
   law  parse (emit d ++ rest) = (d, rest)  for every well-formed tree, and
   well-formedness of everything the reader returns.  (The converse,
   emit (parse bs) = bs, is not proved here.)
   Used by C04 and C05 (X.509 objects are built as trees and emitted; the
   parsers read trees).  Tag numbers are the low-tag form only (< 31): every
   tag in X.509 certificates, CSRs and CRLs is.  Lengths are unbounded in the
   model (Go's asn1 refuses lengths >= 2^31; no object of that size is ever
   generated). *)
From Coq Require Import List NArith ZArith Bool Arith Lia.
From Verif Require Import Harness.
Import ListNotations.
Local Open Scope N_scope.

(* ------------------------------------------------------------------ *)
(* little-endian digit strings in base B (256 for lengths and integers,
   128 for OID sub-identifiers)                                         *)
Fixpoint le_digits (B : N) (fuel : nat) (n : N) : list N :=
  match fuel with
  | O => []
  | S f => if n =? 0 then [] else (n mod B) :: le_digits B f (n / B)
  end.

Fixpoint le_val (B : N) (ds : list N) : N :=
  match ds with
  | [] => 0
  | d :: r => d + B * le_val B r
  end.

(* enough fuel for every digit of n in any base >= 2 *)
Definition nfuel (n : N) : nat := S (N.to_nat (N.log2 n)).

Lemma nfuel_spec n : n < 2 ^ N.of_nat (nfuel n).
Proof.
  unfold nfuel. rewrite Nat2N.inj_succ, N2Nat.id.
  destruct (N.eq_dec n 0) as [->|Hn].
  - simpl. lia.
  - apply N.log2_spec. lia.
Qed.

Lemma half_bound B n k : 2 <= B -> n < 2 ^ N.succ k -> n / B < 2 ^ k.
Proof.
  intros HB Hn. rewrite N.pow_succ_r' in Hn.
  apply N.div_lt_upper_bound; [lia|].
  nia.
Qed.

Lemma le_val_digits B : 2 <= B -> forall fuel n,
  n < 2 ^ N.of_nat fuel -> le_val B (le_digits B fuel n) = n.
Proof.
  intros HB fuel; induction fuel as [|f IH]; intros n Hn.
  - simpl in *. assert (n = 0) by lia. subst. reflexivity.
  - cbn [le_digits]. destruct (N.eqb_spec n 0) as [->|Hz]; [reflexivity|].
    cbn [le_val]. rewrite IH.
    + pose proof (N.div_mod n B). lia.
    + rewrite Nat2N.inj_succ in Hn. now apply half_bound.
Qed.

Lemma le_digits_lt B : 0 < B -> forall fuel n, Forall (fun d => d < B) (le_digits B fuel n).
Proof.
  intros HB fuel; induction fuel as [|f IH]; intros n; cbn [le_digits]; [constructor|].
  destruct (n =? 0); constructor; [apply N.mod_lt; lia | apply IH].
Qed.

Lemma le_digits_nil_iff B fuel n : 2 <= B -> n < 2 ^ N.of_nat fuel ->
  (le_digits B fuel n = [] <-> n = 0).
Proof.
  intros HB Hn. destruct fuel as [|f]; cbn [le_digits].
  - simpl in Hn. split; [lia|reflexivity].
  - destruct (N.eqb_spec n 0); split; intros; try reflexivity; try lia; try discriminate.
Qed.

Lemma le_digits_last_nz B : 2 <= B -> forall fuel n,
  n < 2 ^ N.of_nat fuel -> n <> 0 -> last (le_digits B fuel n) 0 <> 0.
Proof.
  intros HB fuel; induction fuel as [|f IH]; intros n Hn Hz.
  - simpl in Hn. lia.
  - cbn [le_digits]. destruct (N.eqb_spec n 0) as [|_]; [contradiction|].
    assert (Hq : n / B < 2 ^ N.of_nat f) by (rewrite Nat2N.inj_succ in Hn; now apply half_bound).
    destruct (N.eq_dec (n / B) 0) as [Hq0|Hq0].
    + assert (E : le_digits B f (n / B) = []) by (apply le_digits_nil_iff; auto).
      rewrite E. cbn [last].
      pose proof (N.div_mod n B). rewrite Hq0 in H. lia.
    + specialize (IH (n / B) Hq Hq0).
      destruct (le_digits B f (n / B)) eqn:E.
      * exfalso. apply Hq0. apply (le_digits_nil_iff B f); auto.
      * exact IH.
Qed.

(* big-endian minimal byte string of n ([] for 0) and its value *)
Definition be_min (n : N) : bytes := rev (le_digits 256 (nfuel n) n).
Definition be_val (bs : bytes) : N := fold_left (fun a b => a * 256 + b) bs 0.

Lemma be_val_rev ds : be_val (rev ds) = le_val 256 ds.
Proof.
  unfold be_val. induction ds as [|d r IH]; [reflexivity|].
  cbn [rev le_val]. rewrite fold_left_app. cbn [fold_left]. rewrite IH. lia.
Qed.

Lemma be_val_min n : be_val (be_min n) = n.
Proof.
  unfold be_min. rewrite be_val_rev. apply le_val_digits; [lia|apply nfuel_spec].
Qed.

Lemma be_min_lt n : Forall (fun b => b < 256) (be_min n).
Proof.
  unfold be_min. apply Forall_rev. apply le_digits_lt. lia.
Qed.

Lemma hd_rev_last (l : list N) : hd 0 (rev l) = last l 0.
Proof.
  induction l as [|x r IH]; [reflexivity|].
  cbn [rev]. destruct r as [|y r']; [reflexivity|].
  change (last (x :: y :: r') 0) with (last (y :: r') 0). rewrite <- IH.
  cbn [rev]. destruct (rev r' ++ [y]) eqn:E; [destruct (rev r'); discriminate|reflexivity].
Qed.

Lemma be_min_hd_nz n : n <> 0 -> hd 0 (be_min n) <> 0.
Proof.
  intros Hn. unfold be_min. rewrite hd_rev_last.
  apply le_digits_last_nz; [lia|apply nfuel_spec|exact Hn].
Qed.

Lemma be_min_nil_iff n : be_min n = [] <-> n = 0.
Proof.
  unfold be_min. split; intros H.
  - apply (le_digits_nil_iff 256 (nfuel n)); [lia|apply nfuel_spec|].
    destruct (le_digits 256 (nfuel n) n); [reflexivity|].
    cbn [rev] in H. destruct (rev l); discriminate.
  - assert (E : le_digits 256 (nfuel n) n = []) by (apply le_digits_nil_iff; [lia|apply nfuel_spec|exact H]).
    now rewrite E.
Qed.

(* ------------------------------------------------------------------ *)
(* firstn / skipn helpers                                               *)
Lemma firstn_len_app {A} (a b : list A) : firstn (length a) (a ++ b) = a.
Proof. induction a as [|x a IH]; [destruct b; reflexivity|]. simpl. now rewrite IH. Qed.

Lemma skipn_len_app {A} (a b : list A) : skipn (length a) (a ++ b) = b.
Proof. induction a as [|x a IH]; [reflexivity|]. simpl. exact IH. Qed.

(* ------------------------------------------------------------------ *)
(* DER definite lengths (appendTagAndLength / parseTagAndLength)        *)
Definition enc_len (n : N) : bytes :=
  if n <? 128 then [n]
  else let bs := be_min n in (128 + N.of_nat (length bs)) :: bs.

Definition dec_len (bs : bytes) : option (N * bytes) :=
  match bs with
  | [] => None
  | b :: r =>
      if b <? 128 then Some (b, r)
      else if b =? 128 then None                        (* indefinite length *)
      else if N.of_nat (length r) <? b - 128 then None  (* truncated *)
      else
        let k := N.to_nat (b - 128) in
          let lb := firstn k r in
          if hd 0 lb =? 0 then None                     (* superfluous leading zeros *)
          else
            let n := be_val lb in
            if n <? 128 then None                       (* non-minimal length *)
            else Some (n, skipn k r)
  end.


Lemma dec_enc_len n rest : dec_len (enc_len n ++ rest) = Some (n, rest).
Proof.
  unfold enc_len, dec_len.
  destruct (N.ltb_spec n 128) as [Hs|Hl].
  - cbn [app]. destruct (N.ltb_spec n 128); [reflexivity|lia].
  - cbn [app].
    set (bs := be_min n) in *.
    assert (Hnz : n <> 0) by lia.
    assert (Hne : bs <> []) by (intro E; apply be_min_nil_iff in E; lia).
    assert (Hlen : (0 < length bs)%nat) by (destruct bs; [contradiction|simpl; lia]).
    destruct (N.ltb_spec (128 + N.of_nat (length bs)) 128) as [|_]; [lia|].
    destruct (N.eqb_spec (128 + N.of_nat (length bs)) 128) as [|_]; [lia|].
    replace (128 + N.of_nat (length bs) - 128) with (N.of_nat (length bs)) by lia.
    destruct (N.ltb_spec (N.of_nat (length (bs ++ rest))) (N.of_nat (length bs))) as [H|_]; [rewrite app_length in H; lia|].
    rewrite Nat2N.id.
    rewrite firstn_len_app, skipn_len_app.
    pose proof (be_min_hd_nz n Hnz) as Hh. fold bs in Hh.
    destruct (N.eqb_spec (hd 0 bs) 0) as [|_]; [contradiction|].
    unfold bs. rewrite be_val_min.
    destruct (N.ltb_spec n 128); [lia|reflexivity].
Qed.

(* ------------------------------------------------------------------ *)
(* trees                                                               *)
Inductive dv :=
| Prim (c t : N) (content : bytes)
| Cons (c t : N) (kids : list dv).

Section dv_ind2.
  Variable P : dv -> Prop.
  Hypothesis HP : forall c t b, P (Prim c t b).
  Hypothesis HC : forall c t kids, Forall P kids -> P (Cons c t kids).
  Fixpoint dv_ind2 (d : dv) : P d :=
    match d with
    | Prim c t b => HP c t b
    | Cons c t kids =>
        HC c t kids ((fix go (l : list dv) : Forall P l :=
                        match l with
                        | [] => Forall_nil P
                        | x :: r => Forall_cons x (dv_ind2 x) (go r)
                        end) kids)
    end.
End dv_ind2.

Definition ident (c : N) (k : bool) (t : N) : N := c * 64 + (if k then 32 else 0) + t.

Definition tlv (c : N) (k : bool) (t : N) (body : bytes) : bytes :=
  ident c k t :: enc_len (N.of_nat (length body)) ++ body.

Fixpoint emit (d : dv) : bytes :=
  match d with
  | Prim c t b => tlv c false t b
  | Cons c t kids => tlv c true t (flat_map emit kids)
  end.

Definition emit_list (l : list dv) : bytes := flat_map emit l.

(* well-formed: class < 4, low-tag form *)
Fixpoint wfb (d : dv) : bool :=
  match d with
  | Prim c t b => (c <? 4) && (t <? 31)
  | Cons c t kids => (c <? 4) && (t <? 31) && forallb wfb kids
  end.

(* generic strict-DER reader: one TLV / a run of TLVs filling the input *)
Fixpoint parse_f (fuel : nat) (bs : bytes) {struct fuel} : option (dv * bytes) :=
  match fuel with
  | O => None
  | S f =>
      match bs with
      | [] => None
      | id :: r1 =>
          let t := id mod 32 in
          if t =? 31 then None          (* high-tag-number form: not used in X.509 *)
          else if 255 <? id then None
          else
            match dec_len r1 with
            | None => None
            | Some (n, r2) =>
                if N.of_nat (length r2) <? n then None     (* data truncated *)
                else
                  let k := N.to_nat n in
                  let body := firstn k r2 in
                  let rest := skipn k r2 in
                  if (id / 32) mod 2 =? 1 then
                    match parse_l f body with
                    | Some kids => Some (Cons (id / 64) t kids, rest)
                    | None => None
                    end
                  else Some (Prim (id / 64) t body, rest)
            end
      end
  end
with parse_l (fuel : nat) (bs : bytes) {struct fuel} : option (list dv) :=
  match fuel with
  | O => None
  | S f =>
      match bs with
      | [] => Some []
      | _ =>
          match parse_f f bs with
          | None => None
          | Some (d, rest) =>
              match parse_l f rest with
              | None => None
              | Some ds => Some (d :: ds)
              end
          end
      end
  end.

(* one element, possibly followed by more bytes (asn1.Unmarshal returns rest) *)
Definition parse (bs : bytes) : option (dv * bytes) := parse_f (length bs) bs.
(* exactly one element *)
Definition parse_all (bs : bytes) : option dv :=
  match parse bs with
  | Some (d, []) => Some d
  | _ => None
  end.
Definition parse_seq (bs : bytes) : option (list dv) := parse_l (S (length bs)) bs.

(* fuel a tree needs *)
Fixpoint need (d : dv) : nat :=
  match d with
  | Prim _ _ _ => 1
  | Cons _ _ kids => S (fold_right (fun x a => S (Nat.max (need x) a)) 1%nat kids)
  end.
Definition need_l (l : list dv) : nat := fold_right (fun x a => S (Nat.max (need x) a)) 1%nat l.

Lemma ident_mod32 c k t : t < 32 -> ident c k t mod 32 = t.
Proof.
  intros Ht. unfold ident. symmetry.
  apply N.mod_unique with (q := 2 * c + (if k then 1 else 0)); [lia|]. destruct k; lia.
Qed.

Lemma ident_div32 c k t : t < 32 -> ident c k t / 32 = 2 * c + (if k then 1 else 0).
Proof.
  intros Ht. unfold ident. symmetry.
  apply N.div_unique with (r := t); [lia|]. destruct k; lia.
Qed.

Lemma ident_div64 c k t : t < 32 -> ident c k t / 64 = c.
Proof.
  intros Ht. unfold ident. symmetry.
  apply N.div_unique with (r := (if k then 32 else 0) + t); destruct k; lia.
Qed.

Lemma ident_cons_bit c k t : t < 32 -> ((ident c k t / 32) mod 2 =? 1) = k.
Proof.
  intros Ht. rewrite ident_div32 by exact Ht.
  replace ((2 * c + (if k then 1 else 0)) mod 2) with (if k then 1 else 0).
  - destruct k; reflexivity.
  - apply N.mod_unique with (q := c); destruct k; lia.
Qed.

Lemma emit_nonempty d : emit d <> [].
Proof. destruct d; discriminate. Qed.

Lemma parse_tlv f c k t body rest :
  c < 4 -> t < 31 ->
  parse_f (S f) (tlv c k t body ++ rest) =
  if k then match parse_l f body with
            | Some kids => Some (Cons c t kids, rest)
            | None => None
            end
  else Some (Prim c t body, rest).
Proof.
  intros Hc Ht. unfold tlv. cbn [app parse_f].
  rewrite ident_mod32 by lia.
  destruct (N.eqb_spec t 31) as [|_]; [lia|].
  assert (Hid : ident c k t <= 255) by (unfold ident; destruct k; lia).
  destruct (N.ltb_spec 255 (ident c k t)) as [|_]; [lia|].
  rewrite <- app_assoc, dec_enc_len.
  destruct (N.ltb_spec (N.of_nat (length (body ++ rest))) (N.of_nat (length body))) as [H|_];
    [rewrite app_length in H; lia|].
  rewrite Nat2N.id, firstn_len_app, skipn_len_app.
  rewrite ident_cons_bit, ident_div64 by lia. reflexivity.
Qed.

Theorem parse_emit_f : forall d, wfb d = true ->
  forall f rest, (need d <= f)%nat -> parse_f f (emit d ++ rest) = Some (d, rest).
Proof.
  induction d as [c t b|c t kids IH] using dv_ind2; intros Hwf f rest Hf.
  - cbn [wfb] in Hwf. apply andb_prop in Hwf as [Hc Ht].
    apply N.ltb_lt in Hc, Ht.
    destruct f as [|f]; [simpl in Hf; lia|].
    cbn [emit]. now rewrite parse_tlv.
  - cbn [wfb] in Hwf. apply andb_prop in Hwf as [Hwf Hk].
    apply andb_prop in Hwf as [Hc Ht]. apply N.ltb_lt in Hc, Ht.
    destruct f as [|f]; [simpl in Hf; lia|].
    cbn [emit]. rewrite parse_tlv by assumption.
    cbn [need] in Hf. fold (need_l kids) in Hf. apply le_S_n in Hf.
    assert (HL : forall g, (need_l kids <= g)%nat -> parse_l g (flat_map emit kids) = Some kids).
    { clear Hf f rest. induction IH as [|x r Hx Hr IHr]; intros g Hg.
      - destruct g; [simpl in Hg; lia|reflexivity].
      - cbn [forallb] in Hk. apply andb_prop in Hk as [Hkx Hkr].
        cbn [need_l fold_right] in Hg. fold (need_l r) in Hg.
        destruct g as [|g]; [lia|]. apply le_S_n in Hg.
        cbn [flat_map parse_l].
        destruct (emit x ++ flat_map emit r) eqn:E.
        + exfalso. apply app_eq_nil in E as [E _]. now apply emit_nonempty in E.
        + rewrite <- E. rewrite (Hx Hkx g (flat_map emit r)) by lia.
          rewrite (IHr Hkr g) by lia. reflexivity. }
    rewrite (HL f Hf). reflexivity.
Qed.

Lemma need_le_len : forall d, (need d <= length (emit d))%nat.
Proof.
  induction d as [c t b|c t kids IH] using dv_ind2.
  - cbn [need emit]. unfold tlv. simpl. destruct (enc_len (N.of_nat (length b))) eqn:E.
    + unfold enc_len in E. destruct (_ <? _); discriminate.
    + simpl. lia.
  - cbn [need emit]. unfold tlv. cbn [length]. rewrite app_length.
    fold (need_l kids).
    assert (HL : (need_l kids <= S (length (flat_map emit kids)))%nat).
    { induction IH as [|x r Hx Hr IHr]; [simpl; lia|].
      cbn [need_l fold_right flat_map]. fold (need_l r). rewrite app_length.
      assert (0 < length (emit x))%nat by (destruct (emit x) eqn:E; [now apply emit_nonempty in E|simpl; lia]).
      lia. }
    assert (0 < length (enc_len (N.of_nat (length (flat_map emit kids)))))%nat.
    { unfold enc_len. destruct (_ <? _); simpl; lia. }
    lia.
Qed.

Theorem parse_emit d rest : wfb d = true -> parse (emit d ++ rest) = Some (d, rest).
Proof.
  intros H. unfold parse. apply parse_emit_f; [exact H|].
  rewrite app_length. pose proof (need_le_len d). lia.
Qed.

Theorem parse_all_emit d : wfb d = true -> parse_all (emit d) = Some d.
Proof.
  intros H. unfold parse_all. rewrite <- (app_nil_r (emit d)). now rewrite parse_emit.
Qed.

(* everything the reader returns is well-formed *)
Lemma parse_wf_f : forall f,
  (forall bs d rest, parse_f f bs = Some (d, rest) -> wfb d = true) /\
  (forall bs l, parse_l f bs = Some l -> forallb wfb l = true).
Proof.
  induction f as [|f [IHf IHl]]; [split; intros; discriminate|]. split.
  - intros bs d rest H. cbn [parse_f] in H.
    destruct bs as [|id r1]; [discriminate|].
    destruct (N.eqb_spec (id mod 32) 31) as [|Ht]; [discriminate|].
    destruct (N.ltb_spec 255 id) as [|Hid]; [discriminate|].
    destruct (dec_len r1) as [[n r2]|]; [|discriminate].
    destruct (N.of_nat (length r2) <? n); [discriminate|].
    assert (Hc : id / 64 < 4) by (apply N.div_lt_upper_bound; lia).
    assert (Htt : id mod 32 < 31) by (pose proof (N.mod_lt id 32 ltac:(lia)); lia).
    destruct ((id / 32) mod 2 =? 1).
    + destruct (parse_l f (firstn (N.to_nat n) r2)) as [kids|] eqn:Ek; [|discriminate].
      injection H as <- _. cbn [wfb]. apply IHl in Ek. rewrite Ek.
      apply N.ltb_lt in Hc, Htt. now rewrite Hc, Htt.
    + injection H as <- _. cbn [wfb]. apply N.ltb_lt in Hc, Htt. now rewrite Hc, Htt.
  - intros bs l H. cbn [parse_l] in H. destruct bs as [|b bs']; [injection H as <-; reflexivity|].
    destruct (parse_f f (b :: bs')) as [[d rest]|] eqn:Ed; [|discriminate].
    destruct (parse_l f rest) as [ds|] eqn:El; [|discriminate].
    injection H as <-. cbn [forallb]. apply IHf in Ed. apply IHl in El. now rewrite Ed, El.
Qed.

Lemma parse_wf bs d rest : parse bs = Some (d, rest) -> wfb d = true.
Proof. unfold parse. apply (proj1 (parse_wf_f _)). Qed.

Lemma parse_all_wf bs d : parse_all bs = Some d -> wfb d = true.
Proof.
  unfold parse_all. destruct (parse bs) as [[d' [|? ?]]|] eqn:E; try discriminate.
  intros H; injection H as <-. eapply parse_wf; eauto.
Qed.
