(* Md5.v — executable MD5 (RFC 1321) over bytes = list N; little-endian 32-bit
   words with explicit truncation, 64 steps, 4-word state (digest length 16 by
   construction).  Needed for the TLS 1.0/1.1 PRF. *)
From Coq Require Import List NArith Arith Lia.
From Verif Require Import Harness Sha256 Sha1.
Import ListNotations.
Local Open Scope N_scope.

Definition md5_T : list N :=
 [0xd76aa478;0xe8c7b756;0x242070db;0xc1bdceee;0xf57c0faf;0x4787c62a;0xa8304613;0xfd469501;
  0x698098d8;0x8b44f7af;0xffff5bb1;0x895cd7be;0x6b901122;0xfd987193;0xa679438e;0x49b40821;
  0xf61e2562;0xc040b340;0x265e5a51;0xe9b6c7aa;0xd62f105d;0x02441453;0xd8a1e681;0xe7d3fbc8;
  0x21e1cde6;0xc33707d6;0xf4d50d87;0x455a14ed;0xa9e3e905;0xfcefa3f8;0x676f02d9;0x8d2a4c8a;
  0xfffa3942;0x8771f681;0x6d9d6122;0xfde5380c;0xa4beea44;0x4bdecfa9;0xf6bb4b60;0xbebfbc70;
  0x289b7ec6;0xeaa127fa;0xd4ef3085;0x04881d05;0xd9d4d039;0xe6db99e5;0x1fa27cf8;0xc4ac5665;
  0xf4292244;0x432aff97;0xab9423a7;0xfc93a039;0x655b59c3;0x8f0ccc92;0xffeff47d;0x85845dd1;
  0x6fa87e4f;0xfe2ce6e0;0xa3014314;0x4e0811a1;0xf7537e82;0xbd3af235;0x2ad7d2bb;0xeb86d391].
Definition md5_S : list N :=
 [7;12;17;22;7;12;17;22;7;12;17;22;7;12;17;22;5;9;14;20;5;9;14;20;5;9;14;20;5;9;14;20;4;11;16;23;4;11;16;23;4;11;16;23;4;11;16;23;6;10;15;21;6;10;15;21;6;10;15;21;6;10;15;21].

Definition state4 := (N * N * N * N)%type.
Definition md5_init : state4 := (0x67452301, 0xefcdab89, 0x98badcfe, 0x10325476).

Definition md5_fg (i : nat) (b c d : N) : N * nat :=
  if Nat.ltb i 16 then (N.lor (N.land b c) (N.land (not32 b) d), i)
  else if Nat.ltb i 32 then (N.lor (N.land d b) (N.land (not32 d) c), (5 * i + 1) mod 16)%nat
  else if Nat.ltb i 48 then (N.lxor (N.lxor b c) d, (3 * i + 5) mod 16)%nat
  else (N.lxor c (N.lor b (not32 d)), (7 * i) mod 16)%nat.

Definition md5_step (m : list N) (st : state4) (i : nat) : state4 :=
  let '(a, b, c, d) := st in
  let '(f, g) := md5_fg i b c d in
  let x := add32 (add32 (add32 a f) (nth i md5_T 0)) (nth g m 0) in
  (d, add32 b (rotl32 (nth i md5_S 0) x), b, c).

Definition compress_md5 (st : state4) (m : list N) : state4 :=
  let '(a, b, c, d) := st in
  let '(a', b', c', d') := fold_left (md5_step m) (seq 0 64) st in
  (add32 a a', add32 b b', add32 c c', add32 d d').

Fixpoint words_le (l : bytes) : list N :=
  match l with
  | b0 :: b1 :: b2 :: b3 :: r => be32_of b3 b2 b1 b0 :: words_le r
  | _ => []
  end.
Definition le32_bytes (x : N) : bytes := rev (be32_bytes x).
Definition le64_bytes (x : N) : bytes := rev (be64_bytes x).

Definition pad_md5 (msg : bytes) : bytes :=
  let n := length msg in
  msg ++ [128] ++ repeat 0 (pad_zeros n 64 8) ++ le64_bytes (8 * N.of_nat n).

Definition md5_state (msg : bytes) : state4 :=
  let p := pad_md5 msg in
  fold_left (fun st blk => compress_md5 st (words_le blk)) (blocks (S (length p / 64)) 64 p) md5_init.

Definition md5 (msg : bytes) : bytes :=
  let '(a, b, c, d) := md5_state msg in
  le32_bytes a ++ le32_bytes b ++ le32_bytes c ++ le32_bytes d.

Lemma md5_length msg : length (md5 msg) = 16%nat.
Proof. unfold md5. destruct (md5_state msg) as [[[a b] c] d]. reflexivity. Qed.

(* RFC 1321 appendix A.5 test suite (first three and the digits string); 1000 x 'a' from Python hashlib *)
Example md5_empty : md5 [] = [0xd4;0x1d;0x8c;0xd9;0x8f;0x00;0xb2;0x04;0xe9;0x80;0x09;0x98;0xec;0xf8;0x42;0x7e].
Proof. vm_compute. reflexivity. Qed.
Example md5_a : md5 [97] = [0x0c;0xc1;0x75;0xb9;0xc0;0xf1;0xb6;0xa8;0x31;0xc3;0x99;0xe2;0x69;0x77;0x26;0x61].
Proof. vm_compute. reflexivity. Qed.
Example md5_abc : md5 [97;98;99] = [0x90;0x01;0x50;0x98;0x3c;0xd2;0x4f;0xb0;0xd6;0x96;0x3f;0x7d;0x28;0xe1;0x7f;0x72].
Proof. vm_compute. reflexivity. Qed.
Example md5_digits : md5 (concat (repeat [49;50;51;52;53;54;55;56;57;48] 8)) = [0x57;0xed;0xf4;0xa2;0x2b;0xe3;0xc9;0x55;0xac;0x49;0xda;0x2e;0x21;0x07;0xb6;0x7a].
Proof. vm_compute. reflexivity. Qed.
Example md5_1000a : md5 (repeat 97 1000) = [0xca;0xbe;0x45;0xdc;0xc9;0xae;0x5b;0x66;0xba;0x86;0x60;0x0c;0xca;0x6b;0x8b;0xa8].
Proof. vm_compute. reflexivity. Qed.
