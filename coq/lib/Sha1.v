(* Sha1.v — executable SHA-1 (FIPS 180-4) over bytes = list N; 32-bit words with
   explicit truncation ([w32] from Sha256.v), 80 rounds, 5-word state (digest
   length 20 by construction).  Needed for the TLS 1.0/1.1 PRF. *)
From Coq Require Import List NArith Arith Lia.
From Verif Require Import Harness Sha256.
Import ListNotations.
Local Open Scope N_scope.

Definition rotl32 (n x : N) : N := N.lor (w32 (N.shiftl x n)) (N.shiftr x (32 - n)).

Definition state5 := (N * N * N * N * N)%type.
Definition sha1_init : state5 := (0x67452301, 0xefcdab89, 0x98badcfe, 0x10325476, 0xc3d2e1f0).

Definition sha1_f (t : nat) (b c d : N) : N :=
  if Nat.ltb t 20 then N.lor (N.land b c) (N.land (not32 b) d)
  else if Nat.ltb t 40 then N.lxor (N.lxor b c) d
  else if Nat.ltb t 60 then N.lor (N.lor (N.land b c) (N.land b d)) (N.land c d)
  else N.lxor (N.lxor b c) d.
Definition sha1_k (t : nat) : N :=
  if Nat.ltb t 20 then 0x5a827999 else if Nat.ltb t 40 then 0x6ed9eba1
  else if Nat.ltb t 60 then 0x8f1bbcdc else 0xca62c1d6.

(* [w] is the sliding window W[t..t+15]; W[t+16] = rotl1 (W[t+13] ^ W[t+8] ^ W[t+2] ^ W[t]) *)
Definition round_sha1 (sw : state5 * list N) (t : nat) : state5 * list N :=
  let '((a, b, c, d, e), w) := sw in
  match w with
  | [] => sw
  | w0 :: rest =>
      let tmp := add32 (add32 (add32 (add32 (rotl32 5 a) (sha1_f t b c d)) e) (sha1_k t)) w0 in
      let wn := rotl32 1 (N.lxor (N.lxor (N.lxor (nth 12 rest 0) (nth 7 rest 0)) (nth 1 rest 0)) w0) in
      ((tmp, a, rotl32 30 b, c, d), rest ++ [wn])
  end.

Definition compress_sha1 (st : state5) (block16 : list N) : state5 :=
  let '(a, b, c, d, e) := st in
  let '((a', b', c', d', e'), _) := fold_left round_sha1 (seq 0 80) (st, block16) in
  (add32 a a', add32 b b', add32 c c', add32 d d', add32 e e').

Definition sha1_state (msg : bytes) : state5 :=
  let p := pad256 msg in   (* same padding as SHA-256: 0x80, zeros, 64-bit big-endian bit length *)
  fold_left (fun st blk => compress_sha1 st (words_be blk)) (blocks (S (length p / 64)) 64 p) sha1_init.

Definition sha1 (msg : bytes) : bytes :=
  let '(a, b, c, d, e) := sha1_state msg in
  be32_bytes a ++ be32_bytes b ++ be32_bytes c ++ be32_bytes d ++ be32_bytes e.

Lemma sha1_length msg : length (sha1 msg) = 20%nat.
Proof. unfold sha1. destruct (sha1_state msg) as [[[[a b] c] d] e]. reflexivity. Qed.

(* FIPS 180 examples ("abc", 448-bit message); the empty-string and 1000 x 'a'
   digests are from an independent implementation (Python hashlib) *)
Local Definition abc : bytes := [97;98;99].
Local Definition msg448 : bytes := [97;98;99;100;98;99;100;101;99;100;101;102;100;101;102;103;101;102;103;104;102;103;104;105;103;104;105;106;104;105;106;107;105;106;107;108;106;107;108;109;107;108;109;110;108;109;110;111;109;110;111;112;110;111;112;113].
Example sha1_abc : sha1 abc = [0xa9;0x99;0x3e;0x36;0x47;0x06;0x81;0x6a;0xba;0x3e;0x25;0x71;0x78;0x50;0xc2;0x6c;0x9c;0xd0;0xd8;0x9d].
Proof. vm_compute. reflexivity. Qed.
Example sha1_empty : sha1 [] = [0xda;0x39;0xa3;0xee;0x5e;0x6b;0x4b;0x0d;0x32;0x55;0xbf;0xef;0x95;0x60;0x18;0x90;0xaf;0xd8;0x07;0x09].
Proof. vm_compute. reflexivity. Qed.
Example sha1_448 : sha1 msg448 = [0x84;0x98;0x3e;0x44;0x1c;0x3b;0xd2;0x6e;0xba;0xae;0x4a;0xa1;0xf9;0x51;0x29;0xe5;0xe5;0x46;0x70;0xf1].
Proof. vm_compute. reflexivity. Qed.
Example sha1_1000a : sha1 (repeat 97 1000) = [0x29;0x1e;0x9a;0x6c;0x66;0x99;0x49;0x49;0xb5;0x7b;0xa5;0xe6;0x50;0x36;0x1e;0x98;0xfc;0x36;0xb1;0xba].
Proof. vm_compute. reflexivity. Qed.
