(* Hmac.v — HMAC (RFC 2104 / FIPS 198-1) over an abstract hash.
   The hash and its block size are Section variables; [hmac] is executable for
   any instantiation.  Instances for SHA-256, SHA-384, SHA-1 and MD5 follow,
   checked against RFC 4231 / RFC 2202 vectors by computation. *)
From Coq Require Import List NArith Arith Lia.
From Coq Require String Ascii.
From Verif Require Import Harness Sha256 Sha512 Sha1 Md5.
Import ListNotations.

Fixpoint xor_bytes (a b : bytes) : bytes :=
  match a, b with
  | x :: a', y :: b' => N.lxor x y :: xor_bytes a' b'
  | _, _ => []
  end.

Section HMAC.
  Variable H : bytes -> bytes.      (* the hash *)
  Variable B : nat.                 (* its block size in bytes *)

  (* K0: keys longer than the block are hashed first, then zero-padded to B *)
  Definition hmac_key0 (key : bytes) : bytes :=
    let k := if Nat.ltb B (length key) then H key else key in
    k ++ repeat 0%N (B - length k).

  Definition hmac (key msg : bytes) : bytes :=
    let k0 := hmac_key0 key in
    H (xor_bytes k0 (repeat 92%N B) ++ H (xor_bytes k0 (repeat 54%N B) ++ msg)).

  Lemma hmac_length (hl : nat) :
    (forall m, length (H m) = hl) -> forall key msg, length (hmac key msg) = hl.
  Proof. intros HL key msg. unfold hmac. apply HL. Qed.
End HMAC.

Definition hmac_sha256 := hmac sha256 64.
Definition hmac_sha384 := hmac sha384 128.
Definition hmac_sha1 := hmac sha1 64.
Definition hmac_md5 := hmac md5 64.

Lemma hmac_sha256_length k m : length (hmac_sha256 k m) = 32.
Proof. apply hmac_length, sha256_length. Qed.
Lemma hmac_sha384_length k m : length (hmac_sha384 k m) = 48.
Proof. apply hmac_length, sha384_length. Qed.
Lemma hmac_sha1_length k m : length (hmac_sha1 k m) = 20.
Proof. apply hmac_length, sha1_length. Qed.
Lemma hmac_md5_length k m : length (hmac_md5 k m) = 16.
Proof. apply hmac_length, md5_length. Qed.

(* ASCII string literal as bytes *)
Definition str (s : String.string) : bytes :=
  map (fun c => N.of_nat (Ascii.nat_of_ascii c)) (String.list_ascii_of_string s).

(* ---- vectors ---- *)
Import String.  (* only for the literals below; nothing after this point uses List.length *)
Local Open Scope N_scope.
(* RFC 4231 test case 1: key = 0x0b x 20, data = "Hi There" *)
Local Definition k1 : bytes := repeat 11 20.
Local Definition d1 : bytes := [72;105;32;84;104;101;114;101].
(* RFC 4231 test case 2: key = "Jefe", data = "what do ya want for nothing?" *)
Local Definition k2 : bytes := [74;101;102;101].
Local Definition d2 : bytes :=
  [119;104;97;116;32;100;111;32;121;97;32;119;97;110;116;32;102;111;114;32;110;111;116;104;105;110;103;63].
(* RFC 4231 test case 6: key = 0xaa x 131 (longer than either block size),
   data = "Test Using Larger Than Block-Size Key - Hash Key First" *)
Local Definition k6 : bytes := repeat 170 131.
Local Definition d6 : bytes :=
  [84;101;115;116;32;85;115;105;110;103;32;76;97;114;103;101;114;32;84;104;97;110;32;66;108;111;99;107;45;83;105;
   122;101;32;75;101;121;32;45;32;72;97;115;104;32;75;101;121;32;70;105;114;115;116].

Example hmac_sha256_rfc4231_1 : to_hex (hmac_sha256 k1 d1) =
  str "b0344c61d8db38535ca8afceaf0bf12b881dc200c9833da726e9376c2e32cff7"%string.
Proof. vm_compute. reflexivity. Qed.
Example hmac_sha256_rfc4231_2 : to_hex (hmac_sha256 k2 d2) =
  str "5bdcc146bf60754e6a042426089575c75a003f089d2739839dec58b964ec3843"%string.
Proof. vm_compute. reflexivity. Qed.
Example hmac_sha256_rfc4231_6 : to_hex (hmac_sha256 k6 d6) =
  str "60e431591ee0b67f0d8a26aacbf5b77f8e0bc6213728c5140546040f0ee37f54"%string.
Proof. vm_compute. reflexivity. Qed.
Example hmac_sha384_rfc4231_2 : to_hex (hmac_sha384 k2 d2) =
  str "af45d2e376484031617f78d2b58a6b1b9c7ef464f5a01b47e42ec3736322445e8e2240ca5e69e2c78b3239ecfab21649"%string.
Proof. vm_compute. reflexivity. Qed.
Example hmac_sha384_rfc4231_6 : to_hex (hmac_sha384 k6 d6) =
  str "4ece084485813e9088d2c63a041bc5b44f9ef1012a2b588f3cd11f05033ac4c60c2ef6ab4030fe8296248df163f44952"%string.
Proof. vm_compute. reflexivity. Qed.
(* RFC 2202: HMAC-MD5 and HMAC-SHA-1, test case 2 ("Jefe") *)
Example hmac_md5_rfc2202_2 : to_hex (hmac_md5 k2 d2) =
  str "750c783e6ab0b503eaa86e310a5db738"%string.
Proof. vm_compute. reflexivity. Qed.
Example hmac_sha1_rfc2202_2 : to_hex (hmac_sha1 k2 d2) =
  str "effcdf6ae5eb2fa2d27416d5f184df9c259a7c79"%string.
Proof. vm_compute. reflexivity. Qed.
