(* LtsPhase.v — Lts.v extended with one phase variable, for disciplines where
   who may touch what depends on a one-way protocol phase as well as on locks
   (tls.Conn: "handshake in progress" / "complete" / "failed").

   Phase:  PInit --Finish true--> PDone --Reset--> PReneg --Finish b--> PDone | PFailed
           PInit --Finish false--> PFailed            (PInit is never re-entered)
   The distinguished lock [hs] (handshakeMutex) is what makes observations of
   the phase stable: a thread that has seen PInit or PFailed while holding [hs]
   knows it until it releases [hs], because every phase change is made by a
   thread holding [hs].

   A thread is a straight-line path: base steps of Lts.v plus
     AssertP p   the path is taken only when the phase is p (an early-return
                 test read off the source); blocks otherwise
     Finish b    the handshake proper ends (b = success)
     Reset       renegotiation starts
   Each thread carries, besides its lock set, its phase knowledge [know]; both
   are functions of the steps it has executed, so the static walks below
   compute exactly what the semantics will hold.

   Theorems (proved once, instantiated by C34 on the generated summary):
     phase_lockset_race_free        no two conflicting accesses are ever both
                                    enabled, for the policies XGuarded / XAtomic /
                                    XReadOnly / XPost l / XHsConst (no Reset)
     phase_ordered_deadlock_free    no wait-for cycle among lock acquisitions when
                                    acquisitions made knowing PInit respect rank1,
                                    those made knowing PDone respect rank2 and
                                    all others respect both (Reset allowed) *)
From Coq Require Import String.
From Coq Require Import List Bool Arith Lia Relations.
From Verif Require Import Lts.
Import ListNotations.

Inductive phase := PInit | PDone | PFailed | PReneg.
Inductive xstep := B (a : step) | AssertP (p : phase) | Finish (ok : bool) | Reset.
Definition xprog := list xstep.
Inductive know := KUnknown | KInit | KFailed | KDone | KReneg.

Definition phase_eqb (a b : phase) : bool :=
  match a, b with
  | PInit, PInit | PDone, PDone | PFailed, PFailed | PReneg, PReneg => true
  | _, _ => false
  end.
Definition know_eqb (a b : know) : bool :=
  match a, b with
  | KUnknown, KUnknown | KInit, KInit | KFailed, KFailed | KDone, KDone | KReneg, KReneg => true
  | _, _ => false
  end.

Record xt := mkX { xheld : list lock; xk : know; xrest : xprog }.
Definition xstate := (phase * list xt)%type.

Section Phase.
  Variable hs : lock.

  Definition xheld_after (h : list lock) (a : xstep) : list lock :=
    match a with B s => held_after h s | _ => h end.

  Definition know_after (h : list lock) (k : know) (a : xstep) : know :=
    match a with
    | B (Release l) =>
        if String.eqb l hs then (match k with KDone => KDone | _ => KUnknown end) else k
    | B _ => k
    | AssertP PInit => if mem_inb hs h then KInit else k
    | AssertP PFailed => if mem_inb hs h then KFailed else k
    | AssertP PDone => KDone
    | AssertP PReneg => k
    | Finish true => KDone
    | Finish false => KFailed
    | Reset => KReneg
    end.

  Definition phase_after (ph : phase) (a : xstep) : phase :=
    match a with
    | Finish true => PDone
    | Finish false => PFailed
    | Reset => PReneg
    | _ => ph
    end.

  Definition xholds (ts : list xt) (i : nat) (l : lock) : Prop :=
    exists t, nth_error ts i = Some t /\ In l (xheld t).

  Definition xenabled (st : xstate) (i : nat) (a : xstep) : Prop :=
    match a with
    | B (Acquire l) => forall j, ~ xholds (snd st) j l
    | B (Release l) => xholds (snd st) i l
    | B _ => True
    | AssertP p => fst st = p
    | Finish _ => True
    | Reset => True
    end.

  Inductive xlstep : xstate -> nat * xstep -> xstate -> Prop :=
  | xlstep_intro ph ts i t a r :
      nth_error ts i = Some t -> xrest t = a :: r -> xenabled (ph, ts) i a ->
      xlstep (ph, ts) (i, a)
             (phase_after ph a,
              upd ts i (mkX (xheld_after (xheld t) a) (know_after (xheld t) (xk t) a) r)).

  Definition xinit (ps : list xprog) : xstate := (PInit, map (mkX [] KUnknown) ps).

  Inductive xreachable (ps : list xprog) : xstate -> Prop :=
  | xreach_refl : xreachable ps (xinit ps)
  | xreach_step st lbl st' : xreachable ps st -> xlstep st lbl st' -> xreachable ps st'.

  (* ---- races ---- *)
  Definition xrace (st : xstate) : Prop :=
    exists i j ti tj a ra b rb,
      i <> j /\
      nth_error (snd st) i = Some ti /\ xrest ti = B a :: ra /\
      nth_error (snd st) j = Some tj /\ xrest tj = B b :: rb /\
      conflictb a b = true.

  Inductive xpolicy :=
  | XGuarded (l : lock)   (* every access holds l *)
  | XAtomic               (* only sync/atomic *)
  | XReadOnly             (* never written *)
  | XPost (l : lock)      (* owned by the handshake while it runs (or has failed); afterwards guarded by l *)
  | XHsConst.             (* written only by the handshake; constant once it is complete *)

  Definition excl (k : know) : bool := match k with KInit | KFailed => true | _ => false end.

  Definition is_atomic (a : step) : bool :=
    match a with AtomicLoad _ | AtomicRMW _ => true | _ => false end.

  Definition xaccess_ok (pol : var -> option xpolicy) (h : list lock) (k : know) (a : step) : bool :=
    match step_var a with
    | None => true
    | Some x =>
        match pol x with
        | None => false
        | Some (XGuarded l) => mem_inb l h
        | Some XAtomic => is_atomic a
        | Some XReadOnly => negb (is_write a)
        | Some (XPost l) => excl k || (mem_inb l h && (know_eqb k KDone || mem_inb hs h))
        | Some XHsConst =>
            if is_write a then excl k else excl k || know_eqb k KDone || mem_inb hs h
        end
    end.

  (* the race discipline: accesses obey their policy; Finish only by the thread
     that saw PInit under hs; no renegotiation *)
  Fixpoint xdisc_from (pol : var -> option xpolicy) (h : list lock) (k : know) (p : xprog) : bool :=
    match p with
    | [] => true
    | a :: r =>
        (match a with
         | B s => xaccess_ok pol h k s
         | AssertP _ => true
         | Finish _ => mem_inb hs h && know_eqb k KInit
         | Reset => false
         end) && xdisc_from pol (xheld_after h a) (know_after h k a) r
    end.

  (* ---- lock order ---- *)
  Definition below (rank : lock -> nat) (h : list lock) (l : lock) : bool :=
    forallb (fun x => rank x <? rank l) h.

  Fixpoint xordered_from (rank1 rank2 : lock -> nat) (h : list lock) (k : know) (p : xprog) : bool :=
    match p with
    | [] => true
    | a :: r =>
        (match a with
         | B (Acquire l) =>
             match k with
             | KInit => below rank1 h l
             | KDone => below rank2 h l
             | _ => below rank1 h l && below rank2 h l
             end
         | B _ => true
         | AssertP _ => true
         | Finish _ => mem_inb hs h && (know_eqb k KInit || know_eqb k KReneg)
         | Reset => mem_inb hs h && know_eqb k KDone
         end) && xordered_from rank1 rank2 (xheld_after h a) (know_after h k a) r
    end.

  Definition xwaits (ts : list xt) (i : nat) (l : lock) : Prop :=
    exists t r, nth_error ts i = Some t /\ xrest t = B (Acquire l) :: r.
  Definition xwf_edge (ts : list xt) (i j : nat) : Prop :=
    exists l, xwaits ts i l /\ xholds ts j l.

  (* ================================================================ proofs *)
  Lemma xreachable_ind_inv (P : xstate -> Prop) ps :
    P (xinit ps) -> (forall st lbl st', P st -> xlstep st lbl st' -> P st') ->
    forall st, xreachable ps st -> P st.
  Proof. intros H0 HS st R. induction R; eauto. Qed.

  (* mutual exclusion *)
  Definition xexcl (st : xstate) : Prop :=
    forall i j l, xholds (snd st) i l -> xholds (snd st) j l -> i = j.

  Lemma xholds_upd_same ts i t' l : xholds (upd ts i t') i l -> In l (xheld t').
  Proof.
    intros [t [Hn Hin]].
    destruct (nth_error ts i) as [y|] eqn:E.
    - rewrite (nth_error_upd_eq ts i t' y E) in Hn. now inversion Hn; subst.
    - exfalso. apply nth_error_None in E.
      assert (nth_error (upd ts i t') i = None) as X by (apply nth_error_None; rewrite upd_length; auto).
      congruence.
  Qed.

  Lemma xholds_upd_other ts i t' k l : k <> i -> (xholds (upd ts i t') k l <-> xholds ts k l).
  Proof. intros N. unfold xholds. rewrite nth_error_upd_neq by auto. tauto. Qed.

  Lemma xexcl_reachable ps st : xreachable ps st -> xexcl st.
  Proof.
    revert st. apply xreachable_ind_inv.
    - intros i j l [t [Hn Hin]] _. exfalso. simpl in Hn.
      apply nth_error_In in Hn. apply in_map_iff in Hn as [p [<- _]]. inversion Hin.
    - intros st lbl st' Hx Hs. inversion Hs as [ph ts i t a r Hn Hr He]; subst.
      assert (Hsub : forall k l, xholds (upd ts i (mkX (xheld_after (xheld t) a) (know_after (xheld t) (xk t) a) r)) k l ->
                     xholds ts k l \/ (k = i /\ a = B (Acquire l))).
      { intros k l H. destruct (Nat.eq_dec k i) as [->|N].
        - apply xholds_upd_same in H. simpl in H.
          destruct a as [s| | |]; simpl in H; try (left; exists t; split; auto; fail).
          destruct s; simpl in H; try (left; exists t; split; auto; fail).
          + destruct H as [<-|H]; [right; auto | left; exists t; auto].
          + left. exists t. split; auto. eapply In_remove_lock; eauto.
        - left. now apply xholds_upd_other in H. }
      intros k1 k2 l H1 H2. simpl in H1, H2.
      apply Hsub in H1. apply Hsub in H2.
      destruct H1 as [H1|[-> E1]], H2 as [H2|[-> E2]]; auto.
      + eapply Hx; eauto.
      + subst a. simpl in He. exfalso. eapply He; eauto.
      + subst a. simpl in He. exfalso. eapply He; eauto.
  Qed.

  (* a static walk that succeeds from (held, know, rest) of every thread *)
  Section XWalk.
    Variable chk : list lock -> know -> xprog -> bool.
    Hypothesis chk_step : forall h k a r,
      chk h k (a :: r) = true -> chk (xheld_after h a) (know_after h k a) r = true.

    Definition xwalk_inv (st : xstate) : Prop :=
      Forall (fun t => chk (xheld t) (xk t) (xrest t) = true) (snd st).

    Lemma xwalk_inv_reachable ps st :
      forallb (chk [] KUnknown) ps = true -> xreachable ps st -> xwalk_inv st.
    Proof.
      intros H. revert st. apply xreachable_ind_inv.
      - apply Forall_forall. intros t Ht. simpl in Ht.
        apply in_map_iff in Ht as [p [<- Hp]]. simpl. rewrite forallb_forall in H. auto.
      - intros st lbl st' Hi Hs. inversion Hs as [ph ts i t a r Hn Hr He]; subst.
        unfold xwalk_inv in *. simpl in *. apply Forall_upd; auto. simpl.
        apply chk_step. rewrite <- Hr. rewrite Forall_forall in Hi. apply Hi.
        eapply nth_error_In; eauto.
    Qed.

    Lemma xwalk_inv_nth st i t :
      xwalk_inv st -> nth_error (snd st) i = Some t -> chk (xheld t) (xk t) (xrest t) = true.
    Proof.
      intros Hi Hn. unfold xwalk_inv in Hi. rewrite Forall_forall in Hi. apply Hi.
      eapply nth_error_In; eauto.
    Qed.
  End XWalk.

  Lemma xdisc_from_step pol h k a r :
    xdisc_from pol h k (a :: r) = true -> xdisc_from pol (xheld_after h a) (know_after h k a) r = true.
  Proof. simpl. intros H. apply andb_prop in H. tauto. Qed.

  Lemma xordered_from_step r1 r2 h k a r :
    xordered_from r1 r2 h k (a :: r) = true -> xordered_from r1 r2 (xheld_after h a) (know_after h k a) r = true.
  Proof. simpl. intros H. apply andb_prop in H. tauto. Qed.

  (* "phase changes are made holding hs" as a walk common to both checks *)
  Definition changes_under_hs (h : list lock) (k : know) (p : xprog) : Prop :=
    match p with
    | Finish _ :: _ => In hs h
    | Reset :: _ => In hs h
    | _ => True
    end.

  (* knowledge invariants *)
  Definition kfacts (ph : phase) (h : list lock) (k : know) : Prop :=
    (k = KInit -> In hs h /\ ph = PInit) /\
    (k = KFailed -> In hs h /\ ph = PFailed) /\
    (k = KReneg -> In hs h /\ ph = PReneg) /\
    (k = KDone -> ph <> PInit).

  Definition know_inv (st : xstate) : Prop :=
    forall i t, nth_error (snd st) i = Some t -> kfacts (fst st) (xheld t) (xk t).

  (* whenever a thread is about to change the phase it holds hs (both static
     checks guarantee it) *)
  Definition chg_inv (st : xstate) : Prop :=
    forall i t, nth_error (snd st) i = Some t -> changes_under_hs (xheld t) (xk t) (xrest t).

  Lemma kfacts_moved ph h k a :
    kfacts ph h k ->
    (forall p, a = AssertP p -> ph = p) ->
    (match a with Finish _ | Reset => In hs h | _ => True end) ->
    kfacts (phase_after ph a) (xheld_after h a) (know_after h k a).
  Proof.
    intros (KI & KF & KR & KD) HA HC. destruct a as [s|p|ok|].
    - destruct s as [l|l|x|x|x|x]; simpl; try (unfold kfacts; tauto).
      + unfold kfacts; simpl. intuition.
      + destruct (String.eqb l hs) eqn:El.
        * unfold kfacts. destruct k; intuition discriminate.
        * assert (Nl : l <> hs) by (intros ->; rewrite String.eqb_refl in El; discriminate).
          assert (Keep : In hs h -> In hs (remove_lock l h)) by (intros; apply In_remove_lock_other; auto).
          unfold kfacts. intuition.
    - specialize (HA p eq_refl). subst ph. unfold kfacts.
      destruct p; simpl.
      + destruct (mem_inb hs h) eqn:M; [apply mem_inb_In in M; intuition discriminate | intuition].
      + intuition discriminate.
      + destruct (mem_inb hs h) eqn:M; [apply mem_inb_In in M; intuition discriminate | intuition].
      + intuition.
    - unfold kfacts. destruct ok; simpl in *; intuition discriminate.
    - unfold kfacts. simpl in *. intuition discriminate.
  Qed.

  (* a thread that does not move: its hs-based knowledge survives because the
     mover cannot hold hs too *)
  Lemma kfacts_other ph h k a :
    kfacts ph h k -> (phase_after ph a = ph \/ ~ In hs h) ->
    kfacts (phase_after ph a) h k.
  Proof.
    intros (KI & KF & KR & KD) [->|N]; [unfold kfacts; tauto|].
    assert (NotInit : phase_after ph a = PInit -> ph = PInit).
    { destruct a as [s|p|[|]|]; simpl; auto; discriminate. }
    unfold kfacts. intuition.
  Qed.

  Lemma know_inv_step st lbl st' :
    xexcl st -> chg_inv st -> know_inv st -> xlstep st lbl st' -> know_inv st'.
  Proof.
    intros Hx Hc Hk Hs. inversion Hs as [ph ts i t a r Hn Hr He]; subst.
    intros j tj Hj. simpl in Hj. simpl fst.
    pose proof (Hc i t Hn) as C. simpl in C. rewrite Hr in C. simpl in C.
    destruct (Nat.eq_dec j i) as [->|Nji].
    - rewrite (nth_error_upd_eq ts i _ t Hn) in Hj. inversion Hj; subst tj; clear Hj. simpl.
      apply kfacts_moved.
      + apply (Hk i t Hn).
      + intros p ->. exact He.
      + destruct a as [s|p|ok|]; auto.
    - rewrite nth_error_upd_neq in Hj by auto.
      apply kfacts_other; [apply (Hk j tj Hj)|].
      destruct a as [s|p|ok|]; simpl; auto; right; intros Hh; apply Nji;
        apply (Hx j i hs); [exists tj | exists t | exists tj | exists t]; auto.
  Qed.

  Lemma know_inv_init ps : know_inv (xinit ps).
  Proof.
    intros i t Hn. simpl in Hn. apply nth_error_In in Hn. apply in_map_iff in Hn as [p [<- _]].
    unfold kfacts. simpl. intuition discriminate.
  Qed.

  (* both static checks imply chg_inv *)
  Lemma chg_of_xdisc pol h k p : xdisc_from pol h k p = true -> changes_under_hs h k p.
  Proof.
    destruct p as [|[s|q|ok|] r]; simpl; auto; intros H.
    - apply andb_prop in H as [H _]. apply andb_prop in H as [H _]. now apply mem_inb_In.
    - discriminate.
  Qed.

  Lemma chg_of_xordered r1 r2 h k p : xordered_from r1 r2 h k p = true -> changes_under_hs h k p.
  Proof.
    destruct p as [|[s|q|ok|] r]; simpl; auto; intros H; apply andb_prop in H as [H _];
      apply andb_prop in H as [H _]; now apply mem_inb_In.
  Qed.

  Section WithCheck.
    Variable chk : list lock -> know -> xprog -> bool.
    Hypothesis chk_step : forall h k a r,
      chk h k (a :: r) = true -> chk (xheld_after h a) (know_after h k a) r = true.
    Hypothesis chk_chg : forall h k p, chk h k p = true -> changes_under_hs h k p.
    Variable ps : list xprog.
    Hypothesis Hps : forallb (chk [] KUnknown) ps = true.

    Lemma chg_inv_reachable st : xreachable ps st -> chg_inv st.
    Proof.
      intros R i t Hn. apply chk_chg.
      eapply (xwalk_inv_nth chk); eauto. eapply xwalk_inv_reachable; eauto.
    Qed.

    Lemma know_inv_reachable st : xreachable ps st -> know_inv st.
    Proof.
      intros R. induction R as [|st lbl st' R IH Hs]; [apply know_inv_init|].
      eapply know_inv_step; eauto; [eapply xexcl_reachable; eauto | now apply chg_inv_reachable].
    Qed.
  End WithCheck.

  (* ================================================================ races *)
  (* without Reset, a thread that knows PDone is right for ever *)
  Definition done_inv (st : xstate) : Prop :=
    forall i t, nth_error (snd st) i = Some t -> xk t = KDone -> fst st = PDone.

  Lemma done_inv_reachable pol ps st :
    forallb (xdisc_from pol [] KUnknown) ps = true -> xreachable ps st -> done_inv st.
  Proof.
    intros Hps R.
    induction R as [|st lbl st' R IH Hs].
    - intros i t Hn E. simpl in Hn. apply nth_error_In in Hn. apply in_map_iff in Hn as [p [<- _]]. discriminate.
    - pose proof (know_inv_reachable (xdisc_from pol) (xdisc_from_step pol) (chg_of_xdisc pol) ps Hps st R) as Hk.
      pose proof (xwalk_inv_reachable (xdisc_from pol) (xdisc_from_step pol) ps st Hps R) as Hw.
      inversion Hs as [ph ts i t a r Hn Hr He]; subst.
      (* what the mover's step can be, by the discipline *)
      pose proof (xwalk_inv_nth _ _ i t Hw Hn) as D. simpl in D. rewrite Hr in D. simpl in D.
      apply andb_prop in D as [D _].
      intros j tj Hj E. simpl in Hj. simpl fst.
      assert (Keep : forall j' tj', nth_error ts j' = Some tj' -> xk tj' = KDone -> phase_after ph a = PDone).
      { intros j' tj' Hj' E'. pose proof (IH j' tj' Hj' E') as P. simpl in P. subst ph.
        destruct a as [s|p|ok|]; simpl; auto.
        - (* Finish: the mover knows PInit, so the phase is PInit, not PDone *)
          apply andb_prop in D as [_ D]. destruct (xk t) eqn:Ek; try discriminate.
          destruct (Hk i t Hn) as (KI & _). destruct (KI Ek) as [_ P]. simpl in P. discriminate.
        - discriminate. }
      destruct (Nat.eq_dec j i) as [->|Nji].
      + rewrite (nth_error_upd_eq ts i _ t Hn) in Hj. inversion Hj; subst tj; clear Hj. simpl in E.
        destruct a as [s|p|ok|]; simpl in *.
        * (* base step: knowledge KDone only if it was KDone *)
          assert (xk t = KDone).
          { destruct s as [l|l|x|x|x|x]; simpl in E; auto.
            destruct (String.eqb l hs); auto. destruct (xk t); auto; discriminate. }
          apply (IH i t Hn H).
        * subst ph. destruct p; simpl in E; auto.
          -- destruct (mem_inb hs (xheld t)); [discriminate | apply (IH i t Hn E)].
          -- destruct (mem_inb hs (xheld t)); [discriminate | apply (IH i t Hn E)].
          -- apply (IH i t Hn E).
        * destruct ok; [reflexivity | discriminate].
        * discriminate.
      + rewrite nth_error_upd_neq in Hj by auto. eapply Keep; eauto.
  Qed.

  Theorem phase_lockset_race_free :
    forall (pol : var -> option xpolicy) (ps : list xprog),
      forallb (xdisc_from pol [] KUnknown) ps = true ->
      forall st, xreachable ps st -> ~ xrace st.
  Proof.
    intros pol ps Hps st R (i & j & ti & tj & a & ra & b & rb & Nij & Hi & Ri & Hj & Rj & C).
    pose proof (xexcl_reachable ps st R) as Hx.
    pose proof (know_inv_reachable (xdisc_from pol) (xdisc_from_step pol) (chg_of_xdisc pol) ps Hps st R) as Hk.
    pose proof (done_inv_reachable pol ps st Hps R) as Hd.
    pose proof (xwalk_inv_reachable (xdisc_from pol) (xdisc_from_step pol) ps st Hps R) as Hw.
    pose proof (xwalk_inv_nth _ _ i ti Hw Hi) as Di. rewrite Ri in Di. simpl in Di. apply andb_prop in Di as [Ai _].
    pose proof (xwalk_inv_nth _ _ j tj Hw Hj) as Dj. rewrite Rj in Dj. simpl in Dj. apply andb_prop in Dj as [Aj _].
    (* two threads cannot hold the same lock *)
    assert (G : forall l, mem_inb l (xheld ti) = true -> mem_inb l (xheld tj) = true -> False).
    { intros l H1 H2. apply mem_inb_In in H1, H2. apply Nij. apply (Hx i j l); [exists ti | exists tj]; auto. }
    (* exclusive knowledge means hs is held and the phase is not PDone *)
    assert (EX : forall n t, nth_error (snd st) n = Some t -> excl (xk t) = true ->
                 mem_inb hs (xheld t) = true /\ fst st <> PDone).
    { intros n t Hn E. destruct (Hk n t Hn) as (KI & KF & _).
      destruct (xk t) eqn:Ek; try discriminate.
      - destruct (KI eq_refl) as [H1 H2]. split; [now apply mem_inb_In | rewrite H2; discriminate].
      - destruct (KF eq_refl) as [H1 H2]. split; [now apply mem_inb_In | rewrite H2; discriminate]. }
    assert (DN : forall n t, nth_error (snd st) n = Some t -> know_eqb (xk t) KDone = true -> fst st = PDone).
    { intros n t Hn E. apply (Hd n t Hn). destruct (xk t); try discriminate; reflexivity. }
    (* exclusive vs anything allowed by XPost / XHsConst *)
    assert (EXvs : forall l, excl (xk ti) = true ->
                   (excl (xk tj) = true \/ know_eqb (xk tj) KDone = true \/ mem_inb hs (xheld tj) = true \/
                    (mem_inb l (xheld tj) && (know_eqb (xk tj) KDone || mem_inb hs (xheld tj))) = true) -> False).
    { intros l Ei Hjj. destruct (EX i ti Hi Ei) as [Hhi Pi].
      destruct Hjj as [Ej|[Dj|[Hhj|Pj]]].
      - destruct (EX j tj Hj Ej) as [Hhj _]. eauto.
      - apply Pi. eapply DN; eauto.
      - eauto.
      - apply andb_prop in Pj as [_ Pj]. apply orb_prop in Pj as [Dj|Hhj]; [apply Pi; eapply DN; eauto | eauto]. }
    assert (EXvs' : forall l, excl (xk tj) = true ->
                   (excl (xk ti) = true \/ know_eqb (xk ti) KDone = true \/ mem_inb hs (xheld ti) = true \/
                    (mem_inb l (xheld ti) && (know_eqb (xk ti) KDone || mem_inb hs (xheld ti))) = true) -> False).
    { intros l Ej Hii. destruct (EX j tj Hj Ej) as [Hhj Pj].
      destruct Hii as [Ei|[Di|[Hhi|Pi]]].
      - destruct (EX i ti Hi Ei) as [Hhi _]. eauto.
      - apply Pj. eapply DN; eauto.
      - eauto.
      - apply andb_prop in Pi as [_ Pi]. apply orb_prop in Pi as [Di|Hhi]; [apply Pj; eapply DN; eauto | eauto]. }
    unfold conflictb in C. unfold xaccess_ok in Ai, Aj.
    destruct (step_var a) as [x|] eqn:Va; [|discriminate].
    destruct (step_var b) as [y|] eqn:Vb; [|discriminate].
    apply andb_prop in C as [C Pl]. apply andb_prop in C as [C Wr].
    apply String.eqb_eq in C. subst y.
    destruct (pol x) as [[l| | |l|]|]; try discriminate.
    - (* XGuarded *) eauto.
    - (* XAtomic *)
      destruct a, b; simpl in *; try discriminate.
    - (* XReadOnly *)
      apply negb_true_iff in Ai, Aj. rewrite Ai, Aj in Wr. discriminate.
    - (* XPost l *)
      apply orb_prop in Ai as [Ei|Pi]; apply orb_prop in Aj as [Ej|Pj].
      + apply (EXvs l Ei); auto.
      + apply (EXvs l Ei); auto 6.
      + apply (EXvs' l Ej); auto 6.
      + apply andb_prop in Pi as [Li _]. apply andb_prop in Pj as [Lj _]. eauto.
    - (* XHsConst: one of the two writes, so it is exclusive *)
      apply orb_prop in Wr as [Wa|Wb].
      + rewrite Wa in Ai.
        apply (EXvs hs Ai).
        destruct (is_write b); [left; auto|].
        apply orb_prop in Aj as [Aj|Aj]; [apply orb_prop in Aj as [Aj|Aj]|]; auto.
      + rewrite Wb in Aj.
        apply (EXvs' hs Aj).
        destruct (is_write a); [left; auto|].
        apply orb_prop in Ai as [Ai|Ai]; [apply orb_prop in Ai as [Ai|Ai]|]; auto.
  Qed.

  (* ================================================================ lock order *)
  Lemma xwaits_unique ts i l l' : xwaits ts i l -> xwaits ts i l' -> l = l'.
  Proof. intros (t & r & Hn & Hr) (t' & r' & Hn' & Hr'). congruence. Qed.

  Lemma xwf_path_source_waits ts i j : clos_trans nat (xwf_edge ts) i j -> exists l, xwaits ts i l.
  Proof. intros P. induction P as [i j [l [W _]] | ]; eauto. Qed.

  Section XOrder.
    Variables rank1 rank2 : lock -> nat.
    Variable ps : list xprog.
    Hypothesis Hord : forallb (xordered_from rank1 rank2 [] KUnknown) ps = true.

    (* in every reachable state one of the two ranks is respected by ALL waiting threads *)
    Lemma common_rank st : xreachable ps st ->
      exists rank : lock -> nat,
        forall i l k, xwaits (snd st) i l -> xholds (snd st) i k -> rank k < rank l.
    Proof.
      intros R.
      pose proof (know_inv_reachable (xordered_from rank1 rank2) (xordered_from_step rank1 rank2)
                    (chg_of_xordered rank1 rank2) ps Hord st R) as Hk.
      pose proof (xwalk_inv_reachable (xordered_from rank1 rank2) (xordered_from_step rank1 rank2) ps st Hord R) as Hw.
      assert (Pick : forall rank, (forall i t l r, nth_error (snd st) i = Some t -> xrest t = B (Acquire l) :: r ->
                                    below rank (xheld t) l = true) ->
                     forall i l k, xwaits (snd st) i l -> xholds (snd st) i k -> rank k < rank l).
      { intros rank H i l k (t & r & Hn & Hr) (t' & Hn' & Hin). assert (t' = t) by congruence. subst t'.
        specialize (H i t l r Hn Hr). unfold below in H. rewrite forallb_forall in H.
        apply H in Hin. now apply Nat.ltb_lt in Hin. }
      destruct (phase_eqb (fst st) PInit) eqn:Ph.
      - (* phase PInit: nobody knows PDone *)
        exists rank1. apply Pick. intros i t l r Hn Hr.
        pose proof (xwalk_inv_nth _ _ i t Hw Hn) as O. rewrite Hr in O. simpl in O. apply andb_prop in O as [O _].
        destruct (Hk i t Hn) as (_ & _ & _ & KD).
        destruct (xk t) eqn:Ek; auto; try (apply andb_prop in O; tauto).
        exfalso. apply (KD eq_refl). destruct (fst st); simpl in Ph; try discriminate; reflexivity.
      - (* any other phase: nobody knows PInit *)
        exists rank2. apply Pick. intros i t l r Hn Hr.
        pose proof (xwalk_inv_nth _ _ i t Hw Hn) as O. rewrite Hr in O. simpl in O. apply andb_prop in O as [O _].
        destruct (Hk i t Hn) as (KI & _).
        destruct (xk t) eqn:Ek; auto; try (apply andb_prop in O; tauto).
        exfalso. destruct (KI eq_refl) as [_ P]. rewrite P in Ph. discriminate.
    Qed.

    Theorem phase_ordered_deadlock_free :
      forall st, xreachable ps st -> forall i, ~ clos_trans nat (xwf_edge (snd st)) i i.
    Proof.
      intros st R i P.
      destruct (common_rank st R) as [rank Hr].
      assert (Path : forall a b, clos_trans nat (xwf_edge (snd st)) a b ->
                     forall la lb, xwaits (snd st) a la -> xwaits (snd st) b lb -> rank la < rank lb).
      { intros a b Q. induction Q as [a b [l [Wa Hb]] | a c b Q1 IH1 Q2 IH2]; intros la lb Ha Hbw.
        - assert (la = l) by (eapply xwaits_unique; eauto). subst la. eapply Hr; eauto.
        - destruct (xwf_path_source_waits _ c b Q2) as [lc Hc].
          specialize (IH1 _ _ Ha Hc). specialize (IH2 _ _ Hc Hbw). lia. }
      destruct (xwf_path_source_waits _ i i P) as [l W].
      pose proof (Path i i P l l W W). lia.
    Qed.
  End XOrder.
End Phase.
