(* Wire16.v — small length-prefixed wire-format library (used by C16, C15).
   Bytes are [N] (see Harness.bytes); a byte string is well formed when every
   element is < 256.  Fixed-width unsigned integers in big- and little-endian
   order with round-trip lemmas, splitting a prefix off a byte string, and
   length-prefixed vectors (TLS "opaque v<0..2^(8k)-1>") with either byte
   order for the length. *)
From Coq Require Import List NArith Lia Arith Bool ZifyN ZifyNat.
From Verif Require Import Harness.
Import ListNotations.
Open Scope N_scope.

Definition byte_ok (b : N) : Prop := b < 256.
Definition bytes_ok (bs : bytes) : Prop := Forall byte_ok bs.

Fixpoint pow256 (n : nat) : N :=
  match n with O => 1 | S n' => 256 * pow256 n' end.

Lemma pow256_pos n : 0 < pow256 n.
Proof. induction n as [|n IH]; cbn [pow256]; lia. Qed.

Lemma pow256_eq n : pow256 n = 256 ^ N.of_nat n.
Proof.
  induction n as [|n IH]; [reflexivity|].
  cbn [pow256]. rewrite Nat2N.inj_succ, N.pow_succ_r', IH. reflexivity.
Qed.

Lemma pow256_mono a b : (a <= b)%nat -> pow256 a <= pow256 b.
Proof.
  induction 1 as [|b Hle IH]; [lia|]. cbn [pow256]. pose proof (pow256_pos b). lia.
Qed.

(* ---------- little-endian ---------- *)
Fixpoint le_encode (n : nat) (v : N) : bytes :=
  match n with O => [] | S n' => (v mod 256) :: le_encode n' (v / 256) end.

Fixpoint le_decode (bs : bytes) : N :=
  match bs with [] => 0 | b :: r => b + 256 * le_decode r end.

Lemma le_encode_length n v : length (le_encode n v) = n.
Proof. revert v; induction n as [|n IH]; intro v; cbn [le_encode length]; [reflexivity|]. now rewrite IH. Qed.

Lemma le_encode_ok n v : bytes_ok (le_encode n v).
Proof.
  revert v; induction n as [|n IH]; intro v; cbn [le_encode]; constructor.
  - unfold byte_ok. apply N.mod_lt. lia.
  - apply IH.
Qed.

Lemma le_decode_encode n v : le_decode (le_encode n v) = v mod pow256 n.
Proof.
  revert v; induction n as [|n IH]; intro v; cbn [le_encode le_decode pow256].
  - now rewrite N.mod_1_r.
  - rewrite IH. pose proof (pow256_pos n) as Hp.
    rewrite N.mod_mul_r by lia. reflexivity.
Qed.

Lemma le_decode_encode_small n v : v < pow256 n -> le_decode (le_encode n v) = v.
Proof. intro H. rewrite le_decode_encode. now apply N.mod_small. Qed.

Lemma le_decode_bound bs : bytes_ok bs -> le_decode bs < pow256 (length bs).
Proof.
  induction 1 as [|b r Hb Hr IH]; cbn [le_decode length pow256]; [lia|].
  unfold byte_ok in Hb. lia.
Qed.

Lemma le_encode_decode bs : bytes_ok bs -> le_encode (length bs) (le_decode bs) = bs.
Proof.
  induction 1 as [|b r Hb Hr IH]; cbn [le_decode length le_encode]; [reflexivity|].
  unfold byte_ok in Hb.
  assert (E1 : (b + 256 * le_decode r) mod 256 = b).
  { replace (b + 256 * le_decode r) with (b + le_decode r * 256) by lia.
    rewrite N.mod_add by lia. now apply N.mod_small. }
  assert (E2 : (b + 256 * le_decode r) / 256 = le_decode r).
  { replace (b + 256 * le_decode r) with (b + le_decode r * 256) by lia.
    rewrite N.div_add by lia. rewrite (N.div_small b 256) by lia. lia. }
  now rewrite E1, E2, IH.
Qed.

Lemma le_encode_inj n v w : v < pow256 n -> w < pow256 n -> le_encode n v = le_encode n w -> v = w.
Proof.
  intros Hv Hw E. rewrite <- (le_decode_encode_small n v Hv), <- (le_decode_encode_small n w Hw).
  now rewrite E.
Qed.

(* ---------- big-endian ---------- *)
Definition be_encode (n : nat) (v : N) : bytes := rev (le_encode n v).
Definition be_decode (bs : bytes) : N := fold_left (fun a b => a * 256 + b) bs 0.

Lemma be_decode_le bs : be_decode bs = le_decode (rev bs).
Proof.
  induction bs as [|x l IH] using rev_ind; [reflexivity|].
  unfold be_decode in *. rewrite fold_left_app. cbn [fold_left]. rewrite IH.
  rewrite rev_app_distr. cbn [rev app le_decode]. lia.
Qed.

Lemma bytes_ok_rev bs : bytes_ok bs -> bytes_ok (rev bs).
Proof. unfold bytes_ok. rewrite !Forall_forall. intros H x Hx. apply H. now apply in_rev. Qed.

Lemma bytes_ok_app a b : bytes_ok (a ++ b) <-> bytes_ok a /\ bytes_ok b.
Proof. unfold bytes_ok. apply Forall_app. Qed.

Lemma be_encode_length n v : length (be_encode n v) = n.
Proof. unfold be_encode. now rewrite rev_length, le_encode_length. Qed.

Lemma be_encode_ok n v : bytes_ok (be_encode n v).
Proof. apply bytes_ok_rev, le_encode_ok. Qed.

Lemma be_decode_encode n v : be_decode (be_encode n v) = v mod pow256 n.
Proof. unfold be_encode. now rewrite be_decode_le, rev_involutive, le_decode_encode. Qed.

Lemma be_decode_encode_small n v : v < pow256 n -> be_decode (be_encode n v) = v.
Proof. intro H. rewrite be_decode_encode. now apply N.mod_small. Qed.

Lemma be_decode_bound bs : bytes_ok bs -> be_decode bs < pow256 (length bs).
Proof.
  intro H. rewrite be_decode_le, <- rev_length. apply le_decode_bound. now apply bytes_ok_rev.
Qed.

Lemma be_encode_decode bs : bytes_ok bs -> be_encode (length bs) (be_decode bs) = bs.
Proof.
  intro H. unfold be_encode. rewrite be_decode_le, <- rev_length.
  rewrite le_encode_decode by now apply bytes_ok_rev. apply rev_involutive.
Qed.

Lemma be_encode_inj n v w : v < pow256 n -> w < pow256 n -> be_encode n v = be_encode n w -> v = w.
Proof.
  intros Hv Hw E. rewrite <- (be_decode_encode_small n v Hv), <- (be_decode_encode_small n w Hw).
  now rewrite E.
Qed.

(* ---------- splitting ---------- *)
(* read exactly n bytes *)
Definition take_n (n : nat) (bs : bytes) : option (bytes * bytes) :=
  if (length bs <? n)%nat then None else Some (firstn n bs, skipn n bs).

(* the same with the count in N; the count is turned into a nat only when it
   is at most the length of the input *)
Definition take_N (l : N) (bs : bytes) : option (bytes * bytes) :=
  if N.of_nat (length bs) <? l then None else take_n (N.to_nat l) bs.

Lemma take_n_app n a b : length a = n -> take_n n (a ++ b) = Some (a, b).
Proof.
  intro H. unfold take_n. rewrite app_length.
  destruct (Nat.ltb_spec (length a + length b) n) as [Hlt|_]; [lia|].
  rewrite firstn_app, skipn_app, <- H, Nat.sub_diag, firstn_all, skipn_all.
  cbn. now rewrite app_nil_r.
Qed.

Lemma take_n_some n bs a b : take_n n bs = Some (a, b) -> bs = a ++ b /\ length a = n.
Proof.
  unfold take_n. destruct (Nat.ltb_spec (length bs) n) as [|Hge]; [discriminate|].
  intro E; inversion E; subst. split; [now rewrite firstn_skipn|]. rewrite firstn_length. lia.
Qed.

Lemma take_n_none n bs : take_n n bs = None <-> (length bs < n)%nat.
Proof.
  unfold take_n. destruct (Nat.ltb_spec (length bs) n); split; intro; try discriminate; try lia; auto.
Qed.

Lemma take_N_app l a b : N.of_nat (length a) = l -> take_N l (a ++ b) = Some (a, b).
Proof.
  intro H. unfold take_N. rewrite app_length.
  destruct (N.ltb_spec (N.of_nat (length a + length b)) l) as [Hlt|_]; [lia|].
  apply take_n_app. lia.
Qed.

Lemma take_N_some l bs a b : take_N l bs = Some (a, b) -> bs = a ++ b /\ N.of_nat (length a) = l.
Proof.
  unfold take_N. destruct (N.ltb_spec (N.of_nat (length bs)) l) as [|Hge]; [discriminate|].
  intro E. apply take_n_some in E as [E1 E2]. split; [exact E1|lia].
Qed.

Lemma take_N_none l bs : take_N l bs = None <-> N.of_nat (length bs) < l.
Proof.
  unfold take_N. destruct (N.ltb_spec (N.of_nat (length bs)) l) as [Hlt|Hge].
  - split; auto.
  - rewrite take_n_none. split; intro; lia.
Qed.

(* ---------- length-prefixed vectors ---------- *)
Section Vec.
  (* enc, dec: a fixed-width integer codec, big- or little-endian *)
  Variable enc : nat -> N -> bytes.
  Definition vec_encode_g (k : nat) (v : bytes) : option bytes :=
    if N.of_nat (length v) <? pow256 k then Some (enc k (N.of_nat (length v)) ++ v) else None.

  Lemma vec_encode_g_some k v e :
    vec_encode_g k v = Some e <->
    N.of_nat (length v) < pow256 k /\ e = enc k (N.of_nat (length v)) ++ v.
  Proof.
    unfold vec_encode_g. destruct (N.ltb_spec (N.of_nat (length v)) (pow256 k)) as [Hlt|Hge]; split.
    - intro E; inversion E; auto.
    - intros [_ ->]; reflexivity.
    - discriminate.
    - intros [H _]; lia.
  Qed.

  Lemma vec_encode_g_none k v : vec_encode_g k v = None <-> pow256 k <= N.of_nat (length v).
  Proof.
    unfold vec_encode_g. destruct (N.ltb_spec (N.of_nat (length v)) (pow256 k)); split; intro; try discriminate; try lia; auto.
  Qed.

  Variable dec : bytes -> N.
  Hypothesis enc_length : forall n v, length (enc n v) = n.
  Hypothesis dec_enc : forall n v, v < pow256 n -> dec (enc n v) = v.
  Hypothesis enc_dec : forall bs, bytes_ok bs -> enc (length bs) (dec bs) = bs.
  Hypothesis dec_bound : forall bs, bytes_ok bs -> dec bs < pow256 (length bs).

  Definition vec_decode_g (k : nat) (bs : bytes) : option (bytes * bytes) :=
    match take_n k bs with
    | None => None
    | Some (lb, r) => take_N (dec lb) r
    end.

  Lemma vec_encode_g_length k v e : vec_encode_g k v = Some e -> length e = (k + length v)%nat.
  Proof. intro H. apply vec_encode_g_some in H as [_ ->]. now rewrite app_length, enc_length. Qed.

  Lemma vec_decode_encode_g k v e rest :
    vec_encode_g k v = Some e -> vec_decode_g k (e ++ rest) = Some (v, rest).
  Proof.
    intro H. apply vec_encode_g_some in H as [Hlt ->]. unfold vec_decode_g.
    rewrite <- app_assoc, take_n_app by apply enc_length.
    rewrite dec_enc by exact Hlt. now apply take_N_app.
  Qed.

  (* canonical: whatever decodes is the encoding of what it decodes to *)
  Lemma vec_encode_decode_g k bs v rest :
    bytes_ok bs -> vec_decode_g k bs = Some (v, rest) ->
    exists e, vec_encode_g k v = Some e /\ bs = e ++ rest.
  Proof.
    intros Hok. unfold vec_decode_g. destruct (take_n k bs) as [[lb r]|] eqn:E1; [|discriminate].
    intro E2. apply take_n_some in E1 as [-> Hk]. apply take_N_some in E2 as [-> Hl].
    apply bytes_ok_app in Hok as [Hlb _].
    exists (lb ++ v). split; [|now rewrite app_assoc].
    apply vec_encode_g_some. rewrite Hl. split.
    - rewrite <- Hk. now apply dec_bound.
    - f_equal. rewrite <- Hk. symmetry. now apply enc_dec.
  Qed.
End Vec.

Definition vec_encode := vec_encode_g be_encode.
Definition vec_decode := vec_decode_g be_decode.
Definition vec_encode_le := vec_encode_g le_encode.
Definition vec_decode_le := vec_decode_g le_decode.

Lemma vec_encode_some k v e :
  vec_encode k v = Some e <-> N.of_nat (length v) < pow256 k /\ e = be_encode k (N.of_nat (length v)) ++ v.
Proof. apply vec_encode_g_some. Qed.
Lemma vec_encode_none k v : vec_encode k v = None <-> pow256 k <= N.of_nat (length v).
Proof. apply vec_encode_g_none. Qed.
Lemma vec_encode_length k v e : vec_encode k v = Some e -> length e = (k + length v)%nat.
Proof. apply vec_encode_g_length, be_encode_length. Qed.
Lemma vec_decode_encode k v e rest : vec_encode k v = Some e -> vec_decode k (e ++ rest) = Some (v, rest).
Proof. apply vec_decode_encode_g; [apply be_encode_length | apply be_decode_encode_small]. Qed.
Lemma vec_encode_decode k bs v rest :
  bytes_ok bs -> vec_decode k bs = Some (v, rest) -> exists e, vec_encode k v = Some e /\ bs = e ++ rest.
Proof. apply vec_encode_decode_g; [apply be_encode_decode | apply be_decode_bound]. Qed.

Lemma le_decode_encode_small' n v : v < pow256 n -> le_decode (le_encode n v) = v.
Proof. apply le_decode_encode_small. Qed.

Lemma vec_encode_le_some k v e :
  vec_encode_le k v = Some e <-> N.of_nat (length v) < pow256 k /\ e = le_encode k (N.of_nat (length v)) ++ v.
Proof. apply vec_encode_g_some. Qed.
Lemma vec_encode_le_none k v : vec_encode_le k v = None <-> pow256 k <= N.of_nat (length v).
Proof. apply vec_encode_g_none. Qed.
Lemma vec_encode_le_length k v e : vec_encode_le k v = Some e -> length e = (k + length v)%nat.
Proof. apply vec_encode_g_length, le_encode_length. Qed.
Lemma vec_decode_encode_le k v e rest : vec_encode_le k v = Some e -> vec_decode_le k (e ++ rest) = Some (v, rest).
Proof. apply vec_decode_encode_g; [apply le_encode_length | apply le_decode_encode_small]. Qed.
Lemma vec_encode_decode_le k bs v rest :
  bytes_ok bs -> vec_decode_le k bs = Some (v, rest) -> exists e, vec_encode_le k v = Some e /\ bs = e ++ rest.
Proof. apply vec_encode_decode_g; [apply le_encode_decode | apply le_decode_bound]. Qed.

(* ---------- compact byte-string descriptors for correspondence cases ----------
   [(count, chunk)] stands for [count] copies of [chunk]; lets a harness print
   65 536-byte fields as a short term. *)
Definition bspec := list (N * bytes).

Fixpoint rep_chunk (n : nat) (c : bytes) : bytes :=
  match n with O => [] | S n' => c ++ rep_chunk n' c end.

Definition expand (s : bspec) : bytes :=
  flat_map (fun p => match snd p with
                     | [b] => repeat b (N.to_nat (fst p))
                     | c => rep_chunk (N.to_nat (fst p)) c
                     end) s.
