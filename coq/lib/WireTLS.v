(* WireTLS.v — TLS presentation-language codecs.
   1. byte-string primitives that mirror golang.org/x/crypto/cryptobyte:
      String.ReadUintN / ReadBytes / Skip / ReadUintNLengthPrefixed  (rd_bytes, rd_uint, rd_lp)
      Builder.AddUintN / AddUintNLengthPrefixed                      (be_enc, wr_lp)
   2. a codec-description DSL [fmt] with one encoder and one decoder and the
      generic theorems, proved once for every format term (unbounded nesting):
        dec_enc          decoding an encoding (followed by anything) gives the value back
        no_strict_prefix no strict prefix of an encoding is decoded
   The message formats of C30/C29 are terms of [fmt] or hand-written loops over
   the primitives (extension blocks). *)
From Coq Require Import List NArith ZArith Bool Arith Lia.
From Coq Require String Ascii.
From Verif Require Import Harness.
Import ListNotations.
Open Scope N_scope.

(* ---------- compact literals for the generated case files ---------- *)
Definition hexval (c : Ascii.ascii) : N :=
  let n := Ascii.N_of_ascii c in
  if (48 <=? n) && (n <=? 57) then n - 48
  else if (97 <=? n) && (n <=? 102) then n - 87
  else if (65 <=? n) && (n <=? 70) then n - 55 else 0.

Fixpoint hx (s : String.string) : bytes :=
  match s with
  | String.String a (String.String b r) => (16 * hexval a + hexval b) :: hx r
  | _ => []
  end.

(* n copies of byte b *)
Definition nrep (n b : N) : bytes := N.iter n (cons b) [].

(* ---------- primitives ---------- *)
Definition blen (b : bytes) : N := N.of_nat (length b).
Definition is_nil {A} (l : list A) : bool := match l with [] => true | _ => false end.

(* n-byte big-endian encoding of x mod 256^n *)
Fixpoint be_enc (n : nat) (x : N) : bytes :=
  match n with
  | O => []
  | S k => (x / 256 ^ N.of_nat k) mod 256 :: be_enc k x
  end.

Definition be_dec (b : bytes) : N := fold_left (fun a d => a * 256 + d) b 0.

(* String.ReadBytes / Skip *)
Definition rd_bytes (n : N) (s : bytes) : option (bytes * bytes) :=
  if n <=? blen s then Some (firstn (N.to_nat n) s, skipn (N.to_nat n) s) else None.

(* String.ReadUint8/16/24/32 (64 = two 32-bit reads, same bytes) *)
Definition rd_uint (n : nat) (s : bytes) : option (N * bytes) :=
  match rd_bytes (N.of_nat n) s with
  | Some (h, t) => Some (be_dec h, t)
  | None => None
  end.

(* String.ReadUintNLengthPrefixed *)
Definition rd_lp (ll : nat) (s : bytes) : option (bytes * bytes) :=
  match rd_uint ll s with
  | Some (l, t) => rd_bytes l t
  | None => None
  end.

(* Builder.AddUintNLengthPrefixed: fails (Go: BytesOrPanic panics) when the body does not fit *)
Definition wr_lp (ll : nat) (body : bytes) : option bytes :=
  if blen body <? 256 ^ N.of_nat ll then Some (be_enc ll (blen body) ++ body) else None.

(* ---------- the format DSL ---------- *)
Inductive fmt : Type :=
| FUnit
| FUint (n : nat) (p : N -> bool)   (* n-byte integer; the decoder rejects values with p = false *)
| FSkip (c : bytes)                 (* encoder writes c, decoder skips |c| bytes unchecked *)
| FFixed (n : N)                    (* exactly n opaque bytes *)
| FBytes (ll : nat) (ne : bool)     (* opaque<..> with an ll-byte length; ne: decoder rejects empty *)
| FVec (ll : nat) (ne : bool) (f : fmt)  (* length-prefixed block of f items read until the block is empty *)
| FSub (ll : nat) (f : fmt)         (* length-prefixed block that must be exactly one f *)
| FHdr (t : N) (f : fmt)            (* handshake header: type, uint24 length; the decoder skips 4 bytes *)
| FPair (f g : fmt).

Inductive val : Type :=
| VU
| VN (x : N)
| VB (b : bytes)
| VL (l : list val)
| VP (a b : val).

Definition enc_list (e : val -> option bytes) : list val -> option bytes :=
  fix go (l : list val) : option bytes :=
    match l with
    | [] => Some []
    | x :: r => match e x, go r with
                | Some a, Some b => Some (a ++ b)
                | _, _ => None
                end
    end.

Fixpoint enc (f : fmt) (v : val) : option bytes :=
  match f, v with
  | FUnit, VU => Some []
  | FUint n p, VN x => if x <? 256 ^ N.of_nat n then Some (be_enc n x) else None
  | FSkip c, VU => Some c
  | FFixed n, VB b => if blen b =? n then Some b else None
  | FBytes ll _, VB b => wr_lp ll b
  | FVec ll _ g, VL l => match enc_list (enc g) l with
                         | Some body => wr_lp ll body
                         | None => None
                         end
  | FSub ll g, _ => match enc g v with
                    | Some body => wr_lp ll body
                    | None => None
                    end
  | FHdr t g, _ => match enc g v with
                   | Some body => match wr_lp 3 body with
                                  | Some e => Some (t :: e)
                                  | None => None
                                  end
                   | None => None
                   end
  | FPair g h, VP a b => match enc g a, enc h b with
                         | Some x, Some y => Some (x ++ y)
                         | _, _ => None
                         end
  | _, _ => None
  end.

(* "for !s.Empty() { item }": fuel = length of the block (every item consumes a byte) *)
Fixpoint dec_many (d : bytes -> option (val * bytes)) (fuel : nat) (s : bytes) : option (list val) :=
  match s with
  | [] => Some []
  | _ => match fuel with
         | O => None
         | S k => match d s with
                  | Some (v, r) => match dec_many d k r with
                                   | Some l => Some (v :: l)
                                   | None => None
                                   end
                  | None => None
                  end
         end
  end.

Fixpoint dec (f : fmt) (s : bytes) : option (val * bytes) :=
  match f with
  | FUnit => Some (VU, s)
  | FUint n p => match rd_uint n s with
                 | Some (x, r) => if p x then Some (VN x, r) else None
                 | None => None
                 end
  | FSkip c => match rd_bytes (blen c) s with
               | Some (_, r) => Some (VU, r)
               | None => None
               end
  | FFixed n => match rd_bytes n s with
                | Some (b, r) => Some (VB b, r)
                | None => None
                end
  | FBytes ll ne => match rd_lp ll s with
                    | Some (b, r) => if ne && is_nil b then None else Some (VB b, r)
                    | None => None
                    end
  | FVec ll ne g => match rd_lp ll s with
                    | Some (b, r) => if ne && is_nil b then None
                                     else match dec_many (dec g) (length b) b with
                                          | Some l => Some (VL l, r)
                                          | None => None
                                          end
                    | None => None
                    end
  | FSub ll g => match rd_lp ll s with
                 | Some (b, r) => match dec g b with
                                  | Some (v, []) => Some (v, r)
                                  | _ => None
                                  end
                 | None => None
                 end
  | FHdr _ g => match rd_bytes 4 s with
                | Some (_, r) => dec g r
                | None => None
                end
  | FPair g h => match dec g s with
                 | Some (a, r) => match dec h r with
                                  | Some (b, r') => Some (VP a b, r')
                                  | None => None
                                  end
                 | None => None
                 end
  end.

(* whole-input decoder: "... && s.Empty()" *)
Definition dec_all (f : fmt) (s : bytes) : option val :=
  match dec f s with
  | Some (v, []) => Some v
  | _ => None
  end.

(* the value domain on which a format round-trips: shape, decoder predicates, non-emptiness *)
Fixpoint wf (f : fmt) (v : val) : bool :=
  match f, v with
  | FUnit, VU => true
  | FUint _ p, VN x => p x
  | FSkip _, VU => true
  | FFixed _, VB _ => true
  | FBytes _ ne, VB b => negb (ne && is_nil b)
  | FVec _ ne g, VL l => negb (ne && is_nil l) && forallb (wf g) l
  | FSub _ g, _ => wf g v
  | FHdr _ g, _ => wf g v
  | FPair g h, VP a b => wf g a && wf h b
  | _, _ => false
  end.

(* shortest encoding; items of a vector must not be empty *)
Fixpoint min_len (f : fmt) : nat :=
  match f with
  | FUnit => 0
  | FUint n _ => n
  | FSkip c => length c
  | FFixed n => N.to_nat n
  | FBytes ll _ => ll
  | FVec ll _ _ => ll
  | FSub ll _ => ll
  | FHdr _ _ => 4
  | FPair g h => min_len g + min_len h
  end.

Fixpoint fmt_ok (f : fmt) : bool :=
  match f with
  | FVec _ _ g => (0 <? min_len g)%nat && fmt_ok g
  | FSub _ g => fmt_ok g
  | FHdr _ g => fmt_ok g
  | FPair g h => fmt_ok g && fmt_ok h
  | _ => true
  end.

(* ---------- lemmas about the primitives ---------- *)
Lemma blen_app a b : blen (a ++ b) = blen a + blen b.
Proof. unfold blen. rewrite app_length. lia. Qed.

Lemma blen_nil_iff (b : bytes) : blen b = 0 <-> b = [].
Proof. unfold blen. destruct b; simpl; split; intro H; try reflexivity; try discriminate; lia. Qed.

Lemma be_enc_length n x : length (be_enc n x) = n.
Proof. induction n as [|k IH]; simpl; [reflexivity|]. now rewrite IH. Qed.

Lemma blen_be_enc n x : blen (be_enc n x) = N.of_nat n.
Proof. unfold blen. now rewrite be_enc_length. Qed.

Lemma be_fold n : forall x a,
  fold_left (fun a d => a * 256 + d) (be_enc n x) a = a * 256 ^ N.of_nat n + x mod 256 ^ N.of_nat n.
Proof.
  induction n as [|k IH]; intros x a.
  - simpl. rewrite N.mod_1_r. lia.
  - cbn [be_enc fold_left]. rewrite IH.
    replace (N.of_nat (S k)) with (N.succ (N.of_nat k)) by lia.
    rewrite N.pow_succ_r'.
    set (P := 256 ^ N.of_nat k).
    assert (HP : P <> 0) by (unfold P; apply N.pow_nonzero; lia).
    rewrite (N.mul_comm 256 P).
    rewrite (N.mod_mul_r x P 256) by (try exact HP; lia).
    lia.
Qed.

Lemma be_dec_enc n x : x < 256 ^ N.of_nat n -> be_dec (be_enc n x) = x.
Proof.
  intro H. unfold be_dec. rewrite be_fold. rewrite N.mod_small by exact H. lia.
Qed.

Lemma rd_bytes_app a r : rd_bytes (blen a) (a ++ r) = Some (a, r).
Proof.
  unfold rd_bytes. rewrite blen_app.
  replace (blen a <=? blen a + blen r) with true by (symmetry; apply N.leb_le; lia).
  unfold blen. rewrite Nat2N.id.
  rewrite firstn_app, firstn_all, Nat.sub_diag, firstn_O, app_nil_r.
  rewrite skipn_app, skipn_all, Nat.sub_diag. reflexivity.
Qed.

Lemma rd_bytes_app' n a r : blen a = n -> rd_bytes n (a ++ r) = Some (a, r).
Proof. intros <-. apply rd_bytes_app. Qed.

Lemma rd_bytes_short n s : blen s < n -> rd_bytes n s = None.
Proof. intro H. unfold rd_bytes. replace (n <=? blen s) with false; [reflexivity|]. symmetry. apply N.leb_gt. exact H. Qed.

Lemma rd_bytes_some n s a r : rd_bytes n s = Some (a, r) -> s = a ++ r /\ blen a = n.
Proof.
  unfold rd_bytes. destruct (n <=? blen s) eqn:E; [|discriminate].
  intro H. inversion H; subst. split.
  - symmetry. apply firstn_skipn.
  - apply N.leb_le in E. unfold blen in *. rewrite firstn_length. lia.
Qed.

Lemma rd_uint_enc n x r : x < 256 ^ N.of_nat n -> rd_uint n (be_enc n x ++ r) = Some (x, r).
Proof.
  intro H. unfold rd_uint. rewrite rd_bytes_app' by apply blen_be_enc.
  now rewrite be_dec_enc.
Qed.

Lemma rd_uint_short n s : blen s < N.of_nat n -> rd_uint n s = None.
Proof. intro H. unfold rd_uint. now rewrite rd_bytes_short. Qed.

Lemma wr_lp_some ll body e : wr_lp ll body = Some e ->
  blen body < 256 ^ N.of_nat ll /\ e = be_enc ll (blen body) ++ body.
Proof.
  unfold wr_lp. destruct (blen body <? 256 ^ N.of_nat ll) eqn:E; [|discriminate].
  intro H; inversion H. split; [now apply N.ltb_lt|reflexivity].
Qed.

Lemma rd_lp_wr ll body e r : wr_lp ll body = Some e -> rd_lp ll (e ++ r) = Some (body, r).
Proof.
  intro H. apply wr_lp_some in H as [Hlt ->]. unfold rd_lp.
  rewrite <- app_assoc. rewrite rd_uint_enc by exact Hlt. apply rd_bytes_app.
Qed.

(* splitting p ++ q = a ++ b *)
Lemma app_split {A} (a b p q : list A) : a ++ b = p ++ q ->
  (exists l, l <> [] /\ a = p ++ l /\ q = l ++ b) \/ (exists l, p = a ++ l /\ b = l ++ q).
Proof.
  intro H. apply app_eq_app in H as [l [[H1 H2]|[H1 H2]]].
  - destruct l as [|x l].
    + right. exists []. rewrite app_nil_r in H1. subst. split; [now rewrite app_nil_r|reflexivity].
    + left. exists (x :: l). repeat split; [discriminate|exact H1|exact H2].
  - right. exists l. split; assumption.
Qed.

Lemma rd_lp_prefix ll body e p q : wr_lp ll body = Some e -> e = p ++ q -> q <> [] -> rd_lp ll p = None.
Proof.
  intros H E Hq. apply wr_lp_some in H as [Hlt ->].
  apply app_split in E as [[l [Hl [E1 E2]]]|[l [E1 E2]]].
  - (* cut inside the length bytes *)
    unfold rd_lp. rewrite rd_uint_short; [reflexivity|].
    assert (HL : blen (be_enc ll (blen body)) = blen p + blen l) by (rewrite E1; apply blen_app).
    rewrite blen_be_enc in HL.
    assert (blen l <> 0) by (intro Z; apply blen_nil_iff in Z; contradiction). lia.
  - (* cut inside the body *)
    subst p. unfold rd_lp. rewrite rd_uint_enc by exact Hlt.
    apply rd_bytes_short. rewrite E2, blen_app.
    assert (blen q <> 0) by (intro Z; apply blen_nil_iff in Z; contradiction). lia.
Qed.

(* ---------- generic theorems ---------- *)
Lemma enc_min_len f : forall v e, enc f v = Some e -> (min_len f <= length e)%nat.
Proof.
  induction f as [|n p|c|n|ll ne|ll ne g IH|ll g IH|t g IH|g IHg h IHh]; intros v e H; simpl in *.
  - lia.
  - destruct v; try discriminate. destruct (x <? 256 ^ N.of_nat n); [|discriminate].
    inversion H. now rewrite be_enc_length.
  - destruct v; try discriminate. now inversion H.
  - destruct v; try discriminate. destruct (blen b =? n) eqn:E; [|discriminate].
    inversion H; subst. apply N.eqb_eq in E. unfold blen in E. lia.
  - destruct v; try discriminate. apply wr_lp_some in H as [_ ->]. rewrite app_length, be_enc_length. lia.
  - destruct v; try discriminate. destruct (enc_list (enc g) l); [|discriminate].
    apply wr_lp_some in H as [_ ->]. rewrite app_length, be_enc_length. lia.
  - destruct (enc g v); [|discriminate]. apply wr_lp_some in H as [_ ->]. rewrite app_length, be_enc_length. lia.
  - destruct (enc g v) as [body|]; [|discriminate]. destruct (wr_lp 3 body) eqn:W; [|discriminate].
    inversion H. apply wr_lp_some in W as [_ ->]. cbn [length]. rewrite app_length, be_enc_length. lia.
  - destruct v; try discriminate. destruct (enc g v1) eqn:E1; [|discriminate]. destruct (enc h v2) eqn:E2; [|discriminate].
    inversion H. rewrite app_length. apply IHg in E1. apply IHh in E2. lia.
Qed.

Lemma dec_many_enc_list (g : fmt) :
  (0 < min_len g)%nat ->
  (forall v e, wf g v = true -> enc g v = Some e -> forall r, dec g (e ++ r) = Some (v, r)) ->
  forall l body fuel, forallb (wf g) l = true -> enc_list (enc g) l = Some body ->
    (length body <= fuel)%nat -> dec_many (dec g) fuel body = Some l.
Proof.
  intros Hmin IH l. induction l as [|x l IHl]; intros body fuel Hwf He Hf.
  - simpl in He. inversion He. destruct fuel; reflexivity.
  - simpl in He. destruct (enc g x) as [a|] eqn:Ex; [|discriminate].
    destruct (enc_list (enc g) l) as [b|] eqn:El; [|discriminate]. inversion He; subst body.
    simpl in Hwf. apply andb_prop in Hwf as [Hx Hl].
    pose proof (enc_min_len g x a Ex) as Hlen.
    destruct a as [|a0 a']; [simpl in Hlen; lia|].
    destruct fuel as [|k]; [simpl in Hf; lia|].
    cbn [dec_many app].
    change (a0 :: a' ++ b) with ((a0 :: a') ++ b).
    rewrite (IH x (a0 :: a') Hx Ex b).
    rewrite (IHl b k Hl eq_refl); [reflexivity|].
    simpl in Hf. rewrite app_length in Hf. lia.
Qed.

Lemma enc_list_nil_iff g : (0 < min_len g)%nat -> forall l body,
  enc_list (enc g) l = Some body -> (is_nil body = is_nil l).
Proof.
  intros Hmin l body H. destruct l as [|x l]; simpl in H.
  - now inversion H.
  - destruct (enc g x) as [a|] eqn:Ex; [|discriminate].
    destruct (enc_list (enc g) l); [|discriminate]. inversion H.
    apply enc_min_len in Ex. destruct a; [simpl in Ex; lia|reflexivity].
Qed.

Theorem dec_enc f : fmt_ok f = true ->
  forall v e, wf f v = true -> enc f v = Some e -> forall r, dec f (e ++ r) = Some (v, r).
Proof.
  induction f as [|n p|c|n|ll ne|ll ne g IH|ll g IH|t g IH|g IHg h IHh]; intros Hok v e Hwf He r; simpl in *.
  - destruct v; try discriminate. now inversion He.
  - destruct v; try discriminate. destruct (x <? 256 ^ N.of_nat n) eqn:E; [|discriminate].
    inversion He; subst. apply N.ltb_lt in E. rewrite rd_uint_enc by exact E. now rewrite Hwf.
  - destruct v; try discriminate. inversion He; subst. now rewrite rd_bytes_app.
  - destruct v; try discriminate. destruct (blen b =? n) eqn:E; [|discriminate].
    inversion He; subst. apply N.eqb_eq in E. now rewrite rd_bytes_app' by exact E.
  - destruct v; try discriminate. rewrite (rd_lp_wr _ _ _ r He).
    apply negb_true_iff in Hwf. now rewrite Hwf.
  - destruct v; try discriminate. destruct (enc_list (enc g) l) as [body|] eqn:El; [|discriminate].
    apply andb_prop in Hok as [Hmin Hokg]. apply Nat.ltb_lt in Hmin.
    apply andb_prop in Hwf as [Hne Hall].
    rewrite (rd_lp_wr _ _ _ r He).
    rewrite (enc_list_nil_iff g Hmin l body El).
    apply negb_true_iff in Hne. rewrite Hne.
    rewrite (dec_many_enc_list g Hmin (IH Hokg) l body (length body) Hall El (le_n _)). reflexivity.
  - destruct (enc g v) as [body|] eqn:Eg; [|discriminate].
    rewrite (rd_lp_wr _ _ _ r He).
    pose proof (IH Hok v body Hwf Eg []) as D. rewrite app_nil_r in D. now rewrite D.
  - destruct (enc g v) as [body|] eqn:Eg; [|discriminate]. destruct (wr_lp 3 body) as [e'|] eqn:W; [|discriminate].
    inversion He; subst e. apply wr_lp_some in W as [_ ->].
    replace ((t :: be_enc 3 (blen body) ++ body) ++ r) with ((t :: be_enc 3 (blen body)) ++ (body ++ r))
      by (cbn [app]; now rewrite app_assoc).
    rewrite rd_bytes_app' by (unfold blen; cbn [length]; rewrite be_enc_length; reflexivity).
    now apply IH.
  - destruct v; try discriminate. apply andb_prop in Hok as [Hg Hh]. apply andb_prop in Hwf as [Wa Wb].
    destruct (enc g v1) as [x|] eqn:E1; [|discriminate]. destruct (enc h v2) as [y|] eqn:E2; [|discriminate].
    inversion He; subst e. rewrite <- app_assoc.
    rewrite (IHg Hg v1 x Wa E1 (y ++ r)). now rewrite (IHh Hh v2 y Wb E2 r).
Qed.

Theorem no_strict_prefix f : fmt_ok f = true ->
  forall v e p q, wf f v = true -> enc f v = Some e -> e = p ++ q -> q <> [] -> dec f p = None.
Proof.
  assert (NZ : forall q : bytes, q <> [] -> blen q <> 0) by (intros q Hq Z; apply blen_nil_iff in Z; contradiction).
  induction f as [|n pr|c|n|ll ne|ll ne g IH|ll g IH|t g IH|g IHg h IHh]; intros Hok v e p q Hwf He E Hq;
    subst e; apply NZ in Hq as Hq0; simpl in *.
  - destruct v; try discriminate. injection He as H0. symmetry in H0. apply app_eq_nil in H0 as [_ H0]. contradiction.
  - destruct v; try discriminate. destruct (x <? 256 ^ N.of_nat n); [|discriminate]. injection He as H0.
    rewrite rd_uint_short; [reflexivity|].
    assert (HL : blen (be_enc n x) = blen p + blen q) by (rewrite H0; apply blen_app).
    rewrite blen_be_enc in HL. lia.
  - destruct v; try discriminate. injection He as H0.
    rewrite rd_bytes_short; [reflexivity|]. rewrite H0, blen_app. lia.
  - destruct v; try discriminate. destruct (blen b =? n) eqn:Eb; [|discriminate]. injection He as H0.
    apply N.eqb_eq in Eb. rewrite rd_bytes_short; [reflexivity|]. rewrite <- Eb, H0, blen_app. lia.
  - destruct v; try discriminate. now rewrite (rd_lp_prefix _ _ _ _ _ He eq_refl Hq).
  - destruct v; try discriminate. destruct (enc_list (enc g) l); [|discriminate].
    now rewrite (rd_lp_prefix _ _ _ _ _ He eq_refl Hq).
  - destruct (enc g v); [|discriminate]. now rewrite (rd_lp_prefix _ _ _ _ _ He eq_refl Hq).
  - destruct (enc g v) as [body|] eqn:Eg; [|discriminate]. destruct (wr_lp 3 body) as [e'|] eqn:W; [|discriminate].
    injection He as H0. apply wr_lp_some in W as [_ ->].
    change (t :: be_enc 3 (blen body) ++ body) with ((t :: be_enc 3 (blen body)) ++ body) in H0.
    apply app_split in H0 as [[l [Hl [E1 E2]]]|[l [E1 E2]]].
    + rewrite rd_bytes_short; [reflexivity|].
      assert (HL : blen (t :: be_enc 3 (blen body)) = blen p + blen l) by (rewrite E1; apply blen_app).
      unfold blen at 1 in HL. cbn [length] in HL. rewrite be_enc_length in HL.
      apply NZ in Hl. lia.
    + subst p. rewrite rd_bytes_app' by (unfold blen; cbn [length]; rewrite be_enc_length; reflexivity).
      exact (IH Hok v body l q Hwf Eg E2 Hq).
  - destruct v; try discriminate. apply andb_prop in Hok as [Hg Hh]. apply andb_prop in Hwf as [Wa Wb].
    destruct (enc g v1) as [x|] eqn:E1; [|discriminate]. destruct (enc h v2) as [y|] eqn:E2; [|discriminate].
    injection He as H0.
    apply app_split in H0 as [[l [Hl [Ea Eb]]]|[l [Ea Eb]]].
    + now rewrite (IHg Hg v1 x p l Wa E1 Ea Hl).
    + subst p. rewrite (dec_enc g Hg v1 x Wa E1 l). now rewrite (IHh Hh v2 y l q Wb E2 Eb Hq).
Qed.

Corollary dec_all_enc f v e : fmt_ok f = true -> wf f v = true -> enc f v = Some e -> dec_all f e = Some v.
Proof.
  intros Hok Hwf He. unfold dec_all.
  pose proof (dec_enc f Hok v e Hwf He []) as D. rewrite app_nil_r in D. now rewrite D.
Qed.

Corollary dec_all_strict_prefix f v e p q : fmt_ok f = true -> wf f v = true -> enc f v = Some e ->
  e = p ++ q -> q <> [] -> dec_all f p = None.
Proof.
  intros Hok Hwf He E Hq. unfold dec_all. now rewrite (no_strict_prefix f Hok v e p q Hwf He E Hq).
Qed.

(* the decoder only ever hands out pieces of its input: what is left is a suffix *)
Lemma rd_lp_some ll s b r : rd_lp ll s = Some (b, r) -> exists h, s = h ++ b ++ r /\ length h = ll.
Proof.
  unfold rd_lp, rd_uint. destruct (rd_bytes (N.of_nat ll) s) as [[h t]|] eqn:E; [|discriminate].
  intro H. apply rd_bytes_some in E as [-> L]. apply rd_bytes_some in H as [-> _].
  exists h. split; [reflexivity|]. unfold blen in L. lia.
Qed.

Theorem dec_suffix f : forall s v r, dec f s = Some (v, r) -> exists u, s = u ++ r.
Proof.
  induction f as [|n p|c|n|ll ne|ll ne g IH|ll g IH|t g IH|g IHg h IHh]; intros s v r H; simpl in H.
  - inversion H. now exists [].
  - unfold rd_uint in H. destruct (rd_bytes (N.of_nat n) s) as [[a b]|] eqn:E; [|discriminate].
    destruct (p (be_dec a)); [|discriminate]. inversion H; subst. apply rd_bytes_some in E as [-> _]. now exists a.
  - destruct (rd_bytes (blen c) s) as [[a b]|] eqn:E; [|discriminate]. inversion H; subst.
    apply rd_bytes_some in E as [-> _]. now exists a.
  - destruct (rd_bytes n s) as [[a b]|] eqn:E; [|discriminate]. inversion H; subst.
    apply rd_bytes_some in E as [-> _]. now exists a.
  - destruct (rd_lp ll s) as [[a b]|] eqn:E; [|discriminate]. destruct (ne && is_nil a); [discriminate|].
    inversion H; subst. apply rd_lp_some in E as [h0 [-> _]]. exists (h0 ++ a). now rewrite <- app_assoc.
  - destruct (rd_lp ll s) as [[a b]|] eqn:E; [|discriminate]. destruct (ne && is_nil a); [discriminate|].
    destruct (dec_many (dec g) (length a) a); [|discriminate].
    inversion H; subst. apply rd_lp_some in E as [h0 [-> _]]. exists (h0 ++ a). now rewrite <- app_assoc.
  - destruct (rd_lp ll s) as [[a b]|] eqn:E; [|discriminate]. destruct (dec g a) as [[w [|]]|]; try discriminate.
    inversion H; subst. apply rd_lp_some in E as [h0 [-> _]]. exists (h0 ++ a). now rewrite <- app_assoc.
  - destruct (rd_bytes 4 s) as [[a b]|] eqn:E; [|discriminate]. apply rd_bytes_some in E as [-> _].
    apply IH in H as [u ->]. exists (a ++ u). now rewrite <- app_assoc.
  - destruct (dec g s) as [[a r1]|] eqn:E1; [|discriminate]. destruct (dec h r1) as [[b r2]|] eqn:E2; [|discriminate].
    inversion H; subst. apply IHg in E1 as [u1 ->]. apply IHh in E2 as [u2 ->]. exists (u1 ++ u2). now rewrite <- app_assoc.
Qed.

(* ====================================================================
   Extension blocks:  "for !extensions.Empty() { type; uint16-prefixed data; switch type {...};
                        if !extData.Empty() { return false } }"
   The decoded state is a list of slots (one [val] per field that extensions can set).
   Each arm of the switch is an [entry]: which (type, data) it takes, the slot it updates,
   whether it insists on being the last extension, and its handler
   (old slot value -> extData -> new slot value and the unread rest of extData).
   Unknown types are skipped ("continue") or recorded raw in a slot.
   ==================================================================== *)
Definition slots := list val.
Definition sget (i : nat) (s : slots) : val := nth i s VU.
Fixpoint sset (i : nat) (v : val) (s : slots) : slots :=
  match s with
  | [] => []
  | x :: r => match i with
              | O => v :: r
              | S k => x :: sset k v r
              end
  end.

Definition unVL' (v : val) : list val := match v with VL l => l | _ => [] end.

Record entry := mkEntry {
  e_match : N -> bytes -> bool;
  e_slot : nat;
  e_last : bool;
  e_h : val -> bytes -> option (val * bytes)
}.

Inductive unknown := USkip | UKeep (slot : nat).

Fixpoint find_entry (tb : list entry) (t : N) (d : bytes) : option entry :=
  match tb with
  | [] => None
  | e :: r => if e_match e t d then Some e else find_entry r t d
  end.

(* type(2) length(2) data, as recorded for unknown extensions and as written by every encoder *)
Definition raw_ext (t : N) (d : bytes) : bytes := be_enc 2 t ++ be_enc 2 (blen d) ++ d.

Fixpoint ext_loop (tb : list entry) (u : unknown) (fuel : nat) (st : slots) (exts : bytes) : option slots :=
  match exts with
  | [] => Some st
  | _ =>
    match fuel with
    | O => None
    | S k =>
      match rd_uint 2 exts with
      | None => None
      | Some (t, r1) =>
        match rd_lp 2 r1 with
        | None => None
        | Some (d, r) =>
          match find_entry tb t d with
          | Some e =>
              if e_last e && negb (is_nil r) then None
              else match e_h e (sget (e_slot e) st) d with
                   | Some (v, []) => ext_loop tb u k (sset (e_slot e) v st) r
                   | _ => None
                   end
          | None =>
              match u with
              | USkip => ext_loop tb u k st r
              | UKeep i => ext_loop tb u k (sset i (VL (unVL' (sget i st) ++ [VB (raw_ext t d)])) st) r
              end
          end
        end
      end
    end
  end.

(* the writers: in marshal order, one optional extension per slot *)
Record wentry := mkW {
  w_type : N;
  w_slot : nat;
  w_present : val -> bool;
  w_body : val -> option bytes
}.

Definition enc_ext (t : N) (body : bytes) : option bytes :=
  match wr_lp 2 body with
  | Some e => Some (be_enc 2 t ++ e)
  | None => None
  end.

Fixpoint enc_exts (wt : list wentry) (st : slots) : option bytes :=
  match wt with
  | [] => Some []
  | w :: r =>
      let v := sget (w_slot w) st in
      let here := if w_present w v
                  then match w_body w v with
                       | Some b => enc_ext (w_type w) b
                       | None => None
                       end
                  else Some [] in
      match here, enc_exts r st with
      | Some a, Some b => Some (a ++ b)
      | _, _ => None
      end
  end.

(* ---------- lemmas ---------- *)
Lemma sset_length i v s : length (sset i v s) = length s.
Proof. revert i; induction s as [|x s IH]; intros [|i]; simpl; auto. Qed.

Lemma sget_sset_same i v s : (i < length s)%nat -> sget i (sset i v s) = v.
Proof.
  revert i; induction s as [|x s IH]; intros [|i] H; simpl in *; try lia; [reflexivity|].
  apply IH. lia.
Qed.

Lemma sget_sset_other i j v s : i <> j -> sget j (sset i v s) = sget j s.
Proof.
  revert i j; induction s as [|x s IH]; intros [|i] [|j] H; simpl; try reflexivity; try congruence.
  apply IH. congruence.
Qed.

Lemma slots_ext (a b : slots) : length a = length b -> (forall j, sget j a = sget j b) -> a = b.
Proof.
  intros L H. apply (nth_ext a b VU VU L). intros n _. apply H.
Qed.

Lemma rd_uint_some n s x r : rd_uint n s = Some (x, r) -> exists h, s = h ++ r /\ length h = n.
Proof.
  unfold rd_uint. destruct (rd_bytes (N.of_nat n) s) as [[h t]|] eqn:E; [|discriminate].
  intro H. inversion H; subst. apply rd_bytes_some in E as [-> L]. exists h. split; [reflexivity|].
  unfold blen in L. lia.
Qed.

Lemma ext_loop_fuel tb u : forall f1 f2 st exts,
  (length exts <= f1)%nat -> (length exts <= f2)%nat ->
  ext_loop tb u f1 st exts = ext_loop tb u f2 st exts.
Proof.
  induction f1 as [|k1 IH]; intros f2 st exts H1 H2.
  - destruct exts; [destruct f2; reflexivity|simpl in H1; lia].
  - destruct exts as [|x0 xs]; [destruct f2; reflexivity|].
    destruct f2 as [|k2]; [simpl in H2; lia|].
    cbn [ext_loop].
    destruct (rd_uint 2 (x0 :: xs)) as [[t r1]|] eqn:E1; [|reflexivity].
    destruct (rd_lp 2 r1) as [[d r]|] eqn:E2; [|reflexivity].
    apply rd_uint_some in E1 as [h1 [E1 L1]]. apply rd_lp_some in E2 as [h2 [E2 L2]].
    assert (Lr : (length r < length (x0 :: xs))%nat).
    { rewrite E1, E2, !app_length. lia. }
    simpl in H1, H2, Lr.
    destruct (find_entry tb t d) as [e|].
    + destruct (e_last e && negb (is_nil r)); [reflexivity|].
      destruct (e_h e (sget (e_slot e) st) d) as [[v [|]]|]; try reflexivity.
      apply IH; lia.
    + destruct u; apply IH; lia.
Qed.

Lemma enc_ext_some t b e : enc_ext t b = Some e -> blen b < 65536 /\ e = raw_ext t b.
Proof.
  unfold enc_ext. destruct (wr_lp 2 b) as [x|] eqn:W; [|discriminate]. intro H; inversion H.
  apply wr_lp_some in W as [L ->]. split; [exact L|reflexivity].
Qed.

Lemma rd_ext_raw t d rest : t < 65536 -> blen d < 65536 ->
  rd_uint 2 (raw_ext t d ++ rest) = Some (t, be_enc 2 (blen d) ++ d ++ rest) /\
  rd_lp 2 (be_enc 2 (blen d) ++ d ++ rest) = Some (d, rest).
Proof.
  intros Ht Hd. unfold raw_ext. split.
  - rewrite <- !app_assoc. apply (rd_uint_enc 2 t). exact Ht.
  - unfold rd_lp. rewrite (rd_uint_enc 2 (blen d)) by exact Hd. apply rd_bytes_app.
Qed.

Lemma raw_ext_length t d : length (raw_ext t d) = (4 + length d)%nat.
Proof. unfold raw_ext. rewrite !app_length, !be_enc_length. lia. Qed.

Lemma raw_ext_cons t d rest : exists x0 xs, raw_ext t d ++ rest = x0 :: xs.
Proof. unfold raw_ext. cbn [be_enc app]. eexists; eexists; reflexivity. Qed.

(* one known extension at the head of the block *)
Lemma ext_loop_step tb u fuel st t b e rest en v :
  t < 65536 -> enc_ext t b = Some e -> find_entry tb t b = Some en ->
  (e_last en = true -> rest = []) ->
  e_h en (sget (e_slot en) st) b = Some (v, []) ->
  (length (e ++ rest) <= fuel)%nat ->
  ext_loop tb u fuel st (e ++ rest) = ext_loop tb u (length rest) (sset (e_slot en) v st) rest.
Proof.
  intros Ht He Hf Hl Hh Hfuel. apply enc_ext_some in He as [Hb ->].
  destruct (rd_ext_raw t b rest Ht Hb) as [R1 R2].
  destruct (raw_ext_cons t b rest) as [x0 [xs Ec]].
  destruct fuel as [|k]; [rewrite app_length, raw_ext_length in Hfuel; lia|].
  rewrite Ec in *. cbn [ext_loop]. rewrite R1, R2, Hf.
  replace (e_last en && negb (is_nil rest)) with false.
  2:{ destruct (e_last en); [rewrite (Hl eq_refl); reflexivity|reflexivity]. }
  rewrite Hh. apply ext_loop_fuel; [|lia].
  rewrite <- Ec, app_length, raw_ext_length in Hfuel. lia.
Qed.

(* one unknown extension at the head of the block *)
Lemma ext_loop_unknown tb u fuel st t d rest :
  t < 65536 -> blen d < 65536 -> find_entry tb t d = None ->
  (length (raw_ext t d ++ rest) <= fuel)%nat ->
  ext_loop tb u fuel st (raw_ext t d ++ rest) =
  ext_loop tb u (length rest)
    (match u with USkip => st | UKeep i => sset i (VL (unVL' (sget i st) ++ [VB (raw_ext t d)])) st end) rest.
Proof.
  intros Ht Hd Hf Hfuel.
  destruct (rd_ext_raw t d rest Ht Hd) as [R1 R2].
  destruct (raw_ext_cons t d rest) as [x0 [xs Ec]].
  destruct fuel as [|k]; [rewrite app_length, raw_ext_length in Hfuel; lia|].
  rewrite Ec in *. cbn [ext_loop]. rewrite R1, R2, Hf.
  rewrite <- Ec, app_length, raw_ext_length in Hfuel.
  destruct u; apply ext_loop_fuel; lia.
Qed.

(* what a writer must satisfy w.r.t. the decode table: the extension it writes is taken by an arm
   that updates the same slot and reads the slot value back; an absent extension leaves the default *)
Definition wok (tb : list entry) (init st : slots) (tail : bytes) (w : wentry) (is_last : bool) : Prop :=
  let i := w_slot w in
  let v := sget i st in
  (i < length st)%nat /\
  if w_present w v then
    forall b, w_body w v = Some b ->
      w_type w < 65536 /\
      exists en, find_entry tb (w_type w) b = Some en /\ e_slot en = i /\
                 e_h en (sget i init) b = Some (v, []) /\
                 (e_last en = true -> is_last = true /\ tail = [])
  else sget i init = v.

Fixpoint wok_all tb init st tail (wt : list wentry) : Prop :=
  match wt with
  | [] => True
  | w :: r => wok tb init st tail w (is_nil r) /\ wok_all tb init st tail r
  end.

Lemma wok_all_agree tb st tail wt : forall init init',
  (forall w, In w wt -> sget (w_slot w) init' = sget (w_slot w) init) ->
  wok_all tb init st tail wt -> wok_all tb init' st tail wt.
Proof.
  induction wt as [|w r IH]; intros init init' Hag H; [exact I|].
  destruct H as [Hw Hr]. split.
  - unfold wok in *. rewrite (Hag w (or_introl eq_refl)). exact Hw.
  - apply (IH init init'); [|exact Hr]. intros w' Hin. apply Hag. now right.
Qed.

Theorem ext_roundtrip tb u tail : forall wt init st bs,
  length init = length st ->
  NoDup (map w_slot wt) ->
  (forall j, ~ In j (map w_slot wt) -> sget j init = sget j st) ->
  wok_all tb init st tail wt ->
  enc_exts wt st = Some bs ->
  ext_loop tb u (length (bs ++ tail)) init (bs ++ tail) = ext_loop tb u (length tail) st tail.
Proof.
  induction wt as [|w r IH]; intros init st bs Hlen Hnd Hother Hok He.
  - simpl in He. inversion He; subst bs. simpl.
    assert (init = st) as -> by (apply slots_ext; [exact Hlen|intro j; apply Hother; intros []]).
    reflexivity.
  - cbn [enc_exts] in He. destruct Hok as [[Hi Hw] Hr].
    inversion Hnd as [|? ? Hnotin Hnd']; subst.
    set (i := w_slot w) in *. set (v := sget i st) in *.
    destruct (w_present w v) eqn:Pres.
    + destruct (w_body w v) as [b|] eqn:Eb; [|discriminate].
      destruct (enc_ext (w_type w) b) as [a|] eqn:Ea; [|discriminate].
      destruct (enc_exts r st) as [c|] eqn:Ec; [|discriminate]. inversion He; subst bs.
      destruct (Hw b eq_refl) as [Ht [en [Hf [Hs [Hh Hl]]]]].
      rewrite <- app_assoc.
      rewrite (ext_loop_step tb u _ init (w_type w) b a (c ++ tail) en v Ht Ea Hf).
      * rewrite Hs. apply IH.
        -- rewrite sset_length. exact Hlen.
        -- exact Hnd'.
        -- intros j Hj. destruct (Nat.eq_dec i j) as [<-|Hne].
           ++ rewrite sget_sset_same by (rewrite Hlen; exact Hi). reflexivity.
           ++ rewrite sget_sset_other by exact Hne. apply Hother. simpl. intros [H|H]; [contradiction|contradiction].
        -- apply (wok_all_agree tb st tail r init); [|exact Hr].
           intros w' Hin. apply sget_sset_other. intro Heq. apply Hnotin. rewrite Heq. now apply in_map.
        -- exact Ec.
      * intro L. destruct (Hl L) as [Hlast ->]. destruct r; [|discriminate]. simpl in Ec. inversion Ec. reflexivity.
      * rewrite Hs. exact Hh.
      * apply le_n.
    + destruct (enc_exts r st) as [c|] eqn:Ec; [|discriminate]. inversion He; subst bs. cbn [app].
      apply IH; try assumption.
      intros j Hj. destruct (Nat.eq_dec i j) as [<-|Hne]; [exact Hw|].
      apply Hother. simpl. intros [H|H]; contradiction.
Qed.

(* a tail of unknown extensions, each recorded raw (serverHello) *)
Definition raw_ok (tb : list entry) (raw : bytes) : bool :=
  match rd_uint 2 raw with
  | Some (t, r1) => match rd_lp 2 r1 with
                    | Some (d, _) => bytes_eqb raw (raw_ext t d) && (t <? 65536) && (blen d <? 65536) &&
                                     match find_entry tb t d with None => true | Some _ => false end
                    | None => false
                    end
  | None => false
  end.

Lemma raw_ok_shape tb raw : raw_ok tb raw = true ->
  exists t d, raw = raw_ext t d /\ t < 65536 /\ blen d < 65536 /\ find_entry tb t d = None.
Proof.
  unfold raw_ok. destruct (rd_uint 2 raw) as [[t r1]|]; [|discriminate].
  destruct (rd_lp 2 r1) as [[d r2]|]; [|discriminate].
  intro H. apply andb_prop in H as [H H4]. apply andb_prop in H as [H H3]. apply andb_prop in H as [H1 H2].
  exists t, d. repeat split.
  - now apply bytes_eqb_eq.
  - now apply N.ltb_lt.
  - now apply N.ltb_lt.
  - destruct (find_entry tb t d); [discriminate|reflexivity].
Qed.

Lemma ext_loop_raws tb i : forall raws st fuel,
  forallb (raw_ok tb) raws = true -> (length (concat raws) <= fuel)%nat ->
  ext_loop tb (UKeep i) fuel st (concat raws) =
  Some (fold_left (fun st raw => sset i (VL (unVL' (sget i st) ++ [VB raw])) st) raws st).
Proof.
  induction raws as [|raw raws IH]; intros st fuel Hok Hf.
  - simpl. destruct fuel; reflexivity.
  - simpl in Hok. apply andb_prop in Hok as [H1 H2].
    apply raw_ok_shape in H1 as [t [d [-> [Ht [Hd Hn]]]]].
    cbn [concat fold_left]. rewrite (ext_loop_unknown tb (UKeep i) fuel st t d (concat raws) Ht Hd Hn Hf).
    apply IH; [exact H2|apply le_n].
Qed.
