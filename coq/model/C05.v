(* C05 — model of CreateCertificateRequest / ParseCertificateRequest,
   Certificate.CreateCRL / ParseCRL (legacy, encoding/asn1 based) and
   CreateRevocationList / ParseRevocationList (crl_parser.go, cryptobyte based),
   on DER value trees.  Executable definitions only.  Names, extensions,
   algorithm identifiers, SANs and times are those of model/C04.v. *)
From Coq Require Import List NArith ZArith Bool Arith.
From Verif Require Import Harness DerTree DerPrim.
From VerifGen Require Import C04_gen.
From VerifModel Require Import C04.
Import ListNotations.
Local Open Scope N_scope.

Definition oid_extreq : oid := [1; 2; 840; 113549; 1; 9; 14].
Definition oid_crlnumber : oid := [2; 5; 29; 20].
Definition oid_reason : oid := [2; 5; 29; 21].

Definition digest_of (o : option bytes) : option (N * N * N) :=
  match o with Some bs => Some (digest bs) | None => None end.

(* ------------------------------------------------------------------ *)
(* certificate requests                                                 *)
Record csr_tmpl := mk_csr {
  c_sigalg : N;
  c_subject : name;
  c_dns : list bytes; c_emails : list bytes; c_ips : list bytes;
  c_extra : list ext
}.

(* the requested extensions: SAN (unless an extra extension has its OID), then the extra ones *)
Definition csr_extensions (t : csr_tmpl) : list ext :=
  (if (nonempty (c_dns t) || nonempty (c_emails t) || nonempty (c_ips t))
      && negb (oid_in_exts oid_san (c_extra t))
   then [(oid_san, false, emit (build_san (c_dns t) (c_emails t) (c_ips t)))] else [])
  ++ c_extra t.

(* the extensionRequest attribute: SEQUENCE { type, SET { SEQUENCE OF Extension } }
   (after the fix the extensions keep their critical flag) *)
Definition build_csr_attrs (exts : list ext) : option (list dv) :=
  match exts with
  | [] => Some []
  | _ =>
      match d_oid oid_extreq, omap build_ext exts with
      | Some o, Some es => Some [seq [o; Cons 0 17 [seq es]]]
      | _, _ => None
      end
  end.

Record csr_input := mk_csr_input { ci_key : keykind; ci_spki : bytes; ci_t : csr_tmpl }.

Definition build_csr_tbs (i : csr_input) : option (dv * dv) :=
  let t := ci_t i in
  match signing_alg (ci_key i) (c_sigalg t) with
  | None => None
  | Some alg =>
      match build_algid alg, build_name (c_subject t), parse_all (ci_spki i), build_csr_attrs (csr_extensions t) with
      | Some a, Some sub, Some spki, Some attrs =>
          Some (seq [d_int 0; sub; spki; Cons 2 0 attrs], a)
      | _, _, _, _ => None
      end
  end.

Definition build_csr (i : csr_input) (sig : bytes) : option bytes :=
  match build_csr_tbs i with
  | Some (tbs, a) => Some (emit (seq [tbs; a; Prim 0 3 (0 :: sig)]))
  | None => None
  end.

Record csr_fields := mk_csr_fields {
  cf_version : Z; cf_sigalg : N; cf_subject : name;
  cf_exts : list ext;
  cf_dns : list bytes; cf_emails : list bytes; cf_ips : list bytes
}.

(* parseCSRExtensions: attributes that are not SEQUENCE { OID, SET { value, ... } }
   or have another type are skipped; the first value of an extensionRequest
   must be a SEQUENCE OF Extension *)
Fixpoint read_csr_attrs (attrs : list dv) : option (list ext) :=
  match attrs with
  | [] => Some []
  | a :: r =>
      match read_csr_attrs r with
      | None => None
      | Some rest =>
          match a with
          | Cons 0 16 (Prim 0 6 ib :: Cons 0 17 (v :: _) :: _) =>
              match dec_oid ib with
              | Some id =>
                  if oid_eqb id oid_extreq then
                    match v with
                    | Cons 0 16 es =>
                        match omap read_ext es with
                        | Some l => Some (l ++ rest)
                        | None => None
                        end
                    | _ => None
                    end
                  else Some rest
              | None => Some rest
              end
          | _ => Some rest
          end
      end
  end.

(* parseSANExtension: one element, nothing after it *)
Definition read_san_strict (v : bytes) : option (list bytes * list bytes * list bytes) :=
  match parse_all v with
  | Some d => read_san d
  | None => None
  end.

(* the SAN loop of parseCertificateRequest: the last SAN extension wins *)
Fixpoint csr_sans (l : list ext) (acc : list bytes * list bytes * list bytes)
  : option (list bytes * list bytes * list bytes) :=
  match l with
  | [] => Some acc
  | e :: r =>
      if oid_eqb (ext_id e) oid_san then
        match read_san_strict (ext_val e) with
        | Some s => csr_sans r s
        | None => None
        end
      else csr_sans r acc
  end.

Definition read_csr (d : dv) : option csr_fields :=
  match d with
  | Cons 0 16 (Cons 0 16 (Prim 0 2 ver :: sub :: Cons 0 16 (_ :: Prim 0 3 _ :: _) :: Cons 2 0 attrs :: _)
               :: alg :: Prim 0 3 _ :: _) =>
      match dec_int64 ver, read_algid alg, read_name sub, read_csr_attrs attrs with
      | Some v, Some a, Some subject, Some exts =>
          match csr_sans exts ([], [], []) with
          | Some (dns, emails, ips) =>
              Some (mk_csr_fields v (sigalg_of a) subject exts dns emails ips)
          | None => None
          end
      | _, _, _, _ => None
      end
  | _ => None
  end.

Definition parse_csr (bs : bytes) : option csr_fields :=
  match parse_all bs with Some d => read_csr d | None => None end.

Definition csr_fields_eqb (a b : csr_fields) : bool :=
  (cf_version a =? cf_version b)%Z && (cf_sigalg a =? cf_sigalg b) && name_eqb (cf_subject a) (cf_subject b) &&
  list_eqb ext_eqb (cf_exts a) (cf_exts b) && list_eqb bytes_eqb (cf_dns a) (cf_dns b) &&
  list_eqb bytes_eqb (cf_emails a) (cf_emails b) && list_eqb bytes_eqb (cf_ips a) (cf_ips b).

(* (input, created = signature length + digest of the DER with the signature
   zeroed, parsed fields) *)
Definition rcase := (csr_input * option (N * (N * N * N)) * option csr_fields)%type.

Definition check_rcase (c : rcase) : bool :=
  let '(i, created, parsed) := c in
  match created with
  | None => match build_csr_tbs i with None => true | Some _ => false end
  | Some (siglen, dg) =>
      match build_csr i (repeat 0 (N.to_nat siglen)) with
      | Some bs => digest_eqb (digest bs) dg && option_eqb csr_fields_eqb (parse_csr bs) parsed
      | None => false
      end
  end.

(* an `asn1:"optional"` time.Time field is left out when it is the zero Time:
   January 1, year 1, 00:00:00 UTC *)
Definition zero_time (c : civil) : bool := civil_eqb c (Build_civil 1 1 1 0 0 0).
Definition opt_time_elem (c : civil) (d : dv) : list dv := if zero_time c then [] else [d].

(* ------------------------------------------------------------------ *)
(* revoked certificate entries (shared by both CRL writers)             *)
Definition entry := (Z * civil * list ext)%type.       (* serial, revocation time, extensions *)

Definition build_entry (e : entry) : option dv :=
  let '(serial, time, exts) := e in
  match build_time time, omap build_ext exts with
  | Some t, Some es =>
      Some (seq ([d_int serial; t] ++ match es with [] => [] | _ => [seq es] end))
  | _, _ => None
  end.

(* ------------------------------------------------------------------ *)
(* legacy CRL: Certificate.CreateCRL / ParseCRL                          *)
Record crl_input := mk_crl_input {
  l_key : keykind;
  l_issuer : name;                 (* c.Subject.ToRDNSequence() *)
  l_ski : bytes;                   (* c.SubjectKeyId *)
  l_now : civil; l_expiry : civil;
  l_revoked : list entry
}.

Definition build_crl_tbs (i : crl_input) : option (dv * dv) :=
  match signing_alg (l_key i) 0 with
  | None => None
  | Some alg =>
      match build_algid alg, build_name (l_issuer i), build_time (l_now i), build_time (l_expiry i),
            omap build_entry (l_revoked i), build_ext (oid_aki, false, emit (build_aki (l_ski i))) with
      | Some a, Some iss, Some now, Some exp, Some rs, Some aki =>
          Some (seq ([d_int 1; a; iss; now] ++ opt_time_elem (l_expiry i) exp ++ [seq rs]
                     ++ (if nonempty (l_ski i) then [Cons 2 0 [seq [aki]]] else [])), a)
      | _, _, _, _, _, _ => None
      end
  end.

Definition build_crl (i : crl_input) (sig : bytes) : option bytes :=
  match build_crl_tbs i with
  | Some (tbs, a) => Some (emit (seq [tbs; a; Prim 0 3 (0 :: sig)]))
  | None => None
  end.

Record crl_fields := mk_crl_fields {
  lf_version : Z; lf_sigalg : N; lf_issuer : name;
  lf_this : civil; lf_next : option civil;
  lf_revoked : list entry; lf_exts : list ext
}.

Definition is_time (d : dv) : bool :=
  match d with Prim 0 t _ => (t =? 23) || (t =? 24) | _ => false end.

Definition read_entry (d : dv) : option entry :=
  match d with
  | Cons 0 16 (Prim 0 2 ser :: t :: r) =>
      let exts := match r with
                  | Cons 0 16 es :: _ => omap read_ext es
                  | _ => Some []
                  end in
      match dec_int ser, read_time t, exts with
      | Some s, Some tm, Some es => Some (s, tm, es)
      | _, _, _ => None
      end
  | _ => None
  end.

(* pkix.TBSCertificateList via encoding/asn1: optional version, algorithm,
   issuer, thisUpdate, optional nextUpdate, optional revokedCertificates,
   optional [0] extensions *)
Definition read_crl_tbs (d : dv) : option crl_fields :=
  match d with
  | Cons 0 16 kids =>
      let '(ver, k1) := match kids with
                        | Prim 0 2 v :: r => (dec_int64 v, r)
                        | _ => (Some 0%Z, kids)
                        end in
      match ver, k1 with
      | Some ver, alg :: iss :: this :: k2 =>
          let '(next, k3) := match k2 with
                             | t :: r => if is_time t then (match read_time t with Some c => Some (Some c) | None => None end, r)
                                         else (Some None, k2)
                             | [] => (Some None, k2)
                             end in
          let '(revoked, k4) := match k3 with
                                | Cons 0 16 es :: r => (omap read_entry es, r)
                                | _ => (Some [], k3)
                                end in
          let exts := match k4 with
                      | Cons 2 0 [Cons 0 16 es] :: _ => omap read_ext es
                      | Cons 2 0 _ :: _ => None
                      | _ => Some []
                      end in
          match read_algid alg, read_name iss, read_time this, next, revoked, exts with
          | Some a, Some issuer, Some tu, Some nu, Some rs, Some es =>
              Some (mk_crl_fields ver (sigalg_of a) issuer tu nu rs es)
          | _, _, _, _, _, _ => None
          end
      | _, _ => None
      end
  | _ => None
  end.

Definition parse_crl (bs : bytes) : option crl_fields :=
  match parse_all bs with
  | Some (Cons 0 16 (tbs :: Cons 0 16 _ :: Prim 0 3 _ :: _)) => read_crl_tbs tbs
  | _ => None
  end.

Definition entry_eqb (a b : entry) : bool :=
  let '(s1, t1, e1) := a in let '(s2, t2, e2) := b in
  (s1 =? s2)%Z && civil_eqb t1 t2 && list_eqb ext_eqb e1 e2.

Definition crl_fields_eqb (a b : crl_fields) : bool :=
  (lf_version a =? lf_version b)%Z && (lf_sigalg a =? lf_sigalg b) && name_eqb (lf_issuer a) (lf_issuer b) &&
  civil_eqb (lf_this a) (lf_this b) && option_eqb civil_eqb (lf_next a) (lf_next b) &&
  list_eqb entry_eqb (lf_revoked a) (lf_revoked b) && list_eqb ext_eqb (lf_exts a) (lf_exts b).

Definition lcase := (crl_input * option (N * (N * N * N)) * option crl_fields)%type.

Definition check_lcase (c : lcase) : bool :=
  let '(i, created, parsed) := c in
  match created with
  | None => match build_crl_tbs i with None => true | Some _ => false end
  | Some (siglen, dg) =>
      match build_crl i (repeat 0 (N.to_nat siglen)) with
      | Some bs => digest_eqb (digest bs) dg && option_eqb crl_fields_eqb (parse_crl bs) parsed
      | None => false
      end
  end.

(* ------------------------------------------------------------------ *)
(* v2 revocation lists: CreateRevocationList / ParseRevocationList       *)
Definition rl_entry := (Z * civil * option Z * list ext)%type.  (* serial, time, ReasonCode, ExtraExtensions *)

Record rl_input := mk_rl_input {
  r_key : keykind;
  r_sigalg : N;
  r_issuer : name;                 (* issuer's subject *)
  r_issuer_ski : bytes;
  r_issuer_crlsign : bool;         (* issuer.KeyUsage has crlSign *)
  r_number : Z;
  r_this : civil; r_next : civil;
  r_revoked : list rl_entry;
  r_extra : list ext
}.

(* asn1.Enumerated: an INTEGER body under tag 10 *)
Definition d_enum (z : Z) : dv := Prim 0 10 (enc_int z).

(* the entry's extensions: ExtraExtensions without any reasonCode extension,
   then a synthesised reasonCode when the code is set and non-zero *)
Definition rl_entry_exts (e : rl_entry) : list ext :=
  let '(_, _, reason, extra) := e in
  filter (fun x => negb (oid_eqb (ext_id x) oid_reason)) extra ++
  match reason with
  | Some r => if (r =? 0)%Z then [] else [(oid_reason, false, emit (d_enum r))]
  | None => []
  end.

Definition rl_to_entry (e : rl_entry) : entry :=
  let '(s, t, _, _) := e in (s, t, rl_entry_exts e).

Definition civil_key (c : civil) : N :=
  ((((cy c * 13 + cmo c) * 32 + cd c) * 24 + ch c) * 60 + cmi c) * 60 + cs c.
Definition civil_ltb (a b : civil) : bool := civil_key a <? civil_key b.

(* big.Int.Bytes() of the CRL number longer than 20 octets, or 20 with the top bit set *)
Definition number_too_long (z : Z) : bool :=
  let bs := be_min (Z.to_N (Z.abs z)) in
  (20 <? length bs)%nat || ((length bs =? 20)%nat && (128 <=? hd 0 bs)).

Definition build_rl_tbs (i : rl_input) : option (dv * dv) :=
  if negb (r_issuer_crlsign i) then None
  else if negb (nonempty (r_issuer_ski i)) then None
  else if civil_ltb (r_next i) (r_this i) then None
  else
    match signing_alg (r_key i) (r_sigalg i) with
    | None => None
    | Some alg =>
        if number_too_long (r_number i) then None
        else
          match build_algid alg, build_name (r_issuer i), build_time (r_this i), build_time (r_next i),
                omap build_entry (map rl_to_entry (r_revoked i)),
                omap build_ext ((oid_aki, false, emit (build_aki (r_issuer_ski i)))
                                :: (oid_crlnumber, false, emit (d_int (r_number i))) :: r_extra i) with
          | Some a, Some iss, Some this, Some next, Some rs, Some es =>
              Some (seq ([d_int 1; a; iss; this] ++ opt_time_elem (r_next i) next
                         ++ (match rs with [] => [] | _ => [seq rs] end)
                         ++ [Cons 2 0 [seq es]]), a)
          | _, _, _, _, _, _ => None
          end
    end.

Definition build_rl (i : rl_input) (sig : bytes) : option bytes :=
  match build_rl_tbs i with
  | Some (tbs, a) => Some (emit (seq [tbs; a; Prim 0 3 (0 :: sig)]))
  | None => None
  end.

(* parsed entry: serial, time, ReasonCode, Extensions *)
Definition rl_pentry := (Z * civil * option Z * list ext)%type.

Record rl_fields := mk_rl_fields {
  rf_sigalg : N; rf_issuer : name;
  rf_this : civil; rf_next : option civil;
  rf_revoked : list rl_pentry;
  rf_number : option Z; rf_aki : bytes;
  rf_exts : list ext
}.

(* crl_parser.go parseExtension (cryptobyte): OID with at most four octets per
   value, optional BOOLEAN, OCTET STRING *)
Definition read_ext_cb (d : dv) : option ext :=
  match d with
  | Cons 0 16 (Prim 0 6 ib :: Prim 0 1 cb :: Prim 0 4 v :: _) =>
      match dec_oid_cb ib, dec_bool cb with
      | Some id, Some c => Some (id, c, v)
      | _, _ => None
      end
  | Cons 0 16 (Prim 0 6 ib :: Prim 0 4 v :: _) =>
      match dec_oid_cb ib with
      | Some id => Some (id, false, v)
      | None => None
      end
  | _ => None
  end.

(* parseName: string types as parseASN1String reads them (restricted to the two issuance writes) *)
Definition read_atv_cb (d : dv) : option atv :=
  match d with
  | Cons 0 16 (Prim 0 6 ob :: Prim 0 tg v :: _) =>
      match dec_oid_cb ob with
      | Some o =>
          if tg =? 19 then (if forallb printable_read v then Some (o, v) else None)
          else if tg =? 12 then Some (o, v)
          else None
      | None => None
      end
  | _ => None
  end.
Definition read_rdn_cb (d : dv) : option rdn :=
  match d with Cons 0 17 l => omap read_atv_cb l | _ => None end.
Definition read_name_cb (d : dv) : option name :=
  match d with Cons 0 16 l => omap read_rdn_cb l | _ => None end.

(* parseAI + getSignatureAlgorithmFromAI *)
Definition read_algid_cb (d : dv) : option algid :=
  match d with
  | Cons 0 16 (Prim 0 6 b :: r) =>
      match dec_oid_cb b with
      | Some o => Some (o, match r with p :: _ => Some p | [] => None end)
      | None => None
      end
  | _ => None
  end.

Definition params_null_or_absent (p : option dv) : bool :=
  match p with Some d => bytes_eqb (emit d) null_bytes | None => true end.

(* x509.go getSignatureAlgorithmFromAI (lower case): Ed25519 must have no
   parameters; hash parameters may be NULL or absent *)
Definition pss_algo2 (params : option dv) : N :=
  match params with
  | Some (Cons 0 16 (Cons 2 0 [h] :: Cons 2 1 [m] :: Cons 2 2 [Prim 0 2 salt] :: tr)) =>
      match read_algid h, read_algid m, dec_int64 salt with
      | Some (ho, hp), Some (mo, Some mp), Some s =>
          match read_algid mp with
          | Some (m1o, m1p) =>
              let trailer_ok :=
                match tr with
                | [] => true
                | Cons 2 3 [Prim 0 2 t] :: _ =>
                    match dec_int64 t with Some 1%Z => true | _ => false end
                | _ => false
                end in
              if params_null_or_absent hp && oid_eqb mo oid_mgf1 && oid_eqb m1o ho
                 && params_null_or_absent m1p && trailer_ok
              then
                let '(a256, a384, a512) := pss_algos in
                if oid_eqb ho oid_sha256 && (s =? 32)%Z then a256
                else if oid_eqb ho oid_sha384 && (s =? 48)%Z then a384
                else if oid_eqb ho oid_sha512 && (s =? 64)%Z then a512
                else 0
              else 0
          | None => 0
          end
      | _, _, _ => 0
      end
  | _ => 0
  end.

Definition sigalg_of2 (a : algid) : N :=
  if oid_eqb (fst a) oid_ed25519 && (match snd a with Some _ => true | None => false end) then 0
  else if oid_eqb (fst a) oid_rsa_pss then pss_algo2 (snd a)
  else match find (fun r => oid_eqb (r_oid r) (fst a)) sigalg_table with
       | Some r => r_algo r
       | None => 0
       end.

Definition dec_enum (d : dv) : option Z :=
  match d with Prim 0 10 b => dec_int64 b | _ => None end.

(* the reasonCode of an entry: the last reasonCode extension decides *)
Fixpoint entry_reason (es : list ext) (acc : option Z) : option (option Z) :=
  match es with
  | [] => Some acc
  | e :: r =>
      if oid_eqb (ext_id e) oid_reason then
        match obind (first_elem (ext_val e)) dec_enum with
        | Some z => entry_reason r (Some z)
        | None => None
        end
      else entry_reason r acc
  end.

Definition read_rl_entry (d : dv) : option rl_pentry :=
  match d with
  | Cons 0 16 (Prim 0 2 ser :: t :: r) =>
      let exts := match r with
                  | Cons 0 16 es :: _ => omap read_ext_cb es
                  | _ => Some []
                  end in
      match dec_int ser, read_time t, exts with
      | Some s, Some tm, Some es =>
          match entry_reason es None with
          | Some rc => Some (s, tm, rc, es)
          | None => None
          end
      | _, _, _ => None
      end
  | _ => None
  end.

(* the list extensions: authority key id (after the fix: the keyIdentifier) and CRL number *)
Fixpoint rl_list_exts (es : list ext) (num : option Z) (aki : bytes) : option (option Z * bytes) :=
  match es with
  | [] => Some (num, aki)
  | e :: r =>
      if oid_eqb (ext_id e) oid_aki then
        match obind (parse_all (ext_val e)) read_aki with
        | Some a => rl_list_exts r num a
        | None => None
        end
      else if oid_eqb (ext_id e) oid_crlnumber then
        match first_elem (ext_val e) with
        | Some (Prim 0 2 b) => match dec_int b with Some z => rl_list_exts r (Some z) aki | None => None end
        | _ => None
        end
      else rl_list_exts r num aki
  end.

Definition read_rl (d : dv) : option rl_fields :=
  match d with
  | Cons 0 16 (Cons 0 16 (Prim 0 2 ver :: alg :: iss :: this :: k2) :: outer :: Prim 0 3 _ :: _) =>
      if negb (option_eqb Z.eqb (dec_int64 ver) (Some 1%Z)) then None
      else if negb (bytes_eqb (raw_bytes outer) (raw_bytes alg))
              || negb (match outer with Cons 0 16 _ => true | _ => false end) then None
      else
        let '(next, k3) := match k2 with
                           | t :: r => if is_time t then (match read_time t with Some c => Some (Some c) | None => None end, r)
                                       else (Some None, k2)
                           | [] => (Some None, k2)
                           end in
        let '(revoked, k4) := match k3 with
                              | Cons 0 16 es :: r => (omap read_rl_entry es, r)
                              | _ => (Some [], k3)
                              end in
        let exts := match k4 with
                    | Cons 2 0 (Cons 0 16 es :: _) :: _ => omap read_ext_cb es
                    | Cons 2 0 _ :: _ => None
                    | _ => Some []
                    end in
        match read_algid_cb alg, read_name_cb iss, read_time this, next, revoked, exts with
        | Some a, Some issuer, Some tu, Some nu, Some rs, Some es =>
            match rl_list_exts es None [] with
            | Some (num, aki) => Some (mk_rl_fields (sigalg_of2 a) issuer tu nu rs num aki es)
            | None => None
            end
        | _, _, _, _, _, _ => None
        end
  | _ => None
  end.

Definition parse_rl (bs : bytes) : option rl_fields :=
  match parse bs with Some (d, _) => read_rl d | None => None end.

Definition pentry_eqb (a b : rl_pentry) : bool :=
  let '(s1, t1, r1, e1) := a in let '(s2, t2, r2, e2) := b in
  (s1 =? s2)%Z && civil_eqb t1 t2 && option_eqb Z.eqb r1 r2 && list_eqb ext_eqb e1 e2.

Definition rl_fields_eqb (a b : rl_fields) : bool :=
  (rf_sigalg a =? rf_sigalg b) && name_eqb (rf_issuer a) (rf_issuer b) &&
  civil_eqb (rf_this a) (rf_this b) && option_eqb civil_eqb (rf_next a) (rf_next b) &&
  list_eqb pentry_eqb (rf_revoked a) (rf_revoked b) && option_eqb Z.eqb (rf_number a) (rf_number b) &&
  bytes_eqb (rf_aki a) (rf_aki b) && list_eqb ext_eqb (rf_exts a) (rf_exts b).

Definition vcase := (rl_input * option (N * (N * N * N)) * option rl_fields)%type.

Definition check_vcase (c : vcase) : bool :=
  let '(i, created, parsed) := c in
  match created with
  | None => match build_rl_tbs i with None => true | Some _ => false end
  | Some (siglen, dg) =>
      match build_rl i (repeat 0 (N.to_nat siglen)) with
      | Some bs => digest_eqb (digest bs) dg && option_eqb rl_fields_eqb (parse_rl bs) parsed
      | None => false
      end
  end.
