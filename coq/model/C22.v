(* C22 — executable model of /repo/x509/pkix/pkix.go Name.ToRDNSequence,
   Name.appendRDNs, Name.FillFromRDNSequence and of the DER step
   asn1.Marshal / asn1.Unmarshal at type pkix.RDNSequence
   (SEQUENCE OF SET OF SEQUENCE { OID, ANY }).  Definitions only.
   Strings are byte lists (Go strings are byte sequences).  An attribute value
   is a Go interface{}: a string ([VStr]) or anything else ([VOther], kept with
   its identifier and content so that it can be re-encoded as an asn1.RawValue). *)
From Coq Require Import List NArith Bool Arith.
From Verif Require Import Harness.
From VerifModel Require Import C22Tlv.
Import ListNotations.
Open Scope N_scope.

Inductive value :=
| VStr (s : bytes)
| VOther (cls : N) (comp : bool) (tag : N) (content : bytes).
Definition atv := (oid * value)%type.
Definition rdn := list atv.
Definition rdnseq := list rdn.

Record name := mkName {
  country : list bytes;
  organization : list bytes;
  organizational_unit : list bytes;
  locality : list bytes;
  province : list bytes;
  street_address : list bytes;
  postal_code : list bytes;
  domain_component : list bytes;
  email_address : list bytes;
  serial_number : bytes;
  common_name : bytes;
  serial_numbers : list bytes;
  common_names : list bytes;
  given_name : list bytes;
  surname : list bytes;
  organization_ids : list bytes;
  jurisdiction_locality : list bytes;
  jurisdiction_province : list bytes;
  jurisdiction_country : list bytes;
  names : list atv;
  extra_names : list atv;
  original : option rdnseq }.

Inductive lf := LCountry | LOrganization | LOrganizationalUnit | LLocality | LProvince | LStreetAddress | LPostalCode | LDomainComponent | LEmailAddress | LSerialNumbers | LCommonNames | LGivenName | LSurname | LOrganizationIDs | LJurLocality | LJurProvince | LJurCountry.

Definition get (f : lf) (n : name) : list bytes :=
  match f with
  | LCountry => country n
  | LOrganization => organization n
  | LOrganizationalUnit => organizational_unit n
  | LLocality => locality n
  | LProvince => province n
  | LStreetAddress => street_address n
  | LPostalCode => postal_code n
  | LDomainComponent => domain_component n
  | LEmailAddress => email_address n
  | LSerialNumbers => serial_numbers n
  | LCommonNames => common_names n
  | LGivenName => given_name n
  | LSurname => surname n
  | LOrganizationIDs => organization_ids n
  | LJurLocality => jurisdiction_locality n
  | LJurProvince => jurisdiction_province n
  | LJurCountry => jurisdiction_country n
  end.

Definition upd (f : lf) (g : list bytes -> list bytes) (n : name) : name :=
  match f with
  | LCountry => mkName (g (country n)) (organization n) (organizational_unit n) (locality n) (province n) (street_address n) (postal_code n) (domain_component n) (email_address n) (serial_number n) (common_name n) (serial_numbers n) (common_names n) (given_name n) (surname n) (organization_ids n) (jurisdiction_locality n) (jurisdiction_province n) (jurisdiction_country n) (names n) (extra_names n) (original n)
  | LOrganization => mkName (country n) (g (organization n)) (organizational_unit n) (locality n) (province n) (street_address n) (postal_code n) (domain_component n) (email_address n) (serial_number n) (common_name n) (serial_numbers n) (common_names n) (given_name n) (surname n) (organization_ids n) (jurisdiction_locality n) (jurisdiction_province n) (jurisdiction_country n) (names n) (extra_names n) (original n)
  | LOrganizationalUnit => mkName (country n) (organization n) (g (organizational_unit n)) (locality n) (province n) (street_address n) (postal_code n) (domain_component n) (email_address n) (serial_number n) (common_name n) (serial_numbers n) (common_names n) (given_name n) (surname n) (organization_ids n) (jurisdiction_locality n) (jurisdiction_province n) (jurisdiction_country n) (names n) (extra_names n) (original n)
  | LLocality => mkName (country n) (organization n) (organizational_unit n) (g (locality n)) (province n) (street_address n) (postal_code n) (domain_component n) (email_address n) (serial_number n) (common_name n) (serial_numbers n) (common_names n) (given_name n) (surname n) (organization_ids n) (jurisdiction_locality n) (jurisdiction_province n) (jurisdiction_country n) (names n) (extra_names n) (original n)
  | LProvince => mkName (country n) (organization n) (organizational_unit n) (locality n) (g (province n)) (street_address n) (postal_code n) (domain_component n) (email_address n) (serial_number n) (common_name n) (serial_numbers n) (common_names n) (given_name n) (surname n) (organization_ids n) (jurisdiction_locality n) (jurisdiction_province n) (jurisdiction_country n) (names n) (extra_names n) (original n)
  | LStreetAddress => mkName (country n) (organization n) (organizational_unit n) (locality n) (province n) (g (street_address n)) (postal_code n) (domain_component n) (email_address n) (serial_number n) (common_name n) (serial_numbers n) (common_names n) (given_name n) (surname n) (organization_ids n) (jurisdiction_locality n) (jurisdiction_province n) (jurisdiction_country n) (names n) (extra_names n) (original n)
  | LPostalCode => mkName (country n) (organization n) (organizational_unit n) (locality n) (province n) (street_address n) (g (postal_code n)) (domain_component n) (email_address n) (serial_number n) (common_name n) (serial_numbers n) (common_names n) (given_name n) (surname n) (organization_ids n) (jurisdiction_locality n) (jurisdiction_province n) (jurisdiction_country n) (names n) (extra_names n) (original n)
  | LDomainComponent => mkName (country n) (organization n) (organizational_unit n) (locality n) (province n) (street_address n) (postal_code n) (g (domain_component n)) (email_address n) (serial_number n) (common_name n) (serial_numbers n) (common_names n) (given_name n) (surname n) (organization_ids n) (jurisdiction_locality n) (jurisdiction_province n) (jurisdiction_country n) (names n) (extra_names n) (original n)
  | LEmailAddress => mkName (country n) (organization n) (organizational_unit n) (locality n) (province n) (street_address n) (postal_code n) (domain_component n) (g (email_address n)) (serial_number n) (common_name n) (serial_numbers n) (common_names n) (given_name n) (surname n) (organization_ids n) (jurisdiction_locality n) (jurisdiction_province n) (jurisdiction_country n) (names n) (extra_names n) (original n)
  | LSerialNumbers => mkName (country n) (organization n) (organizational_unit n) (locality n) (province n) (street_address n) (postal_code n) (domain_component n) (email_address n) (serial_number n) (common_name n) (g (serial_numbers n)) (common_names n) (given_name n) (surname n) (organization_ids n) (jurisdiction_locality n) (jurisdiction_province n) (jurisdiction_country n) (names n) (extra_names n) (original n)
  | LCommonNames => mkName (country n) (organization n) (organizational_unit n) (locality n) (province n) (street_address n) (postal_code n) (domain_component n) (email_address n) (serial_number n) (common_name n) (serial_numbers n) (g (common_names n)) (given_name n) (surname n) (organization_ids n) (jurisdiction_locality n) (jurisdiction_province n) (jurisdiction_country n) (names n) (extra_names n) (original n)
  | LGivenName => mkName (country n) (organization n) (organizational_unit n) (locality n) (province n) (street_address n) (postal_code n) (domain_component n) (email_address n) (serial_number n) (common_name n) (serial_numbers n) (common_names n) (g (given_name n)) (surname n) (organization_ids n) (jurisdiction_locality n) (jurisdiction_province n) (jurisdiction_country n) (names n) (extra_names n) (original n)
  | LSurname => mkName (country n) (organization n) (organizational_unit n) (locality n) (province n) (street_address n) (postal_code n) (domain_component n) (email_address n) (serial_number n) (common_name n) (serial_numbers n) (common_names n) (given_name n) (g (surname n)) (organization_ids n) (jurisdiction_locality n) (jurisdiction_province n) (jurisdiction_country n) (names n) (extra_names n) (original n)
  | LOrganizationIDs => mkName (country n) (organization n) (organizational_unit n) (locality n) (province n) (street_address n) (postal_code n) (domain_component n) (email_address n) (serial_number n) (common_name n) (serial_numbers n) (common_names n) (given_name n) (surname n) (g (organization_ids n)) (jurisdiction_locality n) (jurisdiction_province n) (jurisdiction_country n) (names n) (extra_names n) (original n)
  | LJurLocality => mkName (country n) (organization n) (organizational_unit n) (locality n) (province n) (street_address n) (postal_code n) (domain_component n) (email_address n) (serial_number n) (common_name n) (serial_numbers n) (common_names n) (given_name n) (surname n) (organization_ids n) (g (jurisdiction_locality n)) (jurisdiction_province n) (jurisdiction_country n) (names n) (extra_names n) (original n)
  | LJurProvince => mkName (country n) (organization n) (organizational_unit n) (locality n) (province n) (street_address n) (postal_code n) (domain_component n) (email_address n) (serial_number n) (common_name n) (serial_numbers n) (common_names n) (given_name n) (surname n) (organization_ids n) (jurisdiction_locality n) (g (jurisdiction_province n)) (jurisdiction_country n) (names n) (extra_names n) (original n)
  | LJurCountry => mkName (country n) (organization n) (organizational_unit n) (locality n) (province n) (street_address n) (postal_code n) (domain_component n) (email_address n) (serial_number n) (common_name n) (serial_numbers n) (common_names n) (given_name n) (surname n) (organization_ids n) (jurisdiction_locality n) (jurisdiction_province n) (g (jurisdiction_country n)) (names n) (extra_names n) (original n)
  end.

Definition set_common_name (v : bytes) (n : name) : name :=
  mkName (country n) (organization n) (organizational_unit n) (locality n) (province n) (street_address n) (postal_code n) (domain_component n) (email_address n) (serial_number n) (v) (serial_numbers n) (common_names n) (given_name n) (surname n) (organization_ids n) (jurisdiction_locality n) (jurisdiction_province n) (jurisdiction_country n) (names n) (extra_names n) (original n).
Definition set_serial_number (v : bytes) (n : name) : name :=
  mkName (country n) (organization n) (organizational_unit n) (locality n) (province n) (street_address n) (postal_code n) (domain_component n) (email_address n) (v) (common_name n) (serial_numbers n) (common_names n) (given_name n) (surname n) (organization_ids n) (jurisdiction_locality n) (jurisdiction_province n) (jurisdiction_country n) (names n) (extra_names n) (original n).
Definition set_names (v : list atv) (n : name) : name :=
  mkName (country n) (organization n) (organizational_unit n) (locality n) (province n) (street_address n) (postal_code n) (domain_component n) (email_address n) (serial_number n) (common_name n) (serial_numbers n) (common_names n) (given_name n) (surname n) (organization_ids n) (jurisdiction_locality n) (jurisdiction_province n) (jurisdiction_country n) (v) (extra_names n) (original n).
Definition set_original (v : option rdnseq) (n : name) : name :=
  mkName (country n) (organization n) (organizational_unit n) (locality n) (province n) (street_address n) (postal_code n) (domain_component n) (email_address n) (serial_number n) (common_name n) (serial_numbers n) (common_names n) (given_name n) (surname n) (organization_ids n) (jurisdiction_locality n) (jurisdiction_province n) (jurisdiction_country n) (names n) (extra_names n) (v).

Definition empty_name : name :=
  mkName [] [] [] [] [] [] [] [] [] [] [] [] [] [] [] [] [] [] [] [] [] None.

(* ---- attribute types (pkix.go var block) ---- *)
Definition oidCountry : oid := [2;5;4;6].
Definition oidOrganization : oid := [2;5;4;10].
Definition oidOrganizationalUnit : oid := [2;5;4;11].
Definition oidCommonName : oid := [2;5;4;3].
Definition oidSurname : oid := [2;5;4;4].
Definition oidSerialNumber : oid := [2;5;4;5].
Definition oidLocality : oid := [2;5;4;7].
Definition oidProvince : oid := [2;5;4;8].
Definition oidStreetAddress : oid := [2;5;4;9].
Definition oidPostalCode : oid := [2;5;4;17].
Definition oidGivenName : oid := [2;5;4;42].
Definition oidOrganizationID : oid := [2;5;4;97].
Definition oidDomainComponent : oid := [0;9;2342;19200300;100;1;25].
Definition oidDNEmailAddress : oid := [1;2;840;113549;1;9;1].
Definition oidJurisdictionLocality : oid := [1;3;6;1;4;1;311;60;2;1;1].
Definition oidJurisdictionProvince : oid := [1;3;6;1;4;1;311;60;2;1;2].
Definition oidJurisdictionCountry : oid := [1;3;6;1;4;1;311;60;2;1;3].

(* the attribute type whose string values FillFromRDNSequence appends to field f *)
Definition oid_of (f : lf) : oid :=
  match f with
  | LCountry => oidCountry
  | LOrganization => oidOrganization
  | LOrganizationalUnit => oidOrganizationalUnit
  | LLocality => oidLocality
  | LProvince => oidProvince
  | LStreetAddress => oidStreetAddress
  | LPostalCode => oidPostalCode
  | LDomainComponent => oidDomainComponent
  | LEmailAddress => oidDNEmailAddress
  | LSerialNumbers => oidSerialNumber
  | LCommonNames => oidCommonName
  | LGivenName => oidGivenName
  | LSurname => oidSurname
  | LOrganizationIDs => oidOrganizationID
  | LJurLocality => oidJurisdictionLocality
  | LJurProvince => oidJurisdictionProvince
  | LJurCountry => oidJurisdictionCountry
  end.

(* FillFromRDNSequence's dispatch on atv.Type:
   len(t)==4 && t[0]==2 && t[1]==5 && t[2]==4 -> switch t[3] (no default);
   else the Equal chain.  CommonName / SerialNumber map to their list fields;
   the scalar is set in [fill_atv]. *)
Definition classify_rest (t : oid) : option lf :=
  if oid_eqb t oidDomainComponent then Some LDomainComponent
  else if oid_eqb t oidDNEmailAddress then Some LEmailAddress
  else if oid_eqb t oidJurisdictionLocality then Some LJurLocality
  else if oid_eqb t oidJurisdictionProvince then Some LJurProvince
  else if oid_eqb t oidJurisdictionCountry then Some LJurCountry
  else None.

Definition classify_x520 (d : N) : option lf :=
  if d =? 3 then Some LCommonNames
  else if d =? 4 then Some LSurname
  else if d =? 5 then Some LSerialNumbers
  else if d =? 6 then Some LCountry
  else if d =? 7 then Some LLocality
  else if d =? 8 then Some LProvince
  else if d =? 9 then Some LStreetAddress
  else if d =? 10 then Some LOrganization
  else if d =? 11 then Some LOrganizationalUnit
  else if d =? 17 then Some LPostalCode
  else if d =? 42 then Some LGivenName
  else if d =? 97 then Some LOrganizationIDs
  else None.

Definition classify (t : oid) : option lf :=
  match t with
  | [a; b; c; d] =>
      if (a =? 2) && (b =? 5) && (c =? 4) then classify_x520 d else classify_rest t
  | _ => classify_rest t
  end.

Definition snoc {A} (x : A) (l : list A) : list A := l ++ [x].

(* one iteration of the inner loop of FillFromRDNSequence *)
Definition fill_atv (n : name) (a : atv) : name :=
  let n1 := set_names (snoc a (names n)) n in
  match snd a with
  | VStr v =>
      match classify (fst a) with
      | Some f =>
          let n2 := upd f (snoc v) n1 in
          match f with
          | LCommonNames => set_common_name v n2
          | LSerialNumbers => set_serial_number v n2
          | _ => n2
          end
      | None => n1
      end
  | VOther _ _ _ _ => n1
  end.

(* a Go *RDNSequence argument: None is a nil slice (OriginalRDNS stays nil) *)
Definition seq_of (s : option rdnseq) : rdnseq := match s with Some l => l | None => [] end.

Definition fill (n : name) (s : option rdnseq) : name :=
  fold_left (fun n r => fold_left fill_atv r n) (seq_of s) (set_original s n).

(* appendRDNs *)
Definition append_rdns (vals : list bytes) (o : oid) : rdnseq :=
  match vals with
  | [] => []
  | _ => [map (fun v => (o, VStr v)) vals]
  end.

Definition opt_single (v : bytes) : list bytes := match v with [] => [] | _ => [v] end.

(* the list fields ToRDNSequence emits, in its order *)
Definition emitted : list lf :=
  [LEmailAddress; LOrganizationalUnit; LOrganization; LStreetAddress; LLocality; LProvince;
   LPostalCode; LCountry; LDomainComponent; LJurLocality; LJurProvince; LJurCountry; LOrganizationIDs].

Definition to_rdn_fields (n : name) : rdnseq :=
  append_rdns (opt_single (common_name n)) oidCommonName
  ++ flat_map (fun f => append_rdns (get f n) (oid_of f)) emitted
  ++ append_rdns (opt_single (serial_number n)) oidSerialNumber
  ++ map (fun a => [a]) (extra_names n).

Definition to_rdn (n : name) : rdnseq :=
  match original n with
  | Some s => s
  | None => to_rdn_fields n
  end.

Definition clear_original (n : name) : name := set_original None n.

(* ---- string classes of encoding/asn1 ---- *)
Definition in_range (lo hi b : N) : bool := (lo <=? b) && (b <=? hi).
(* isPrintable(b, asterisk, ampersand) *)
Definition printable (asterisk ampersand : bool) (b : N) : bool :=
  in_range 97 122 b || in_range 65 90 b || in_range 48 57 b || in_range 39 41 b || in_range 43 47 b
  || (b =? 32) || (b =? 58) || (b =? 61) || (b =? 63)
  || (asterisk && (b =? 42)) || (ampersand && (b =? 38)).
Definition is_numeric (b : N) : bool := in_range 48 57 b || (b =? 32).

Definition cont (b : N) : bool := in_range 128 191 b.
(* unicode/utf8.Valid: shortest form, no surrogates, at most U+10FFFF *)
Fixpoint valid_utf8 (bs : bytes) : bool :=
  match bs with
  | [] => true
  | b0 :: r =>
      if b0 <? 128 then valid_utf8 r
      else if in_range 194 223 b0 then
        match r with b1 :: r' => cont b1 && valid_utf8 r' | _ => false end
      else if in_range 224 239 b0 then
        match r with
        | b1 :: b2 :: r' =>
            (if b0 =? 224 then in_range 160 191 b1
             else if b0 =? 237 then in_range 128 159 b1
             else cont b1) && cont b2 && valid_utf8 r'
        | _ => false
        end
      else if in_range 240 244 b0 then
        match r with
        | b1 :: b2 :: b3 :: r' =>
            (if b0 =? 240 then in_range 144 191 b1
             else if b0 =? 244 then in_range 128 143 b1
             else cont b1) && cont b2 && cont b3 && valid_utf8 r'
        | _ => false
        end
      else false
  end.

(* ---- SET OF ordering: bytes.Compare, insertion sort (any sort yields this list) ---- *)
Fixpoint lex_leb (a b : bytes) : bool :=
  match a, b with
  | [], _ => true
  | _ :: _, [] => false
  | x :: a', y :: b' => if x <? y then true else if y <? x then false else lex_leb a' b'
  end.

Fixpoint insert_on {A} (key : A -> bytes) (x : A) (l : list A) : list A :=
  match l with
  | [] => [x]
  | y :: r => if lex_leb (key x) (key y) then x :: l else y :: insert_on key x r
  end.
Definition isort_on {A} (key : A -> bytes) (l : list A) : list A :=
  fold_right (insert_on key) [] l.
Definition sort_bytes : list bytes -> list bytes := isort_on (fun b => b).

(* ---- asn1.Marshal at RDNSequence ---- *)
Fixpoint opt_all {A} (l : list (option A)) : option (list A) :=
  match l with
  | [] => Some []
  | None :: _ => None
  | Some x :: r => match opt_all r with Some xs => Some (x :: xs) | None => None end
  end.

(* makeField on a string held in an interface{}: PrintableString when every
   character is printable (asterisk and ampersand rejected), else UTF8String
   when valid UTF-8, else error.  A non-string is an asn1.RawValue. *)
Definition enc_value (v : value) : option bytes :=
  match v with
  | VStr s =>
      if forallb (printable false false) s then Some (tlv 0 false 19 s)
      else if valid_utf8 s then Some (tlv 0 false 12 s)
      else None
  | VOther c k t b => Some (tlv c k t b)
  end.

Definition enc_atv (a : atv) : option bytes :=
  match enc_oid (fst a), enc_value (snd a) with
  | Some o, Some v => Some (tlv 0 true 16 (tlv 0 false 6 o ++ v))
  | _, _ => None
  end.

Definition enc_rdn (r : rdn) : option bytes :=
  match opt_all (map enc_atv r) with
  | Some es => Some (tlv 0 true 17 (concat (sort_bytes es)))
  | None => None
  end.

Definition enc_rdnseq (s : rdnseq) : option bytes :=
  match opt_all (map enc_rdn s) with
  | Some es => Some (tlv 0 true 16 (concat es))
  | None => None
  end.

(* ---- asn1.Unmarshal at RDNSequence (strict mode) ---- *)
Inductive res (A : Type) := Ok (a : A) | Rej | Unm.   (* Unm: input outside the modelled fragment *)
Arguments Ok {A} a.
Arguments Rej {A}.
Arguments Unm {A}.
Definition rbind {A B} (r : res A) (f : A -> res B) : res B :=
  match r with Ok a => f a | Rej => Rej | Unm => Unm end.
Fixpoint rmap_all {A B} (f : A -> res B) (l : list A) : res (list B) :=
  match l with
  | [] => Ok []
  | x :: r => rbind (f x) (fun y => rbind (rmap_all f r) (fun ys => Ok (y :: ys)))
  end.

Definition is_hdr (t : tl) (cls : N) (comp : bool) (tag : N) : bool :=
  (t_class t =? cls) && Bool.eqb (t_comp t) comp && (t_tag t =? tag).

Definition int64_ok (c : bytes) : bool :=
  match c with
  | [] => false
  | [_] => true
  | a :: b :: _ =>
      negb (((a =? 0) && (b <? 128)) || ((a =? 255) && (128 <=? b))) && (length c <=? 8)%nat
  end.

Definition bitstring_ok (c : bytes) : bool :=
  match c with
  | [] => false
  | p :: r =>
      if 7 <? p then false
      else if (match r with [] => true | _ => false end) && (0 <? p) then false
      else (last c 0) mod (2 ^ p) =? 0
  end.

(* the ANY branch of parseField *)
Definition dec_value (t : tl) (c : bytes) : res value :=
  let other := Ok (VOther (t_class t) (t_comp t) (t_tag t) c) in
  if negb (t_comp t) && (t_class t =? 0) then
    let tag := t_tag t in
    if tag =? 19 then (if forallb (printable true true) c then Ok (VStr c) else Rej)
    else if tag =? 18 then (if forallb is_numeric c then Ok (VStr c) else Rej)
    else if tag =? 22 then (if forallb (fun b => b <? 128) c then Ok (VStr c) else Rej)
    else if tag =? 20 then Ok (VStr c)
    else if tag =? 12 then (if valid_utf8 c then Ok (VStr c) else Rej)
    else if tag =? 2 then (if int64_ok c then other else Rej)
    else if tag =? 3 then (if bitstring_ok c then other else Rej)
    else if tag =? 6 then (match parse_oid c with Some _ => other | None => Rej end)
    else if (tag =? 23) || (tag =? 24) || (tag =? 30) then Unm     (* times, BMPString: not modelled *)
    else other
  else other.

(* struct AttributeTypeAndValue { Type ObjectIdentifier; Value interface{} };
   bytes after the second field are ignored, as parseField does for structs *)
Definition dec_atv (c : bytes) : res atv :=
  match c with
  | [] => Rej
  | _ :: _ =>
      match take_tlv c with
      | None => Rej
      | Some (t1, oc, r1) =>
          if negb (is_hdr t1 0 false 6) then Rej
          else match parse_oid oc with
               | None => Rej
               | Some o =>
                   match r1 with
                   | [] => Rej
                   | _ :: _ =>
                       match take_tlv r1 with
                       | None => Rej
                       | Some (t2, vc, _) => rbind (dec_value t2 vc) (fun v => Ok (o, v))
                       end
                   end
               end
      end
  end.

(* parseSequenceOf: every element must carry the expected universal header *)
Definition dec_elems {A} (comp : bool) (tag : N) (f : bytes -> res A) (bs : bytes) : res (list A) :=
  match split_tlvs (length bs) bs with
  | None => Rej
  | Some es => rmap_all (fun e : tl * bytes => if is_hdr (fst e) 0 comp tag then f (snd e) else Rej) es
  end.

Definition dec_rdn (c : bytes) : res rdn := dec_elems true 16 dec_atv c.

(* Unmarshal(bs, &RDNSequence): decoded value and the rest *)
Definition dec_rdnseq (bs : bytes) : res (rdnseq * bytes) :=
  match bs with
  | [] => Rej
  | _ :: _ =>
      match take_tlv bs with
      | None => Rej
      | Some (t, c, rest) =>
          if is_hdr t 0 true 16
          then rbind (dec_elems true 17 dec_rdn c) (fun s => Ok (s, rest))
          else Rej
      end
  end.

(* the attribute encoding used as sort key (empty when not encodable) *)
Definition atv_key (a : atv) : bytes := match enc_atv a with Some e => e | None => [] end.
(* what decoding the encoding of [s] yields: every RDN in DER SET OF order *)
Definition canon (s : rdnseq) : rdnseq := map (isort_on atv_key) s.

(* all string values of attribute type [o] in sequence order *)
Definition strs_of (o : oid) (r : rdn) : list bytes :=
  flat_map (fun a : atv => match snd a with
                           | VStr v => if oid_eqb (fst a) o then [v] else []
                           | _ => []
                           end) r.
Definition vals_of (o : oid) (s : rdnseq) : list bytes := flat_map (strs_of o) s.

(* ---- correspondence cases ---- *)
Definition value_eqb (a b : value) : bool :=
  match a, b with
  | VStr x, VStr y => bytes_eqb x y
  | VOther c k t x, VOther c' k' t' y => (c =? c') && Bool.eqb k k' && (t =? t') && bytes_eqb x y
  | _, _ => false
  end.
Definition atv_eqb : atv -> atv -> bool := prod_eqb oid_eqb value_eqb.
Definition rdnseq_eqb : rdnseq -> rdnseq -> bool := list_eqb (list_eqb atv_eqb).
Definition lb_eqb : list bytes -> list bytes -> bool := list_eqb bytes_eqb.

Definition name_eqb (a b : name) : bool :=
  forallb (fun f => lb_eqb (get f a) (get f b))
    [LCountry; LOrganization; LOrganizationalUnit; LLocality; LProvince; LStreetAddress; LPostalCode;
     LDomainComponent; LEmailAddress; LSerialNumbers; LCommonNames; LGivenName; LSurname;
     LOrganizationIDs; LJurLocality; LJurProvince; LJurCountry]
  && bytes_eqb (serial_number a) (serial_number b)
  && bytes_eqb (common_name a) (common_name b)
  && list_eqb atv_eqb (names a) (names b)
  && list_eqb atv_eqb (extra_names a) (extra_names b)
  && option_eqb rdnseq_eqb (original a) (original b).

(* the harness cannot see inside a decoded non-string value: it reports a placeholder *)
Definition proj_value (v : value) : value :=
  match v with VStr s => VStr s | VOther _ _ _ _ => VOther 0 false 0 [] end.
Definition proj_seq (s : rdnseq) : rdnseq := map (map (fun a : atv => (fst a, proj_value (snd a)))) s.

(* ToRDNSequence: (name, observed sequence) *)
Definition tordn := (name * rdnseq)%type.
Definition check_tordn (c : tordn) : bool := let '(n, obs) := c in rdnseq_eqb (to_rdn n) obs.

(* FillFromRDNSequence: (start name, argument, observed name, observed ToRDNSequence afterwards) *)
Definition fillc := (name * option rdnseq * name * rdnseq)%type.
Definition check_fillc (c : fillc) : bool :=
  let '(n, s, obs, obs2) := c in
  let m := fill n s in name_eqb m obs && rdnseq_eqb (to_rdn m) obs2.

(* asn1.Marshal: (sequence, observed bytes or error) *)
Definition enc := (rdnseq * option bytes)%type.
Definition check_enc (c : enc) : bool :=
  let '(s, obs) := c in option_eqb bytes_eqb (enc_rdnseq s) obs.

(* asn1.Unmarshal: (bytes, observed (sequence, rest) or error) *)
Definition dec := (bytes * option (rdnseq * bytes))%type.
Definition check_dec (c : dec) : bool :=
  let '(bs, obs) := c in
  match dec_rdnseq bs with
  | Unm => true
  | Rej => match obs with None => true | Some _ => false end
  | Ok (s, rest) =>
      match obs with
      | Some (s', rest') => rdnseq_eqb (proj_seq s) s' && bytes_eqb rest rest'
      | None => false
      end
  end.

(* the whole trip: name -> ToRDNSequence -> Marshal -> Unmarshal -> Fill (fresh Name) *)
Definition round_trip (n : name) : option name :=
  match enc_rdnseq (to_rdn n) with
  | None => None
  | Some bs =>
      match dec_rdnseq bs with
      | Ok (s, []) => Some (fill empty_name (Some s))
      | _ => None
      end
  end.
Definition rt := (name * option name)%type.
Definition check_rt (c : rt) : bool :=
  let '(n, obs) := c in option_eqb name_eqb (round_trip n) obs.

(* one stream for the driver: all case kinds in one sum type (shards run in parallel) *)
Inductive case := CTordn (c : tordn) | CFill (c : fillc) | CEnc (c : enc) | CDec (c : dec) | CRt (c : rt).
Definition check_case (c : case) : bool :=
  match c with
  | CTordn x => check_tordn x
  | CFill x => check_fillc x
  | CEnc x => check_enc x
  | CDec x => check_dec x
  | CRt x => check_rt x
  end.

(* what ToRDNSequence sends for each list field (specification-level helper):
   the scalar CommonName / SerialNumber travel under the type of their list forms;
   GivenName and Surname are not emitted *)
Definition sent (f : lf) (n : name) : list bytes :=
  match f with
  | LCommonNames => opt_single (common_name n)
  | LSerialNumbers => opt_single (serial_number n)
  | LGivenName | LSurname => []
  | _ => get f n
  end.
Definition singletons (l : list atv) : rdnseq := map (fun a => [a]) l.
Definition is_str (v : value) : bool := match v with VStr _ => true | _ => false end.
