(* C18 — model of the encoding/asn1 encoder (marshal.go makeField / makeBody and
   the encoders they build), over the type universe and value representation
   of the decoder model C20.v (which is the decoder half of this property).
   Executable definitions only.

   Go builds a tree of `encoder`s and then writes it out; the model computes the
   written bytes directly (Len() is the length of those bytes).
   Value representation (fixed by the harness printer):
     nil *big.Int / nil []byte / nil slice / nil ObjectIdentifier /
     BitString{nil,0} / RawValue{} with nil slices        -> VNull
   so that `reflect.DeepEqual(v, zero)` is `value_eqb v (zero t)`. *)
From Coq Require Import List NArith ZArith Bool Arith.
From Verif Require Import Harness.
From VerifModel Require Import C20.
Import ListNotations.
Open Scope N_scope.

(* ------------------------------------------------------------------ header *)

(* appendBase128Int: most significant group first, continuation bit on all but the last *)
Fixpoint hi128 (fuel : nat) (n : N) : bytes :=
  match fuel with
  | O => []
  | S f => if n =? 0 then [] else hi128 f (n / 128) ++ [n mod 128 + 128]
  end.
Definition append_base128 (n : N) : bytes := hi128 10 (n / 128) ++ [n mod 128].

(* appendLength: big-endian, lengthLength(i) octets *)
Fixpoint be_bytes (fuel : nat) (n : N) : bytes :=
  match fuel with
  | O => []
  | S f => if n <? 256 then [n] else be_bytes f (n / 256) ++ [n mod 256]
  end.

(* appendTagAndLength *)
Definition emit_header (cls tag len : N) (comp : bool) : bytes :=
  let b := cls * 64 + (if comp then 32 else 0) in
  (if 31 <=? tag then (b + 31) :: append_base128 tag else [b + tag])
  ++ (if 128 <=? len then let lb := be_bytes 8 len in (128 + blen lb) :: lb else [len]).

(* ------------------------------------------------------------------ bodies *)

(* int64Encoder.Len *)
Fixpoint int_len_pos (fuel : nat) (z : Z) : nat :=
  match fuel with O => 1%nat | S f => if (127 <? z)%Z then S (int_len_pos f (z / 256)%Z) else 1%nat end.
Fixpoint int_len_neg (fuel : nat) (z : Z) : nat :=
  match fuel with O => 1%nat | S f => if (z <? -128)%Z then S (int_len_neg f (z / 256)%Z) else 1%nat end.
Definition int_len (z : Z) : nat := if (0 <=? z)%Z then int_len_pos 8 z else int_len_neg 8 z.

(* int64Encoder.Encode: byte(i >> ((n-1-j)*8)) *)
Fixpoint int_bytes_n (n : nat) (z : Z) : bytes :=
  match n with
  | O => []
  | S n' => Z.to_N ((z / 2 ^ (8 * Z.of_nat n')) mod 256)%Z :: int_bytes_n n' z
  end.
Definition int_bytes (z : Z) : bytes := int_bytes_n (int_len z) z.

(* big.Int.Bytes of a non-negative number: big-endian, no leading zero, empty for 0 *)
Fixpoint nat_bytes (fuel : nat) (n : N) : bytes :=
  match fuel with
  | O => []
  | S f => if n =? 0 then [] else nat_bytes f (n / 256) ++ [n mod 256]
  end.
Definition big_bytes (n : N) : bytes := nat_bytes (S (N.to_nat (N.size n))) n.

(* makeBigInt *)
Definition make_bigint (z : Z) : bytes :=
  if (z <? 0)%Z then
    let bs := map (fun b => 255 - b) (big_bytes (Z.to_N (- z - 1))) in
    match bs with
    | [] => [255]
    | b0 :: _ => if b0 <? 128 then 255 :: bs else bs
    end
  else if (z =? 0)%Z then [0]
  else let bs := big_bytes (Z.to_N z) in
       match bs with
       | b0 :: _ => if 128 <=? b0 then 0 :: bs else bs
       | [] => bs
       end.

(* bitStringEncoder *)
Definition make_bits (bs : bytes) (bitlen : Z) : bytes :=
  Z.to_N ((8 - bitlen mod 8) mod 8)%Z :: bs.

(* makeObjectIdentifier + oidEncoder *)
Definition make_oid (arcs : list N) : option bytes :=
  match arcs with
  | a0 :: a1 :: r =>
      if (2 <? a0) || ((a0 <? 2) && (40 <=? a1)) then None
      else Some (append_base128 (a0 * 40 + a1) ++ flat_map append_base128 r)
  | _ => None
  end.

(* appendTimeCommon *)
Definition time_common (t : timev) : bytes :=
  fmt2 (mo t) ++ fmt2 (dy t) ++ fmt2 (hh t) ++ fmt2 (mi t) ++ fmt2 (ss t)
  ++ (let om := (Z.quot (off t) 60)%Z in
      if (om =? 0)%Z then [90]
      else (if (0 <? off t)%Z then [43] else [45])
           ++ (let m := Z.to_N (Z.abs om) in fmt2 (m / 60) ++ fmt2 (m mod 60))).

Definition outside_utc (t : timev) : bool := ((yr t <? 1950) || (2050 <=? yr t))%Z.

Definition make_utctime (t : timev) : option bytes :=
  if ((1950 <=? yr t) && (yr t <? 2000))%Z then Some (fmt2 (Z.to_N (yr t - 1900)) ++ time_common t)
  else if ((2000 <=? yr t) && (yr t <? 2050))%Z then Some (fmt2 (Z.to_N (yr t - 2000)) ++ time_common t)
  else None.

Definition make_gentime (t : timev) : option bytes :=
  if ((yr t <? 0) || (9999 <? yr t))%Z then None
  else Some (fmt4 (Z.to_N (yr t)) ++ time_common t).

(* string encoders *)
Definition make_string (st : N) (s : bytes) : option bytes :=
  if st =? TagIA5String then (if forallb (fun b => b <=? 127) s then Some s else None)
  else if st =? TagPrintableString then (if forallb (fun b => is_printable b true false) s then Some s else None)
  else if st =? TagNumericString then (if forallb is_numeric s then Some s else None)
  else Some s.

(* stripTagAndLength (runs the decoder's header parser in strict mode: Marshal is called with the switch off) *)
Definition strip_tl (bs : bytes) : bytes :=
  match bs with
  | [] => bs
  | _ => match parse_tl false bs with Some (_, r) => r | None => bs end
  end.

(* bytes.Compare < 0 *)
Fixpoint bytes_ltb (a b : bytes) : bool :=
  match a, b with
  | [], [] => false
  | [], _ :: _ => true
  | _ :: _, [] => false
  | x :: a', y :: b' => if x <? y then true else if y <? x then false else bytes_ltb a' b'
  end.

Fixpoint insert_sorted (x : bytes) (l : list bytes) : list bytes :=
  match l with
  | [] => [x]
  | y :: r => if bytes_ltb y x then y :: insert_sorted x r else x :: l
  end.
Definition sort_encodings (l : list bytes) : list bytes := fold_right insert_sorted [] l.

(* ------------------------------------------------------------------ makeField *)

Definition is_int_kind (t : ty) : bool := match t with TInt _ | TEnum => true | _ => false end.

(* v.Kind() == reflect.Slice && v.Len() == 0 *)
Definition is_empty_slice (t : ty) (v : value) : bool :=
  match t, v with
  | (TBytes | TOid | TSlice _ _), VNull => true
  | TBytes, VBytes [] => true
  | TOid, VOid [] => true
  | TSlice _ _, VList VNil => true
  | _, _ => false
  end.

(* the omission tests at the head of makeField *)
Definition omitted (p : fparams) (t : ty) (v : value) : bool :=
  (is_empty_slice t v && omitEmpty p)
  || (optional p && match defaultv p with
                    | Some d => is_int_kind t
                                && value_eqb v (VInt (match t with TInt true => wrap32 d | _ => d end))
                    | None => value_eqb v (zero t)
                    end).

Definition str_of (v : value) : bytes := match v with VStr s => s | _ => [] end.
Definition time_of (v : value) : timev := match v with VTime t => t | _ => zero_time end.

(* the universal tag makeField settles on before tagging: None = error *)
Definition field_tag (p : fparams) (t : ty) (v : value) : option N :=
  let '(_, tag0, _) := universal_type t in
  if negb (timeType p =? 0) && negb (tag0 =? TagUTCTime) then None
  else if negb (stringType p =? 0) && negb (tag0 =? TagPrintableString) then None
  else
    match (if tag0 =? TagPrintableString then
             if stringType p =? 0 then
               if forallb (fun b => (b <? 128) && is_printable b false false) (str_of v) then Some tag0
               else if utf8_valid (str_of v) then Some TagUTF8String else None
             else Some (stringType p)
           else if tag0 =? TagUTCTime then
             if (timeType p =? TagGeneralizedTime) || outside_utc (time_of v) then Some TagGeneralizedTime
             else Some tag0
           else Some tag0) with
    | None => None
    | Some tag1 =>
        if pset p then (if tag1 =? TagSequence then Some TagSet else None)
        else Some tag1
    end.

(* wrap a body in the header(s) the parameters ask for *)
Definition tag_body (p : fparams) (t : ty) (tag : N) (body : bytes) : bytes :=
  let '(_, _, comp) := universal_type t in
  match ptag p with
  | Some pt =>
      let cls := if application p then 1 else if private p then 3 else 2 in
      if explicit p then
        let inner := emit_header 0 tag (blen body) comp in
        emit_header cls pt (blen body + blen inner) true ++ inner ++ body
      else emit_header cls pt (blen body) comp ++ body
  | None => emit_header 0 tag (blen body) comp ++ body
  end.

Definition concat_opt (l : list (option bytes)) : option (list bytes) :=
  fold_right (fun x acc => match x, acc with Some b, Some r => Some (b :: r) | _, _ => None end) (Some []) l.

(* the elements of a slice, each through makeField with empty parameters *)
Fixpoint elems_enc (mf : value -> option bytes) (vs : vals) : option (list bytes) :=
  match vs with
  | VNil => Some []
  | VCons x r =>
      match mf x, elems_enc mf r with
      | Some b, Some l => Some (b :: l)
      | _, _ => None
      end
  end.

(* makeField / makeBody *)
Fixpoint make_field (p : fparams) (t : ty) (v : value) {struct t} : option bytes :=
  if omitted p t v then Some []
  else
    match t with
    | TRaw =>
        match v with
        | VRaw c tg k body full =>
            match full with
            | _ :: _ => Some full
            | [] => Some (emit_header c tg (blen body) k ++ body)
            end
        | _ => Some (emit_header 0 0 0 false)          (* RawValue{} *)
        end
    | _ =>
        match field_tag p t v with
        | None => None
        | Some tag =>
            let set := pset p || (tag =? TagSet) in
            match (match t, v with
                   | TFlag, _ => Some []
                   | TTime, VTime tm =>
                       if (timeType p =? TagGeneralizedTime) || outside_utc tm then make_gentime tm else make_utctime tm
                   | TBits, VBits bs n => Some (make_bits bs n)
                   | TBits, VNull => Some (make_bits [] 0)
                   | TOid, VOid arcs => make_oid arcs
                   | TOid, VNull => make_oid []
                   | TBig, VInt z => Some (make_bigint z)
                   | TBig, _ => None                                   (* nil *big.Int: "empty integer" *)
                   | TBool, VBool b => Some [if b then 255 else 0]
                   | (TInt _ | TEnum), VInt z => Some (int_bytes z)
                   | TBytes, VBytes b => Some b
                   | TBytes, VNull => Some []
                   | TStr, VStr s => make_string (stringType p) s
                   | TStruct true fs, VStruct (Some (r0 :: rr)) _ => Some (strip_tl (r0 :: rr))
                   | TStruct _ fs, VStruct _ vs => make_fields fs vs
                   | TSlice _ e, VNull => Some []
                   | TSlice _ e, VList vs =>
                       match elems_enc (make_field no_params e) vs with
                       | Some l => Some (concat (if set then sort_encodings l else l))
                       | None => None
                       end
                   | _, _ => None
                   end) with
            | None => None
            | Some body => Some (tag_body p t tag body)
            end
        end
    end
with make_fields (fs : fields) (vs : vals) {struct fs} : option bytes :=
  match fs, vs with
  | FNil, _ => Some []
  | FCons p t r, VCons v vr =>
      match make_field p t v, make_fields r vr with
      | Some a, Some b => Some (a ++ b)
      | _, _ => None
      end
  | FCons _ _ _, VNil => None
  end.

(* MarshalWithParams *)
Definition marshal (p : fparams) (t : ty) (v : value) : option bytes := make_field p t v.

(* ------------------------------------------------------------------ correspondence case *)

(* (params, type, value, Marshal's output (None = error),
    strict Unmarshal of that output: value and bytes left,
    Marshal of the decoded value) *)
Definition case := (fparams * ty * value * option bytes * obs * option bytes)%type.

Definition check_case (c : case) : bool :=
  let '(p, t, v, enc, dec, reenc) := c in
  option_eqb bytes_eqb (marshal p t v) enc
  && match enc with
     | None => true
     | Some bs =>
         obs_eqb (unmarshal false p t bs) dec
         && match dec with
            | Some (v', _) => option_eqb bytes_eqb (marshal p t v') reenc
            | None => true
            end
     end.
