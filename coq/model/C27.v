(* C27 — who completes a handshake, as a function of the authentication facts; executable only.
   Decision functions following
     tls/handshake_client.go   verifyServerCertificate (InsecureSkipVerify, chain to RootCAs at
                               Config.Time for Config.ServerName), doFullHandshake
     tls/key_agreement.go      processServerKeyExchange / verifyParameters (signature over
                               client_random || server_random || params with the leaf key; the DHE
                               variant ignores a bad signature under InsecureSkipVerify), RSA key transport
     tls/handshake_client_tls13.go  readServerCertificate (CertificateVerify)
     tls/handshake_server.go   doFullHandshake (certificate request, CertificateVerify),
                               processCertsFromClient (per ClientAuthType)
     tls/handshake_server_tls13.go  readClientCertificate
   The facts about the presented certificates (chain verifies, name matches, inside validity,
   private key matches, signature delivered intact) are inputs: they are established per
   scenario by construction and re-derived by the harness with the Go standard library. *)
From Coq Require Import List NArith Bool Arith.
From Verif Require Import Harness.
Import ListNotations.
Open Scope N_scope.

Inductive kx := KxRSA | KxECDHE | KxDHE | Kx13.

(* facts about what the server presents *)
Record server_facts := mkServerFacts {
  s_chain_ok : bool;      (* signatures chain to a configured root *)
  s_time_ok : bool;       (* Config.Time inside every validity period *)
  s_name_ok : bool;       (* leaf valid for Config.ServerName *)
  s_key_matches : bool;   (* the server holds the private key of the leaf *)
  s_sig_intact : bool }.  (* its handshake signature reaches the client unmodified *)

(* facts about what the client presents when asked *)
Record client_facts := mkClientFacts {
  c_presents : bool;      (* sends a non-empty Certificate message *)
  c_chain_ok : bool;      (* chain verifies to ClientCAs at Config.Time for client authentication *)
  c_key_matches : bool;
  c_sig_intact : bool }.

(* ClientAuthType: 0 NoClientCert, 1 RequestClientCert, 2 RequireAnyClientCert,
   3 VerifyClientCertIfGiven, 4 RequireAndVerifyClientCert *)
Definition requires_client_cert (mode : N) : bool := (mode =? 2) || (mode =? 4).
Definition requests_client_cert (mode : N) : bool := 1 <=? mode.
Definition verifies_client_cert (mode : N) : bool := 3 <=? mode.

(* outcome: did Handshake() return nil on each side; the fatal alert and who sent it *)
Inductive outcome :=
| Done
| Abort (alert : N) (by_client : bool) (client_done : bool).
   (* client_done: TLS 1.3 clients finish before the server has judged their certificate *)

Definition AlertUnexpectedMessage : N := 10.
Definition AlertBadRecordMAC : N := 20.
Definition AlertHandshakeFailure : N := 40.
Definition AlertBadCertificate : N := 42.
Definition AlertDecryptError : N := 51.

Definition cert_acceptable (skip : bool) (f : server_facts) : bool :=
  skip || (s_chain_ok f && s_time_ok f && s_name_ok f).

Definition possession_proved (f : server_facts) : bool := s_key_matches f && s_sig_intact f.

(* the client's judgement of the server *)
Definition client_judges (skip : bool) (k : kx) (f : server_facts) : outcome :=
  if negb (cert_acceptable skip f) then Abort AlertBadCertificate true false
  else match k with
       | KxRSA =>
           (* no signature: a server without the key derives other keys and cannot read the
              client's Finished record *)
           if s_key_matches f then Done else Abort AlertBadRecordMAC false false
       | KxECDHE => if possession_proved f then Done else Abort AlertUnexpectedMessage true false
       | KxDHE =>
           (* dheKeyAgreement.processServerKeyExchange returns nil under InsecureSkipVerify; a
              signature altered in flight still changes the transcript, so the server rejects the
              client's Finished *)
           if possession_proved f then Done
           else if skip then (if s_sig_intact f then Done else Abort AlertHandshakeFailure false false)
           else Abort AlertUnexpectedMessage true false
       | Kx13 => if possession_proved f then Done else Abort AlertDecryptError true false
       end.

(* the server's judgement of the client (after the client accepted the server) *)
Definition server_judges (mode : N) (k : kx) (c : client_facts) : outcome :=
  let client_done := match k with Kx13 => true | _ => false end in
  if negb (requests_client_cert mode) then Done
  else if negb (c_presents c)
       then (if requires_client_cert mode then Abort AlertBadCertificate false client_done else Done)
  else if verifies_client_cert mode && negb (c_chain_ok c) then Abort AlertBadCertificate false client_done
  else if c_key_matches c && c_sig_intact c then Done
  else Abort AlertDecryptError false client_done.

Definition handshake (skip : bool) (k : kx) (f : server_facts) (mode : N) (c : client_facts) : outcome :=
  match client_judges skip k f with
  | Done => server_judges mode k c
  | Abort a false cd =>
      (* raised by the server when it reads the client's Finished (RSA key transport without the
         key, DHE signature altered in flight under InsecureSkipVerify): its checks of the
         client's certificate come first *)
      match server_judges mode k c with
      | Done =>
          (* DHE signature altered in flight: the transcripts differ, so a CertificateVerify of the
             client (signed over its transcript) fails at the server before the Finished does *)
          match k with
          | KxDHE => if requests_client_cert mode && c_presents c
                     then Abort AlertDecryptError false cd else Abort a false cd
          | _ => Abort a false cd
          end
      | Abort a2 b2 cd2 =>
          (* RSA key transport without the key: the server may already fail on the
             ClientKeyExchange (ciphertext not below its modulus), i.e. before it looks at the
             client's CertificateVerify; only the certificate checks surely come first *)
          match k with
          | KxRSA => if a2 =? AlertBadCertificate then Abort a2 b2 cd2 else Abort a false cd
          | _ => Abort a2 b2 cd2
          end
      end
  | o => o
  end.

Definition client_completes (o : outcome) : bool :=
  match o with Done => true | Abort _ _ cd => cd end.
Definition server_completes (o : outcome) : bool :=
  match o with Done => true | Abort _ _ _ => false end.

(* what the signatures cover (RFC 5246 7.4.3, RFC 8446 4.4.3) *)
Definition signed_params (client_random server_random params : bytes) : bytes :=
  client_random ++ server_random ++ params.
Definition signed_tls13 (context transcript_hash : bytes) : bytes :=
  repeat 32 64 ++ context ++ [0] ++ transcript_hash.

(* ---- correspondence ---- *)
Definition outcome_eqb (a b : outcome) : bool :=
  match a, b with
  | Done, Done => true
  | Abort a1 b1 c1, Abort a2 b2 c2 => (a1 =? a2) && Bool.eqb b1 b2 && Bool.eqb c1 c2
  | _, _ => false
  end.

Definition case := (bool * kx * server_facts * N * client_facts * outcome)%type.
Definition check_case (x : case) : bool :=
  let '(skip, k, f, mode, c, obs) := x in outcome_eqb (handshake skip k f mode c) obs.

(* the layout the harness verified the wire signatures against (with the Go standard library):
   input bytes as laid out by the harness vs the model's layout *)
Definition lcase := (bytes * bytes * bytes * bytes)%type.   (* client_random, server_random, params, signed input *)
Definition check_lcase (x : lcase) : bool :=
  let '(cr, sr, p, signed) := x in bytes_eqb (signed_params cr sr p) signed.
