(* C28 — the client handshake log as a function of the bytes on the wire, executable only.
   An independent parse of the recorded transcript (record layer, handshake framing,
   ClientHello, ServerHello, Certificate, ServerKeyExchange, ClientKeyExchange,
   NewSessionTicket) projected onto the fields of tls.ServerHandshake as the client fills
   them (tls/tls_handshake.go MakeLog methods, tls/tls_ka.go, tls/key_agreement.go,
   tls/handshake_client.go).  What is not visible in the clear (Finished verify_data, master
   and pre-master secret, the TLS 1.3 certificate chain and ALPN protocol) comes from the
   [aux] record, which the harness fills from sources other than the client log (the
   server's configuration, an independent PRF computation).
   Bytes are N (< 256); numbers are N. *)
From Coq Require Import List NArith Bool Arith.
From Verif Require Import Harness.
From VerifGen Require Import C28Tables_gen.
Import ListNotations.
Open Scope N_scope.

(* ---------------------------------------------------------------- primitive codecs *)
Definition dec_u8 (b : bytes) : option (N * bytes) :=
  match b with x :: r => Some (x, r) | _ => None end.
Definition dec_u16 (b : bytes) : option (N * bytes) :=
  match b with x :: y :: r => Some (x * 256 + y, r) | _ => None end.
Definition dec_u24 (b : bytes) : option (N * bytes) :=
  match b with x :: y :: z :: r => Some ((x * 256 + y) * 256 + z, r) | _ => None end.
Definition dec_u32 (b : bytes) : option (N * bytes) :=
  match b with x :: y :: z :: w :: r => Some (((x * 256 + y) * 256 + z) * 256 + w, r) | _ => None end.

Definition enc_u8 (n : N) : bytes := [n].
Definition enc_u16 (n : N) : bytes := [n / 256; n mod 256].
Definition enc_u24 (n : N) : bytes := [n / 65536; (n / 256) mod 256; n mod 256].
Definition enc_u32 (n : N) : bytes := [n / 16777216; (n / 65536) mod 256; (n / 256) mod 256; n mod 256].

Definition blen (b : bytes) : N := N.of_nat (length b).

(* split off the first n bytes; None when there are fewer *)
Definition take (n : N) (b : bytes) : option (bytes * bytes) :=
  if n <=? blen b then Some (firstn (N.to_nat n) b, skipn (N.to_nat n) b) else None.

Definition bind {A B} (o : option A) (f : A -> option B) : option B :=
  match o with Some x => f x | None => None end.
Notation "'do' x <- o ; f" := (bind o (fun x => f)) (at level 200, x pattern, o at level 100, f at level 200).

(* length-prefixed vectors *)
Definition dec_vec (hdr : bytes -> option (N * bytes)) (b : bytes) : option (bytes * bytes) :=
  do (n, r) <- hdr b; take n r.
Definition dec_vec8 := dec_vec dec_u8.
Definition dec_vec16 := dec_vec dec_u16.
Definition dec_vec24 := dec_vec dec_u24.
Definition enc_vec8 (b : bytes) : bytes := enc_u8 (blen b) ++ b.
Definition enc_vec16 (b : bytes) : bytes := enc_u16 (blen b) ++ b.
Definition enc_vec24 (b : bytes) : bytes := enc_u24 (blen b) ++ b.

(* a whole buffer of 16-bit values *)
Fixpoint dec_u16s (b : bytes) : option (list N) :=
  match b with
  | [] => Some []
  | x :: y :: r => option_map (cons (x * 256 + y)) (dec_u16s r)
  | _ => None
  end.
Definition enc_u16s (l : list N) : bytes := flat_map enc_u16 l.

(* a whole buffer of items; [fuel] bounds the number of items *)
Fixpoint dec_many {A} (item : bytes -> option (A * bytes)) (fuel : nat) (b : bytes) : option (list A) :=
  match b with
  | [] => Some []
  | _ => match fuel with
         | O => None
         | S f => do (a, r) <- item b; do l <- dec_many item f r; Some (a :: l)
         end
  end.
Definition dec_all {A} (item : bytes -> option (A * bytes)) (b : bytes) : option (list A) :=
  dec_many item (length b) b.

(* ---------------------------------------------------------------- record layer, handshake framing *)
(* one TLS record: type, version, fragment *)
Definition dec_record (rec : bytes) : option (N * N * bytes) :=
  do (ty, r) <- dec_u8 rec; do (v, r) <- dec_u16 r; do (frag, rest) <- dec_vec16 r;
  match rest with [] => Some (ty, v, frag) | _ => None end.
Definition enc_record (ty v : N) (frag : bytes) : bytes := enc_u8 ty ++ enc_u16 v ++ enc_vec16 frag.

(* the handshake bytes one side sent in the clear: fragments of its handshake records (type 22)
   up to its first ChangeCipherSpec record (type 20) *)
Fixpoint clear_handshake (from_client : bool) (recs : list (bool * bytes)) : option bytes :=
  match recs with
  | [] => Some []
  | (dir, rec) :: r =>
      if Bool.eqb dir from_client then
        do (ty, _, frag) <- dec_record rec;
        if ty =? 20 then Some []
        else if ty =? 22 then do rest <- clear_handshake from_client r; Some (frag ++ rest)
        else clear_handshake from_client r
      else clear_handshake from_client r
  end.

(* handshake messages: type, body *)
Definition dec_msg (b : bytes) : option ((N * bytes) * bytes) :=
  do (ty, r) <- dec_u8 b; do (body, rest) <- dec_vec24 r; Some ((ty, body), rest).
Definition enc_msg (m : N * bytes) : bytes := enc_u8 (fst m) ++ enc_vec24 (snd m).
Definition dec_msgs (b : bytes) : option (list (N * bytes)) := dec_all dec_msg b.

Definition find_msg (ty : N) (msgs : list (N * bytes)) : option bytes :=
  option_map snd (find (fun m => fst m =? ty) msgs).

(* ---------------------------------------------------------------- hello messages *)
Definition dec_ext (b : bytes) : option ((N * bytes) * bytes) :=
  do (ty, r) <- dec_u16 b; do (data, rest) <- dec_vec16 r; Some ((ty, data), rest).
Definition enc_ext (e : N * bytes) : bytes := enc_u16 (fst e) ++ enc_vec16 (snd e).

(* extensions block: absent (no bytes) or a 16-bit length-prefixed list *)
Definition dec_exts (b : bytes) : option (list (N * bytes)) :=
  match b with
  | [] => Some []
  | _ => do (blk, rest) <- dec_vec16 b;
         match rest with [] => dec_all dec_ext blk | _ => None end
  end.
Definition enc_exts (l : list (N * bytes)) : bytes :=
  match l with [] => [] | _ => enc_vec16 (flat_map enc_ext l) end.

Definition find_ext (ty : N) (exts : list (N * bytes)) : option bytes :=
  option_map snd (find (fun e => fst e =? ty) exts).
Definition has_ext (ty : N) (exts : list (N * bytes)) : bool :=
  match find_ext ty exts with Some _ => true | None => false end.

Record hello := mkHello {
  h_vers : N; h_random : bytes; h_sid : bytes;
  h_suites : list N;        (* ClientHello: the list; ServerHello: the one selected suite *)
  h_comps : bytes;          (* ClientHello: the list; ServerHello: the one selected method *)
  h_exts : list (N * bytes) }.

Definition dec_client_hello (b : bytes) : option hello :=
  do (v, r) <- dec_u16 b; do (rnd, r) <- take 32 r; do (sid, r) <- dec_vec8 r;
  do (sb, r) <- dec_vec16 r; do suites <- dec_u16s sb; do (comps, r) <- dec_vec8 r;
  do exts <- dec_exts r; Some (mkHello v rnd sid suites comps exts).
Definition enc_client_hello (h : hello) : bytes :=
  enc_u16 (h_vers h) ++ h_random h ++ enc_vec8 (h_sid h) ++ enc_vec16 (enc_u16s (h_suites h)) ++
  enc_vec8 (h_comps h) ++ enc_exts (h_exts h).

Definition dec_server_hello (b : bytes) : option hello :=
  do (v, r) <- dec_u16 b; do (rnd, r) <- take 32 r; do (sid, r) <- dec_vec8 r;
  do (suite, r) <- dec_u16 r; do (comp, r) <- dec_u8 r;
  do exts <- dec_exts r; Some (mkHello v rnd sid [suite] [comp] exts).
Definition enc_server_hello (h : hello) : bytes :=
  enc_u16 (h_vers h) ++ h_random h ++ enc_vec8 (h_sid h) ++ enc_u16 (hd 0 (h_suites h)) ++
  enc_u8 (hd 0 (h_comps h)) ++ enc_exts (h_exts h).

(* extension bodies *)
Definition ext_sni : N := 0.
Definition ext_status_request : N := 5.
Definition ext_curves : N := 10.
Definition ext_points : N := 11.
Definition ext_sigalgs : N := 13.
Definition ext_alpn : N := 16.
Definition ext_sct : N := 18.
Definition ext_ems : N := 23.
Definition ext_ticket : N := 35.
Definition ext_versions : N := 43.
Definition ext_key_share : N := 51.
Definition ext_reneg : N := 65281.

(* server_name: list of (name_type, name); the host_name (type 0) entry *)
Definition dec_sni_entry (b : bytes) : option ((N * bytes) * bytes) :=
  do (ty, r) <- dec_u8 b; do (name, rest) <- dec_vec16 r; Some ((ty, name), rest).
Definition dec_sni (body : bytes) : option bytes :=
  do (l, rest) <- dec_vec16 body;
  match rest with
  | [] => do entries <- dec_all dec_sni_entry l;
          Some (match find (fun e => fst e =? 0) entries with Some e => snd e | None => [] end)
  | _ => None
  end.
Definition enc_sni (name : bytes) : bytes := enc_vec16 (enc_u8 0 ++ enc_vec16 name).

Definition dec_u16_list16 (body : bytes) : option (list N) :=   (* u16-length-prefixed list of u16 *)
  do (l, rest) <- dec_vec16 body; match rest with [] => dec_u16s l | _ => None end.
Definition enc_u16_list16 (l : list N) : bytes := enc_vec16 (enc_u16s l).
Definition dec_u16_list8 (body : bytes) : option (list N) :=    (* u8-length-prefixed list of u16 *)
  do (l, rest) <- dec_vec8 body; match rest with [] => dec_u16s l | _ => None end.
Definition enc_u16_list8 (l : list N) : bytes := enc_vec8 (enc_u16s l).
Definition dec_bytes8 (body : bytes) : option bytes :=          (* u8-length-prefixed bytes *)
  do (l, rest) <- dec_vec8 body; match rest with [] => Some l | _ => None end.

Definition dec_alpn_item (b : bytes) : option (bytes * bytes) := dec_vec8 b.
Definition dec_alpn (body : bytes) : option (list bytes) :=
  do (l, rest) <- dec_vec16 body; match rest with [] => dec_all dec_alpn_item l | _ => None end.
Definition enc_alpn (l : list bytes) : bytes := enc_vec16 (flat_map enc_vec8 l).

(* ---------------------------------------------------------------- other messages *)
Definition dec_cert_item (b : bytes) : option (bytes * bytes) := dec_vec24 b.
Definition dec_certificate (body : bytes) : option (list bytes) :=
  do (l, rest) <- dec_vec24 body; match rest with [] => dec_all dec_cert_item l | _ => None end.
Definition enc_certificate (l : list bytes) : bytes := enc_vec24 (flat_map enc_vec24 l).

(* ServerKeyExchange.  [tls12] = the negotiated version carries a SignatureScheme. *)
Record skx := mkSkx {
  skx_curve : N;              (* ECDHE: named curve; DHE: 0 *)
  skx_public : bytes;         (* ECDHE: server point; DHE: dh_Ys *)
  skx_p : bytes; skx_g : bytes;
  skx_scheme : option N;      (* wire SignatureScheme, TLS 1.2 only *)
  skx_sig : bytes }.

Definition dec_sig (tls12 : bool) (r : bytes) : option (option N * bytes) :=
  if tls12 then
    do (sch, r) <- dec_u16 r; do (sg, rest) <- dec_vec16 r;
    match rest with [] => Some (Some sch, sg) | _ => None end
  else
    do (sg, rest) <- dec_vec16 r; match rest with [] => Some (None, sg) | _ => None end.
Definition enc_sig (sch : option N) (sg : bytes) : bytes :=
  match sch with Some s => enc_u16 s | None => [] end ++ enc_vec16 sg.

Definition dec_skx_ecdhe (tls12 : bool) (body : bytes) : option skx :=
  do (ct, r) <- dec_u8 body;
  if ct =? 3 then
    do (curve, r) <- dec_u16 r; do (pub, r) <- dec_vec8 r; do (sch, sg) <- dec_sig tls12 r;
    Some (mkSkx curve pub [] [] sch sg)
  else None.
Definition enc_skx_ecdhe (k : skx) : bytes :=
  enc_u8 3 ++ enc_u16 (skx_curve k) ++ enc_vec8 (skx_public k) ++ enc_sig (skx_scheme k) (skx_sig k).

Definition dec_skx_dhe (tls12 : bool) (body : bytes) : option skx :=
  do (p, r) <- dec_vec16 body; do (g, r) <- dec_vec16 r; do (ys, r) <- dec_vec16 r;
  do (sch, sg) <- dec_sig tls12 r; Some (mkSkx 0 ys p g sch sg).
Definition enc_skx_dhe (k : skx) : bytes :=
  enc_vec16 (skx_p k) ++ enc_vec16 (skx_g k) ++ enc_vec16 (skx_public k) ++ enc_sig (skx_scheme k) (skx_sig k).

(* ClientKeyExchange: RSA = u16-prefixed encrypted pre-master secret, DHE = u16-prefixed dh_Yc,
   ECDHE = u8-prefixed point *)
Definition dec_ckx16 (body : bytes) : option bytes :=
  do (x, rest) <- dec_vec16 body; match rest with [] => Some x | _ => None end.
Definition dec_ckx8 (body : bytes) : option bytes := dec_bytes8 body.

Definition dec_new_session_ticket (body : bytes) : option (N * bytes) :=
  do (lt, r) <- dec_u32 body; do (t, rest) <- dec_vec16 r;
  match rest with [] => Some (lt, t) | _ => None end.
Definition enc_new_session_ticket (lt : N) (t : bytes) : bytes := enc_u32 lt ++ enc_vec16 t.

(* big-endian value of a byte string (how public values are shown in the log) *)
Definition be_value (b : bytes) : N := fold_left (fun acc x => acc * 256 + x) b 0.

(* uncompressed NIST point 04 || X || Y -> (X, Y); X25519 (curve 29) -> (value, none) *)
Definition point_of (curve : N) (pub : bytes) : option (N * option N) :=
  if curve =? 29 then Some (be_value pub, None)
  else match pub with
       | 4 :: xy =>
           let n := Nat.div2 (length xy) in
           if Nat.eqb (n + n) (length xy) then Some (be_value (firstn n xy), Some (be_value (skipn n xy)))
           else None
       | _ => None
       end.

(* ---------------------------------------------------------------- what the log shows *)
(* the SigAndHash pair shown for a wire SignatureScheme in a ServerKeyExchange:
   ECDHE (key_agreement.go processServerKeyExchange): the package's signature type code and the
   TLS HashAlgorithm code point of the scheme;
   DHE (signedKeyAgreement.verifyParameters): the two wire bytes (hash, signature) *)
Definition scheme_hash_code (s : N) : option N :=
  (* RFC 5246 7.4.1.4.1 pairs: high byte is the hash; RFC 8446 rsa_pss_rsae_sha256/384/512 =
     0x0804/5/6 name SHA-256/384/512 = hash 4/5/6; ed25519 0x0807: intrinsic (8) *)
  let hi := s / 256 in let lo := s mod 256 in
  if (hi =? 8) then
    (if (4 <=? lo) && (lo <=? 6) then Some lo else if lo =? 7 then Some 8 else None)
  else if (2 <=? hi) && (hi <=? 6) && negb (hi =? 3) && ((lo =? 1) || (lo =? 3)) then Some hi
  else None.
Definition scheme_sig_code (s : N) : option N :=
  let hi := s / 256 in let lo := s mod 256 in
  if (hi =? 8) then
    (if (4 <=? lo) && (lo <=? 6) then Some sig_rsapss else if lo =? 7 then Some sig_ed25519 else None)
  else if (2 <=? hi) && (hi <=? 6) && negb (hi =? 3) then
    (if lo =? 1 then Some sig_pkcs1v15 else if lo =? 3 then Some sig_ecdsa else None)
  else None.
Definition logged_sig_and_hash_ecdhe (s : N) : option (N * N) :=
  match scheme_sig_code s, scheme_hash_code s with
  | Some a, Some h => Some (a, h)
  | _, _ => None
  end.
Definition logged_sig_and_hash_dhe (s : N) : N * N := (s mod 256, s / 256).

(* ClientHello signature_and_hashes: the signatureAlgorithms map (regenerated), unknown schemes dropped *)
Definition sig_alg_entry (s : N) : option (N * N) :=
  option_map snd (find (fun r => fst r =? s) signature_algorithms_tbl).
Fixpoint map_sig_algs (l : list N) : list (N * N) :=
  match l with
  | [] => []
  | s :: r => match sig_alg_entry s with Some p => p :: map_sig_algs r | None => map_sig_algs r end
  end.

(* key agreement kind of a suite id: regenerated table; 0 rsa 1 ecdhe-rsa 2 ecdhe-ecdsa 3 dhe-rsa 4 dhe-dss *)
Definition ka_of_suite (id : N) : option N :=
  option_map snd (find (fun r => fst r =? id) suite_ka_tbl).

Record ch_log := mkChLog {
  cl_version : N; cl_random : bytes; cl_sid : bytes; cl_suites : list N; cl_comps : bytes;
  cl_ocsp : bool; cl_ticket : bool; cl_reneg : bool; cl_sni : bytes; cl_scts : bool;
  cl_curves : list N; cl_points : bytes; cl_versions : list N;
  cl_session_ticket : option bytes; cl_sigalgs : list (N * N); cl_alpn : list bytes;
  cl_ems : bool }.

Record sh_log := mkShLog {
  sl_version : N; sl_random : bytes; sl_sid : bytes; sl_suite : N; sl_comp : N;
  sl_ocsp : bool; sl_ticket : bool; sl_reneg : bool; sl_ems : bool; sl_alpn : bytes;
  sl_selected_version : option N; sl_key_share : option N; sl_ext_ids : list N }.

Record skx_log := mkSkxLog {
  kl_curve : N;                          (* ECDHE curve id, 0 for DHE *)
  kl_point : option (N * option N);      (* ECDHE server public *)
  kl_dh : option (N * N * N);            (* DHE prime, generator, server public *)
  kl_sig_raw : bytes;
  kl_sig_and_hash : option (N * N) }.    (* (Signature, Hash), TLS 1.2 only *)

Inductive ckx_log :=
| CkxRsa (length : N) (encrypted : bytes)
| CkxDh (y : N)
| CkxEcdh (curve : N) (point : N * option N).

Record log := mkLog {
  l_ch : ch_log; l_sh : sh_log;
  l_certs : list bytes;                          (* leaf :: chain; [] when none logged (resumption) *)
  l_skx : option skx_log; l_ckx : option ckx_log;
  l_client_finished : option bytes; l_server_finished : option bytes;
  l_ticket : option (bytes * option N);          (* value, lifetime hint when it came on this wire *)
  l_master : option bytes; l_premaster : option bytes }.

(* what the harness supplies from elsewhere *)
Record aux := mkAux {
  a_certs13 : list bytes;          (* TLS 1.3: the chain the server is configured with *)
  a_alpn13 : bytes;                (* TLS 1.3: protocol in EncryptedExtensions (the server's view) *)
  a_client_finished : bytes; a_server_finished : bytes;   (* recomputed with an independent PRF *)
  a_master : bytes; a_premaster : bytes;
  a_skx_rejected : bool }.         (* DHE under InsecureSkipVerify: the server signed with a pair outside the client's
                                      Config.SignatureAndHashes; verifyParameters then returns before it keeps the signature bytes *)

Definition ch_log_of (h : hello) : option ch_log :=
  let ex := h_exts h in
  do sni <- match find_ext ext_sni ex with Some b => dec_sni b | None => Some [] end;
  do curves <- match find_ext ext_curves ex with Some b => dec_u16_list16 b | None => Some [] end;
  do points <- match find_ext ext_points ex with Some b => dec_bytes8 b | None => Some [] end;
  do versions <- match find_ext ext_versions ex with Some b => dec_u16_list8 b | None => Some [] end;
  do sigalgs <- match find_ext ext_sigalgs ex with Some b => dec_u16_list16 b | None => Some [] end;
  do alpn <- match find_ext ext_alpn ex with Some b => dec_alpn b | None => Some [] end;
  Some (mkChLog (h_vers h) (h_random h) (h_sid h) (h_suites h) (h_comps h)
          (has_ext ext_status_request ex) (has_ext ext_ticket ex) (has_ext ext_reneg ex) sni
          (has_ext ext_sct ex) curves points versions
          (match find_ext ext_ticket ex with Some (x :: t) => Some (x :: t) | _ => None end)
          (map_sig_algs sigalgs) alpn (has_ext ext_ems ex)).

Definition sh_log_of (h : hello) (a : aux) : option sh_log :=
  let ex := h_exts h in
  do alpn <- match find_ext ext_alpn ex with
             | Some b => do l <- dec_alpn b; Some (hd [] l)
             | None => Some []
             end;
  do sel <- match find_ext ext_versions ex with
            | Some b => do (v, rest) <- dec_u16 b; match rest with [] => Some (Some v) | _ => None end
            | None => Some None
            end;
  do ks <- match find_ext ext_key_share ex with
           | Some b => do (g, _) <- dec_u16 b; Some (Some g)
           | None => Some None
           end;
  Some (mkShLog (h_vers h) (h_random h) (h_sid h) (hd 0 (h_suites h)) (hd 0 (h_comps h))
          (has_ext ext_status_request ex) (has_ext ext_ticket ex) (has_ext ext_reneg ex)
          (has_ext ext_ems ex)
          (match sel with Some _ => a_alpn13 a | None => alpn end)
          sel (match sel with Some _ => ks | None => None end) (map fst ex)).

Definition skx_log_of (ka vers : N) (body : bytes) : option skx_log :=
  let tls12 := 771 <=? vers in
  if (ka =? 1) || (ka =? 2) then
    do k <- dec_skx_ecdhe tls12 body;
    do pt <- point_of (skx_curve k) (skx_public k);
    do sh <- match skx_scheme k with
             | Some s => do p <- logged_sig_and_hash_ecdhe s; Some (Some p)
             | None => Some None
             end;
    Some (mkSkxLog (skx_curve k) (Some pt) None (skx_sig k) sh)
  else
    do k <- dec_skx_dhe tls12 body;
    Some (mkSkxLog 0 None (Some (be_value (skx_p k), be_value (skx_g k), be_value (skx_public k)))
            (skx_sig k) (option_map logged_sig_and_hash_dhe (skx_scheme k))).

Definition ckx_log_of (ka curve : N) (body : bytes) : option ckx_log :=
  if ka =? 0 then do e <- dec_ckx16 body; Some (CkxRsa (blen e) e)
  else if (ka =? 1) || (ka =? 2) then
    do p <- dec_ckx8 body; do pt <- point_of curve p; Some (CkxEcdh curve pt)
  else do y <- dec_ckx16 body; Some (CkxDh (be_value y)).

(* the log from the handshake messages each side sent in the clear *)
Definition log_of_msgs (cm sm : list (N * bytes)) (a : aux) : option log :=
  do chb <- find_msg 1 cm; do shb <- find_msg 2 sm;
  do ch <- dec_client_hello chb; do sh <- dec_server_hello shb;
  do cl <- ch_log_of ch; do sl <- sh_log_of sh a;
  match sl_selected_version sl with
  | Some _ =>
      (* TLS 1.3: only the hellos and the certificates are logged *)
      Some (mkLog cl sl (a_certs13 a) None None None None None None None)
  | None =>
      let vers := sl_version sl in
      let resumed := match h_sid sh with [] => false | _ => bytes_eqb (h_sid sh) (h_sid ch) end
                     && match find_msg 11 sm with None => true | Some _ => false end in
      do certs <- match find_msg 11 sm with Some b => dec_certificate b | None => Some [] end;
      do ka <- ka_of_suite (sl_suite sl);
      do skxl <- match find_msg 12 sm with
                 | Some b => do k <- skx_log_of ka vers b; Some (Some k)
                 | None => Some None
                 end;
      let skxl := if a_skx_rejected a
                  then option_map (fun k => mkSkxLog (kl_curve k) (kl_point k) (kl_dh k) [] (kl_sig_and_hash k)) skxl
                  else skxl in
      do ckxl <- match find_msg 16 cm with
                 | Some b => do k <- ckx_log_of ka (match skxl with Some k => kl_curve k | None => 0 end) b;
                             Some (Some k)
                 | None => Some None
                 end;
      do tk <- match find_msg 4 sm with
               | Some b => do (lt, t) <- dec_new_session_ticket b; Some (Some (t, Some lt))
               | None => Some (match cl_session_ticket cl with
                               | Some t => Some (t, None)
                               | None => None
                               end)
               end;
      Some (mkLog cl sl certs skxl ckxl (Some (a_client_finished a)) (Some (a_server_finished a)) tk
              (Some (a_master a)) (Some (if resumed then [] else a_premaster a)))
  end.

(* the whole log from the recorded transcript *)
Definition log_of (recs : list (bool * bytes)) (a : aux) : option log :=
  do cb <- clear_handshake true recs; do sb <- clear_handshake false recs;
  do cm <- dec_msgs cb; do sm <- dec_msgs sb;
  log_of_msgs cm sm a.

(* ---------------------------------------------------------------- comparison *)
Definition lN_eqb := list_eqb N.eqb.
Definition opt_N_eqb := option_eqb N.eqb.
Definition pairN_eqb := prod_eqb N.eqb N.eqb.
Definition point_eqb := prod_eqb N.eqb opt_N_eqb.

Definition ch_log_eqb (a b : ch_log) : bool :=
  (cl_version a =? cl_version b) && bytes_eqb (cl_random a) (cl_random b) && bytes_eqb (cl_sid a) (cl_sid b) &&
  lN_eqb (cl_suites a) (cl_suites b) && bytes_eqb (cl_comps a) (cl_comps b) &&
  Bool.eqb (cl_ocsp a) (cl_ocsp b) && Bool.eqb (cl_ticket a) (cl_ticket b) && Bool.eqb (cl_reneg a) (cl_reneg b) &&
  bytes_eqb (cl_sni a) (cl_sni b) && Bool.eqb (cl_scts a) (cl_scts b) &&
  lN_eqb (cl_curves a) (cl_curves b) && bytes_eqb (cl_points a) (cl_points b) && lN_eqb (cl_versions a) (cl_versions b) &&
  option_eqb bytes_eqb (cl_session_ticket a) (cl_session_ticket b) &&
  list_eqb pairN_eqb (cl_sigalgs a) (cl_sigalgs b) && list_eqb bytes_eqb (cl_alpn a) (cl_alpn b) &&
  Bool.eqb (cl_ems a) (cl_ems b).

Definition sh_log_eqb (a b : sh_log) : bool :=
  (sl_version a =? sl_version b) && bytes_eqb (sl_random a) (sl_random b) && bytes_eqb (sl_sid a) (sl_sid b) &&
  (sl_suite a =? sl_suite b) && (sl_comp a =? sl_comp b) &&
  Bool.eqb (sl_ocsp a) (sl_ocsp b) && Bool.eqb (sl_ticket a) (sl_ticket b) && Bool.eqb (sl_reneg a) (sl_reneg b) &&
  Bool.eqb (sl_ems a) (sl_ems b) && bytes_eqb (sl_alpn a) (sl_alpn b) &&
  opt_N_eqb (sl_selected_version a) (sl_selected_version b) && opt_N_eqb (sl_key_share a) (sl_key_share b) &&
  lN_eqb (sl_ext_ids a) (sl_ext_ids b).

Definition skx_log_eqb (a b : skx_log) : bool :=
  (kl_curve a =? kl_curve b) && option_eqb point_eqb (kl_point a) (kl_point b) &&
  option_eqb (prod_eqb pairN_eqb N.eqb) (kl_dh a) (kl_dh b) &&
  bytes_eqb (kl_sig_raw a) (kl_sig_raw b) && option_eqb pairN_eqb (kl_sig_and_hash a) (kl_sig_and_hash b).

Definition ckx_log_eqb (a b : ckx_log) : bool :=
  match a, b with
  | CkxRsa l1 e1, CkxRsa l2 e2 => (l1 =? l2) && bytes_eqb e1 e2
  | CkxDh y1, CkxDh y2 => y1 =? y2
  | CkxEcdh c1 p1, CkxEcdh c2 p2 => (c1 =? c2) && point_eqb p1 p2
  | _, _ => false
  end.

(* the lifetime hint is compared when the ticket came on this wire *)
Definition ticket_eqb (model obs : option (bytes * option N)) : bool :=
  match model, obs with
  | None, None => true
  | Some (t1, lt1), Some (t2, lt2) =>
      bytes_eqb t1 t2 && match lt1 with Some _ => opt_N_eqb lt1 lt2 | None => true end
  | _, _ => false
  end.

Definition log_eqb (m o : log) : bool :=
  ch_log_eqb (l_ch m) (l_ch o) && sh_log_eqb (l_sh m) (l_sh o) &&
  list_eqb bytes_eqb (l_certs m) (l_certs o) &&
  option_eqb skx_log_eqb (l_skx m) (l_skx o) && option_eqb ckx_log_eqb (l_ckx m) (l_ckx o) &&
  option_eqb bytes_eqb (l_client_finished m) (l_client_finished o) &&
  option_eqb bytes_eqb (l_server_finished m) (l_server_finished o) &&
  ticket_eqb (l_ticket m) (l_ticket o) &&
  option_eqb bytes_eqb (l_master m) (l_master o) && option_eqb bytes_eqb (l_premaster m) (l_premaster o).

(* transcript (direction, record), auxiliary values, the log Go produced *)
Definition case := (list (bool * bytes) * aux * log)%type.
Definition check_case (x : case) : bool :=
  let '(recs, a, obs) := x in
  match log_of recs a with Some m => log_eqb m obs | None => false end.

(* the SigAndHash shown for a scheme, against the implementation's own conversion (hook) *)
Definition scase := (N * option (N * N))%type.
Definition check_scase (x : scase) : bool :=
  let '(s, obs) := x in option_eqb pairN_eqb (logged_sig_and_hash_ecdhe s) obs.
