(* C16 — model of the CT TLS-style codecs (ct/serialization.go and its second
   copy x509/ct/serialization.go), the RFC 6962 signature inputs and the
   dispatch of ct/signatures.go verifySignature.  Executable definitions only.

   Go types: byte/uint8 -> N < 256, uint16 -> N < 2^16, uint64 -> N < 2^64,
   []byte -> bytes, [32]byte -> bytes of length 32, io.Reader over a byte slice
   -> the unread suffix.  Errors are [None]; error texts are not modelled.
   Both copies of writeUint/writeVarBytes/readUint/readVarBytes/
   UnmarshalDigitallySigned/marshalDigitallySignedHere/DeserializeSCT are
   line-for-line identical, so one model function stands for both and the
   correspondence run exercises each copy against it. *)
From Coq Require Import List NArith Bool Arith.
From Verif Require Import Harness Wire16.
Import ListNotations.
Open Scope N_scope.

(* ---------- writeUint / writeVarBytes ---------- *)
(* for i := 0; i < numBytes; i++ { buf[numBytes-i-1] = uint8(value & 0xff); value >>= 8 } *)
Fixpoint write_uint_loop (i : nat) (value : N) (acc : bytes) : N * bytes :=
  match i with
  | O => (value, acc)
  | S i' => write_uint_loop i' (value / 256) ((value mod 256) :: acc)
  end.

(* if value != 0 { error } ; w.Write(buf) *)
Definition write_uint (value : N) (numBytes : nat) : option bytes :=
  let '(rest, buf) := write_uint_loop numBytes value [] in
  if rest =? 0 then Some buf else None.

Definition write_var_bytes (value : bytes) (numLenBytes : nat) : option bytes :=
  match write_uint (N.of_nat (length value)) numLenBytes with
  | None => None
  | Some p => Some (p ++ value)
  end.

(* ---------- readUint / readVarBytes ---------- *)
(* result of a read: value and unread suffix, io.EOF, or any other error.
   readASN1CertList tells io.EOF from other errors, nothing else does. *)
Inductive rres (A : Type) : Type :=
| ROk (a : A) (rest : bytes)
| REof
| RErr.
Arguments ROk {A} a rest.
Arguments REof {A}.
Arguments RErr {A}.

Definition two64 : N := 18446744073709551616.

(* l <<= 8; read one byte t (io.EOF when none is left); l |= t *)
Fixpoint read_uint_loop (n : nat) (l : N) (bs : bytes) : rres N :=
  match n with
  | O => ROk l bs
  | S n' =>
      match bs with
      | [] => REof
      | t :: r => read_uint_loop n' ((l * 256) mod two64 + t) r
      end
  end.

Definition read_uint (bs : bytes) (numBytes : nat) : rres N := read_uint_loop numBytes 0 bs.

Definition read_var_bytes (bs : bytes) (numLenBytes : nat) : rres bytes :=
  if (8 <? numLenBytes)%nat then RErr
  else if (numLenBytes =? 0)%nat then RErr
  else match read_uint bs numLenBytes with
       | ROk l r =>
           match take_N l r with
           | Some (data, rest) => ROk data rest
           | None => RErr            (* "short read" *)
           end
       | REof => REof
       | RErr => RErr
       end.

(* the element loop of readASN1CertList: stops silently on io.EOF from
   readVarBytes (also when only 1..elementLenBytes-1 bytes are left), fails on
   any other error *)
Fixpoint cert_list_loop (fuel : nat) (lb : bytes) (elementLenBytes : nat) (acc : list bytes)
  : option (list bytes) :=
  match fuel with
  | O => None
  | S fuel' =>
      match read_var_bytes lb elementLenBytes with
      | ROk e r => cert_list_loop fuel' r elementLenBytes (e :: acc)
      | REof => Some (rev acc)
      | RErr => None
      end
  end.

Definition read_asn1_cert_list (bs : bytes) (totalLenBytes elementLenBytes : nat)
  : option (list bytes * bytes) :=
  match read_var_bytes bs totalLenBytes with
  | ROk lb rest =>
      match cert_list_loop (S (length lb)) lb elementLenBytes [] with
      | Some l => Some (l, rest)
      | None => None
      end
  | _ => None
  end.

Definition unmarshal_x509_chain (bs : bytes) : option (list bytes) :=
  match read_asn1_cert_list bs 3 3 with
  | Some (l, _) => Some l
  | None => None
  end.

Definition unmarshal_precert_chain (bs : bytes) : option (list bytes) :=
  match read_var_bytes bs 3 with
  | ROk pre r =>
      match read_asn1_cert_list r 3 3 with
      | Some (l, _) => Some (pre :: l)
      | None => None
      end
  | _ => None
  end.

(* ---------- DigitallySigned ---------- *)
Record ds := { ds_hash : N; ds_alg : N; ds_sig : bytes }.

(* binary.Read of one byte *)
Definition read_byte (bs : bytes) : option (N * bytes) :=
  match bs with [] => None | b :: r => Some (b, r) end.

Definition unmarshal_ds (bs : bytes) : option (ds * bytes) :=
  match read_byte bs with
  | None => None
  | Some (h, r1) =>
      match read_byte r1 with
      | None => None
      | Some (s, r2) =>
          match read_var_bytes r2 2 with
          | ROk sig rest => Some ({| ds_hash := h; ds_alg := s; ds_sig := sig |}, rest)
          | _ => None
          end
      end
  end.

(* marshalDigitallySignedHere after the repair (error when the signature does
   not fit the 16-bit length); [here]: None = nil, Some n = a buffer of n bytes *)
Definition marshal_ds_here (d : ds) (here : option N) : option bytes :=
  let sigLen := N.of_nat (length (ds_sig d)) in
  if 65535 <? sigLen then None
  else
    let dsOutLen := 2 + 2 + sigLen in
    let fits := match here with None => true | Some n => negb (n <? dsOutLen) end in
    if fits
    then Some ([ds_hash d; ds_alg d] ++ be_encode 2 sigLen ++ ds_sig d)
    else None.

Definition marshal_ds (d : ds) : option bytes := marshal_ds_here d None.

(* the code before the repair: uint16(sigLen) silently truncated (kept for the
   refutation witness) *)
Definition marshal_ds_here_old (d : ds) (here : option N) : option bytes :=
  let sigLen := N.of_nat (length (ds_sig d)) in
  let dsOutLen := 2 + 2 + sigLen in
  let fits := match here with None => true | Some n => negb (n <? dsOutLen) end in
  if fits
  then Some ([ds_hash d; ds_alg d] ++ be_encode 2 sigLen ++ ds_sig d)
  else None.

(* ---------- SCT ---------- *)
Record sct := { sct_version : N; sct_logid : bytes; sct_ts : N; sct_ext : bytes; sct_sig : ds }.

Definition serialized_length (s : sct) : option N :=
  if sct_version s =? 0
  then Some (1 + 32 + 8 + 2 + N.of_nat (length (sct_ext s)) + 2 + 2 + N.of_nat (length (ds_sig (sct_sig s))))
  else None.

(* SerializeSCTHere -> serializeV1SCTHere *)
Definition serialize_sct_here (s : sct) (here : option N) : option bytes :=
  if negb (sct_version s =? 0) then None
  else match serialized_length s with
       | None => None
       | Some sctLen =>
           let fits := match here with None => true | Some n => negb (n <? sctLen) end in
           if negb fits then None
           else if 65535 <? N.of_nat (length (sct_ext s)) then None   (* checkExtensionsFormat *)
           else
             let sigLen := N.of_nat (length (ds_sig (sct_sig s))) in
             (* here[n:] has exactly 4 + sigLen bytes *)
             match marshal_ds_here (sct_sig s) (Some (4 + sigLen)) with
             | None => None
             | Some dsb =>
                 Some ([sct_version s] ++ sct_logid s ++ be_encode 8 (sct_ts s)
                       ++ be_encode 2 (N.of_nat (length (sct_ext s))) ++ sct_ext s ++ dsb)
             end
       end.

Definition serialize_sct (s : sct) : option bytes := serialize_sct_here s None.

Definition deserialize_sct (bs : bytes) : option (sct * bytes) :=
  match read_byte bs with
  | None => None
  | Some (v, r0) =>
      if negb (v =? 0) then None
      else match take_n 32 r0 with
           | None => None
           | Some (logid, r1) =>
               match take_n 8 r1 with
               | None => None
               | Some (tsb, r2) =>
                   match read_var_bytes r2 2 with
                   | ROk ext r3 =>
                       match unmarshal_ds r3 with
                       | Some (d, rest) =>
                           Some ({| sct_version := v; sct_logid := logid; sct_ts := be_decode tsb;
                                    sct_ext := ext; sct_sig := d |}, rest)
                       | None => None
                       end
                   | _ => None
                   end
               end
           end
  end.

(* ---------- MerkleTreeLeaf / TimestampedEntry ---------- *)
(* the Go struct carries both arms; the decoder fills the one named by EntryType *)
Record tsentry := { te_ts : N; te_type : N; te_x509 : bytes; te_ikh : bytes; te_tbs : bytes; te_ext : bytes }.
Record leaf := { lf_version : N; lf_type : N; lf_entry : tsentry }.

Definition zero32 : bytes := repeat 0 32.

Definition read_timestamped_entry (bs : bytes) : option (tsentry * bytes) :=
  match take_n 8 bs with
  | None => None
  | Some (tsb, r1) =>
      match take_n 2 r1 with
      | None => None
      | Some (etb, r2) =>
          let et := be_decode etb in
          let arm :=
            if et =? 0 then
              match read_var_bytes r2 3 with
              | ROk c r3 => Some (c, zero32, [], r3)
              | _ => None
              end
            else if et =? 1 then
              match take_n 32 r2 with
              | None => None
              | Some (ikh, r3) =>
                  match read_var_bytes r3 3 with
                  | ROk tbs r4 => Some ([], ikh, tbs, r4)
                  | _ => None
                  end
              end
            else None in
          match arm with
          | None => None
          | Some (c, ikh, tbs, r) =>
              match read_var_bytes r 2 with
              | ROk ext rest =>
                  Some ({| te_ts := be_decode tsb; te_type := et; te_x509 := c; te_ikh := ikh;
                           te_tbs := tbs; te_ext := ext |}, rest)
              | _ => None
              end
          end
      end
  end.

Definition read_merkle_tree_leaf (bs : bytes) : option (leaf * bytes) :=
  match read_byte bs with
  | None => None
  | Some (v, r1) =>
      if negb (v =? 0) then None
      else match read_byte r1 with
           | None => None
           | Some (lt, r2) =>
               if negb (lt =? 0) then None
               else match read_timestamped_entry r2 with
                    | Some (e, rest) => Some ({| lf_version := v; lf_type := lt; lf_entry := e |}, rest)
                    | None => None
                    end
           end
  end.

(* ---------- signature inputs ---------- *)
Definition check_certificate_format (cert : bytes) : bool :=
  negb (N.of_nat (length cert) =? 0) && negb (16777215 <? N.of_nat (length cert)).
Definition check_extensions_format (ext : bytes) : bool :=
  negb (65535 <? N.of_nat (length ext)).

Definition opt_app (a : option bytes) (b : option bytes) : option bytes :=
  match a, b with Some x, Some y => Some (x ++ y) | _, _ => None end.

Definition cert_sct_input (ts : N) (cert ext : bytes) : option bytes :=
  if negb (check_certificate_format cert) then None
  else if negb (check_extensions_format ext) then None
  else opt_app (Some ([0] ++ [0] ++ be_encode 8 ts ++ be_encode 2 0))
               (opt_app (write_var_bytes cert 3) (write_var_bytes ext 2)).

Definition precert_sct_input (ts : N) (ikh tbs ext : bytes) : option bytes :=
  if negb (check_certificate_format tbs) then None
  else if negb (check_extensions_format ext) then None
  else opt_app (Some ([0] ++ [0] ++ be_encode 8 ts ++ be_encode 2 1 ++ ikh))
               (opt_app (write_var_bytes tbs 3) (write_var_bytes ext 2)).

(* SerializeSCTSignatureInput(sct, entry): uses sct.SCTVersion, sct.Timestamp and
   entry.Leaf (LeafType, TimestampedEntry) *)
Definition sct_sig_input (version ts : N) (l : leaf) : option bytes :=
  if negb (version =? 0) then None
  else if negb (lf_type l =? 0) then None
  else
    let e := lf_entry l in
    if te_type e =? 0 then cert_sct_input ts (te_x509 e) (te_ext e)
    else if te_type e =? 1 then precert_sct_input ts (te_ikh e) (te_tbs e) (te_ext e)
    else None.

Record sth := { sth_version : N; sth_size : N; sth_ts : N; sth_root : bytes }.

Definition sth_sig_input (s : sth) : option bytes :=
  if negb (sth_version s =? 0) then None
  else if negb (N.of_nat (length (sth_root s)) =? 32) then None
  else Some ([0] ++ [1] ++ be_encode 8 (sth_ts s) ++ be_encode 8 (sth_size s) ++ sth_root s).

(* ---------- verifier ---------- *)
Inductive keykind := KRsa (bits : N) | KEcdsa (p256 : bool) | KOther.

(* NewSignatureVerifier: RSA needs >= 2048 bits, ECDSA needs P-256 *)
Definition new_verifier (k : keykind) : bool :=
  match k with
  | KRsa bits => negb (bits <? 2048)
  | KEcdsa p => p
  | KOther => false
  end.

(* verifySignature: [kind] classifies the key; [sha256], [rsa_verify]
   (rsa.VerifyPKCS1v15 with SHA-256) and [ecdsa_verify] (ecdsa.VerifyASN1) are
   the trusted primitives *)
Section Verify.
  Context {K : Type}.
  Variable kind : K -> keykind.
  Variable sha256 : bytes -> bytes.
  Variable rsa_verify : K -> bytes -> bytes -> bool.
  Variable ecdsa_verify : K -> bytes -> bytes -> bool.

  Definition verify_signature (k : K) (data : bytes) (d : ds) : bool :=
    if negb (ds_hash d =? 4) then false
    else
      let hash := sha256 data in
      if ds_alg d =? 1 then
        match kind k with
        | KRsa _ => rsa_verify k hash (ds_sig d)
        | _ => false
        end
      else if ds_alg d =? 3 then
        match kind k with
        | KEcdsa _ => ecdsa_verify k hash (ds_sig d)
        | _ => false
        end
      else false.

  Definition verify_sct_signature (k : K) (s : sct) (l : leaf) : bool :=
    match sct_sig_input (sct_version s) (sct_ts s) l with
    | None => false
    | Some data => verify_signature k data (sct_sig s)
    end.

  Definition verify_sth_signature (k : K) (s : sth) (sig : ds) : bool :=
    match sth_sig_input s with
    | None => false
    | Some data => verify_signature k data sig
    end.
End Verify.

(* ---------- correspondence cases ---------- *)
Definition opt_bytes_eqb (a : option bytes) (b : option bspec) : bool :=
  match a, b with
  | None, None => true
  | Some x, Some y => bytes_eqb x (expand y)
  | _, _ => false
  end.

Definition len (b : bytes) : N := N.of_nat (length b).

Definition ds_obs_eqb (d : ds) (o : N * N * bspec) : bool :=
  let '(h, a, sg) := o in
  (ds_hash d =? h) && (ds_alg d =? a) && bytes_eqb (ds_sig d) (expand sg).

Definition mk_ds (h a : N) (sg : bspec) : ds := {| ds_hash := h; ds_alg := a; ds_sig := expand sg |}.

Definition tsentry_obs_eqb (e : tsentry) (o : N * N * bspec * bytes * bspec * bspec) : bool :=
  let '(ts, et, c, ikh, tbs, ext) := o in
  (te_ts e =? ts) && (te_type e =? et) && bytes_eqb (te_x509 e) (expand c) && bytes_eqb (te_ikh e) ikh
  && bytes_eqb (te_tbs e) (expand tbs) && bytes_eqb (te_ext e) (expand ext).

Definition mk_leaf (lt : N) (o : N * N * bspec * bytes * bspec * bspec) : leaf :=
  let '(ts, et, c, ikh, tbs, ext) := o in
  {| lf_version := 0; lf_type := lt;
     lf_entry := {| te_ts := ts; te_type := et; te_x509 := expand c; te_ikh := ikh;
                    te_tbs := expand tbs; te_ext := expand ext |} |}.

(* the observed side of a read: value and number of unread bytes; None = error *)
Definition rres_obs {A B} (eqb : A -> B -> bool) (r : rres A) (o : option (B * N)) : bool :=
  match r, o with
  | ROk a rest, Some (b, n) => eqb a b && (len rest =? n)
  | REof, None => true
  | RErr, None => true
  | _, _ => false
  end.

Definition opt_obs {A B} (eqb : A -> B -> bool) (r : option (A * bytes)) (o : option (B * N)) : bool :=
  match r, o with
  | Some (a, rest), Some (b, n) => eqb a b && (len rest =? n)
  | None, None => true
  | _, _ => false
  end.

(* ---- exhaustive enumeration of readASN1CertList inputs, folded into one
   rolling checksum that the Go side computes in the same traversal order ---- *)
Definition mixP : N := 1000000007.
Definition mix (h x : N) : N := (h * 31 + x + 1) mod mixP.

Definition hash_cert_list (h : N) (r : option (list bytes * bytes)) : N :=
  match r with
  | None => mix h 0
  | Some (l, rest) =>
      mix (fold_left (fun h c => fold_left mix c (mix h (len c))) l (mix (mix h 1) (len rest))) 99
  end.

(* depth-first, preorder: the string itself, then its extensions by each
   alphabet byte in order *)
Fixpoint enum_cert_list (alpha : bytes) (d : nat) (pre : bytes) (total elem : nat) (h : N) : N :=
  let h1 := hash_cert_list h (read_asn1_cert_list pre total elem) in
  match d with
  | O => h1
  | S d' => fold_left (fun h a => enum_cert_list alpha d' (pre ++ [a]) total elem h) alpha h1
  end.

Inductive case :=
(* copy: 0 = ct, 1 = x509/ct (same model function) *)
| CWriteUint (copy : N) (value : N) (n : nat) (obs : option bytes)
| CWriteVar (copy : N) (v : bspec) (n : nat) (obs : option bspec)
| CReadUint (copy : N) (bs : bspec) (n : nat) (obs : option (N * N))
| CReadVar (copy : N) (bs : bspec) (n : nat) (obs : option (bspec * N))
| CMarshalDS (copy : N) (h a : N) (sg : bspec) (here : option N) (obs : option bspec)
| CUnmarshalDS (copy : N) (bs : bspec) (obs : option (N * N * bspec * N))
| CSerializeSCT (logid : bytes) (v ts : N) (ext : bspec) (h a : N) (sg : bspec) (here : option N)
                (obslen : option N) (obs : option bspec)
| CDeserializeSCT (copy : N) (bs : bspec)
                  (obs : option (N * bytes * N * bspec * (N * N * bspec) * N))
| CLeaf (bs : bspec) (obs : option (N * N * (N * N * bspec * bytes * bspec * bspec) * N))
| CCertList (bs : bspec) (total elem : nat) (obs : option (list bspec * N))
| CCertListEnum (alpha : bytes) (depth total elem : nat) (h : N)
| CChain (precert : bool) (bs : bspec) (obs : option (list bspec))
| CSctInput (version ts lt : N) (e : N * N * bspec * bytes * bspec * bspec) (obs : option bspec)
| CSthInput (version size ts : N) (root : bytes) (obs : option bspec)
| CNewVerifier (k : keykind) (obs : bool)
| CVerify (k : keykind) (h a : N) (rsa_ok ecdsa_ok : bool) (obs : bool)
(* VerifySCTSignature / VerifySTHSignature: the primitives' verdicts are those
   for the independently built RFC 6962 input *)
| CVerifySCT (k : keykind) (version ts lt : N) (e : N * N * bspec * bytes * bspec * bspec) (h a : N)
             (rsa_ok ecdsa_ok : bool) (obs : bool)
| CVerifySTH (k : keykind) (version size ts : N) (root : bytes) (h a : N)
             (rsa_ok ecdsa_ok : bool) (obs : bool).

Definition list_obs_eqb (l : list bytes) (o : list bspec) : bool :=
  list_eqb bytes_eqb l (map expand o).

Definition check_case (c : case) : bool :=
  match c with
  | CWriteUint _ value n obs => option_eqb bytes_eqb (write_uint value n) obs
  | CWriteVar _ v n obs => opt_bytes_eqb (write_var_bytes (expand v) n) obs
  | CReadUint _ bs n obs => rres_obs N.eqb (read_uint (expand bs) n) obs
  | CReadVar _ bs n obs => rres_obs (fun a b => bytes_eqb a (expand b)) (read_var_bytes (expand bs) n) obs
  | CMarshalDS _ h a sg here obs => opt_bytes_eqb (marshal_ds_here (mk_ds h a sg) here) obs
  | CUnmarshalDS _ bs obs =>
      opt_obs ds_obs_eqb (unmarshal_ds (expand bs))
              (match obs with Some (h, a, sg, n) => Some ((h, a, sg), n) | None => None end)
  | CSerializeSCT logid v ts ext h a sg here obslen obs =>
      let s := {| sct_version := v; sct_logid := logid; sct_ts := ts; sct_ext := expand ext;
                  sct_sig := mk_ds h a sg |} in
      option_eqb N.eqb (serialized_length s) obslen && opt_bytes_eqb (serialize_sct_here s here) obs
  | CDeserializeSCT _ bs obs =>
      opt_obs (fun (s : sct) (o : N * bytes * N * bspec * (N * N * bspec)) =>
                 let '(v, logid, ts, ext, d) := o in
                 (sct_version s =? v) && bytes_eqb (sct_logid s) logid && (sct_ts s =? ts)
                 && bytes_eqb (sct_ext s) (expand ext) && ds_obs_eqb (sct_sig s) d)
              (deserialize_sct (expand bs))
              (match obs with Some (v, logid, ts, ext, d, n) => Some ((v, logid, ts, ext, d), n) | None => None end)
  | CLeaf bs obs =>
      opt_obs (fun (l : leaf) (o : N * N * (N * N * bspec * bytes * bspec * bspec)) =>
                 let '(v, lt, e) := o in
                 (lf_version l =? v) && (lf_type l =? lt) && tsentry_obs_eqb (lf_entry l) e)
              (read_merkle_tree_leaf (expand bs))
              (match obs with Some (v, lt, e, n) => Some ((v, lt, e), n) | None => None end)
  | CCertList bs total elem obs =>
      opt_obs list_obs_eqb (read_asn1_cert_list (expand bs) total elem) obs
  | CCertListEnum alpha depth total elem h => enum_cert_list alpha depth [] total elem 0 =? h
  | CChain precert bs obs =>
      match (if precert then unmarshal_precert_chain (expand bs) else unmarshal_x509_chain (expand bs)), obs with
      | Some l, Some o => list_obs_eqb l o
      | None, None => true
      | _, _ => false
      end
  | CSctInput version ts lt e obs => opt_bytes_eqb (sct_sig_input version ts (mk_leaf lt e)) obs
  | CSthInput version size ts root obs =>
      opt_bytes_eqb (sth_sig_input {| sth_version := version; sth_size := size; sth_ts := ts; sth_root := root |}) obs
  | CNewVerifier k obs => Bool.eqb (new_verifier k) obs
  | CVerify k h a rsa_ok ecdsa_ok obs =>
      Bool.eqb (verify_signature (fun k => k) (fun _ => []) (fun _ _ _ => rsa_ok) (fun _ _ _ => ecdsa_ok)
                                 k [] {| ds_hash := h; ds_alg := a; ds_sig := [] |}) obs
  | CVerifySCT k version ts lt e h a rsa_ok ecdsa_ok obs =>
      Bool.eqb (verify_sct_signature (fun k => k) (fun _ => []) (fun _ _ _ => rsa_ok) (fun _ _ _ => ecdsa_ok) k
                  {| sct_version := version; sct_logid := []; sct_ts := ts; sct_ext := [];
                     sct_sig := {| ds_hash := h; ds_alg := a; ds_sig := [] |} |} (mk_leaf lt e)) obs
  | CVerifySTH k version size ts root h a rsa_ok ecdsa_ok obs =>
      Bool.eqb (verify_sth_signature (fun k => k) (fun _ => []) (fun _ _ _ => rsa_ok) (fun _ _ _ => ecdsa_ok) k
                  {| sth_version := version; sth_size := size; sth_ts := ts; sth_root := root |}
                  {| ds_hash := h; ds_alg := a; ds_sig := [] |}) obs
  end.
