(* C30Direct — statement-by-statement mirrors of the index-arithmetic decoders that C30.v
   describes by an equivalent DSL format (proof/C30DirectProofs.v proves them equal on all inputs).
   Executable definitions only. *)
From Coq Require Import List NArith Bool Arith.
From Verif Require Import Harness WireTLS.
Import ListNotations.
Open Scope N_scope.

(* data[off : off+n] *)
Definition sub (off n : nat) (s : bytes) : bytes := firstn n (skipn off s).

(* clientKeyExchangeMsg.unmarshal, serverKeyExchangeMsg.unmarshal:
     if len(data) < 4 { return false }
     l := int(data[1])<<16 | int(data[2])<<8 | int(data[3])
     if l != len(data)-4 { return false }
     m.ciphertext = data[4:] *)
Definition dec_kx_direct (s : bytes) : option bytes :=
  if blen s <? 4 then None
  else if negb (be_dec (sub 1 3 s) =? blen s - 4) then None
  else Some (skipn 4 s).

(* newSessionTicketMsg.unmarshal:
     if len(data) < 10 { return false }
     length := uint32(data[1])<<16 | uint32(data[2])<<8 | uint32(data[3])
     if uint32(len(data))-4 != length { return false }
     m.lifetimeHint = uint32(data[4])<<24 | ... | uint32(data[7])
     ticketLen := int(data[8])<<8 + int(data[9])
     if len(data)-10 != ticketLen { return false }
     m.ticket = data[10:] *)
Definition dec_nst_direct (s : bytes) : option (N * bytes) :=
  if blen s <? 10 then None
  else if negb (blen s - 4 =? be_dec (sub 1 3 s)) then None
  else if negb (blen s - 10 =? be_dec (sub 8 2 s)) then None
  else Some (be_dec (sub 4 4 s), skipn 10 s).
