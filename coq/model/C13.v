(* C13 — model of x509/revocation/ocsp/ocsp.go: CreateResponse / CreateRequest as DER trees
   (lib/DerTree.v) emitted to bytes, ParseResponse / ParseResponseForCert / ParseRequest as a
   type-directed reading of the generic DER tree of the input that follows encoding/asn1's field
   rules (optional fields, implicit and explicit context tags — an explicit wrapper is peeled
   off the flat element stream exactly as parseField does), and the acceptance control flow
   with the signature check [sigok] and the certificate parser [pcert] as parameters.
   Executable definitions only.

   Domain of the reader: inputs whose constructed elements contain DER elements (what
   DerTree.parse accepts); OBJECT IDENTIFIER contents and attribute-value strings are taken as
   well formed; GeneralizedTime / UTCTime only in the "...Z" form the writers produce.
   Times are civil tuples (lib/DerPrim.v); the zero time.Time is 0001-01-01 00:00:00. *)
From Coq Require Import List NArith ZArith Bool.
From Verif Require Import Harness DerTree DerPrim.
From VerifGen Require Import C13_gen.
Import ListNotations.
Local Open Scope N_scope.

(* ------------------------------------------------------------------ *)
(* DER nodes                                                           *)
Definition seq (kids : list dv) : dv := Cons 0 16 kids.
Definition oidn (c : bytes) : dv := Prim 0 6 c.
Definition octets (c : bytes) : dv := Prim 0 4 c.
Definition intn (z : Z) : dv := Prim 0 2 (enc_int z).
Definition enumn (z : Z) : dv := Prim 0 10 (enc_int z).
Definition gentime_content (c : civil) : bytes := four (cy c) ++ time_common c.
Definition gent (c : civil) : dv := Prim 0 24 (gentime_content c).
Definition nulln : dv := Prim 0 5 [].
Definition booln (b : bool) : dv := Prim 0 1 (enc_bool b).
Definition bitstr (bs : bytes) : dv := Prim 0 3 (0 :: bs).
Definition expl (n : N) (d : dv) : dv := Cons 2 n [d].

Definition zero_civil : civil := {| cy := 1; cmo := 1; cd := 1; ch := 0; cmi := 0; cs := 0 |}.

Fixpoint lookup_oid {A} (o : bytes) (l : list (A * bytes)) : option A :=
  match l with
  | [] => None
  | (a, o') :: r => if bytes_eqb o o' then Some a else lookup_oid o r
  end.
Fixpoint oid_of_hash (h : N) (l : list (N * bytes)) : option bytes :=
  match l with
  | [] => None
  | (h', o) :: r => if h =? h' then Some o else oid_of_hash h r
  end.

(* ------------------------------------------------------------------ *)
(* wire-level values (the Go structs singleResponse, responseData, basicResponse) *)
Record wext := { e_oid : bytes; e_crit : bool; e_val : bytes }.

Record wsingle := {
  w_hashoid : bytes; w_namehash : bytes; w_keyhash : bytes; w_serial : Z;
  w_good : bool; w_revoked : option (civil * Z); w_unknown : bool;
  w_this : civil; w_next : civil; w_exts : list wext }.

Inductive rid := ByName (name : dv) | ByKey (h : bytes).

Record wtbs := { t_version : option Z; t_rid : rid; t_produced : civil;
                 t_singles : list wsingle; t_extra : list dv }.

Record wbasic := { b_tbs : wtbs; b_sigoid : bytes; b_sigparams : bool; b_sig : bytes;
                   b_certs : list dv }.

Definition build_ext (e : wext) : dv :=
  seq ([oidn (e_oid e)] ++ (if e_crit e then [booln true] else []) ++ [octets (e_val e)]).

Definition build_certid (w : wsingle) : dv :=
  seq [seq [oidn (w_hashoid w); nulln]; octets (w_namehash w); octets (w_keyhash w); intn (w_serial w)].

Definition build_revoked (tr : civil * Z) : dv :=
  Cons 2 1 ([gent (fst tr)] ++ (if (snd tr =? 0)%Z then [] else [expl 0 (enumn (snd tr))])).

Definition build_single (w : wsingle) : dv :=
  seq ([build_certid w] ++
       (if w_good w then [Prim 2 0 []] else []) ++
       (match w_revoked w with Some tr => [build_revoked tr] | None => [] end) ++
       (if w_unknown w then [Prim 2 2 []] else []) ++
       [gent (w_this w)] ++
       (if civil_eqb (w_next w) zero_civil then [] else [expl 0 (gent (w_next w))]) ++
       (match w_exts w with [] => [] | es => [expl 1 (seq (map build_ext es))] end)).

Definition build_rid (r : rid) : dv :=
  match r with
  | ByName n => Cons 2 1 [n]
  | ByKey h => Cons 2 2 [octets h]
  end.

Definition build_tbs (t : wtbs) : dv :=
  seq ((match t_version t with Some v => [expl 0 (intn v)] | None => [] end) ++
       [build_rid (t_rid t); gent (t_produced t); seq (map build_single (t_singles t))] ++
       t_extra t).

Definition build_algid (o : bytes) (params : bool) : dv :=
  seq ([oidn o] ++ (if params then [nulln] else [])).

Definition build_basic (b : wbasic) : dv :=
  seq ([build_tbs (b_tbs b); build_algid (b_sigoid b) (b_sigparams b); bitstr (b_sig b)] ++
       (match b_certs b with [] => [] | cs => [expl 0 (seq cs)] end)).

Definition build_outer (status : Z) (inner : option bytes) : dv :=
  seq ([enumn status] ++
       (match inner with
        | Some r => [expl 0 (seq [oidn ocsp_basic_oid; octets r])]
        | None => []
        end)).

Definition build_response (b : wbasic) : bytes :=
  emit (build_outer 0 (Some (emit (build_basic b)))).

(* ------------------------------------------------------------------ *)
(* CreateResponse                                                      *)
(* Status: 0 Good, 1 Revoked, 2 Unknown (anything else sets no status, as in Go) *)
Record template := {
  tp_status : N; tp_serial : Z; tp_this : civil; tp_next : civil; tp_revoked_at : civil;
  tp_reason : Z; tp_hash : N; tp_sigalg : N; tp_exts : list wext; tp_cert : option dv }.

(* signingParamsForPublicKey.  key kind: 1 RSA, 2 ECDSA P-224, 3 P-256, 4 P-384, 5 P-521.
   Result: (hash, signature algorithm OID, NULL parameters present) *)
Fixpoint find_sigalg (a : N) (l : list (N * N * N * bytes)) : option (N * N * bytes) :=
  match l with
  | [] => None
  | (a', pk, h, o) :: r => if a =? a' then Some (pk, h, o) else find_sigalg a r
  end.
Fixpoint sigalg_of_oid (o : bytes) (l : list (N * N * N * bytes)) : N :=
  match l with
  | [] => 0
  | (a, _, _, o') :: r => if bytes_eqb o o' then a else sigalg_of_oid o r
  end.

Definition oid_sha256_rsa : bytes := [42;134;72;134;247;13;1;1;11].
Definition oid_ecdsa_sha256 : bytes := [42;134;72;206;61;4;3;2].
Definition oid_ecdsa_sha384 : bytes := [42;134;72;206;61;4;3;3].
Definition oid_ecdsa_sha512 : bytes := [42;134;72;206;61;4;3;4].

Definition signing_params (keykind requested : N) : option (N * bytes * bool) :=
  let dflt :=
    if keykind =? 1 then Some (1, 5, oid_sha256_rsa, true)
    else if (keykind =? 2) || (keykind =? 3) then Some (3, 5, oid_ecdsa_sha256, false)
    else if keykind =? 4 then Some (3, 6, oid_ecdsa_sha384, false)
    else if keykind =? 5 then Some (3, 7, oid_ecdsa_sha512, false)
    else None in
  match dflt with
  | None => None
  | Some (pk, h, o, p) =>
      if requested =? 0 then Some (h, o, p)
      else match find_sigalg requested sigalg_oids with
           | None => None                                  (* unknown SignatureAlgorithm *)
           | Some (pk', h', o') =>
               if negb (pk' =? pk) then None               (* does not match private key type *)
               else if h' =? 0 then None                   (* cannot sign with hash function *)
               else Some (h', o', p)
           end
  end.

(* the singleResponse CreateResponse builds from the template *)
Definition single_of_template (tp : template) (hashoid namehash keyhash : bytes) : wsingle :=
  {| w_hashoid := hashoid; w_namehash := namehash; w_keyhash := keyhash; w_serial := tp_serial tp;
     w_good := tp_status tp =? 0;
     w_revoked := if tp_status tp =? 1
                  then (if civil_eqb (tp_revoked_at tp) zero_civil && (tp_reason tp =? 0)%Z
                        then None else Some (tp_revoked_at tp, tp_reason tp))
                  else None;
     w_unknown := tp_status tp =? 2;
     w_this := tp_this tp; w_next := tp_next tp; w_exts := tp_exts tp |}.

(* inputs that come from outside the modelled code: the issuer hashes, the responder's subject,
   time.Now() and the signature bytes.  Result: the DER bytes and the TBSResponseData bytes *)
Definition create_response (tp : template) (keykind : N) (namehash keyhash : bytes)
           (responder : dv) (produced : civil) (sig : bytes) : option (bytes * bytes) :=
  let h := if tp_hash tp =? 0 then 3 else tp_hash tp in
  match oid_of_hash h hash_oids with
  | None => None
  | Some hashoid =>
      match signing_params keykind (tp_sigalg tp) with
      | None => None
      | Some (_, sigoid, params) =>
          let t := {| t_version := None; t_rid := ByName responder; t_produced := produced;
                      t_singles := [single_of_template tp hashoid namehash keyhash]; t_extra := [] |} in
          let b := {| b_tbs := t; b_sigoid := sigoid; b_sigparams := params; b_sig := sig;
                      b_certs := match tp_cert tp with Some c => [c] | None => [] end |} in
          Some (build_response b, emit (build_tbs t))
      end
  end.

(* ------------------------------------------------------------------ *)
(* reading: field readers over the element stream of a SEQUENCE          *)
Inductive rr (A : Type) := RFail | RNo | ROk (a : A) (rest : list dv).
Arguments RFail {A}. Arguments RNo {A}. Arguments ROk {A} a rest.

Definition req {A} (r : rr A) : option (A * list dv) :=
  match r with ROk a rest => Some (a, rest) | _ => None end.
Definition opt {A} (dflt : A) (kids : list dv) (r : rr A) : option (A * list dv) :=
  match r with ROk a rest => Some (a, rest) | RNo => Some (dflt, kids) | RFail => None end.

Definition u_prim {A} (tag : N) (f : bytes -> option A) (kids : list dv) : rr A :=
  match kids with
  | Prim c t body :: rest =>
      if (c =? 0) && (t =? tag) then match f body with Some a => ROk a rest | None => RFail end
      else RNo
  | _ => RNo
  end.

Definition short_int (n : nat) (c : bytes) : option Z :=
  if (n <? length c)%nat then None else dec_int c.
Definition nonempty (c : bytes) : option bytes := match c with [] => None | _ => Some c end.

Definition u_int64 := u_prim 2 (short_int 8).
Definition u_bigint := u_prim 2 dec_int.
Definition u_enum := u_prim 10 (short_int 4).
Definition u_oid := u_prim 6 nonempty.
Definition u_octets := u_prim 4 (fun c => Some c).
Definition u_bool := u_prim 1 dec_bool.

Definition u_time (kids : list dv) : rr civil :=
  match kids with
  | Prim c t body :: rest =>
      if (c =? 0) && ((t =? 23) || (t =? 24))
      then match dec_time t body with Some v => ROk v rest | None => RFail end
      else RNo
  | _ => RNo
  end.

Definition u_seq (kids : list dv) : rr (list dv) :=
  match kids with
  | Cons c t ks :: rest => if (c =? 0) && (t =? 16) then ROk ks rest else RNo
  | _ => RNo
  end.

Definition u_any (kids : list dv) : rr dv :=
  match kids with d :: rest => ROk d rest | [] => RNo end.

(* BIT STRING content -> RightAlign()ed bytes *)
Fixpoint shift_right (s : N) (prev : N) (bs : bytes) : bytes :=
  match bs with
  | [] => []
  | b :: r => ((prev * 2 ^ (8 - s)) mod 256 + b / 2 ^ s) :: shift_right s b r
  end.
Definition parse_bitstring (c : bytes) : option bytes :=
  match c with
  | [] => None
  | pad :: bs =>
      if (7 <? pad) || (match bs with [] => negb (pad =? 0) | _ => false end) then None
      else if negb ((last bs 0) mod 2 ^ pad =? 0) then None
      else Some (if pad =? 0 then bs else shift_right pad 0 bs)
  end.
Definition u_bitstring := u_prim 3 parse_bitstring.

(* explicit,tag:n — the wrapper is peeled off the flat stream *)
Definition body_empty (d : dv) : bool :=
  match d with Prim _ _ [] => true | Cons _ _ [] => true | _ => false end.

Definition opt_explicit {A} (n : N) (rd : list dv -> rr A) (dflt : A) (kids : list dv)
  : option (A * list dv) :=
  match kids with
  | [] => Some (dflt, [])
  | d :: rest =>
      if body_empty d && (match rest with [] => true | _ => false end) then None   (* explicit tag has no child *)
      else
        match d with
        | Cons c t ks =>
            if (c =? 2) && (t =? n)
            then match ks with
                 | [] => None                               (* zero length explicit tag *)
                 | _ => opt dflt kids (rd (ks ++ rest))
                 end
            else Some (dflt, kids)
        | Prim c t body =>
            if (c =? 2) && (t =? n) && (match body with [] => true | _ => false end) then None
            else Some (dflt, kids)
        end
  end.

Notation "'let*' p ':=' e 'in' f" :=
  (match e with Some p => f | None => None end)
  (at level 200, p pattern, e at level 100, f at level 200).

(* a struct field: the element must be a universal SEQUENCE; its fields are read by [f] *)
Definition f_struct {A} (f : list dv -> option A) (kids : list dv) : rr A :=
  match u_seq kids with
  | ROk ks rest => match f ks with Some a => ROk a rest | None => RFail end
  | RNo => RNo
  | RFail => RFail
  end.

(* SEQUENCE OF struct: every element must be a universal SEQUENCE *)
Fixpoint seq_of {A} (f : list dv -> option A) (l : list dv) : option (list A) :=
  match l with
  | [] => Some []
  | Cons c t ks :: r =>
      if (c =? 0) && (t =? 16)
      then match f ks, seq_of f r with
           | Some a, Some l' => Some (a :: l')
           | _, _ => None
           end
      else None
  | _ => None
  end.

(* AlgorithmIdentifier { Algorithm OID; Parameters RawValue optional } *)
Definition parse_algid (ks : list dv) : option bytes :=
  let* (o, _) := req (u_oid ks) in Some o.

Definition parse_ext (ks : list dv) : option wext :=
  let* (o, r1) := req (u_oid ks) in
  let* (crit, r2) := opt false r1 (u_bool r1) in
  let* (v, _) := req (u_octets r2) in
  Some {| e_oid := o; e_crit := crit; e_val := v |}.

Definition parse_revoked (ks : list dv) : option (civil * Z) :=
  let* (t, r1) := req (u_time ks) in
  let* (reason, _) := opt_explicit 0 u_enum 0%Z r1 in
  Some (t, reason).

(* implicit context tags *)
Definition i_flag (n : N) (kids : list dv) : bool * list dv :=
  match kids with
  | Prim c t _ :: rest => if (c =? 2) && (t =? n) then (true, rest) else (false, kids)
  | _ => (false, kids)
  end.
Definition i_struct {A} (n : N) (f : list dv -> option A) (dflt : A) (kids : list dv)
  : option (A * list dv) :=
  match kids with
  | Cons c t ks :: rest =>
      if (c =? 2) && (t =? n)
      then match f ks with Some a => Some (a, rest) | None => None end
      else Some (dflt, kids)
  | _ => Some (dflt, kids)
  end.

Record certid := { ci_hashoid : bytes; ci_namehash : bytes; ci_keyhash : bytes; ci_serial : Z }.

Definition parse_certid (ks : list dv) : option certid :=
  let* (o, r1) := req (f_struct parse_algid ks) in
  let* (nh, r2) := req (u_octets r1) in
  let* (kh, r3) := req (u_octets r2) in
  let* (s, _) := req (u_bigint r3) in
  Some {| ci_hashoid := o; ci_namehash := nh; ci_keyhash := kh; ci_serial := s |}.

Definition parse_single (ks : list dv) : option wsingle :=
  let* (cid, r1) := req (f_struct parse_certid ks) in
  let '(good, r2) := i_flag 0 r1 in
  let* (rev, r3) := i_struct 1 (fun k => option_map Some (parse_revoked k)) None r2 in
  let '(unk, r4) := i_flag 2 r3 in
  let* (this, r5) := req (u_time r4) in
  let* (next, r6) := opt_explicit 0 u_time zero_civil r5 in
  let* (exts, _) := opt_explicit 1 (f_struct (seq_of parse_ext)) [] r6 in
  Some {| w_hashoid := ci_hashoid cid; w_namehash := ci_namehash cid; w_keyhash := ci_keyhash cid;
          w_serial := ci_serial cid; w_good := good; w_revoked := rev; w_unknown := unk;
          w_this := this; w_next := next; w_exts := exts |}.

(* responseData: (responder id element, producedAt, single responses) *)
Definition parse_tbs (ks : list dv) : option (dv * civil * list wsingle) :=
  let* (_, r1) := opt_explicit 0 u_int64 0%Z ks in
  let* (ridn, r2) := req (u_any r1) in
  let* (produced, r3) := req (u_time r2) in
  let* (singles, _) := req (f_struct (seq_of parse_single) r3) in
  Some (ridn, produced, singles).

Record pbasic := { pb_tbs_raw : bytes; pb_rid : dv; pb_produced : civil; pb_singles : list wsingle;
                   pb_sigoid : bytes; pb_sig : bytes; pb_certs : list bytes }.

Definition parse_basic (ks : list dv) : option pbasic :=
  match ks with
  | tbsn :: r1 =>
      let* (t, _) := req (f_struct parse_tbs [tbsn]) in
      let* (so, r2) := req (f_struct parse_algid r1) in
      let* (sg, r3) := req (u_bitstring r2) in
      let* (certs, _) := opt_explicit 0 (f_struct (fun l => Some (map emit l))) [] r3 in
      let '(ridn, produced, singles) := t in
      Some {| pb_tbs_raw := emit tbsn; pb_rid := ridn; pb_produced := produced; pb_singles := singles;
              pb_sigoid := so; pb_sig := sg; pb_certs := certs |}
  | [] => None
  end.

(* responseASN1: (status, response type, response bytes) *)
Definition parse_outer (ks : list dv) : option (Z * bytes * bytes) :=
  let* (st, r1) := req (u_enum ks) in
  let* (rb, _) := opt_explicit 0
                    (f_struct (fun k => let* (o, k1) := req (u_oid k) in
                                        let* (v, _) := req (u_octets k1) in Some (o, v)))
                    ([], []) r1 in
  Some (st, fst rb, snd rb).

(* asn1.Unmarshal of a whole buffer into a struct, no trailing data *)
Definition unmarshal_struct {A} (f : list dv -> option A) (bs : bytes) : option A :=
  match parse bs with
  | Some (d, []) => match f_struct f [d] with ROk a _ => Some a | _ => None end
  | _ => None
  end.

(* RDNSequence shape (asn1.Unmarshal(bytes, &rdn)): SEQUENCE OF SET OF SEQUENCE { OID, value, ... } *)
Definition atv_shape (d : dv) : bool :=
  match d with
  | Cons 0 16 (Prim 0 6 (_ :: _) :: _ :: _) => true
  | _ => false
  end.
Definition rdn_shape (d : dv) : bool :=
  match d with Cons 0 17 atvs => forallb atv_shape atvs | _ => false end.
Definition name_shape (d : dv) : bool :=
  match d with Cons 0 16 sets => forallb rdn_shape sets | _ => false end.

Definition node_content (d : dv) : bytes :=
  match d with Prim _ _ c => c | Cons _ _ ks => flat_map emit ks end.
Definition node_tag (d : dv) : N := match d with Prim _ t _ => t | Cons _ t _ => t end.

(* ------------------------------------------------------------------ *)
(* ParseResponseForCert                                                *)
Record presp := {
  p_status : N; p_serial : Z; p_revoked : bool;
  p_produced : civil; p_this : civil; p_next : civil; p_revoked_at : civil; p_reason : Z;
  p_sigalg : N; p_hash : N; p_rname : bytes; p_rkey : bytes; p_exts : list wext;
  p_tbs : bytes; p_sig : bytes; p_cert : option bytes }.

Inductive outcome := Rej | RespErr (status : Z) | Acc (r : presp).

(* an embedded certificate as far as this code looks at it *)
Record certinfo := { c_key : N; c_alg : N; c_tbs : bytes; c_sig : bytes }.

Definition select_single (cert : option Z) (l : list wsingle) : option wsingle :=
  match cert with
  | None => hd_error l
  | Some s => find (fun w => Z.eqb s (w_serial w)) l
  end.

Section Accept.
  (* issuer.CheckSignature / ret.CheckSignatureFrom: key, algorithm, signed bytes, signature *)
  Variable sigok : N -> N -> bytes -> bytes -> bool.
  (* x509.ParseCertificate on the embedded certificate *)
  Variable pcert : bytes -> option certinfo.

  (* the two signature branches; None = rejected *)
  Definition check_signatures (issuer : option N) (alg : N) (tbs sig : bytes) (certs : list bytes)
    : option (option bytes) :=
    match certs with
    | c :: _ =>
        match pcert c with
        | None => None
        | Some ci =>
            if negb (sigok (c_key ci) alg tbs sig) then None
            else match issuer with
                 | Some ik => if sigok ik (c_alg ci) (c_tbs ci) (c_sig ci) then Some (Some c) else None
                 | None => Some (Some c)
                 end
        end
    | [] =>
        match issuer with
        | Some ik => if sigok ik alg tbs sig then Some None else None
        | None => Some None
        end
    end.

  Definition responder_id (ridn : dv) : option (bytes * bytes) :=
    let c := node_content ridn in
    if node_tag ridn =? 1 then
      match parse_all c with
      | Some n => if name_shape n then Some (c, []) else None
      | None => None
      end
    else if node_tag ridn =? 2 then
      match parse_all c with
      | Some (Prim 0 4 h) => Some ([], h)
      | _ => None
      end
    else None.

  Definition accept_basic (pb : pbasic) (cert : option Z) (issuer : option N) : outcome :=
    let n := length (pb_singles pb) in
    if (n =? 0)%nat || (match cert with None => (1 <? n)%nat | Some _ => false end) then Rej
    else
      match select_single cert (pb_singles pb) with
      | None => Rej                                        (* no response matching the certificate *)
      | Some w =>
          match responder_id (pb_rid pb) with
          | None => Rej
          | Some (rname, rkey) =>
              let alg := sigalg_of_oid (pb_sigoid pb) sigalg_oids in
              match check_signatures issuer alg (pb_tbs_raw pb) (pb_sig pb) (pb_certs pb) with
              | None => Rej
              | Some emb =>
                  if existsb e_crit (w_exts w) then Rej
                  else match lookup_oid (w_hashoid w) (map (fun ho => (fst ho, snd ho)) hash_oids) with
                       | None => Rej
                       | Some h =>
                           let revoked := negb (w_good w) && negb (w_unknown w) in
                           let ri := match w_revoked w with Some tr => tr | None => (zero_civil, 0%Z) end in
                           Acc {| p_status := if w_good w then 0 else if w_unknown w then 2 else 1;
                                  p_serial := w_serial w; p_revoked := revoked;
                                  p_produced := pb_produced pb; p_this := w_this w; p_next := w_next w;
                                  p_revoked_at := if revoked then fst ri else zero_civil;
                                  p_reason := if revoked then snd ri else 0%Z;
                                  p_sigalg := alg; p_hash := h; p_rname := rname; p_rkey := rkey;
                                  p_exts := w_exts w; p_tbs := pb_tbs_raw pb; p_sig := pb_sig pb;
                                  p_cert := emb |}
                       end
              end
          end
      end.

  Definition parse_response_for_cert (bs : bytes) (cert : option Z) (issuer : option N) : outcome :=
    match unmarshal_struct parse_outer bs with
    | None => Rej
    | Some (st, rtype, rbytes) =>
        if negb (st =? 0)%Z then RespErr st
        else if negb (bytes_eqb rtype ocsp_basic_oid) then Rej
        else match unmarshal_struct parse_basic rbytes with
             | None => Rej
             | Some pb => accept_basic pb cert issuer
             end
    end.

  Definition parse_response (bs : bytes) (issuer : option N) : outcome :=
    parse_response_for_cert bs None issuer.
End Accept.

(* ------------------------------------------------------------------ *)
(* requests                                                            *)
Record request := { rq_hash : N; rq_namehash : bytes; rq_keyhash : bytes; rq_serial : Z }.

Definition build_request_tree (hashoid namehash keyhash : bytes) (serial : Z) : dv :=
  seq [seq [seq [seq [seq [seq [oidn hashoid; nulln]; octets namehash; octets keyhash; intn serial]]]]].

(* Request.Marshal *)
Definition marshal_request (r : request) : option bytes :=
  match oid_of_hash (rq_hash r) hash_oids with
  | None => None
  | Some o => Some (emit (build_request_tree o (rq_namehash r) (rq_keyhash r) (rq_serial r)))
  end.

(* CreateRequest: opts.Hash (0 -> SHA-1), the issuer hashes come from outside *)
Definition create_request (hash : N) (namehash keyhash : bytes) (serial : Z) : option bytes :=
  marshal_request {| rq_hash := if hash =? 0 then 3 else hash; rq_namehash := namehash;
                     rq_keyhash := keyhash; rq_serial := serial |}.

Definition parse_tbsrequest (ks : list dv) : option (list certid) :=
  let* (_, r1) := opt_explicit 0 u_int64 0%Z ks in
  let* (_, r2) := opt_explicit 1 (fun k => match k with
                                           | d :: rest => if name_shape d then ROk tt rest else
                                                          (match d with Cons 0 16 _ => RFail | _ => RNo end)
                                           | [] => RNo end) tt r1 in
  let* (l, _) := req (f_struct (seq_of (fun k => let* (c, _) := req (f_struct parse_certid k) in Some c)) r2) in
  Some l.

Definition parse_request (bs : bytes) : option request :=
  match unmarshal_struct (fun k => let* (l, _) := req (f_struct parse_tbsrequest k) in Some l) bs with
  | None => None
  | Some [] => None
  | Some (c :: _) =>
      match lookup_oid (ci_hashoid c) (map (fun ho => (fst ho, snd ho)) hash_oids) with
      | None => None
      | Some h => Some {| rq_hash := h; rq_namehash := ci_namehash c; rq_keyhash := ci_keyhash c;
                          rq_serial := ci_serial c |}
      end
  end.

(* ------------------------------------------------------------------ *)
(* correspondence cases: observables folded into the vh.Mix checksum     *)
Definition P : N := 1000000007.
Definition mix (h x : N) : N := (h * 31 + x + 1) mod P.
Definition mixZ (h : N) (z : Z) : N :=
  match z with
  | Z0 => mix h 0
  | Zpos p => mix (mix h 1) (Npos p)
  | Zneg p => mix (mix h 2) (Npos p)
  end.
Definition mix_list {A} (f : N -> A -> N) (h : N) (l : list A) : N :=
  fold_left f l (mix h (N.of_nat (length l))).
Definition mix_bytes : N -> bytes -> N := mix_list mix.
Definition mix_bool (h : N) (b : bool) : N := mix h (if b then 1 else 0).
Definition mix_civil (h : N) (c : civil) : N :=
  mix (mix (mix (mix (mix (mix h (cy c)) (cmo c)) (cd c)) (ch c)) (cmi c)) (cs c).
Definition mix_ext (h : N) (e : wext) : N :=
  mix_bytes (mix_bool (mix_bytes h (e_oid e)) (e_crit e)) (e_val e).

Definition hash_bytes (b : bytes) : N := mix_bytes 0 b.

Definition presp_hash (r : presp) : N :=
  let h := mix_bool (mixZ (mix 0 (p_status r)) (p_serial r)) (p_revoked r) in
  let h := mix_civil (mix_civil (mix_civil (mix_civil h (p_produced r)) (p_this r)) (p_next r)) (p_revoked_at r) in
  let h := mix (mix (mixZ h (p_reason r)) (p_sigalg r)) (p_hash r) in
  let h := mix_bytes (mix_bytes h (p_rname r)) (p_rkey r) in
  let h := mix_list mix_ext h (p_exts r) in
  let h := mix_bytes (mix_bytes h (p_tbs r)) (p_sig r) in
  match p_cert r with None => mix h 0 | Some c => mix_bytes (mix h 1) c end.

(* 0 = rejected, 1 + status = ResponseError, 1000 + checksum = accepted *)
Definition outcome_code (o : outcome) : N :=
  match o with
  | Rej => 0
  | RespErr st => 1 + Z.to_N st
  | Acc r => 1000 + presp_hash r
  end.

(* the signature oracle of a case: the checks the implementation performs, answered by the
   harness with the real verifier: (key, algorithm, checksum of signed bytes, checksum of
   signature, result); anything not listed fails *)
Definition sigtable := list (N * N * N * N * bool).
Fixpoint table_sigok (t : sigtable) (k a : N) (m s : bytes) : bool :=
  match t with
  | [] => false
  | (k', a', m', s', r) :: rest =>
      if (k =? k') && (a =? a') && (hash_bytes m =? m') && (hash_bytes s =? s') then r
      else table_sigok rest k a m s
  end.
(* embedded certificates the harness could parse: (checksum of the DER, key, algorithm,
   checksum of its TBS, checksum of its signature); the model only passes TBS and signature on
   to [sigok], so they are represented by one-element placeholders *)
Definition certtable := list (N * N * N * N * N).
Fixpoint table_pcert (t : certtable) (raw : bytes) : option certinfo :=
  match t with
  | [] => None
  | (h, k, a, tb, sg) :: rest =>
      if hash_bytes raw =? h then Some {| c_key := k; c_alg := a; c_tbs := [tb]; c_sig := [sg] |}
      else table_pcert rest raw
  end.

(* --- stream rcase: CreateResponse and ParseResponse on its output ---
   (template, key kind, issuer hashes, responder subject DER, producedAt, signature bytes,
    embedded certificate DER, checksum of the DER CreateResponse returned (0 = error),
    signature table, certificate table,
    outcome codes of ParseResponse with: no issuer / the issuer / another key) *)
Record rinput := {
  ri_status : N; ri_serial : Z; ri_this : civil; ri_next : civil; ri_revoked_at : civil; ri_reason : Z;
  ri_hash : N; ri_sigalg : N; ri_exts : list wext; ri_cert : bytes;
  ri_keykind : N; ri_namehash : bytes; ri_keyhash : bytes; ri_responder : bytes;
  ri_produced : civil; ri_sig : bytes }.

Definition rcase := (rinput * N * sigtable * certtable * (N * N * N))%type.

Definition check_rcase (x : rcase) : bool :=
  let '(ri, der_hash, st, ct, (o_none, o_issuer, o_other)) := x in
  let certn := match ri_cert ri with [] => Some None
               | c => match parse_all c with Some d => Some (Some d) | None => None end end in
  match parse_all (ri_responder ri), certn with
  | Some rn, Some cn =>
      let tp := {| tp_status := ri_status ri; tp_serial := ri_serial ri; tp_this := ri_this ri;
                   tp_next := ri_next ri; tp_revoked_at := ri_revoked_at ri; tp_reason := ri_reason ri;
                   tp_hash := ri_hash ri; tp_sigalg := ri_sigalg ri; tp_exts := ri_exts ri; tp_cert := cn |} in
      match create_response tp (ri_keykind ri) (ri_namehash ri) (ri_keyhash ri) rn (ri_produced ri) (ri_sig ri) with
      | None => der_hash =? 0
      | Some (der, _) =>
          (hash_bytes der =? der_hash) &&
          (outcome_code (parse_response (table_sigok st) (table_pcert ct) der None) =? o_none) &&
          (outcome_code (parse_response (table_sigok st) (table_pcert ct) der (Some 1)) =? o_issuer) &&
          (outcome_code (parse_response (table_sigok st) (table_pcert ct) der (Some 2)) =? o_other)
      end
  | _, _ => false
  end.

(* --- stream pcase: ParseResponseForCert on harness-built DER ---
   (DER, certificate serial or None, issuer key or None, tables, outcome code) *)
Definition pcase := (bytes * option Z * option N * sigtable * certtable * N)%type.
Definition check_pcase (x : pcase) : bool :=
  let '(der, cert, issuer, st, ct, code) := x in
  outcome_code (parse_response_for_cert (table_sigok st) (table_pcert ct) der cert issuer) =? code.

(* --- stream qcase: CreateRequest / ParseRequest ---
   (hash, issuer hashes, serial, checksum of CreateRequest's DER (0 = error),
    DER handed to ParseRequest ([] = the one just built), result code) *)
Definition request_code (r : option request) : N :=
  match r with
  | None => 0
  | Some q => 1 + mixZ (mix_bytes (mix_bytes (mix 0 (rq_hash q)) (rq_namehash q)) (rq_keyhash q)) (rq_serial q)
  end.
Definition qcase := (N * bytes * bytes * Z * N * bytes * N)%type.
Definition check_qcase (x : qcase) : bool :=
  let '(h, nh, kh, s, der_hash, der_in, code) := x in
  match create_request h nh kh s with
  | None => (der_hash =? 0) &&
            (match der_in with [] => code =? 0 | _ => request_code (parse_request der_in) =? code end)
  | Some der =>
      (hash_bytes der =? der_hash) &&
      (request_code (parse_request (match der_in with [] => der | _ => der_in end)) =? code)
  end.
