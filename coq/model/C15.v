(* C15 — model of the three browser revocation sets
   (x509/revocation/google, mozilla, microsoft): parsing and Check.
   Executable definitions only.

   Trusted primitives are function arguments: the JSON decoding of the CRLSet
   header (encoding/json), the per-record decoding of OneCRL fields (encoding/json,
   base64, DER name -> pkix.Name.String()), x509.ParseCertificate for SST entries.
   Everything else — the CRLSet binary body, the SST container, the grouping by
   issuer, last-wins on duplicate CRLSet issuers, the Check decisions — is modelled.
   Go strings are byte lists; big.Int serials are Z (N where SetBytes makes them
   non-negative); Go maps are association lists with distinct keys. *)
From Coq Require Import List NArith ZArith Bool Arith.
From Verif Require Import Harness Wire16.
Import ListNotations.
Open Scope N_scope.

(* ---------- association lists standing for Go maps ---------- *)
Section AMap.
  Context {V : Type}.
  Fixpoint alookup (k : bytes) (m : list (bytes * V)) : option V :=
    match m with
    | [] => None
    | (k', v) :: r => if bytes_eqb k k' then Some v else alookup k r
    end.
  (* m[k] = v *)
  Fixpoint aset (k : bytes) (v : V) (m : list (bytes * V)) : list (bytes * V) :=
    match m with
    | [] => [(k, v)]
    | (k', v') :: r => if bytes_eqb k k' then (k, v) :: r else (k', v') :: aset k v r
    end.
End AMap.

(* append v to the list of key k, creating the list when the key is new
   (the "if list already exists ... append, else create" of the parsers) *)
Definition group_add {V} (k : bytes) (v : V) (m : list (bytes * list V)) : list (bytes * list V) :=
  match alookup k m with
  | Some l => aset k (l ++ [v]) m
  | None => aset k [v] m
  end.

(* ---------- hex.EncodeToString ---------- *)
Definition hex_digit (d : N) : N := if d <? 10 then 48 + d else 87 + d.   (* '0'.. / 'a'.. *)
Definition hex_encode (b : bytes) : bytes :=
  flat_map (fun x => [hex_digit (x / 16); hex_digit (x mod 16)]) b.

(* ====================================================================== *)
(* Google CRLSet                                                           *)
(* ====================================================================== *)
Record crl_header := { h_sequence : Z; h_numparents : Z; h_blocked : list bytes }.

Record crlset := {
  cs_sequence : Z; cs_numparents : Z; cs_blocked : list bytes;
  cs_issuers : list (bytes * list N)      (* hex SPKI hash -> serials *)
}.

(* getHeader: LE16 length, JSON header, rest *)
Definition get_header (json : bytes -> option crl_header) (c : bytes) : option (crl_header * bytes) :=
  match take_n 2 c with
  | None => None                                   (* truncated at header length *)
  | Some (lb, c1) =>
      match take_N (le_decode lb) c1 with
      | None => None                               (* truncated at header *)
      | Some (hb, rest) =>
          match json hb with
          | None => None
          | Some h => Some (h, rest)
          end
      end
  end.

(* for i := 0; i < NumSerials; i++ { len byte; len bytes; SetBytes } *)
Fixpoint parse_serials (fuel : nat) (n : N) (rest : bytes) (acc : list N) : option (list N * bytes) :=
  if n =? 0 then Some (rev acc, rest)
  else match fuel with
       | O => None
       | S fuel' =>
           match rest with
           | [] => None                              (* truncated at serial length *)
           | l :: r =>
               match take_N l r with
               | None => None                        (* truncated at serial *)
               | Some (sb, r') => parse_serials fuel' (n - 1) r' (be_decode sb :: acc)
               end
           end
       end.

(* for rest.Len() > 0 { 32-byte hash; IssuerLists[hex] = &list; LE32 count; serials } *)
Fixpoint parse_issuers (fuel : nat) (rest : bytes) (m : list (bytes * list N)) : option (list (bytes * list N)) :=
  match rest with
  | [] => Some m
  | _ =>
      match fuel with
      | O => None
      | S fuel' =>
          match take_n 32 rest with
          | None => None
          | Some (hash, r1) =>
              match take_n 4 r1 with
              | None => None
              | Some (nb, r2) =>
                  match parse_serials (S (length r2)) (le_decode nb) r2 [] with
                  | None => None
                  | Some (serials, r3) => parse_issuers fuel' r3 (aset (hex_encode hash) serials m)
                  end
              end
          end
      end
  end.

Definition parse_crlset (json : bytes -> option crl_header) (input : bytes) : option crlset :=
  match get_header json input with
  | None => None
  | Some (h, rest) =>
      match parse_issuers (S (length rest)) rest [] with
      | None => None
      | Some m => Some {| cs_sequence := h_sequence h; cs_numparents := h_numparents h;
                          cs_blocked := h_blocked h; cs_issuers := m |}
      end
  end.

(* CRLSet.Check(cert, issuerSPKIHash): the serial of the returned entry, None = nil *)
Definition check_crlset (s : crlset) (serial : Z) (issuer_hash : bytes) : option Z :=
  if existsb (bytes_eqb issuer_hash) (cs_blocked s) then Some serial
  else match alookup issuer_hash (cs_issuers s) with
       | None => None
       | Some entries =>
           match find (fun e => Z.eqb (Z.of_N e) serial) entries with
           | Some e => Some (Z.of_N e)
           | None => None
           end
       end.

(* ====================================================================== *)
(* Microsoft disallowedcert.sst                                            *)
(* ====================================================================== *)
(* binary.Read of a uint32 whose error is ignored: on a short read the value
   stays 0 and the reader is drained *)
Definition read_le32 (bs : bytes) : N * bytes :=
  match take_n 4 bs with
  | Some (b, r) => (le_decode b, r)
  | None => (0, [])
  end.

(* element loop: certificate entries (id 32) are collected, property entries skipped,
   id 0 (or a failed read) ends the list *)
Fixpoint sst_elements (fuel : nat) (rest : bytes) (certs : list bytes) : option (list bytes) :=
  match fuel with
  | O => None
  | S fuel' =>
      let '(id, r1) := read_le32 rest in
      if id =? 0 then Some (rev certs)
      else
        let '(fmt, r2) := read_le32 r1 in
        let '(ln, r3) := read_le32 r2 in
        if id =? 32 then
          if negb (fmt =? 1) then None                 (* not ASN.1 encoding *)
          else match take_N ln r3 with
               | None => None                           (* longer than the remaining data (repaired) *)
               | Some (c, r4) => sst_elements fuel' r4 (c :: certs)
               end
        else
          (* io.CopyN(ioutil.Discard, r, len), error ignored *)
          match take_N ln r3 with
          | Some (_, r4) => sst_elements fuel' r4 certs
          | None => sst_elements fuel' [] certs
          end
  end.

Definition magic_cert : bytes := [67; 69; 82; 84].     (* "CERT" *)

Definition sst_cert_blobs (bs : bytes) : option (list bytes) :=
  let '(version, r1) := read_le32 bs in
  match take_n 4 r1 with
  | None => None
  | Some (magic, r2) =>
      if negb (bytes_eqb magic magic_cert) || negb (version =? 0) then None
      else sst_elements (S (length r2)) r2 []
  end.

(* grouping by issuer string, in order of appearance *)
Fixpoint sst_group (parse_cert : bytes -> option (bytes * Z)) (certs : list bytes)
         (m : list (bytes * list Z)) : option (list (bytes * list Z)) :=
  match certs with
  | [] => Some m
  | c :: r =>
      match parse_cert c with
      | None => None                                   (* parse error returned (repaired) *)
      | Some (issuer, serial) => sst_group parse_cert r (group_add issuer serial m)
      end
  end.

Definition parse_sst (parse_cert : bytes -> option (bytes * Z)) (bs : bytes) : option (list (bytes * list Z)) :=
  match sst_cert_blobs bs with
  | None => None
  | Some certs => sst_group parse_cert certs []
  end.

(* Check(disallowed, cert): serial of the returned entry *)
Definition check_listed (m : list (bytes * list Z)) (issuer : bytes) (serial : Z) : option Z :=
  match alookup issuer m with
  | None => None
  | Some entries => find (fun e => Z.eqb e serial) entries
  end.

(* ====================================================================== *)
(* Mozilla OneCRL                                                          *)
(* ====================================================================== *)
(* one JSON record after the primitive decodings:
   subject / pubKeyHash strings non-empty?; decodePkixName(subject) (raw DER) or
   error; base64(pubKeyHash) or error; SetBytes(base64(serialNumber));
   decodePkixName(issuerName).String() or error *)
Record orec := {
  o_subject_set : bool; o_pkh_set : bool;
  o_subject : option bytes; o_pkh : option bytes;
  o_serial : N; o_issuer : option bytes
}.

Inductive oentry := OBlocked (raw_subject pkh : bytes) | OListed (issuer : bytes) (serial : N).

(* Entry.UnmarshalJSON *)
Definition decode_record (r : orec) : option oentry :=
  if o_subject_set r && o_pkh_set r then
    match o_subject r with
    | None => None
    | Some subj =>
        match o_pkh r with
        | None => None
        | Some pkh => Some (OBlocked subj pkh)
        end
    end
  else
    match o_issuer r with
    | None => None
    | Some iss => Some (OListed iss (o_serial r))
    end.

Record onecrl := { oc_blocked : list (bytes * bytes); oc_issuers : list (bytes * list N) }.

Fixpoint onecrl_build (es : list oentry) (c : onecrl) : onecrl :=
  match es with
  | [] => c
  | OBlocked s p :: r =>
      onecrl_build r {| oc_blocked := oc_blocked c ++ [(s, p)]; oc_issuers := oc_issuers c |}
  | OListed iss ser :: r =>
      onecrl_build r {| oc_blocked := oc_blocked c; oc_issuers := group_add iss ser (oc_issuers c) |}
  end.

Fixpoint decode_records (rs : list orec) : option (list oentry) :=
  match rs with
  | [] => Some []
  | r :: rest =>
      match decode_record r, decode_records rest with
      | Some e, Some es => Some (e :: es)
      | _, _ => None
      end
  end.

(* Parse: any record that fails makes the whole document fail *)
Definition parse_onecrl (rs : list orec) : option onecrl :=
  match decode_records rs with
  | None => None
  | Some es => Some (onecrl_build es {| oc_blocked := []; oc_issuers := [] |})
  end.

Inductive ocheck := ONone | OByKey | OBySerial (serial : N).

(* OneCRL.Check(cert): cert = raw subject, SHA-256 of its SPKI, issuer string, serial *)
Definition check_onecrl (c : onecrl) (raw_subject spki_hash issuer : bytes) (serial : Z) : ocheck :=
  if existsb (fun b => bytes_eqb (fst b) raw_subject && bytes_eqb (snd b) spki_hash) (oc_blocked c)
  then OByKey
  else match alookup issuer (oc_issuers c) with
       | None => ONone
       | Some entries =>
           match find (fun e => Z.eqb (Z.of_N e) serial) entries with
           | Some e => OBySerial e
           | None => ONone
           end
       end.

(* ====================================================================== *)
(* reference encoders (used by the round-trip theorems and by nothing else) *)
(* ====================================================================== *)
Definition encode_serial (sb : bytes) : bytes := N.of_nat (length sb) :: sb.
Definition encode_issuer (e : bytes * list bytes) : bytes :=
  fst e ++ le_encode 4 (N.of_nat (length (snd e))) ++ flat_map encode_serial (snd e).
Definition encode_crlset (hdr : bytes) (issuers : list (bytes * list bytes)) : bytes :=
  le_encode 2 (N.of_nat (length hdr)) ++ hdr ++ flat_map encode_issuer issuers.

Inductive sst_entry := EProp (id enc : N) (value : bytes) | ECert (blob : bytes).
Definition encode_sst_entry (e : sst_entry) : bytes :=
  match e with
  | EProp id enc v => le_encode 4 id ++ le_encode 4 enc ++ le_encode 4 (N.of_nat (length v)) ++ v
  | ECert b => le_encode 4 32 ++ le_encode 4 1 ++ le_encode 4 (N.of_nat (length b)) ++ b
  end.
(* version 0, "CERT", elements, end marker (id 0) and whatever follows it *)
Definition encode_sst (es : list sst_entry) (after : bytes) : bytes :=
  le_encode 4 0 ++ magic_cert ++ flat_map encode_sst_entry es ++ le_encode 4 0 ++ after.

(* ====================================================================== *)
(* correspondence cases                                                    *)
(* ====================================================================== *)
(* a Go map printed as a key-sorted list equals the model's association list *)
Definition amap_eqb {V} (veqb : V -> V -> bool) (model obs : list (bytes * V)) : bool :=
  (length model =? length obs)%nat &&
  forallb (fun kv => match alookup (fst kv) model with
                     | Some v => veqb v (snd kv)
                     | None => false
                     end) obs.

Definition crlset_obs := (Z * Z * list bytes * list (bytes * list N))%type.

Definition crlset_eqb (s : crlset) (o : crlset_obs) : bool :=
  let '(sq, np, bl, iss) := o in
  Z.eqb (cs_sequence s) sq && Z.eqb (cs_numparents s) np && list_eqb bytes_eqb (cs_blocked s) bl
  && amap_eqb (list_eqb N.eqb) (cs_issuers s) iss.

(* SST input: literal chunks and references into a table of certificate blobs *)
Inductive chunk := Lit (b : bytes) | Ref (i : nat).
Definition expand_chunks (table : list bytes) (cs : list chunk) : bytes :=
  flat_map (fun c => match c with Lit b => b | Ref i => nth i table [] end) cs.

(* x509.ParseCertificate on a blob, as evaluated by the harness: blob -> (issuer string, serial) *)
Definition cert_table := list (bytes * option (bytes * Z)).
Definition table_parse (t : cert_table) (blob : bytes) : option (bytes * Z) :=
  match find (fun e => bytes_eqb (fst e) blob) t with
  | Some (_, r) => r
  | None => None
  end.
Definition table_knows (t : cert_table) (blob : bytes) : bool :=
  existsb (fun e => bytes_eqb (fst e) blob) t.

Definition ocheck_eqb (a b : ocheck) : bool :=
  match a, b with
  | ONone, ONone => true
  | OByKey, OByKey => true
  | OBySerial x, OBySerial y => N.eqb x y
  | _, _ => false
  end.

Inductive case :=
(* input, JSON decoding of the header slice (None: no slice or JSON error),
   observed set, queries (serial, issuer hash string, observed Check) *)
| CCrlSet (input : bspec) (json : option (Z * Z * list bytes)) (obs : option crlset_obs)
          (queries : list (bytes * list (Z * option Z)))
(* blob table, chunks of the input, parse results of every blob the input contains,
   observed map (key-sorted), queries (issuer, serial, observed Check) *)
| CSst (blobs : list bytes) (input : list chunk) (parsed : list (nat * option (bytes * Z)))
       (extra : cert_table)
       (obs : option (list (bytes * list Z))) (queries : list (bytes * list (Z * option Z)))
(* records, observed blocked list and issuer map, queries *)
| COneCrl (recs : list (bool * bool * option bytes * option bytes * N * option bytes))
          (obs : option (list (bytes * bytes) * list (bytes * list N)))
          (subjects hashes issuers : list bytes)
          (queries : list (nat * nat * nat * Z * ocheck))
| CHex (b : bytes) (obs : bytes).

Definition mk_orec (t : bool * bool * option bytes * option bytes * N * option bytes) : orec :=
  let '(ss, ps, subj, pkh, ser, iss) := t in
  {| o_subject_set := ss; o_pkh_set := ps; o_subject := subj; o_pkh := pkh; o_serial := ser; o_issuer := iss |}.

Definition check_case (c : case) : bool :=
  match c with
  | CCrlSet input json obs queries =>
      let jf := fun _ : bytes =>
                  match json with
                  | Some (sq, np, bl) => Some {| h_sequence := sq; h_numparents := np; h_blocked := bl |}
                  | None => None
                  end in
      match parse_crlset jf (expand input), obs with
      | None, None => match queries with [] => true | _ => false end
      | Some s, Some o =>
          crlset_eqb s o &&
          forallb (fun q => forallb (fun sr => option_eqb Z.eqb (check_crlset s (fst sr) (fst q)) (snd sr)) (snd q)) queries
      | _, _ => false
      end
  | CSst blobs input parsed extra obs queries =>
      let table : cert_table :=
        map (fun p => (nth (fst p) blobs [], snd p)) parsed ++ extra in
      let bs := expand_chunks blobs input in
      (* every blob the model extracts must be one the harness evaluated *)
      let known := match sst_cert_blobs bs with
                   | Some cs => forallb (table_knows table) cs
                   | None => true
                   end in
      known &&
      match parse_sst (table_parse table) bs, obs with
      | None, None => match queries with [] => true | _ => false end
      | Some m, Some o =>
          amap_eqb (list_eqb Z.eqb) m o &&
          forallb (fun q => forallb (fun sr => option_eqb Z.eqb (check_listed m (fst q) (fst sr)) (snd sr)) (snd q)) queries
      | _, _ => false
      end
  | COneCrl recs obs subjects hashes issuers queries =>
      match parse_onecrl (map mk_orec recs), obs with
      | None, None => match queries with [] => true | _ => false end
      | Some c, Some (bl, iss) =>
          list_eqb (prod_eqb bytes_eqb bytes_eqb) (oc_blocked c) bl &&
          amap_eqb (list_eqb N.eqb) (oc_issuers c) iss &&
          forallb (fun q => let '(si, ki, ii, serial, r) := q in
                            ocheck_eqb (check_onecrl c (nth si subjects []) (nth ki hashes []) (nth ii issuers []) serial) r) queries
      | _, _ => false
      end
  | CHex b obs => bytes_eqb (hex_encode b) obs
  end.
