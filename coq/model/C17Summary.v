(* C17 — the discipline the generated access summary of ct/scanner/scanner.go
   (coq/gen/C17Summary_gen.v) is checked against, and the thread systems of
   the three phases of Scan.  Definitions only.

   Phases (fork/join points found by the summariser):
     init   Scan alone, before the first `go`
     mid    Scan + the ticker goroutine + F x fetcherJob + M x matcherJob
     final  Scan after the last WaitGroup.Wait + every goroutine not joined *)
From Coq Require Import String.
From Coq Require Import List Bool.
From Verif Require Import Lts.
From VerifGen Require Import C17Summary_gen.
Import ListNotations.
Open Scope string_scope.

Definition g_name (g : string * bool * bool * prog) : string := fst (fst (fst g)).
Definition g_replicated (g : string * bool * bool * prog) : bool := snd (fst (fst g)).
Definition g_joined (g : string * bool * bool * prog) : bool := snd (fst g).
Definition g_prog (g : string * bool * bool * prog) : prog := snd g.

Definition counters : list string :=
  ["certsProcessed"; "precertsSeen"; "unparsableEntries"; "entriesWithNonFatalErrors"].
(* set before the goroutines start, only read afterwards *)
Definition constants : list string :=
  ["opts"; "logger"; "logClient";
   "local:stopIndex"; "local:startTime"; "local:ticker"; "local:updater"].

Definition inb (x : string) (l : list string) : bool := existsb (String.eqb x) l.

(* while the workers run: counters are touched only through sync/atomic *)
Definition pol_mid (x : var) : option policy :=
  if inb x counters then Some AtomicOnly
  else if inb x constants then Some ReadOnly
  else None.

(* after the workers are joined nobody writes any more *)
Definition pol_final (x : var) : option policy :=
  if inb x counters || inb x constants then Some ReadOnly else None.

(* n gives the number of instances of each replicated goroutine (F, M) *)
Definition mid_system (n : string -> nat) : list prog :=
  scan_mid :: flat_map (fun g => if g_replicated g then repeat (g_prog g) (n (g_name g)) else [g_prog g]) goroutines.

Definition final_system : list prog :=
  scan_final :: map g_prog (filter (fun g => negb (g_joined g)) goroutines).

Definition has_worker (name : string) : bool :=
  existsb (fun g => String.eqb (g_name g) name && g_replicated g && g_joined g) goroutines.

(* the finite checks on the generated summary *)
Definition check_mid : bool := forallb (disc_from pol_mid []) (scan_mid :: map g_prog goroutines).
Definition check_final : bool := forallb (disc_from pol_final []) final_system.
Definition check_shape : bool :=
  forallb (fun g => implb (g_replicated g) (g_joined g)) goroutines
  && has_worker "matcherJob" && has_worker "fetcherJob"
  (* the matchers really count: the summary of matcherJob contains the atomic update of certsProcessed *)
  && existsb (fun g => String.eqb (g_name g) "matcherJob" &&
                       existsb (fun a => match a with AtomicRMW "certsProcessed" => true | _ => false end) (g_prog g))
             goroutines.

Definition summary_ok : bool := check_mid && check_final && check_shape.
