(* C09 — model of x509/verify.go matchHostnames, toLowerCaseASCII, VerifyHostname.
   Executable definitions only.  Strings are byte lists (bytes = list N).
   net.ParseIP is outside the code under test: it is the Section variable
   [ip_of]; a correspondence case carries its value for every string the
   model may ask about (tabulated by the harness with net.ParseIP). *)
From Coq Require Import List NArith Bool Arith.
From Verif Require Import Harness.
Import ListNotations.
Local Open Scope N_scope.

Definition dot : N := 46.
Definition star : N := 42.
Definition lbrack : N := 91.
Definition rbrack : N := 93.

(* ---------- toLowerCaseASCII ---------- *)
Definition in_rng (lo hi b : N) : bool := (lo <=? b) && (b <=? hi).
Definition is_upper (b : N) : bool := in_rng 65 90 b.
Definition lower_byte (b : N) : N := if is_upper b then b + 32 else b.
(* the bytewise specification *)
Definition lower_ascii (s : bytes) : bytes := map lower_byte s.

(* Go's `for _, c := range in`: UTF-8 decoding of the first rune of b0 :: r,
   (rune, width); an invalid or short sequence yields (RuneError, 1) *)
Definition rune_error : N := 65533.
Definition cont (b : N) : bool := in_rng 128 191 b.
Definition decode (b0 : N) (r : bytes) : N * nat :=
  if b0 <? 128 then (b0, 1%nat)
  else if in_rng 194 223 b0 then
    match r with
    | b1 :: _ => if cont b1 then ((b0 - 192) * 64 + (b1 - 128), 2%nat) else (rune_error, 1%nat)
    | _ => (rune_error, 1%nat)
    end
  else if in_rng 224 239 b0 then
    let lo := if b0 =? 224 then 160 else 128 in
    let hi := if b0 =? 237 then 159 else 191 in
    match r with
    | b1 :: b2 :: _ =>
        if in_rng lo hi b1 && cont b2
        then ((b0 - 224) * 4096 + (b1 - 128) * 64 + (b2 - 128), 3%nat)
        else (rune_error, 1%nat)
    | _ => (rune_error, 1%nat)
    end
  else if in_rng 240 244 b0 then
    let lo := if b0 =? 240 then 144 else 128 in
    let hi := if b0 =? 244 then 143 else 191 in
    match r with
    | b1 :: b2 :: b3 :: _ =>
        if in_rng lo hi b1 && cont b2 && cont b3
        then ((b0 - 240) * 262144 + (b1 - 128) * 4096 + (b2 - 128) * 64 + (b3 - 128), 4%nat)
        else (rune_error, 1%nat)
    | _ => (rune_error, 1%nat)
    end
  else (rune_error, 1%nat).

(* the first loop of toLowerCaseASCII: true = "isAlreadyLowerCase" *)
Fixpoint scan (fuel : nat) (s : bytes) : bool :=
  match fuel with
  | O => true
  | S f =>
      match s with
      | [] => true
      | b0 :: r =>
          let '(c, w) := decode b0 r in
          if c =? rune_error then false
          else if is_upper c then false
          else scan f (skipn w s)
      end
  end.

Definition go_lower (s : bytes) : bytes :=
  if scan (length s) s then s else map lower_byte s.

(* ---------- matchHostnames ---------- *)
(* strings.TrimSuffix(s, ".") *)
Fixpoint trim_dot (s : bytes) : bytes :=
  match s with
  | [] => []
  | c :: r =>
      match r with
      | [] => if c =? dot then [] else [c]
      | _ => c :: trim_dot r
      end
  end.

(* strings.Split(s, ".") *)
Fixpoint split_dot (s : bytes) : list bytes :=
  match s with
  | [] => [[]]
  | c :: r =>
      if c =? dot then [] :: split_dot r
      else match split_dot r with
           | [] => [[c]]
           | l :: ls => (c :: l) :: ls
           end
  end.

Definition is_nil (s : bytes) : bool := match s with [] => true | _ => false end.

Definition part_ok (ph : bytes * bytes) : bool :=
  bytes_eqb (fst ph) [star] || bytes_eqb (fst ph) (snd ph).

Definition match_hostnames (pattern host : bytes) : bool :=
  let host := trim_dot host in
  let pattern := trim_dot pattern in
  if is_nil pattern || is_nil host then false
  else
    let pp := split_dot pattern in
    let hp := split_dot host in
    if negb (Nat.eqb (length pp) (length hp)) then false
    else forallb part_ok (combine pp hp).

(* ---------- VerifyHostname ---------- *)
Definition v4in6 : bytes := [0;0;0;0;0;0;0;0;0;0;255;255].

(* net.IP.Equal *)
Definition ip_equal (a x : bytes) : bool :=
  if Nat.eqb (length a) (length x) then bytes_eqb a x
  else if Nat.eqb (length a) 4 && Nat.eqb (length x) 16
  then bytes_eqb (firstn 12 x) v4in6 && bytes_eqb a (skipn 12 x)
  else if Nat.eqb (length a) 16 && Nat.eqb (length x) 4
  then bytes_eqb (firstn 12 a) v4in6 && bytes_eqb (skipn 12 a) x
  else false.

(* the fields of Certificate that VerifyHostname reads *)
Record hcert := { ips : list bytes; has_san : bool; dns : list bytes; cn : bytes }.

Definition unbracket (h : bytes) : bytes :=
  if (3 <=? length h)%nat && (hd 0 h =? lbrack) && (last h 0 =? rbrack)
  then removelast (tl h) else h.

Section WithParseIP.
  Variable ip_of : bytes -> option bytes.   (* net.ParseIP; None = nil *)

  (* true = nil error *)
  Definition verify_hostname (c : hcert) (h : bytes) : bool :=
    match ip_of (unbracket h) with
    | Some ip => existsb (ip_equal ip) (ips c)
    | None =>
        let lowered := go_lower h in
        if has_san c
        then existsb (fun m => match_hostnames (go_lower m) lowered) (dns c)
        else match_hostnames (go_lower (cn c)) lowered
    end.
End WithParseIP.

(* ---------- correspondence cases ---------- *)
(* ParseIP table: strings that parse, with the 16-byte result *)
Definition iptable := list (bytes * bytes).
Fixpoint ip_lookup (t : iptable) (s : bytes) : option bytes :=
  match t with
  | [] => None
  | (k, v) :: r => if bytes_eqb k s then Some v else ip_lookup r s
  end.

(* VerifyHostname: (queried strings with ParseIP result (None = nil), cert, host, observed ok).
   The model's own candidate must be among the queried strings. *)
Definition qtable := list (bytes * option bytes).
Fixpoint q_lookup (t : qtable) (s : bytes) : option (option bytes) :=
  match t with
  | [] => None
  | (k, v) :: r => if bytes_eqb k s then Some v else q_lookup r s
  end.
Definition q_fun (t : qtable) (s : bytes) : option bytes :=
  match q_lookup t s with Some v => v | None => None end.
Definition check_verify (t : qtable) (crt : hcert) (h : bytes) (o : bool) : bool :=
  match q_lookup t (unbracket h) with
  | None => false
  | Some _ => Bool.eqb (verify_hostname (q_fun t) crt h) o
  end.

(* one stream for the three functions (one coqc start per shard):
   toLowerCaseASCII (input, observed output); matchHostnames (pattern, host, observed);
   VerifyHostname as above *)
Inductive case :=
| CLower (i o : bytes)
| CMatch (p h : bytes) (o : bool)
| CVerify (t : qtable) (crt : hcert) (h : bytes) (o : bool).
Definition check_case (c : case) : bool :=
  match c with
  | CLower i o => bytes_eqb (go_lower i) o
  | CMatch p h o => Bool.eqb (match_hostnames p h) o
  | CVerify t crt h o => check_verify t crt h o
  end.

(* ---------- exhaustive enumeration with a rolling checksum ---------- *)
(* rolling checksum; N.land, not mod: N.modulo is ~700x slower under vm_compute *)
Definition mix (h x : N) : N := N.land (h * 31 + x + 1) 2147483647.
Definition b2n (b : bool) : N := if b then 1 else 0.

(* all strings of length exactly n over the alphabet, lexicographic by alphabet position *)
Fixpoint strings_len (alpha : bytes) (n : nat) : list bytes :=
  match n with
  | O => [[]]
  | S n' => flat_map (fun a => map (cons a) (strings_len alpha n')) alpha
  end.
(* all strings of length <= n, shorter first *)
Definition strings_upto (alpha : bytes) (n : nat) : list bytes :=
  flat_map (strings_len alpha) (seq 0 (S n)).

Definition hash_bytes (h : N) (s : bytes) : N := fold_left mix s (mix h 7).

(* XLower: checksum of go_lower over every string of length <= n over the alphabet;
   XMatch: checksum of match_hostnames over every (pattern, host) pair of such strings;
   XVerify: ParseIP table over the enumerated strings (those that parse), certificates,
   checksum of verify_hostname over every (cert, host) *)
Inductive xcase :=
| XLower (alpha : bytes) (n : nat) (h : N)
| XMatch (alpha : bytes) (n : nat) (h : N)
| XVerify (alpha : bytes) (n : nat) (t : iptable) (cs : list hcert) (h : N).
Definition check_xcase (x : xcase) : bool :=
  match x with
  | XLower alpha n h =>
      N.eqb (fold_left (fun h s => hash_bytes h (go_lower s)) (strings_upto alpha n) 0) h
  | XMatch alpha n h =>
      let ss := strings_upto alpha n in
      N.eqb (fold_left (fun h p => fold_left (fun h s => mix h (b2n (match_hostnames p s))) ss h) ss 0) h
  | XVerify alpha n t cs h =>
      let ss := strings_upto alpha n in
      N.eqb (fold_left (fun h c =>
                          fold_left (fun h s => mix h (b2n (verify_hostname (ip_lookup t) c s))) ss h)
                       cs 0) h
  end.
