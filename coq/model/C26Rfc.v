(* C26Rfc — the RFC side: the equations of RFC 2246 / 5246 section 5, RFC 5246
   sections 6.3, 7.4.9, 8.1, RFC 5705 section 4, RFC 5869 section 2 and RFC 8446
   section 7.1 transcribed as (executable) definitions.  The property theorems
   state that the model of the Go code (C26.v) computes these. *)
From Coq Require Import List NArith Bool Arith.
From Verif Require Import Harness Hmac.
From VerifModel Require Import C26.
Import ListNotations.

Section RFC5246.
  Variable hm : bytes -> bytes -> bytes.     (* HMAC_hash(secret, data) *)

  (* A(0) = seed;  A(i) = HMAC_hash(secret, A(i-1)) *)
  Fixpoint A (secret seed : bytes) (i : nat) : bytes :=
    match i with
    | O => seed
    | S k => hm secret (A secret seed k)
    end.

  (* P_hash(secret, seed) = HMAC_hash(secret, A(1) + seed) + HMAC_hash(secret, A(2) + seed) + ...
     [p_stream m] is the concatenation of the first m terms *)
  Definition p_term (secret seed : bytes) (i : nat) : bytes := hm secret (A secret seed i ++ seed).
  Definition p_stream (secret seed : bytes) (m : nat) : bytes :=
    concat (map (p_term secret seed) (seq 1 m)).

  (* "iterated as many times as necessary to produce the required quantity of data":
     the first n bytes of the stream; n terms always suffice when terms are non-empty *)
  Definition P_hash (secret seed : bytes) (n : nat) : bytes := firstn n (p_stream secret seed n).
End RFC5246.

(* last n elements *)
Definition lastn {A} (n : nat) (l : list A) : list A := skipn (length l - n) l.

(* RFC 2246 section 5: L_S1 = L_S2 = ceil(L_S / 2); S1 = first L_S1 bytes, S2 = last L_S2 bytes *)
Definition ceil_half (n : nat) : nat := (n + 1) / 2.
Definition S1 (secret : bytes) : bytes := firstn (ceil_half (length secret)) secret.
Definition S2 (secret : bytes) : bytes := lastn (ceil_half (length secret)) secret.

Fixpoint xor_lists (a b : bytes) : bytes :=
  match a, b with
  | x :: a', y :: b' => N.lxor x y :: xor_lists a' b'
  | _, _ => []
  end.

Section PRFS.
  Variables md5_f sha1_f sha256_f sha384_f : bytes -> bytes.

  (* RFC 2246: PRF(secret, label, seed) = P_MD5(S1, label + seed) XOR P_SHA-1(S2, label + seed) *)
  Definition PRF_tls10 (secret label seed : bytes) (n : nat) : bytes :=
    xor_lists (P_hash (hmac md5_f 64) (S1 secret) (label ++ seed) n)
              (P_hash (hmac sha1_f 64) (S2 secret) (label ++ seed) n).

  (* RFC 5246: PRF(secret, label, seed) = P_<hash>(secret, label + seed) *)
  Definition PRF_tls12 (h : bytes -> bytes) (blk : nat) (secret label seed : bytes) (n : nat) : bytes :=
    P_hash (hmac h blk) secret (label ++ seed) n.

  Definition PRF (k : prf_kind) (secret label seed : bytes) (n : nat) : bytes :=
    match k with
    | Prf10 => PRF_tls10 secret label seed n
    | Prf12_256 => PRF_tls12 sha256_f 64 secret label seed n
    | Prf12_384 => PRF_tls12 sha384_f 128 secret label seed n
    end.

  (* RFC 5246 7.4.9: Hash(handshake_messages); RFC 2246: MD5(..) + SHA-1(..) *)
  Definition handshake_hash (k : prf_kind) (handshake_messages : bytes) : bytes :=
    match k with
    | Prf10 => md5_f handshake_messages ++ sha1_f handshake_messages
    | Prf12_256 => sha256_f handshake_messages
    | Prf12_384 => sha384_f handshake_messages
    end.
End PRFS.

(* RFC 5869 section 2.3: T(0) = empty, T(i) = HMAC(PRK, T(i-1) | info | i);  OKM = first L octets of T(1) | T(2) | ... *)
Section RFC5869.
  Variable hm : bytes -> bytes -> bytes.
  Fixpoint T (prk info : bytes) (i : nat) : bytes :=
    match i with
    | O => []
    | S k => hm prk (T prk info k ++ info ++ [N.of_nat (S k)])
    end.
  Definition okm_stream (prk info : bytes) (m : nat) : bytes := concat (map (T prk info) (seq 1 m)).
  Definition HKDF_Expand (prk info : bytes) (L : nat) : bytes := firstn L (okm_stream prk info L).
End RFC5869.

(* RFC 8446 section 7.1:
     struct { uint16 length = Length; opaque label<7..255> = "tls13 " + Label; opaque context<0..255> = Context; } HkdfLabel; *)
Definition HkdfLabel (L : nat) (label context : bytes) : bytes :=
  u16_bytes (N.of_nat L) ++ [N.of_nat (length (tls13_prefix ++ label))] ++ (tls13_prefix ++ label) ++
  [N.of_nat (length context)] ++ context.
