(* C24 — negotiation rules of the zcrypto TLS endpoints, executable only.
   Mirrors, function by function:
     tls/common.go            supportedVersions, maxSupportedVersion, supportedVersionsFromMax,
                              mutualVersion, cipherSuites, cipherSuitesTLS13, curvePreferences,
                              supportsCurve, aesgcmPreferred, deprioritizeAES
     tls/cipher_suites.go     cipherSuiteByID, selectCipherSuite, mutualCipherSuiteTLS13
     tls/handshake_client.go  makeClientHello (version, suite list), mutualProtocol,
                              the downgrade-canary test in clientHandshake
     tls/handshake_server.go  readClientHello (version), processClientHello (canary, ALPN,
                              key capabilities), supportsECDHE, pickCipherSuite, cipherSuiteOk
     tls/handshake_server_tls13.go  processClientHello (suite, group), fallback SCSV
     tls/key_agreement.go     the conditions under which generateServerKeyExchange fails
   The tables (supportedVersions, implementedCipherSuites, cipherSuites, cipherSuitesTLS13,
   default lists, AES-GCM sets, flag bits, canaries) are regenerated from the built code into
   gen/C24Tables_gen.v on every run.
   Versions, suite ids, curve ids are N; ALPN protocols are abstract identifiers (N). *)
From Coq Require Import List NArith Bool Arith.
From Verif Require Import Harness.
From VerifGen Require Import C24Tables_gen.
Import ListNotations.
Open Scope N_scope.

Definition V10 : N := 769.
Definition V11 : N := 770.
Definition V12 : N := 771.
Definition V13 : N := 772.

Definition mem (x : N) (l : list N) : bool := existsb (N.eqb x) l.
Definition has_flag (flags f : N) : bool := negb (N.land flags f =? 0).

(* ---- configuration (the fields the negotiation reads) ---- *)
Record config := mkConfig {
  min_version : N;                     (* 0 = unset *)
  max_version : N;                     (* 0 = unset *)
  cipher_suites : option (list N);     (* None = nil slice *)
  prefer_server : bool;                (* PreferServerCipherSuites *)
  next_protos : list N;                (* NextProtos *)
  curve_prefs : list N;                (* CurvePreferences, [] = unset *)
  tickets_disabled : bool;             (* SessionTicketsDisabled *)
  force_suites : bool }.               (* ForceSuites (client) *)

Inductive keytype := KRsa | KP256 | KP384 | KEd25519.

(* ---- common.go ---- *)
Definition version_enabled (c : config) (v : N) : bool :=
  negb (negb (min_version c =? 0) && (v <? min_version c)) &&
  negb (negb (max_version c =? 0) && (max_version c <? v)).

Definition supported_versions (c : config) : list N :=
  filter (version_enabled c) supported_versions_tbl.

Definition max_supported_version (c : config) : N := hd 0 (supported_versions c).
Definition min_supported_version (c : config) : N := last (supported_versions c) 0.

Definition supported_versions_from_max (m : N) : list N :=
  filter (fun v => negb (m <? v)) supported_versions_tbl.

(* mutualVersion: first peer version (peer order) that we support *)
Fixpoint mutual_version_in (supp peer : list N) : option N :=
  match peer with
  | [] => None
  | p :: r => if mem p supp then Some p else mutual_version_in supp r
  end.
Definition mutual_version (c : config) (peer : list N) : option N :=
  mutual_version_in (supported_versions c) peer.

Definition config_cipher_suites (c : config) : list N :=
  match cipher_suites c with None => default_suites | Some l => l end.

Definition is_tls13_id (id : N) : bool := existsb (fun r => fst r =? id) tls13_tbl.

Definition cipher_suites_tls13 (c : config) : list N :=
  match cipher_suites c with
  | None => default_suites13
  | Some l => match filter is_tls13_id l with
              | [] => default_suites13
              | l13 => l13
              end
  end.

Definition curve_preferences (c : config) : list N :=
  match curve_prefs c with [] => default_curves | l => l end.
Definition supports_curve (c : config) (curve : N) : bool := mem curve (curve_preferences c).

(* ---- cipher_suites.go ---- *)
Definition suite_row := (N * N * N)%type.   (* id, flags, key agreement kind *)
Definition row_id (r : suite_row) : N := fst (fst r).
Definition row_flags (r : suite_row) : N := snd (fst r).
Definition row_ka (r : suite_row) : N := snd r.   (* 0 rsa 1 ecdhe-rsa 2 ecdhe-ecdsa 3 dhe-rsa 4 dhe-dss *)

Definition suite_by_id (id : N) : option suite_row :=
  find (fun r => row_id r =? id) implemented_tbl.

Definition advertisable_flags (id : N) : option N :=
  option_map snd (find (fun r => fst r =? id) advertisable_tbl).

(* selectCipherSuite: first id of [ids] that is implemented, admissible and in [supported] *)
Fixpoint select_cipher_suite (ids supported : list N) (ok : suite_row -> bool) : option N :=
  match ids with
  | [] => None
  | id :: r =>
      match suite_by_id id with
      | Some row => if ok row && mem id supported then Some id
                    else select_cipher_suite r supported ok
      | None => select_cipher_suite r supported ok
      end
  end.

(* aesgcmPreferred: is the first known suite of the list an AES-GCM suite *)
Fixpoint aesgcm_preferred (ids : list N) : bool :=
  match ids with
  | [] => false
  | id :: r =>
      match suite_by_id id with
      | Some _ => mem id aesgcm_ids
      | None => if is_tls13_id id then mem id aesgcm_ids else aesgcm_preferred r
      end
  end.

(* deprioritizeAES: sort.SliceStable with less(i,j) = nonAESGCMAEAD[i] && aesgcm[j].
   For at most 20 elements sort.SliceStable is one insertion sort (every element is
   swapped towards the front while less(it, left neighbour)); the model is that
   insertion sort ([racc] = sorted prefix, last element first). *)
Definition aes_less (a b : N) : bool := mem a nonaes_aead_ids && mem b aesgcm_ids.
Fixpoint insert_rev (x : N) (racc : list N) : list N :=
  match racc with
  | [] => [x]
  | y :: r => if aes_less x y then y :: insert_rev x r else x :: racc
  end.
Definition deprioritize_aes (l : list N) : list N :=
  rev (fold_left (fun racc x => insert_rev x racc) l []).

(* ---- handshake_client.go: makeClientHello ---- *)
Definition client_hello_version (c : config) : N :=
  let m := max_supported_version c in if V12 <? m then V12 else m.

Definition advertise (hello_vers : N) (id : N) : bool :=
  match advertisable_flags id with
  | None => false
  | Some fl => negb ((hello_vers <? V12) && has_flag fl flag_tls12)
  end.

Definition client_hello_suites (c : config) : list N :=
  let possible := config_cipher_suites c in
  let base := if force_suites c then possible
              else filter (advertise (client_hello_version c)) possible in
  if (hd 0 (supported_versions c) =? V13) && negb (force_suites c)
  then base ++ cipher_suites_tls13 c else base.

(* the client's supported_curves / key share *)
Definition client_curves (c : config) : list N := curve_preferences c.

(* mutualProtocol(protos, preferenceProtos): first of the preference list that occurs in protos *)
Fixpoint mutual_protocol (protos pref : list N) : option N :=
  match pref with
  | [] => None
  | s :: r => if mem s protos then Some s else mutual_protocol protos r
  end.

(* server side ALPN choice: only when the client sent the extension *)
Definition select_alpn (client_protos server_protos : list N) : option N :=
  match client_protos with
  | [] => None
  | _ => mutual_protocol client_protos server_protos
  end.

(* ---- handshake_server.go ---- *)
Definition rsa_sign_ok (k : keytype) : bool := match k with KRsa => true | _ => false end.
Definition rsa_decrypt_ok (k : keytype) : bool := match k with KRsa => true | _ => false end.
Definition ec_sign_ok (k : keytype) : bool := match k with KRsa => false | _ => true end.

Definition supports_ecdhe (s : config) (client_curve_list : list N) : bool :=
  existsb (supports_curve s) client_curve_list.   (* the client always lists the uncompressed point format *)

(* cipherSuiteOk (after "fix: cipherSuiteOk honours suiteECDSA and suiteDSS") *)
Definition cipher_suite_ok (vers : N) (k : keytype) (ecdhe_ok : bool) (row : suite_row) : bool :=
  let fl := row_flags row in
  (if has_flag fl flag_ecdhe
   then ecdhe_ok &&
        (if has_flag fl flag_ecsign || has_flag fl flag_ecdsa then ec_sign_ok k else rsa_sign_ok k)
   else if has_flag fl flag_dss then false
   else rsa_decrypt_ok k)
  && negb ((vers <? V12) && has_flag fl flag_tls12).

(* the downgrade canary the server writes into the last 8 bytes of its random:
   0 none, 1 "DOWNGRD\x01", 2 "DOWNGRD\x00" *)
Definition server_canary (s : config) (vers : N) : N :=
  let m := max_supported_version s in
  if (V12 <=? m) && (vers <? m) then (if vers =? V12 then 1 else 2) else 0.

(* clientHandshake: abort when a canary shows a downgrade *)
Definition client_aborts (c : config) (vers canary : N) : bool :=
  let m := max_supported_version c in
  ((m =? V13) && (vers <=? V12) && ((canary =? 1) || (canary =? 2))) ||
  ((m =? V12) && (vers <=? V11) && (canary =? 2)).

(* pickCipherSuite: effective preference and supported lists *)
Definition preference_lists (s : config) (client_suites : list N) : list N * list N :=
  if prefer_server s
  then ((match cipher_suites s with
         | None => if aesgcm_preferred client_suites then config_cipher_suites s
                   else deprioritize_aes (config_cipher_suites s)
         | Some _ => config_cipher_suites s
         end), client_suites)
  else ((if has_aesgcm_hw then client_suites else deprioritize_aes client_suites),
        config_cipher_suites s).

Definition pick_cipher_suite (s : config) (k : keytype) (vers : N) (ecdhe_ok : bool)
           (client_suites : list N) : option N :=
  let '(pref, supp) := preference_lists s client_suites in
  select_cipher_suite pref supp (cipher_suite_ok vers k ecdhe_ok).

(* the curve of the ServerKeyExchange: first client curve the server supports *)
Definition select_curve12 (s : config) (client_curve_list : list N) : option N :=
  find (supports_curve s) client_curve_list.

(* generateServerKeyExchange / processClientKeyExchange succeed for the server key *)
Definition kx_ok (row : suite_row) (k : keytype) (vers : N) : bool :=
  match row_ka row with
  | 0 => rsa_decrypt_ok k
  | 1 => rsa_sign_ok k
  | 2 => ec_sign_ok k && negb (match k with KEd25519 => vers <? V12 | _ => false end)
  | 3 => rsa_sign_ok k
  | _ => false
  end.
Definition is_ecdhe_row (row : suite_row) : bool := (row_ka row =? 1) || (row_ka row =? 2).

(* ---- handshake_server_tls13.go ---- *)
Definition preference_lists13 (s : config) (client_suites : list N) : list N * list N :=
  if prefer_server s
  then ((if aesgcm_preferred client_suites then default_suites13
         else deprioritize_aes default_suites13), client_suites)
  else ((if has_aesgcm_hw then client_suites else deprioritize_aes client_suites), default_suites13).

Fixpoint first_mutual13 (pref supp : list N) : option N :=
  match pref with
  | [] => None
  | id :: r => if mem id supp && is_tls13_id id then Some id else first_mutual13 r supp
  end.
Definition pick_cipher_suite13 (s : config) (client_suites : list N) : option N :=
  let '(pref, supp) := preference_lists13 s client_suites in first_mutual13 pref supp.

(* group: a server-preferred group for which the client sent a key share (the client sends
   one share, for its first curve), else the first server-preferred group the client lists *)
Definition select_group13 (s : config) (client_curve_list : list N) : option N :=
  let prefs := curve_preferences s in
  match client_curve_list with
  | [] => None
  | share :: _ => if mem share prefs then Some share
                  else find (fun g => mem g client_curve_list) prefs
  end.

(* ---- the whole negotiation ---- *)
Inductive outcome :=
| Ok (vers suite : N) (alpn curve : option N) (canary : N)
| Fail (alert : N) (by_client : bool)     (* fatal alert sent by the client / by the server *)
| NoHello.                                (* the client cannot build a ClientHello *)

Definition AlertHandshakeFailure : N := 40.
Definition AlertIllegalParameter : N := 47.
Definition AlertProtocolVersion : N := 70.
Definition AlertInappropriateFallback : N := 86.

(* [cvs] / [hello_vers]: the version list and legacy version the server reads in the ClientHello
   (what the client sent, or what an attacker left of it) *)
Definition negotiate_with (c s : config) (k : keytype) (cvs : list N) (hello_vers : N) : outcome :=
    let suites := client_hello_suites c in
    let curves := client_curves c in
    match mutual_version s cvs with
    | None => Fail AlertProtocolVersion false
    | Some vers =>
      let scsv_bad := mem fallback_scsv suites in
      if vers =? V13 then
        if scsv_bad && (vers <? max_supported_version s) then Fail AlertInappropriateFallback false
        else match pick_cipher_suite13 s suites with
             | None => Fail AlertHandshakeFailure false
             | Some suite =>
               match select_group13 s curves with
               | None => Fail AlertHandshakeFailure false
               | Some g => Ok vers suite (select_alpn (next_protos c) (next_protos s)) (Some g) 0
               end
             end
      else
        let canary := server_canary s vers in
        let ecdhe_ok := supports_ecdhe s curves in
        match pick_cipher_suite s k vers ecdhe_ok suites with
        | None => Fail AlertHandshakeFailure false
        | Some suite =>
          if scsv_bad && (hello_vers <? max_supported_version s) then Fail AlertInappropriateFallback false
          else if client_aborts c vers canary then Fail AlertIllegalParameter true
          else match suite_by_id suite with
               | None => Fail AlertHandshakeFailure false
               | Some row =>
                 if kx_ok row k vers
                 then Ok vers suite (select_alpn (next_protos c) (next_protos s))
                         (if is_ecdhe_row row then select_curve12 s curves else None) canary
                 else Fail AlertHandshakeFailure false
               end
        end
    end.

Definition negotiate (c s : config) (k : keytype) : outcome :=
  match supported_versions c with
  | [] => NoHello
  | cvs => negotiate_with c s k cvs (client_hello_version c)
  end.

(* an attacker on the path removes every version above [d] (d <= TLS 1.2) from the ClientHello.
   Whatever the endpoints then agree on, the Finished check fails (the client's transcript holds
   the ClientHello it sent): the server answers the client's Finished with handshake_failure —
   unless the client has already aborted on the downgrade sentinel. *)
Definition negotiate_downgraded (c s : config) (k : keytype) (d : N) : outcome :=
  match supported_versions c with
  | [] => NoHello
  | cvs =>
    match negotiate_with c s k (filter (fun v => v <=? d) cvs) (N.min (client_hello_version c) d) with
    | Ok _ _ _ _ _ => Fail AlertHandshakeFailure false
    | o => o
    end
  end.

(* second connection with the same configurations and a client session cache *)
Definition expect_resume (c s : config) : bool :=
  negb (tickets_disabled c) && negb (tickets_disabled s).

(* ---- the "usable with the server's key" predicate of the property statement, stated on the
   key agreement kind of the suite (not on the flag bits the code's filter reads) ---- *)
Definition usable (vers : N) (k : keytype) (ecdhe_ok : bool) (row : suite_row) : bool :=
  kx_ok row k vers && (if is_ecdhe_row row then ecdhe_ok else true) &&
  negb ((vers <? V12) && has_flag (row_flags row) flag_tls12).

(* ---- correspondence cases ---- *)
Definition opt_N_eqb := option_eqb N.eqb.
Definition outcome_eqb (a b : outcome) : bool :=
  match a, b with
  | Ok v1 s1 a1 c1 k1, Ok v2 s2 a2 c2 k2 =>
      (v1 =? v2) && (s1 =? s2) && opt_N_eqb a1 a2 && opt_N_eqb c1 c2 && (k1 =? k2)
  | Fail a1 b1, Fail a2 b2 => (a1 =? a2) && Bool.eqb b1 b2
  | NoHello, NoHello => true
  | _, _ => false
  end.

(* one cell of the handshake matrix: configurations, server key, what the first connection did,
   and (when a second connection was made) whether it resumed *)
Definition case := (config * config * keytype * outcome * option bool)%type.
Definition check_case (x : case) : bool :=
  let '(c, s, k, obs, res) := x in
  outcome_eqb (negotiate c s k) obs &&
  match res with
  | None => true
  | Some r => match obs with Ok _ _ _ _ _ => Bool.eqb r (expect_resume c s) | _ => true end
  end.

Definition dcase := (config * config * keytype * N * outcome)%type.
Definition check_dcase (x : dcase) : bool :=
  let '(c, s, k, d, obs) := x in outcome_eqb (negotiate_downgraded c s k d) obs.

(* ---- key agreement: what both ends feed into the master secret (RFC 5246 8.1.2: the finite-field
   DH value Z with its leading zero bytes stripped; RFC 8422 5.10: the x coordinate as a string of
   the field's length, zeros kept).  [z] is the shared value computed by the harness with math/big /
   crypto/ecdh; [server] and [client] are what processClientKeyExchange and the client's side return
   for the same private values. *)
Fixpoint to_be (fuel : nat) (n : N) (acc : bytes) : bytes :=
  match fuel with
  | O => acc
  | S f => if n =? 0 then acc else to_be f (n / 256) ((n mod 256) :: acc)
  end.
Definition dhe_premaster (z : N) : bytes := to_be (S (N.to_nat (N.log2 z))) z [].
Definition ecdhe_premaster (len : N) (z : N) : bytes :=
  let b := dhe_premaster z in repeat 0 (N.to_nat len - length b)%nat ++ b.

Inductive kcase :=
| KDhe (z : N) (server client : bytes)
| KEcdhe (len z : N) (server client : bytes).
Definition check_kcase (k : kcase) : bool :=
  match k with
  | KDhe z sv cl => bytes_eqb sv (dhe_premaster z) && bytes_eqb cl (dhe_premaster z)
  | KEcdhe len z sv cl => bytes_eqb sv (ecdhe_premaster len z) && bytes_eqb cl (ecdhe_premaster len z)
  end.

(* function-level cases (hooks on the unexported functions) *)
Inductive fcase :=
| FSupported (c : config) (out : list N)
| FFromMax (m : N) (out : list N)
| FMutualVersion (c : config) (peer : list N) (out : option N)
| FHelloSuites (c : config) (vers : N) (out : list N)
| FSuites13 (c : config) (out : list N)
| FSuiteOk (id vers : N) (k : keytype) (ecdhe_ok : bool) (out : option bool)
| FSuiteOkAll (id : N) (out : option (list bool))   (* versions 1.0..1.3 x keys x ecdheOk false,true *)
| FSelect (ids supp : list N) (vers : N) (k : keytype) (ecdhe_ok : bool) (out : option N)
| FDeprioritize (l out : list N)
| FAesPreferred (l : list N) (out : bool)
| FMutualProtocol (protos pref : list N) (out : option N).

Definition lN_eqb := list_eqb N.eqb.
Definition suite_ok_all (row : suite_row) : list bool :=
  flat_map (fun vers => flat_map (fun k => map (fun e => cipher_suite_ok vers k e row) [false; true])
                                 [KRsa; KP256; KP384; KEd25519]) [V10; V11; V12; V13].
Definition check_fcase (f : fcase) : bool :=
  match f with
  | FSupported c out => lN_eqb (supported_versions c) out
  | FFromMax m out => lN_eqb (supported_versions_from_max m) out
  | FMutualVersion c peer out => opt_N_eqb (mutual_version c peer) out
  | FHelloSuites c vers out =>
      (client_hello_version c =? vers) && lN_eqb (client_hello_suites c) out
  | FSuites13 c out => lN_eqb (cipher_suites_tls13 c) out
  | FSuiteOk id vers k e out =>
      option_eqb Bool.eqb (option_map (cipher_suite_ok vers k e) (suite_by_id id)) out
  | FSuiteOkAll id out =>
      option_eqb (list_eqb Bool.eqb) (option_map suite_ok_all (suite_by_id id)) out
  | FSelect ids supp vers k e out =>
      opt_N_eqb (select_cipher_suite ids supp (cipher_suite_ok vers k e)) out
  | FDeprioritize l out => lN_eqb (deprioritize_aes l) out
  | FAesPreferred l out => Bool.eqb (aesgcm_preferred l) out
  | FMutualProtocol protos pref out => opt_N_eqb (mutual_protocol protos pref) out
  end.
