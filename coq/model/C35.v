(* C35 — model of tls/common.go lruSessionCache (Put / Get), executable only.
   Go: map m (index) + container/list q (front = most recently used).
   Model: the list q alone; the map is its index (keys are distinct, see proofs).
   Keys and sessions are abstract identifiers (N).  A session pointer is
   [Some id]; nil is [None]. *)
From Coq Require Import List NArith Bool Arith.
From Verif Require Import Harness.
Import ListNotations.

Definition key := N.
Definition sess := N.
Definition entry := (key * sess)%type.

Record cache := { cap : nat; q : list entry }.

Definition new_cache (capacity : nat) : cache :=
  {| cap := if Nat.ltb capacity 1 then 64 else capacity; q := [] |}.

Fixpoint lookup (k : key) (l : list entry) : option sess :=
  match l with
  | [] => None
  | (k', v) :: r => if N.eqb k k' then Some v else lookup k r
  end.

Fixpoint remove_key (k : key) (l : list entry) : list entry :=
  match l with
  | [] => []
  | (k', v) :: r => if N.eqb k k' then remove_key k r else (k', v) :: remove_key k r
  end.

(* Put, branch by branch as in Go:
   1. key present: nil -> remove; else update + move to front
   2. key absent and nil session: nothing (after the fix: commit "fix: lruSessionCache.Put(k, nil) ...")
   3. room left: push front
   4. full: recycle the back element, move it to the front *)
Definition put (k : key) (v : option sess) (c : cache) : cache :=
  match lookup k (q c) with
  | Some _ =>
      match v with
      | None => {| cap := cap c; q := remove_key k (q c) |}
      | Some s => {| cap := cap c; q := (k, s) :: remove_key k (q c) |}
      end
  | None =>
      match v with
      | None => c
      | Some s =>
          if Nat.ltb (length (q c)) (cap c)
          then {| cap := cap c; q := (k, s) :: q c |}
          else {| cap := cap c; q := (k, s) :: removelast (q c) |}
      end
  end.

(* Get: (result, found-flag) and the refreshed cache *)
Definition get (k : key) (c : cache) : option sess * cache :=
  match lookup k (q c) with
  | Some s => (Some s, {| cap := cap c; q := (k, s) :: remove_key k (q c) |})
  | None => (None, c)
  end.

Inductive op := Put (k : key) (v : option sess) | Get (k : key).

(* observable of one step: for Get the returned session (None = not found);
   after every step the recency-ordered key/value dump *)
Definition step (c : cache) (o : op) : cache * option (option sess) :=
  match o with
  | Put k v => (put k v c, None)
  | Get k => let '(r, c') := get k c in (c', Some r)
  end.

Fixpoint run (c : cache) (ops : list op) : list (option (option sess) * list entry) :=
  match ops with
  | [] => []
  | o :: r => let '(c', out) := step c o in (out, q c') :: run c' r
  end.

Definition state_after (c : cache) (ops : list op) : cache :=
  fold_left (fun c o => fst (step c o)) ops c.

(* ---- correspondence case ---- *)
Definition entry_eqb : entry -> entry -> bool := prod_eqb N.eqb N.eqb.
Definition obs := (option (option sess) * list entry)%type.
Definition obs_eqb : obs -> obs -> bool :=
  prod_eqb (option_eqb (option_eqb N.eqb)) (list_eqb entry_eqb).

(* (capacity, ops, observed trace from the Go implementation) *)
Definition case := (nat * list op * list obs)%type.
Definition check_case (c : case) : bool :=
  let '(capacity, ops, observed) := c in
  list_eqb obs_eqb (run (new_cache capacity) ops) observed.

(* ---- exhaustive enumeration support: all op sequences of length n over a
   given op alphabet, folded into one rolling checksum that the Go side
   computes in the same order ---- *)
(* land-mask instead of mod: N.modulo costs milliseconds under vm_compute, N.land microseconds *)
Definition mix (h x : N) : N := N.land (h * 31 + x + 1) 2147483647%N.

Definition hash_opt (o : option sess) : N := match o with None => 0 | Some s => s + 1 end%N.
Definition hash_entries (h : N) (l : list entry) : N :=
  fold_left (fun h e => mix (mix h (fst e)) (snd e)) l (mix h 77).
Definition hash_obs (h : N) (o : obs) : N :=
  let h1 := match fst o with
            | None => mix h 0
            | Some r => mix (mix h 1) (hash_opt r)
            end in
  hash_entries h1 (snd o).

(* depth-first over all sequences of length <= n, hashing each step's observable
   along the path; same traversal order as the Go harness *)
Fixpoint enum_hash (alphabet : list op) (n : nat) (c : cache) (h : N) : N :=
  match n with
  | O => h
  | S n' =>
      fold_left (fun h o =>
                   let '(c', out) := step c o in
                   enum_hash alphabet n' c' (hash_obs h (out, q c')))
                alphabet h
  end.

Definition alphabet (nkeys nsess : N) : list op :=
  flat_map (fun k => Get k :: Put k None ::
                     map (fun s => Put k (Some s)) (map N.of_nat (seq 0 (N.to_nat nsess))))
           (map N.of_nat (seq 0 (N.to_nat nkeys))).

(* (capacity, nkeys, nsess, depth, observed checksum) *)
Definition xcase := (nat * N * N * nat * N)%type.
Definition check_xcase (x : xcase) : bool :=
  let '(capacity, nk, ns, depth, h) := x in
  N.eqb (enum_hash (alphabet nk ns) depth (new_cache capacity) 0%N) h.
