(* C31 — model of tls/ticket.go (encryptTicket / decryptTicket, session-state
   codecs), the TLS 1.2 and 1.3 resumption decisions (handshake_server.go
   checkForResumption, handshake_server_tls13.go checkForResumption) and the
   ticket-key management of tls/common.go (ticketKeys, SetSessionTicketKeys,
   ticketKeyFromBytes).  Executable definitions only.

   HMAC-SHA-256 and the AES-CTR keystream are Section variables; [check_*]
   instantiate HMAC with the Gallina one and the keystream with a table computed
   by the harness with Go's standard library (AES is not modelled). *)
From Coq Require Import List NArith ZArith Bool Arith.
From Verif Require Import Harness Sha256 Sha512 Hmac.
From VerifGen Require Import C31_gen.
Import ListNotations.

Record tkey := { kname : bytes; kaes : bytes; khmac : bytes; kcreated : Z }.

(* ticketKeyNameLen, aes.BlockSize, sha256.Size *)
Definition nameLen : nat := 16.
Definition ivLen : nat := 16.
Definition macLen : nat := 32.

Section TICKET.
  Variable hm : bytes -> bytes -> bytes.            (* HMAC-SHA-256(key, msg) *)
  Variable ctr : bytes -> bytes -> nat -> bytes.    (* first n bytes of the AES-CTR keystream for (key, iv) *)

  (* encryptTicket: keyName16 | iv16 | state XOR keystream | HMAC(everything before);
     None = error (no keys, or the random source is short) *)
  Definition encrypt_ticket (keys : list tkey) (rand state : bytes) : option bytes :=
    match keys with
    | [] => None
    | k :: _ =>
        if Nat.ltb (length rand) ivLen then None
        else
          let iv := firstn ivLen rand in
          let body := kname k ++ iv ++ xor_bytes state (ctr (kaes k) iv (length state)) in
          Some (body ++ hm (khmac k) body)
    end.

  (* for i, candidateKey := range c.ticketKeys { if bytes.Equal(keyName, candidateKey.keyName[:]) ... break } *)
  Fixpoint find_key (name : bytes) (keys : list tkey) (i : nat) : option (nat * tkey) :=
    match keys with
    | [] => None
    | k :: r => if bytes_eqb name (kname k) then Some (i, k) else find_key name r (S i)
    end.

  (* decryptTicket: (plaintext, usedOldKey); None = (nil, false) *)
  Definition decrypt_ticket (keys : list tkey) (t : bytes) : option (bytes * bool) :=
    if Nat.ltb (length t) (nameLen + ivLen + macLen) then None
    else
      let name := firstn nameLen t in
      let iv := firstn ivLen (skipn nameLen t) in
      let mac := skipn (length t - macLen) t in
      let ct := firstn (length t - macLen - (nameLen + ivLen)) (skipn (nameLen + ivLen) t) in
      match find_key name keys 0 with
      | None => None
      | Some (i, k) =>
          let expected := hm (khmac k) (firstn (length t - macLen) t) in
          if bytes_eqb mac expected
          then Some (xor_bytes ct (ctr (kaes k) iv (length ct)), Nat.ltb 0 i)
          else None
      end.
End TICKET.

(* ---------- byte-string readers / builders (cryptobyte) ---------- *)
Definition be_val (l : bytes) : N := fold_left (fun a b => (a * 256 + b)%N) l 0%N.

Fixpoint be_bytes (n : nat) (v : N) : bytes :=
  match n with
  | O => []
  | S k => be_bytes k (N.shiftr v 8) ++ [N.land v 255]
  end.

Definition read_n (n : nat) (s : bytes) : option (bytes * bytes) :=
  if Nat.ltb (length s) n then None else Some (firstn n s, skipn n s).

Definition read_uint (n : nat) (s : bytes) : option (N * bytes) :=
  match read_n n s with
  | Some (h, r) => Some (be_val h, r)
  | None => None
  end.

(* ReadUintNLengthPrefixed *)
Definition read_prefixed (n : nat) (s : bytes) : option (bytes * bytes) :=
  match read_uint n s with
  | Some (len, r) => read_n (N.to_nat len) r
  | None => None
  end.

(* AddUintNLengthPrefixed: None = length does not fit (BytesOrPanic panics) *)
Definition add_prefixed (n : nat) (b : bytes) : option bytes :=
  if (N.of_nat (length b) <? 2 ^ (8 * N.of_nat n))%N then Some (be_bytes n (N.of_nat (length b)) ++ b) else None.

(* ---------- sessionState (TLS <= 1.2) ---------- *)
Record state12 := { s_vers : N; s_suite : N; s_created : N; s_master : bytes; s_certs : list bytes }.

Fixpoint add_certs (certs : list bytes) : option bytes :=
  match certs with
  | [] => Some []
  | c :: r => match add_prefixed 3 c, add_certs r with
              | Some x, Some y => Some (x ++ y)
              | _, _ => None
              end
  end.

Definition marshal12 (s : state12) : option bytes :=
  match add_prefixed 2 (s_master s), add_certs (s_certs s) with
  | Some m, Some cl =>
      match add_prefixed 3 cl with
      | Some cl' => Some (be_bytes 2 (s_vers s) ++ be_bytes 2 (s_suite s) ++ be_bytes 8 (s_created s) ++ m ++ cl')
      | None => None
      end
  | _, _ => None
  end.

(* for !certList.Empty() { readUint24LengthPrefixed(&certList, &cert) ... } *)
Fixpoint read_certs (fuel : nat) (s : bytes) : option (list bytes) :=
  match s with
  | [] => Some []
  | _ =>
      match fuel with
      | O => None
      | S f => match read_prefixed 3 s with
               | Some (c, r) => match read_certs f r with
                                | Some l => Some (c :: l)
                                | None => None
                                end
               | None => None
               end
      end
  end.

Definition unmarshal12 (data : bytes) : option state12 :=
  match read_uint 2 data with
  | Some (vers, r1) =>
      match read_uint 2 r1 with
      | Some (suite, r2) =>
          match read_uint 8 r2 with
          | Some (created, r3) =>
              match read_prefixed 2 r3 with
              | Some (master, r4) =>
                  match master with
                  | [] => None
                  | _ =>
                      match read_prefixed 3 r4 with
                      | Some (cl, r5) =>
                          match read_certs (length cl) cl with
                          | Some certs =>
                              match r5 with
                              | [] => Some {| s_vers := vers; s_suite := suite; s_created := created;
                                              s_master := master; s_certs := certs |}
                              | _ => None
                              end
                          | None => None
                          end
                      | None => None
                      end
                  end
              | None => None
              end
          | None => None
          end
      | None => None
      end
  | None => None
  end.

(* ---------- sessionStateTLS13: header modelled, the certificate entry list is
   parsed by [cert_count] (Section variable: number of certificates, None = malformed) ---------- *)
Record state13 := { t_suite : N; t_created : N; t_secret : bytes; t_ncerts : nat }.

Section STATE13.
  Variable cert_count : bytes -> option nat.

  Definition unmarshal13 (data : bytes) : option state13 :=
    match read_uint 2 data with
    | Some (version, r1) =>
        if negb (N.eqb version 772) then None else
        match read_uint 1 r1 with
        | Some (revision, r2) =>
            if negb (N.eqb revision 0) then None else
            match read_uint 2 r2 with
            | Some (suite, r3) =>
                match read_uint 8 r3 with
                | Some (created, r4) =>
                    match read_prefixed 1 r4 with
                    | Some (secret, r5) =>
                        match secret with
                        | [] => None
                        | _ => match cert_count r5 with
                               | Some n => Some {| t_suite := suite; t_created := created; t_secret := secret; t_ncerts := n |}
                               | None => None
                               end
                        end
                    | None => None
                    end
                | None => None
                end
            | None => None
            end
        | None => None
        end
    | None => None
    end.
End STATE13.

(* ---------- time: createdAt is a uint64 read as int64 seconds; the ticket is stale when
   now - createdAt > maxSessionTicketLifetime (7 days).  Valid for |createdAt| <= 2^62
   (time.Time arithmetic does not overflow there). ---------- *)
Definition ticket_lifetime : Z := 604800.
Definition as_int64 (v : N) : Z := if (v <? 2 ^ 63)%N then Z.of_N v else (Z.of_N v - 2 ^ 64)%Z.
Definition stale (now : Z) (created : N) : bool := (ticket_lifetime <? now - as_int64 created)%Z.

(* ---------- suites ---------- *)
(* C31_gen.suite_flags : list (N * (bool * bool * bool * bool)) = id, (ECDHE, EC signature, DSS, TLS 1.2 only),
   regenerated from the suite table reachable through cipherSuiteByID *)
Fixpoint lookup_suite (id : N) (tbl : list (N * (bool * bool * bool * bool))) : option (bool * bool * bool * bool) :=
  match tbl with
  | [] => None
  | (i, f) :: r => if N.eqb id i then Some f else lookup_suite id r
  end.

Record srv := {
  v_disabled : bool;             (* Config.SessionTicketsDisabled *)
  v_now : Z;                     (* Config.time(), unix seconds *)
  v_vers : N;                    (* c.vers *)
  v_suites : list N;             (* Config.cipherSuites() *)
  v_auth : N;                    (* Config.ClientAuth: 0 NoClientCert .. 4 RequireAndVerifyClientCert *)
  v_ecdhe : bool; v_ecsign : bool; v_rsasign : bool; v_rsadec : bool   (* hs.ecdheOk ... *)
}.

(* serverHandshakeState.cipherSuiteOk *)
Definition cipher_suite_ok (s : srv) (f : bool * bool * bool * bool) : bool :=
  let '(ecdhe, ecsign, dss, tls12only) := f in
  (if ecdhe then v_ecdhe s && (if ecsign then v_ecsign s else v_rsasign s)
   else if dss then false else v_rsadec s)
  && negb ((v_vers s <? 771)%N && tls12only).

(* selectCipherSuite([]uint16{id}, supported, ok) *)
Definition select_suite (s : srv) (id : N) : option N :=
  match lookup_suite id suite_flags with
  | Some f => if cipher_suite_ok s f && existsb (N.eqb id) (v_suites s) then Some id else None
  | None => None
  end.

Definition requires_client_cert (auth : N) : bool := N.eqb auth 2 || N.eqb auth 4.

(* result of the TLS 1.3 decision: no PSK (full handshake), PSK identity i accepted, or a fatal alert *)
Inductive r13 := NoPSK | UsePSK (i : nat) (st : state13) | Abort.

Section DECISIONS.
  Variable hm : bytes -> bytes -> bytes.
  Variable ctr : bytes -> bytes -> nat -> bytes.

  (* TLS <= 1.2 checkForResumption: Some (state, usedOldKey, suite) = resume *)
  Definition check12 (keys : list tkey) (s : srv) (ticket : bytes) (client_suites : list N)
    : option (state12 * bool * N) :=
    if v_disabled s then None else
    match decrypt_ticket hm ctr keys ticket with
    | None => None
    | Some (plaintext, used_old) =>
        match unmarshal12 plaintext with
        | None => None
        | Some st =>
            if stale (v_now s) (s_created st) then None
            else if negb (N.eqb (v_vers s) (s_vers st)) then None
            else if negb (existsb (N.eqb (s_suite st)) client_suites) then None
            else match select_suite s (s_suite st) with
                 | None => None
                 | Some suite =>
                     let has_certs := match s_certs st with [] => false | _ => true end in
                     if requires_client_cert (v_auth s) && negb has_certs then None
                     else if has_certs && N.eqb (v_auth s) 0 then None
                     else Some (st, used_old, suite)
                 end
        end
    end.

  (* TLS 1.3 checkForResumption *)
  Variable cert_count : bytes -> option nat.
  Variable binder_ok : nat -> state13 -> bool.      (* the i-th binder verifies under the ticket's secret *)

  (* hash size of a TLS 1.3 suite id (C31_gen.suites13), None = unknown suite *)
  Fixpoint hash13 (id : N) (tbl : list (N * N)) : option N :=
    match tbl with
    | [] => None
    | (i, h) :: r => if N.eqb id i then Some h else hash13 id r
    end.

  Fixpoint scan13 (keys : list tkey) (s : srv) (suite_hash : N) (ids : list bytes) (i : nat) : r13 :=
    match ids with
    | [] => NoPSK
    | label :: rest =>
        if Nat.leb 5 i then NoPSK          (* maxClientPSKIdentities *)
        else
          let next := scan13 keys s suite_hash rest (S i) in
          match decrypt_ticket hm ctr keys label with
          | None => next
          | Some (plaintext, _) =>
              match unmarshal13 cert_count plaintext with
              | None => next
              | Some st =>
                  if stale (v_now s) (t_created st) then next
                  else match hash13 (t_suite st) suites13 with
                       | None => next
                       | Some h =>
                           if negb (N.eqb h suite_hash) then next
                           else
                             let has_certs := negb (Nat.eqb (t_ncerts st) 0) in
                             if requires_client_cert (v_auth s) && negb has_certs then next
                             else if has_certs && N.eqb (v_auth s) 0 then next
                             else if binder_ok i st then UsePSK i st else Abort
                       end
              end
          end
    end.

  Definition check13 (keys : list tkey) (s : srv) (suite_hash : N) (mode_dhe : bool)
             (ids : list bytes) (nbinders : nat) : r13 :=
    if v_disabled s then NoPSK
    else if negb mode_dhe then NoPSK
    else if negb (Nat.eqb (length ids) nbinders) then Abort
    else scan13 keys s suite_hash ids 0.
End DECISIONS.

(* sendSessionTicket (TLS <= 1.2):
     createdAt := now; if hs.sessionState != nil { createdAt = hs.sessionState.createdAt }
   hs.sessionState is set as soon as the presented ticket OPENS (before the freshness / version / suite
   checks), so the new ticket inherits the creation time of any authentic presented ticket, resumed or
   not; only when no ticket opened is the current time used.  [presented_created] = creation time of the
   presented ticket if it opened.  TLS 1.3 sendSessionTickets always stamps the current time. *)
Definition issue_created12 (presented_created : option N) (now : Z) : N :=
  match presented_created with
  | Some c => c
  | None => Z.to_N now
  end.

(* ---------- ticket keys: ticketKeyFromBytes, ticketKeys, SetSessionTicketKeys ---------- *)
Definition key_rotation : Z := 86400.      (* ticketKeyRotation *)
Definition key_lifetime : Z := 604800.     (* ticketKeyLifetime *)

(* Config state: the legacy SessionTicketKey field, explicit keys, auto-rotated keys *)
Inductive legacy := LegacyZero | LegacyDeprecated | LegacyUser (b : bytes).
Record kcfg := { k_legacy : legacy; k_explicit : list tkey; k_auto : list tkey }.

Section KEYS.
  Variable h512 : bytes -> bytes.          (* SHA-512 *)

  Definition key_from_bytes (b : bytes) (now : Z) : tkey :=
    let h := h512 b in
    {| kname := firstn 16 h; kaes := firstn 16 (skipn 16 h); khmac := firstn 16 (skipn 32 h); kcreated := now |}.

  (* SetSessionTicketKeys (non-empty list; the Go function panics on an empty one) *)
  Definition set_keys (c : kcfg) (keys : list bytes) (now : Z) : kcfg :=
    {| k_legacy := k_legacy c; k_explicit := map (fun b => key_from_bytes b now) keys; k_auto := k_auto c |}.

  (* initLegacySessionTicketKeyRLocked; [rand] is the unread random stream *)
  Definition init_legacy (c : kcfg) (now : Z) (rand : bytes) : kcfg * bytes :=
    match k_legacy c with
    | LegacyZero =>
        ({| k_legacy := LegacyDeprecated; k_explicit := k_explicit c; k_auto := k_auto c |}, skipn 32 rand)
    | LegacyDeprecated => (c, rand)
    | LegacyUser b =>
        match k_explicit c with
        | [] => ({| k_legacy := k_legacy c; k_explicit := [key_from_bytes b now]; k_auto := k_auto c |}, rand)
        | _ => (c, rand)
        end
    end.

  (* Config.ticketKeys(nil) with tickets enabled: the keys for this connection, the new state, the unread randomness *)
  Definition ticket_keys (c : kcfg) (now : Z) (rand : bytes) : list tkey * kcfg * bytes :=
    let '(c1, rand1) := init_legacy c now rand in
    match k_explicit c1 with
    | _ :: _ => (k_explicit c1, c1, rand1)
    | [] =>
        let fresh := match k_auto c1 with
                     | k :: _ => (now - kcreated k <? key_rotation)%Z
                     | [] => false
                     end in
        if fresh then (k_auto c1, c1, rand1)
        else
          let valid := key_from_bytes (firstn 32 rand1) now ::
                       filter (fun k => (now - kcreated k <? key_lifetime)%Z) (k_auto c1) in
          (valid, {| k_legacy := k_legacy c1; k_explicit := []; k_auto := valid |}, skipn 32 rand1)
    end.
End KEYS.

(* ================= correspondence cases ================= *)
(* keystream table: ((aes key, iv), keystream) computed with crypto/aes + cipher.NewCTR *)
Definition kstable := list ((bytes * bytes) * bytes).
Fixpoint ks_lookup (tbl : kstable) (key iv : bytes) (n : nat) : bytes :=
  match tbl with
  | [] => []
  | ((k, i), s) :: r => if bytes_eqb k key && bytes_eqb i iv then firstn n s else ks_lookup r key iv n
  end.

Definition certtable := list (bytes * option N).
Fixpoint cert_lookup (tbl : certtable) (rest : bytes) : option nat :=
  match tbl with
  | [] => None
  | (b, r) :: t => if bytes_eqb b rest then option_map N.to_nat r else cert_lookup t rest
  end.

Definition mk_key (name aes hmac : bytes) (created : Z) : tkey :=
  {| kname := name; kaes := aes; khmac := hmac; kcreated := created |}.

Definition tkey_eqb (a b : tkey) : bool :=
  bytes_eqb (kname a) (kname b) && bytes_eqb (kaes a) (kaes b) && bytes_eqb (khmac a) (khmac b)
  && Z.eqb (kcreated a) (kcreated b).

Definition state12_eqb (a b : state12) : bool :=
  N.eqb (s_vers a) (s_vers b) && N.eqb (s_suite a) (s_suite b) && N.eqb (s_created a) (s_created b)
  && bytes_eqb (s_master a) (s_master b) && list_eqb bytes_eqb (s_certs a) (s_certs b).

Definition mk_state12 (v s c : N) (m : bytes) (certs : list bytes) : state12 :=
  {| s_vers := v; s_suite := s; s_created := c; s_master := m; s_certs := certs |}.

Definition mk_srv (disabled : bool) (now : Z) (vers : N) (suites : list N) (auth : N)
           (ecdhe ecsign rsasign rsadec : bool) : srv :=
  {| v_disabled := disabled; v_now := now; v_vers := vers; v_suites := suites; v_auth := auth;
     v_ecdhe := ecdhe; v_ecsign := ecsign; v_rsasign := rsasign; v_rsadec := rsadec |}.

(* one step of a key-management history *)
Inductive kop :=
| KGet (now : Z)                       (* ticketKeys(nil) at time now *)
| KSet (now : Z) (keys : list bytes).  (* SetSessionTicketKeys *)

Fixpoint run_kops (c : kcfg) (rand : bytes) (ops : list kop) : list (list tkey) :=
  match ops with
  | [] => []
  | KGet now :: r =>
      let '(ks, c', rand') := ticket_keys sha512 c now rand in ks :: run_kops c' rand' r
  | KSet now keys :: r => [] :: run_kops (set_keys sha512 c keys now) rand r
  end.

(* a modification of a genuine ticket *)
Inductive mutn := MNone | MFlip (pos mask : N) | MTrunc (len : N) | MAppend (b : bytes) | MReplace (t : bytes).

Fixpoint xor_at (t : bytes) (pos : nat) (mask : N) : bytes :=
  match t, pos with
  | [], _ => []
  | x :: r, O => N.lxor x mask :: r
  | x :: r, S p => x :: xor_at r p mask
  end.

Definition apply_mut (m : mutn) (t : bytes) : bytes :=
  match m with
  | MNone => t
  | MFlip pos mask => xor_at t (N.to_nat pos) mask
  | MTrunc len => firstn (N.to_nat len) t
  | MAppend b => t ++ b
  | MReplace t' => t'
  end.

Definition with_now (s : srv) (now : Z) : srv :=
  {| v_disabled := v_disabled s; v_now := now; v_vers := v_vers s; v_suites := v_suites s; v_auth := v_auth s;
     v_ecdhe := v_ecdhe s; v_ecsign := v_ecsign s; v_rsasign := v_rsasign s; v_rsadec := v_rsadec s |}.

Inductive case :=
(* encryptTicket with the given keys / random source; out = None on error *)
| CSeal (keys : list tkey) (rand state : bytes) (ks : kstable) (out : option bytes)
(* decryptTicket on modifications of one sealed ticket *)
| COpenBatch (keys : list tkey) (base : bytes) (ks : kstable) (rows : list (mutn * option (bytes * bool)))
(* sessionState codec *)
| CMarshal12 (st : state12) (out : option bytes)
| CUnmarshal12 (data : bytes) (out : option state12)
(* sessionStateTLS13.unmarshal: (suite, createdAt, secret, number of certificates) *)
| CUnmarshal13 (data : bytes) (certs : certtable) (out : option (N * N * bytes * N))
(* TLS 1.2 checkForResumption through the hook: (suite, usedOldKey, master secret) *)
| CCheck12 (keys : list tkey) (s : srv) (ticket : bytes) (client_suites : list N) (ks : kstable)
           (out : option (N * bool * bytes))
(* real handshakes (v_vers s: TLS <= 1.2 or 1.3) presenting modifications of [base] to servers holding
   the row's keys at the row's time: did the server resume, and with which suite.  TLS 1.3: the ticket is
   the only PSK identity and its binder is genuine; suite_hash is the hash size of the negotiated suite *)
| CShake (s : srv) (suite_hash : N) (base : bytes) (client_suites : list N) (ks : kstable) (certs : certtable)
         (key_sets : list (list tkey)) (rows : list (N * Z * mutn * bool * N))
(* creation times stamped into tickets issued by real handshakes:
   (the handshake resumed, createdAt of the presented ticket if it opened, server time, createdAt of the new ticket) *)
| CIssue (tls13 : bool) (rows : list (bool * option N * Z * N))
(* TLS 1.3 checkForResumption through the hook; binders: (not corrupted, resumption secret it was computed from);
   out: None = alert, Some None = no PSK, Some (Some i) = PSK identity i selected *)
| CCheck13 (keys : list tkey) (s : srv) (suite_hash : N) (mode_dhe : bool) (ids : list bytes)
           (binders : list (bool * bytes)) (ks : kstable) (certs : certtable) (out : option (option N))
(* key management history: initial legacy key, random stream, operations, observed key lists *)
| CKeys (user_key : option bytes) (rand : bytes) (ops : list kop) (out : list (list tkey)).

Definition check_case (c : case) : bool :=
  match c with
  | CSeal keys rand state ks out =>
      option_eqb bytes_eqb (encrypt_ticket hmac_sha256 (ks_lookup ks) keys rand state) out
  | COpenBatch keys base ks rows =>
      forallb (fun r => option_eqb (prod_eqb bytes_eqb Bool.eqb)
                                   (decrypt_ticket hmac_sha256 (ks_lookup ks) keys (apply_mut (fst r) base)) (snd r)) rows
  | CMarshal12 st out => option_eqb bytes_eqb (marshal12 st) out
  | CUnmarshal12 data out => option_eqb state12_eqb (unmarshal12 data) out
  | CUnmarshal13 data certs out =>
      option_eqb (prod_eqb (prod_eqb (prod_eqb N.eqb N.eqb) bytes_eqb) N.eqb)
                 (option_map (fun st => (t_suite st, t_created st, t_secret st, N.of_nat (t_ncerts st)))
                             (unmarshal13 (cert_lookup certs) data)) out
  | CCheck12 keys s ticket cs ks out =>
      option_eqb (prod_eqb (prod_eqb N.eqb Bool.eqb) bytes_eqb)
                 (option_map (fun r => let '(st, old, suite) := r in (suite, old, s_master st))
                             (check12 hmac_sha256 (ks_lookup ks) keys s ticket cs)) out
  | CIssue tls13 rows =>
      forallb (fun r => let '(resumed, prev, now, got) := r in
                        N.eqb (if tls13 then Z.to_N now else issue_created12 prev now) got) rows
  | CShake s h base cs ks certs key_sets rows =>
      forallb (fun r =>
                 let '(ki, now, m, resumed, suite) := r in
                 let keys := nth (N.to_nat ki) key_sets [] in
                 let t := apply_mut m base in
                 let s' := with_now s now in
                 if (v_vers s <? 772)%N then
                   match check12 hmac_sha256 (ks_lookup ks) keys s' t cs with
                   | Some (_, _, su) => resumed && N.eqb su suite
                   | None => negb resumed
                   end
                 else
                   match check13 hmac_sha256 (ks_lookup ks) (cert_lookup certs) (fun _ _ => true) keys s' h true [t] 1 with
                   | UsePSK _ _ => resumed
                   | _ => negb resumed
                   end) rows
  | CCheck13 keys s h mode ids binders ks certs out =>
      let binder_ok := fun i st => match nth_error binders i with
                                   | Some (good, secret) => good && bytes_eqb secret (t_secret st)
                                   | None => false
                                   end in
      match check13 hmac_sha256 (ks_lookup ks) (cert_lookup certs) binder_ok keys s h mode ids (length binders) with
      | NoPSK => option_eqb (option_eqb N.eqb) (Some None) out
      | UsePSK i _ => option_eqb (option_eqb N.eqb) (Some (Some (N.of_nat i))) out
      | Abort => option_eqb (option_eqb N.eqb) None out
      end
  | CKeys user rand ops out =>
      list_eqb (list_eqb tkey_eqb)
               (run_kops {| k_legacy := match user with Some b => LegacyUser b | None => LegacyZero end;
                            k_explicit := []; k_auto := [] |} rand ops) out
  end.
