(* C03 — model of the signature-algorithm machinery of /repo/x509 (x509.go:
   signatureAlgorithmDetails, signingParamsForPublicKey, the signer-option choice
   of CreateCertificate / CreateCertificateRequest / Certificate.CreateCRL /
   CreateRevocationList, GetSignatureAlgorithmFromAI, CheckSignatureFromKey),
   of ocsp.CreateResponse / getSignatureAlgorithmFromOID, of rsa/pss.go
   (emsaPSSEncode, emsaPSSVerify, mgf1XOR) and of dsa.Verify.
   Executable definitions only.

   Mirrors the code after the repairs
     dab9c03 fix: CreateCertificateRequest signs with PSS options ...
     84040cf fix: CheckSignatureFromKey rejects a signature algorithm that does
             not match the type of the public key
     db01bcc fix: ... trailing data after an ECDSA signature for *AugmentedECDSA
   The pre-repair behaviour is kept as [csr_pss_unfixed] / [check_sig_unfixed]
   for the refutation witnesses.

   The two signatureAlgorithmDetails tables and hashPrefixes are NOT written
   here: they are regenerated from the built code into gen/C03Tables_gen.v on
   every run; the functions below take the table as an argument. *)
From Coq Require Import List ZArith NArith Bool.
From Verif Require Import Harness.
From VerifModel Require Import C23.
Import ListNotations.
Open Scope N_scope.

(* ---------------------------------------------------------------- codes *)
(* x509.SignatureAlgorithm (iota): 0 Unknown, 1 MD2WithRSA, 2 MD5WithRSA, 3 SHA1WithRSA,
   4 SHA256WithRSA, 5 SHA384WithRSA, 6 SHA512WithRSA, 7 DSAWithSHA1, 8 DSAWithSHA256,
   9 ECDSAWithSHA1, 10 ECDSAWithSHA256, 11 ECDSAWithSHA384, 12 ECDSAWithSHA512,
   13 SHA256WithRSAPSS, 14 SHA384WithRSAPSS, 15 SHA512WithRSAPSS, 16 Ed25519Sig
   x509.PublicKeyAlgorithm: 0 Unknown, 1 RSA, 2 DSA, 3 ECDSA, 4 Ed25519, 5 X25519
   crypto.Hash: 2 MD5, 3 SHA1, 4 SHA224, 5 SHA256, 6 SHA384, 7 SHA512 (0 = none) *)
Definition oid := list N.
Definition oid_eqb : oid -> oid -> bool := list_eqb N.eqb.

(* one row of signatureAlgorithmDetails: (algo, oid, pubKeyAlgo, hash) *)
Definition detail := (N * oid * N * N)%type.
Definition d_algo (d : detail) : N := fst (fst (fst d)).
Definition d_oid (d : detail) : oid := snd (fst (fst d)).
Definition d_pka (d : detail) : N := snd (fst d).
Definition d_hash (d : detail) : N := snd d.

Definition is_rsa_pss (a : N) : bool := (a =? 13) || (a =? 14) || (a =? 15).

(* dynamic type of the (public) key handed to the library *)
Inductive keytype :=
| KRSA                 (* *zcrypto/rsa.PublicKey *)
| KDSA                 (* *zcrypto/dsa.PublicKey *)
| KECDSA (curve : N)   (* *ecdsa.PublicKey; 1 P-224, 2 P-256, 3 P-384, 4 P-521, 0 other *)
| KAugECDSA            (* *x509.AugmentedECDSA (what ParseCertificate produces) *)
| KEd25519             (* ed25519.PublicKey *)
| KOther.              (* anything else, e.g. *crypto/rsa.PublicKey, X25519 *)

(* AlgorithmIdentifier.Parameters *)
Inductive params :=
| PAbsent
| PNull
| PPSS (hash : N).     (* rsaPSSParameters(hash): hash OID, MGF1 with the same hash, salt = hash size, trailer 1 *)

Definition params_eqb (a b : params) : bool :=
  match a, b with
  | PAbsent, PAbsent => true
  | PNull, PNull => true
  | PPSS x, PPSS y => x =? y
  | _, _ => false
  end.

Inductive pad := PadPKCS1 | PadPSS | PadECDSA | PadDSA | PadEd25519.
Definition pad_eqb (a b : pad) : bool :=
  match a, b with
  | PadPKCS1, PadPKCS1 | PadPSS, PadPSS | PadECDSA, PadECDSA | PadDSA, PadDSA | PadEd25519, PadEd25519 => true
  | _, _ => false
  end.

Definition oid_sha256_rsa : oid := [1; 2; 840; 113549; 1; 1; 11].
Definition oid_rsa_pss : oid := [1; 2; 840; 113549; 1; 1; 10].
Definition oid_ecdsa_sha256 : oid := [1; 2; 840; 10045; 4; 3; 2].
Definition oid_ecdsa_sha384 : oid := [1; 2; 840; 10045; 4; 3; 3].
Definition oid_ecdsa_sha512 : oid := [1; 2; 840; 10045; 4; 3; 4].
Definition oid_ed25519 : oid := [1; 3; 101; 112].

(* ---------------------------------------------------------------- signing side *)
(* signingParamsForPublicKey: (hash, oid, params) or an error.
   [ed_ok]: x509 knows Ed25519, the OCSP copy does not; the OCSP copy also
   refuses hash 0 unconditionally (all its key types hash, so [should_hash] is always true). *)
Definition sp_default (ed_ok : bool) (k : keytype) : option (N * N * oid * params * bool) :=
  (* (pubType, hash, oid, params, shouldHash) *)
  match k with
  | KRSA => Some (1, 5, oid_sha256_rsa, PNull, true)
  | KECDSA c =>
      match c with
      | 1 | 2 => Some (3, 5, oid_ecdsa_sha256, PAbsent, true)
      | 3 => Some (3, 6, oid_ecdsa_sha384, PAbsent, true)
      | 4 => Some (3, 7, oid_ecdsa_sha512, PAbsent, true)
      | _ => None
      end
  | KEd25519 => if ed_ok then Some (4, 0, oid_ed25519, PAbsent, false) else None
  | _ => None
  end.

Fixpoint find_algo (tbl : list detail) (a : N) : option detail :=
  match tbl with
  | [] => None
  | d :: r => if d_algo d =? a then Some d else find_algo r a
  end.

Definition signing_params (ed_ok pss_ok : bool) (tbl : list detail) (k : keytype) (requested : N)
  : option (N * oid * params) :=
  match sp_default ed_ok k with
  | None => None
  | Some (pub_type, h, o, p, should_hash) =>
      if requested =? 0 then Some (h, o, p)
      else match find_algo tbl requested with
           | None => None                                  (* unknown SignatureAlgorithm *)
           | Some d =>
               if negb (d_pka d =? pub_type) then None      (* does not match private key type *)
               else if (d_hash d =? 0) && should_hash then None
               else Some (d_hash d, d_oid d,
                          if pss_ok && is_rsa_pss requested then PPSS (d_hash d) else p)
           end
  end.

Inductive api := ACert | ACSR | ACRL | ARevList | AOCSP.

(* which padding key.Sign applies, from the key type and the signer options *)
Definition pad_of_key (k : keytype) (pss_opts : bool) : pad :=
  match k with
  | KRSA => if pss_opts then PadPSS else PadPKCS1
  | KEd25519 => PadEd25519
  | KDSA => PadDSA
  | _ => PadECDSA
  end.

(* what an object created by the API carries and how it is really signed:
   (AlgorithmIdentifier OID, parameters, hash applied to the TBS bytes, padding) *)
Definition sign_opts (x509_tbl ocsp_tbl : list detail) (a : api) (k : keytype) (requested : N)
  : option (oid * params * N * pad) :=
  match a with
  | ACert | ACSR =>
      match signing_params true true x509_tbl k requested with
      | None => None
      | Some (h, o, p) => Some (o, p, h, pad_of_key k (negb (requested =? 0) && is_rsa_pss requested))
      end
  | ACRL =>   (* Certificate.CreateCRL has no algorithm parameter *)
      match signing_params true true x509_tbl k 0 with
      | None => None
      | Some (h, o, p) => Some (o, p, h, pad_of_key k false)
      end
  | ARevList =>
      match signing_params true true x509_tbl k requested with
      | None => None
      | Some (h, o, p) => Some (o, p, h, pad_of_key k (is_rsa_pss requested))
      end
  | AOCSP =>
      match signing_params false false ocsp_tbl k requested with
      | None => None
      | Some (h, o, p) => Some (o, p, h, pad_of_key k false)
      end
  end.

(* CreateCertificateRequest before dab9c03: PSS identifier, PKCS #1 v1.5 signature *)
Definition csr_pss_unfixed (x509_tbl : list detail) (k : keytype) (requested : N)
  : option (oid * params * N * pad) :=
  match signing_params true true x509_tbl k requested with
  | None => None
  | Some (h, o, p) => Some (o, p, h, pad_of_key k false)
  end.

(* ---------------------------------------------------------------- verification side *)
Fixpoint find_oid (tbl : list detail) (o : oid) : option detail :=
  match tbl with
  | [] => None
  | d :: r => if oid_eqb (d_oid d) o then Some d else find_oid r o
  end.

(* GetSignatureAlgorithmFromAI *)
Definition algo_of_ai (tbl : list detail) (o : oid) (p : params) : N :=
  if negb (oid_eqb o oid_rsa_pss) then
    match find_oid tbl o with Some d => d_algo d | None => 0 end
  else match p with
       | PPSS 5 => 13
       | PPSS 6 => 14
       | PPSS 7 => 15
       | _ => 0
       end.

(* ocsp.getSignatureAlgorithmFromOID: the OID alone *)
Definition ocsp_algo_of_oid (tbl : list detail) (o : oid) : N :=
  match find_oid tbl o with Some d => d_algo d | None => 0 end.

(* the switch at the top of CheckSignatureFromKey *)
Inductive switch_result := SwHash (h : N) | SwInsecure | SwUnsupported.
Definition check_switch (a : N) : switch_result :=
  match a with
  | 2 => SwHash 2
  | 3 | 7 | 9 => SwHash 3
  | 4 | 13 | 8 | 10 => SwHash 5
  | 5 | 14 | 11 => SwHash 6
  | 6 | 15 | 12 => SwHash 7
  | 1 => SwInsecure
  | 16 => SwHash 0
  | _ => SwUnsupported
  end.

Definition pka_of (tbl : list detail) (a : N) : N :=
  match find_algo tbl a with Some d => d_pka d | None => 0 end.

Definition key_algo (k : keytype) : option N :=
  match k with
  | KRSA => Some 1
  | KDSA => Some 2
  | KECDSA _ | KAugECDSA => Some 3
  | KEd25519 => Some 4
  | KOther => None
  end.

(* padding CheckSignatureFromKey verifies, from the algorithm and the key type *)
Definition pad_of_algo (a : N) (k : keytype) : pad :=
  match k with
  | KRSA => if is_rsa_pss a then PadPSS else PadPKCS1
  | KDSA => PadDSA
  | KEd25519 => PadEd25519
  | _ => PadECDSA
  end.

Inductive check_result := ROk | RInsecure | RUnsupported | RMismatch | RBadSig.
Definition check_result_eqb (a b : check_result) : bool :=
  match a, b with
  | ROk, ROk | RInsecure, RInsecure | RUnsupported, RUnsupported | RMismatch, RMismatch | RBadSig, RBadSig => true
  | _, _ => false
  end.

(* the hashes linked into the binary (x509 imports md5, sha1, sha256, sha512) *)
Definition hash_available (h : N) : bool :=
  (h =? 2) || (h =? 3) || (h =? 4) || (h =? 5) || (h =? 6) || (h =? 7).

Section Check.
  (* messages, digests, signatures and keys are abstract; the hash function and the
     primitive verification (RSA PKCS #1 v1.5 / PSS with salt = hash length, DSA and
     ECDSA including the DER decoding of (r, s), Ed25519) are parameters *)
  Variables Msg Digest Sig Key : Type.
  Variable ktype : Key -> keytype.
  Variable hashf : N -> Msg -> Digest.           (* hashf 0 m = the message itself *)
  Variable prim : pad -> Key -> N -> Digest -> Sig -> bool.
  Variable tbl : list detail.

  Definition check_sig (a : N) (k : Key) (m : Msg) (s : Sig) : check_result :=
    match check_switch a with
    | SwInsecure => RInsecure
    | SwUnsupported => RUnsupported
    | SwHash h =>
        if negb (h =? 0) && negb (hash_available h) then RUnsupported
        else match key_algo (ktype k) with
             | None => RUnsupported
             | Some ka =>
                 if negb (ka =? pka_of tbl a) then RMismatch
                 else if prim (pad_of_algo a (ktype k)) k h (hashf h m) s then ROk else RBadSig
             end
    end.

  (* before 84040cf: the key type alone selected the primitive *)
  Definition check_sig_unfixed (a : N) (k : Key) (m : Msg) (s : Sig) : check_result :=
    match check_switch a with
    | SwInsecure => RInsecure
    | SwUnsupported => RUnsupported
    | SwHash h =>
        if negb (h =? 0) && negb (hash_available h) then RUnsupported
        else match key_algo (ktype k) with
             | None => RUnsupported
             | Some _ => if prim (pad_of_algo a (ktype k)) k h (hashf h m) s then ROk else RBadSig
             end
    end.
End Check.

(* ---------------------------------------------------------------- RSASSA-PSS encoding (rsa/pss.go) *)
Definition xor_bytes (a b : bytes) : bytes := map (fun xy => N.lxor (fst xy) (snd xy)) (combine a b).

Section PSS.
  Variable Hf : bytes -> bytes.     (* the hash function *)
  Variable hLen : nat.              (* hash.Size() *)

  (* mgf1XOR: out ^= Hf(seed||0) || Hf(seed||1) || ... *)
  Fixpoint mgf1_blocks (seed : bytes) (counter : N) (n : nat) : bytes :=
    match n with
    | O => []
    | S n' => Hf (seed ++ i2osp 4 (Z.of_N counter)) ++ mgf1_blocks seed (counter + 1) n'
    end.
  Definition mgf1 (seed : bytes) (len : nat) : bytes :=
    firstn len (mgf1_blocks seed 0 (S (len / hLen))).
  Definition mgf1_xor (out seed : bytes) : bytes := xor_bytes out (mgf1 seed (length out)).

  (* 0xff >> (8*emLen - emBits) *)
  Definition top_mask (emLen emBits : Z) : N := N.shiftr 255 (Z.to_N (8 * emLen - emBits)).

  Definition mask_first (m : N) (b : bytes) : bytes :=
    match b with [] => [] | x :: r => N.land x m :: r end.

  Definition zeros8 : bytes := repeat 0 8.

  Definition emsa_pss_encode (mHash : bytes) (emBits : Z) (salt : bytes) : outcome bytes :=
    let sLen := zlen salt in
    let emLen := ((emBits + 7) / 8)%Z in
    if negb (zlen mHash =? Z.of_nat hLen)%Z then Err
    else if (emLen <? Z.of_nat hLen + sLen + 2)%Z then Err
    else
      let psLen := (emLen - sLen - Z.of_nat hLen - 2)%Z in
      let h := Hf (zeros8 ++ mHash ++ salt) in
      let db := repeat 0 (Z.to_nat psLen) ++ [1] ++ salt in
      let masked := mask_first (top_mask emLen emBits) (mgf1_xor db h) in
      Ok (masked ++ h ++ [188]).

  Fixpoint index_byte (b : bytes) (x : N) (i : Z) : Z :=
    match b with
    | [] => (-1)%Z
    | y :: r => if y =? x then i else index_byte r x (i + 1)%Z
    end.

  (* sLen: -1 = PSSSaltLengthEqualsHash, 0 = PSSSaltLengthAuto, > 0 explicit *)
  Definition emsa_pss_verify (mHash em : bytes) (emBits sLen : Z) : outcome unit :=
    let sLen := if (sLen =? -1)%Z then Z.of_nat hLen else sLen in
    let emLen := ((emBits + 7) / 8)%Z in
    if negb (emLen =? zlen em)%Z then Err
    else if negb (Z.of_nat hLen =? zlen mHash)%Z then Err
    else if (emLen <? Z.of_nat hLen + sLen + 2)%Z then Err
    else if negb (nth (Z.to_nat (emLen - 1)) em 0 =? 188) then Err
    else
      let dbLen := Z.to_nat (emLen - Z.of_nat hLen - 1) in
      let db := firstn dbLen em in
      let h := firstn hLen (skipn dbLen em) in
      let m := top_mask emLen emBits in
      if negb (N.land (nth 0 em 0) (N.lxor m 255) =? 0) then Err
      else
        let db := mask_first m (mgf1_xor db h) in
        let sLen' := if (sLen =? 0)%Z
                     then (let ps := index_byte db 1 0 in
                           if (ps <? 0)%Z then (-1)%Z else zlen db - ps - 1)%Z
                     else sLen in
        if (sLen' <? 0)%Z then Err
        else
          let psLen := (emLen - Z.of_nat hLen - sLen' - 2)%Z in
          if negb (forallb (fun e => e =? 0) (firstn (Z.to_nat psLen) db)) then Err
          else if negb (nth (Z.to_nat psLen) db 0 =? 1) then Err
          else
            let salt := skipn (length db - Z.to_nat sLen') db in
            if bytes_eqb (Hf (zeros8 ++ mHash ++ salt)) h then Ok tt else Err.
End PSS.

(* ---------------------------------------------------------------- dsa.Verify *)
Section DSA.
  Variable powmod : Z -> Z -> Z -> Z.
  Open Scope Z_scope.
  Definition dsa_verify (p q g y : Z) (hash : bytes) (r s : Z) : bool :=
    if p =? 0 then false
    else if (r <? 1) || (q <=? r) then false
    else if (s <? 1) || (q <=? s) then false
    else match mod_inverse s q with
         | None => false
         | Some w =>
             if negb (bitlen q mod 8 =? 0) then false
             else
               let z := os2ip hash in
               let u1 := (z * w) mod (Z.abs q) in
               let u2 := (r * w) mod (Z.abs q) in
               match go_exp_z powmod g u1 p, go_exp_z powmod y u2 p with
               | Some a, Some b => (((a * b) mod (Z.abs p)) mod (Z.abs q)) =? r
               | _, _ => false
               end
         end.

  (* dsa.Verify: (p, q, g, y, hash, r, s, observed) *)
  Definition dsacase := (Z * Z * Z * Z * bytes * Z * Z * bool)%type.
  Definition check_dsacase (c : dsacase) : bool :=
    let '(p, q, g, y, h, r, s, observed) := c in Bool.eqb (dsa_verify p q g y h r s) observed.
End DSA.

(* ---------------------------------------------------------------- correspondence *)
Definition keytype_eqb (a b : keytype) : bool :=
  match a, b with
  | KRSA, KRSA | KDSA, KDSA | KAugECDSA, KAugECDSA | KEd25519, KEd25519 | KOther, KOther => true
  | KECDSA x, KECDSA y => x =? y
  | _, _ => false
  end.

(* signing cell: (api, key type, requested algorithm) -> what the created object carries and how it
   is really signed, read back from the object by the harness *)
Definition cell := (oid * params * N * pad)%type.
Definition cell_eqb (a b : cell) : bool :=
  let '(o1, p1, h1, d1) := a in let '(o2, p2, h2, d2) := b in
  oid_eqb o1 o2 && params_eqb p1 p2 && (h1 =? h2) && pad_eqb d1 d2.

Definition signcase := (api * keytype * N * option cell)%type.
Definition check_signcase (xt ot : list detail) (c : signcase) : bool :=
  let '(a, k, req, observed) := c in
  option_eqb cell_eqb (sign_opts xt ot a k req) observed.

(* verification cell with ideal primitives: a signature is described by how it was made
   (padding, key id, hash, message id); it verifies iff everything matches *)
Definition sigdesc := (pad * N * N * N)%type.    (* pad, key id, hash, message id *)
Definition ideal_prim (p : pad) (k : keytype * N) (h : N) (d : N * N) (s : option sigdesc) : bool :=
  match s with
  | None => false                                  (* garbage / changed signature *)
  | Some (p', kid, h', mid) => pad_eqb p p' && (snd k =? kid) && (h =? h') && (fst d =? h') && (snd d =? mid)
  end.

(* what a caller can tell apart: 0 nil, 1 InsecureAlgorithmError, 2 ErrUnsupportedAlgorithm, 3 any other error *)
Definition class_of (r : check_result) : N :=
  match r with ROk => 0 | RInsecure => 1 | RUnsupported => 2 | RMismatch | RBadSig => 3 end.

(* (algo claimed, key type, key id, message id, signature, observed class); the table is the
   regenerated one (gen/C03Tables_gen.v), passed by the stream's check function *)
Definition checkcase := (N * keytype * N * N * option sigdesc * N)%type.
Definition check_checkcase (t : list detail) (c : checkcase) : bool :=
  let '(a, kt, kid, mid, s, observed) := c in
  class_of (check_sig N (N * N) (option sigdesc) (keytype * N) fst (fun h m => (h, m)) ideal_prim t a (kt, kid) mid s)
  =? observed.

(* PSS encoding: the hash function is given as the table of the calls the implementation made *)
Fixpoint assoc_bytes (t : list (bytes * bytes)) (x : bytes) : bytes :=
  match t with
  | [] => []
  | (k, v) :: r => if bytes_eqb k x then v else assoc_bytes r x
  end.

Inductive pssop :=
| PssEncode (mHash : bytes) (emBits : Z) (salt : bytes)
| PssVerify (mHash em : bytes) (emBits sLen : Z).

(* (hash size, hash table, operation, observation) *)
Definition psscase := (nat * list (bytes * bytes) * pssop * obs)%type.
Definition check_psscase (c : psscase) : bool :=
  let '(hl, t, o, ob) := c in
  obs_eqb (match o with
           | PssEncode mh eb salt => obs_bytes (emsa_pss_encode (assoc_bytes t) hl mh eb salt)
           | PssVerify mh em eb sl => obs_unit (emsa_pss_verify (assoc_bytes t) hl mh em eb sl)
           end) ob.
