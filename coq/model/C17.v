(* C17 — model of ct/scanner/scanner.go (Scan, fetcherJob, processEntry,
   parseCertificate).  Executable definitions only.

   Sequential core, mirroring the Go control flow:
     ranges start stop batch   — the partition loop of Scan
         for start < stop { end = min(start+batch, stop) - 1; push (start,end); start = end+1 }
     fetch_range lo hi answers — fetcherJob's retry loop for one range against a
         server whose successive answers are [answers] (then complete answers):
         an error or an empty answer is retried with the same start; k entries
         are labelled lo, lo+1, .. and lo advances by k; done when lo > hi
     process_entry             — processEntry + parseCertificate: which callbacks
         run and which counters move, by entry kind and options
   Indices are N (Go int64; overflow near 2^63 is outside the model).

   Entry kinds used by the harness (the payloads are built so that
   ct/x509 classifies them this way):
     0 X.509 ok            1 X.509, non-fatal parse error (negative serial)
     2 X.509 garbage       3 X.509, certificate-shaped ASN.1 but fatal parse error
     4 precert ok          5 precert, garbage TBS
     6 precert, non-fatal  7 precert, certificate-shaped ASN.1 but fatal parse error *)
From Coq Require Import List NArith Bool Arith.
From Verif Require Import Harness.
Import ListNotations.
Open Scope N_scope.

Fixpoint nseq (lo : N) (n : nat) : list N :=
  match n with
  | O => []
  | S n' => lo :: nseq (lo + 1) n'
  end.

(* ---- Scan: range partition ---- *)
Fixpoint ranges_fuel (fuel : nat) (start stop batch : N) : list (N * N) :=
  match fuel with
  | O => []
  | S f =>
      if start <? stop then
        let e := N.min (start + batch) stop - 1 in
        (start, e) :: ranges_fuel f (e + 1) stop batch
      else []
  end.

Definition ranges (start stop batch : N) : list (N * N) :=
  ranges_fuel (N.to_nat (stop - start)) start stop batch.

Definition range_len (r : N * N) : nat := N.to_nat (snd r + 1 - fst r).
Definition indices (r : N * N) : list N := nseq (fst r) (range_len r).

(* ---- fetcherJob ---- *)
Inductive answer := AErr | APrefix (k : N).

(* the log server's answer to get-entries(lo, hi) when it is willing to give k
   entries: a prefix of what was asked (the property's premise) *)
Definition serve (lo hi k : N) : list N := nseq lo (N.to_nat (N.min k (hi + 1 - lo))).

(* an entry as the fetcher passes it on: (index the fetcher assigns, identity
   of the entry the server sent) *)
Definition item := (N * N)%type.
Definition label_entries (lo : N) (resp : list N) : list item :=
  combine (nseq lo (length resp)) resp.

(* returns (the start parameter of every request made, entries passed on) *)
Fixpoint fetch_range (lo hi : N) (answers : list answer) : list N * list item :=
  match answers with
  | [] => ([lo], label_entries lo (serve lo hi (hi + 1 - lo)))
  | AErr :: r => let '(q, d) := fetch_range lo hi r in (lo :: q, d)
  | APrefix k :: r =>
      let resp := serve lo hi k in
      match resp with
      | [] => let '(q, d) := fetch_range lo hi r in (lo :: q, d)
      | _ :: _ =>
          let lo' := lo + N.of_nat (length resp) in
          if hi <? lo' then ([lo], label_entries lo resp)
          else let '(q, d) := fetch_range lo' hi r in (lo :: q, label_entries lo resp ++ d)
      end
  end.

(* ---- processEntry / parseCertificate ---- *)
Record opts := mkOpts { precert_only : bool; ignore_parse : bool; matcher_mode : N }.

(* what one processEntry call does: Matcher calls, foundCert calls, foundPrecert
   calls, and the increments of precertsSeen / unparsableEntries /
   entriesWithNonFatalErrors (certsProcessed always moves by one) *)
Record effect := mkEff { e_mc : N; e_fc : N; e_fp : N; e_pre : N; e_unp : N; e_nf : N }.

Definition matches (o : opts) (idx : N) : bool :=
  match matcher_mode o with
  | 0 => true
  | 1 => false
  | _ => N.odd idx
  end.

Inductive parsed := POk | PNonFatal | PFatalAsn1Ok | PFatalGarbage.
Definition parse_class (kind : N) : parsed :=
  match kind with
  | 0 | 4 => POk
  | 1 | 6 => PNonFatal
  | 3 | 7 => PFatalAsn1Ok
  | _ => PFatalGarbage
  end.
Definition is_precert (kind : N) : bool :=
  match kind with 4 | 5 | 6 | 7 => true | _ => false end.

(* parseCertificate: None = error returned; Some b = no error, b = certificate non-nil;
   then the increments of unparsableEntries and entriesWithNonFatalErrors *)
Definition parse_certificate (o : opts) (kind : N) : option bool * N * N :=
  match parse_class kind with
  | POk => (Some true, 0, 0)
  | PNonFatal => (Some true, 0, 1)
  | PFatalAsn1Ok => if ignore_parse o then (Some false, 1, 0) else (None, 1, 0)
  | PFatalGarbage => (None, 1, 0)
  end.

Definition b2n (b : bool) : N := if b then 1 else 0.

Definition process_entry (o : opts) (idx kind : N) : effect :=
  if is_precert kind then
    match parse_certificate o kind with
    | (None, u, n) => mkEff 0 0 0 0 u n
    | (Some true, u, n) => mkEff 1 0 (b2n (matches o idx)) 1 u n
    | (Some false, u, n) => mkEff 0 0 1 1 u n
    end
  else if precert_only o then mkEff 0 0 0 0 0 0
  else
    match parse_certificate o kind with
    | (None, u, n) => mkEff 0 0 0 0 u n
    | (Some true, u, n) => mkEff 1 (b2n (matches o idx)) 0 0 u n
    | (Some false, u, n) => mkEff 0 1 0 0 u n
    end.

(* ---- the whole scan, one fetcher and one matcher (sequential schedule) ---- *)
Fixpoint zip_script (rs : list (N * N)) (sc : list (list answer)) : list (N * N * list answer) :=
  match rs with
  | [] => []
  | r :: rs' =>
      match sc with
      | [] => (r, []) :: zip_script rs' []
      | a :: sc' => (r, a) :: zip_script rs' sc'
      end
  end.

Definition kind_of (start : N) (kinds : list N) (id : N) : N :=
  nth (N.to_nat (id - start)) kinds 0.

Record counters := mkCnt { c_certs : N; c_pre : N; c_unp : N; c_nf : N }.

Definition add_effect (c : counters) (e : effect) : counters :=
  mkCnt (c_certs c + 1) (c_pre c + e_pre e) (c_unp c + e_unp e) (c_nf c + e_nf e).

Definition item_effect (o : opts) (start : N) (kinds : list N) (it : item) : effect :=
  process_entry o (snd it) (kind_of start kinds (snd it)).

Definition totals (o : opts) (start : N) (kinds : list N) (l : list item) : counters :=
  fold_left (fun c it => add_effect c (item_effect o start kinds it)) l (mkCnt 0 0 0 0).

Record scan_result := mkRes {
  s_reqs : list (N * list N);       (* per range: (end, start parameter of each request) *)
  s_delivered : list item;          (* in the order the single matcher sees them *)
  s_counters : counters;
  s_ret : N }.

Definition scan_seq (o : opts) (start stop batch : N) (kinds : list N) (script : list (list answer)) : scan_result :=
  let per := map (fun '(r, a) => (snd r, fetch_range (fst r) (snd r) a))
                 (zip_script (ranges start stop batch) script) in
  let d := concat (map (fun x => snd (snd x)) per) in
  let c := totals o start kinds d in
  mkRes (map (fun x => (fst x, fst (snd x))) per) d c (start + c_certs c).

(* ---- a counter incremented by several threads, with values (for the
   lost-update witness and the atomic-increment theorem) ---- *)
Inductive cop := CLoad | CStoreInc | CAtomicInc.
(* per thread: (register, remaining ops); shared value x *)
Definition cthread := (N * list cop)%type.
Definition cstep (t : cthread) (x : N) : cthread * N :=
  match t with
  | (r, []) => (t, x)
  | (r, CLoad :: p) => ((x, p), x)
  | (r, CStoreInc :: p) => ((r, p), r + 1)
  | (r, CAtomicInc :: p) => ((r, p), x + 1)
  end.
Fixpoint set_nth {A} (l : list A) (i : nat) (v : A) : list A :=
  match l, i with
  | [], _ => []
  | _ :: r, O => v :: r
  | y :: r, S i' => y :: set_nth r i' v
  end.
Fixpoint crun (ts : list cthread) (x : N) (sched : list nat) : list cthread * N :=
  match sched with
  | [] => (ts, x)
  | i :: s =>
      match nth_error ts i with
      | None => crun ts x s
      | Some t => let '(t', x') := cstep t x in crun (set_nth ts i t') x' s
      end
  end.

(* ---- correspondence case ---- *)
Record cin := mkIn {
  i_po : bool; i_ig : bool; i_mm : N;
  i_start : N; i_stop : N; i_batch : N; i_F : N; i_M : N;
  i_kinds : list N; i_script : list (list answer) }.

Record cobs := mkObs {
  o_reqs : list (N * list N);            (* by requested end, ascending: start of each request in arrival order *)
  o_cbs : list (N * N * N * N * bool);   (* per entry with a callback, ascending: (identity, matcher calls, foundCert, foundPrecert, LogEntry.Index = identity) *)
  o_order : list N;                      (* F = M = 1: identities in found-callback order *)
  o_certs : N; o_pre : N; o_unp : N; o_nf : N; o_ret : N;
  o_ok : bool }.

Definition case := (cin * cobs)%type.

Definition cb_eqb (a b : N * N * N * N * bool) : bool :=
  let '(i1, m1, c1, p1, l1) := a in
  let '(i2, m2, c2, p2, l2) := b in
  N.eqb i1 i2 && N.eqb m1 m2 && N.eqb c1 c2 && N.eqb p1 p2 && Bool.eqb l1 l2.

Definition model_cbs (o : opts) (start : N) (kinds : list N) (d : list item) : list (N * N * N * N * bool) :=
  flat_map (fun it =>
              let e := item_effect o start kinds it in
              if N.eqb (e_mc e + e_fc e + e_fp e) 0 then []
              else [(snd it, e_mc e, e_fc e, e_fp e, N.eqb (fst it) (snd it))]) d.

Definition model_order (o : opts) (start : N) (kinds : list N) (d : list item) : list N :=
  flat_map (fun it =>
              let e := item_effect o start kinds it in
              if N.eqb (e_fc e + e_fp e) 0 then [] else [snd it]) d.

(* Scan with BatchSize <= 0 (printed as 0): an error, nothing requested, nothing
   processed, 0 returned (after the repair; before it the partition loop never ended) *)
Definition check_rejected (ob : cobs) : bool :=
  negb (o_ok ob)
  && match o_reqs ob with [] => true | _ => false end
  && match o_cbs ob with [] => true | _ => false end
  && N.eqb (o_certs ob) 0 && N.eqb (o_ret ob) 0.

Definition check_case (c : case) : bool :=
  let '(i, ob) := c in
  let o := mkOpts (i_po i) (i_ig i) (i_mm i) in
  let r := scan_seq o (i_start i) (i_stop i) (i_batch i) (i_kinds i) (i_script i) in
  if N.eqb (i_batch i) 0 then check_rejected ob else
  o_ok ob
  && list_eqb (prod_eqb N.eqb (list_eqb N.eqb)) (s_reqs r) (o_reqs ob)
  && list_eqb cb_eqb (model_cbs o (i_start i) (i_kinds i) (s_delivered r)) (o_cbs ob)
  && (if N.eqb (i_F i) 1 && N.eqb (i_M i) 1
      then list_eqb N.eqb (model_order o (i_start i) (i_kinds i) (s_delivered r)) (o_order ob)
      else true)
  && N.eqb (c_certs (s_counters r)) (o_certs ob)
  && N.eqb (c_pre (s_counters r)) (o_pre ob)
  && N.eqb (c_unp (s_counters r)) (o_unp ob)
  && N.eqb (c_nf (s_counters r)) (o_nf ob)
  && N.eqb (s_ret r) (o_ret ob).
