(* C06Hash — the correspondence case type of C06: certificate cases with the
   hash table (model/C06.v) plus a few small certificates on which the
   fingerprints are recomputed with the Gallina MD5 / SHA-1 / SHA-256 of coq/lib. *)
From Coq Require Import List NArith ZArith Bool.
From Verif Require Import Harness Sha256 Sha1 Md5.
From VerifModel Require Import C22Tlv C06.
Import ListNotations.

(* (input, CheckSignature-under-own-key result, Go's metadata); canonical certificates only *)
Definition chash := (bytes * bool * meta)%type.
Definition check_chash (c : chash) : bool :=
  let '(bs, ok, obs) := c in
  match meta_of md5 sha1 sha256 (fun _ => ok) bs with
  | None => false
  | Some m => meta_eqb m obs
  end.

Inductive case := CCert (c : ccert) | CHash (c : chash).
Definition check_case (c : case) : bool :=
  match c with
  | CCert x => check_ccert x
  | CHash x => check_chash x
  end.
