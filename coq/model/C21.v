(* C21 — model of /repo/cryptobyte (builder.go, string.go, asn1.go), executable only.
   Shared by C21 (builders and readers are inverses) and C19 (strict DER reading
   is canonical).  The model follows the REPAIRED code:
     fix 46d85f5  ReadOptionalASN1Boolean peeks, then reads the BOOLEAN it found
     fix e03288a  readBase128Int rejects a leading 0x80 octet
   Conventions: a cryptobyte.String is [bytes] (= list N, every element < 256);
   a reader is  bytes -> option (value * remaining String);  None = the Go
   method returned false (the state of the String after a failure is not modelled:
   the property does not determine it).
   One Go behaviour is outside the model: String(nil).read(0) reports failure while
   String([]byte{}).read(0) succeeds (nil-ness of the top-level slice); the harness
   always hands a non-nil slice to the readers and probes that corner separately. *)
From Coq Require Import List NArith ZArith Bool Arith.
From Verif Require Import Harness.
Import ListNotations.
Open Scope N_scope.

(* ------------------------------------------------------------------ bytes *)
Definition nrep (b n : N) : bytes := repeat b (N.to_nat n).
Definition blen (s : bytes) : N := N.of_nat (length s).

(* the k low-order bytes of n, big-endian *)
Fixpoint be_n (k : nat) (n : N) : bytes :=
  match k with O => [] | S k' => be_n k' (n / 256) ++ [n mod 256] end.
(* result <<= 8; result |= b *)
Definition be_val (bs : bytes) : N := fold_left (fun a b => a * 256 + b) bs 0.

(* String.read(n): None when fewer than n bytes remain *)
Definition take (n : N) (s : bytes) : option (bytes * bytes) :=
  if n <=? blen s then Some (firstn (N.to_nat n) s, skipn (N.to_nat n) s) else None.

(* ------------------------------------------------------------------ string.go *)
Definition read_uint (k : N) (s : bytes) : option (N * bytes) :=
  match take k s with Some (v, r) => Some (be_val v, r) | None => None end.

(* readLengthPrefixed(lenLen): uint32 accumulation never wraps for lenLen <= 4 *)
Definition read_length_prefixed (k : N) (s : bytes) : option (bytes * bytes) :=
  match take k s with
  | Some (lb, r) => take (be_val lb mod 4294967296) r
  | None => None
  end.

(* ------------------------------------------------------------------ asn1.go: readASN1 *)
(* result: tag, header length, whole element (header included), remaining String *)
Definition read_asn1 (s : bytes) : option (N * N * bytes * bytes) :=
  match s with
  | tag :: lenByte :: _ =>
      if tag mod 32 =? 31 then None else
      if lenByte <? 128 then
        match take (lenByte + 2) s with
        | Some (el, r) => Some (tag, 2, el, r)
        | None => None
        end
      else
        let lenLen := lenByte mod 128 in
        if (lenLen =? 0) || (4 <? lenLen) || (blen s <? 2 + lenLen) then None else
        let len32 := be_val (firstn (N.to_nat lenLen) (skipn 2 s)) in
        if len32 <? 128 then None else
        if len32 / 2 ^ (8 * (lenLen - 1)) =? 0 then None else
        let headerLen := 2 + lenLen in
        if (headerLen + len32) mod 4294967296 <? len32 then None else
        match take (headerLen + len32) s with
        | Some (el, r) => Some (tag, headerLen, el, r)
        | None => None
        end
  | _ => None
  end.

(* ReadAnyASN1: contents only *)
Definition read_any_asn1 (s : bytes) : option (N * bytes * bytes) :=
  match read_asn1 s with
  | Some (tag, hl, el, r) => Some (tag, skipn (N.to_nat hl) el, r)
  | None => None
  end.
Definition read_any_asn1_element (s : bytes) : option (N * bytes * bytes) :=
  match read_asn1 s with
  | Some (tag, hl, el, r) => Some (tag, el, r)
  | None => None
  end.
(* ReadASN1(out, tag) *)
Definition read_asn1_tag (tag : N) (s : bytes) : option (bytes * bytes) :=
  match read_any_asn1 s with
  | Some (t, c, r) => if t =? tag then Some (c, r) else None
  | None => None
  end.
Definition read_asn1_element_tag (tag : N) (s : bytes) : option (bytes * bytes) :=
  match read_any_asn1_element s with
  | Some (t, el, r) => if t =? tag then Some (el, r) else None
  | None => None
  end.
Definition peek_tag (tag : N) (s : bytes) : bool :=
  match s with [] => false | b :: _ => b =? tag end.

(* ------------------------------------------------------------------ INTEGER *)
Definition check_asn1_integer (bs : bytes) : bool :=
  match bs with
  | [] => false
  | [_] => true
  | b0 :: b1 :: _ =>
      negb (((b0 =? 0) && (b1 <? 128)) || ((b0 =? 255) && (128 <=? b1)))
  end.

Definition two64 : N := 18446744073709551616.
Definition two63 : N := 9223372036854775808.
(* the low 64 bits (= x mod 2^64, see C21Proofs.lo64_mod; N.land is much cheaper to run) *)
Definition lo64 (x : N) : N := N.land x 18446744073709551615.

(* asn1Signed: accumulate in a 64-bit register, shift up and (arithmetically) down *)
Definition asn1_signed (bs : bytes) : option Z :=
  if 8 <? blen bs then None else
  let u := lo64 (be_val bs) in
  let sh := 64 - 8 * blen bs in
  let x := lo64 (u * 2 ^ sh) in
  let sx := if x <? two63 then Z.of_N x else (Z.of_N x - Z.of_N two64)%Z in
  Some (Z.shiftr sx (Z.of_N sh)).

Definition asn1_unsigned (bs : bytes) : option N :=
  match bs with
  | [] => None            (* unreachable behind checkASN1Integer (Go would index out of range) *)
  | b0 :: _ =>
      if (9 <? blen bs) || ((blen bs =? 9) && negb (b0 =? 0)) then None else
      if 128 <=? b0 then None else
      Some (lo64 (be_val bs))
  end.

(* readASN1BigInt: two's complement of arbitrary length *)
Definition compl (bs : bytes) : bytes := map (fun b => 255 - b) bs.
Definition bigint_of_bytes (bs : bytes) : Z :=
  match bs with
  | [] => 0%Z
  | b0 :: _ =>
      if 128 <=? b0
      then (- (Z.of_N (be_val (compl bs)) + 1))%Z
      else Z.of_N (be_val bs)
  end.

Definition fits_signed (bits : N) (z : Z) : bool :=
  ((- 2 ^ (Z.of_N bits - 1) <=? z) && (z <? 2 ^ (Z.of_N bits - 1)))%Z.
Definition fits_unsigned (bits : N) (n : N) : bool := n <? 2 ^ bits.

(* ReadASN1Integer into an intN / uintN / big.Int, ReadASN1Int64WithTag, ReadASN1Enum *)
Definition read_int_signed (tag bits : N) (s : bytes) : option (Z * bytes) :=
  match read_asn1_tag tag s with
  | Some (c, r) =>
      if check_asn1_integer c then
        match asn1_signed c with
        | Some z => if fits_signed bits z then Some (z, r) else None
        | None => None
        end
      else None
  | None => None
  end.
Definition read_int_unsigned (bits : N) (s : bytes) : option (Z * bytes) :=
  match read_asn1_tag 2 s with
  | Some (c, r) =>
      if check_asn1_integer c then
        match asn1_unsigned c with
        | Some n => if fits_unsigned bits n then Some (Z.of_N n, r) else None
        | None => None
        end
      else None
  | None => None
  end.
Definition read_bigint (s : bytes) : option (Z * bytes) :=
  match read_asn1_tag 2 s with
  | Some (c, r) => if check_asn1_integer c then Some (bigint_of_bytes c, r) else None
  | None => None
  end.

(* ------------------------------------------------------------------ BOOLEAN, BIT STRING *)
Definition read_bool (s : bytes) : option (bool * bytes) :=
  match read_asn1_tag 1 s with
  | Some ([b], r) => if b =? 0 then Some (false, r) else if b =? 255 then Some (true, r) else None
  | _ => None
  end.

(* ReadASN1BitString: (bytes, bit length) *)
Definition bitstring_of_content (c : bytes) : option (bytes * Z) :=
  match c with
  | [] => None
  | pad :: data =>
      if 7 <? pad then None else
      match data with
      | [] => if pad =? 0 then Some ([], 0%Z) else None
      | _ => if last data 0 mod 2 ^ pad =? 0
             then Some (data, (8 * Z.of_nat (length data) - Z.of_N pad)%Z) else None
      end
  end.
Definition read_bitstring (s : bytes) : option (bytes * Z * bytes) :=
  match read_asn1_tag 3 s with
  | Some (c, r) => match bitstring_of_content c with Some (d, n) => Some (d, n, r) | None => None end
  | None => None
  end.
Definition read_bitstring_bytes (s : bytes) : option (bytes * bytes) :=
  match read_asn1_tag 3 s with
  | Some (pad :: data, r) => if pad =? 0 then Some (data, r) else None
  | _ => None
  end.

(* ------------------------------------------------------------------ OBJECT IDENTIFIER *)
(* readBase128Int: at most 4 octets, leading 0x80 rejected (repaired) *)
Fixpoint read_base128_from (i ret : N) (s : bytes) : option (N * bytes) :=
  match s with
  | [] => None
  | b :: s' =>
      if i =? 4 then None else
      if (i =? 0) && (b =? 128) then None else
      let ret' := ret * 128 + b mod 128 in
      if b <? 128 then Some (ret', s') else read_base128_from (i + 1) ret' s'
  end.
Definition read_base128 (s : bytes) : option (N * bytes) := read_base128_from 0 0 s.

Fixpoint read_arcs (fuel : nat) (s : bytes) : option (list Z) :=
  match s with
  | [] => Some []
  | _ => match fuel with
         | O => None
         | S f => match read_base128 s with
                  | Some (v, s') => match read_arcs f s' with
                                    | Some l => Some (Z.of_N v :: l)
                                    | None => None
                                    end
                  | None => None
                  end
         end
  end.
Definition oid_of_content (c : bytes) : option (list Z) :=
  match c with
  | [] => None
  | _ => match read_base128 c with
         | Some (v, s') =>
             match read_arcs (length s') s' with
             | Some l => if v <? 80 then Some (Z.of_N (v / 40) :: Z.of_N (v mod 40) :: l)
                         else Some (2%Z :: Z.of_N (v - 80) :: l)
             | None => None
             end
         | None => None
         end
  end.
Definition read_oid (s : bytes) : option (list Z * bytes) :=
  match read_asn1_tag 6 s with
  | Some (c, r) => match oid_of_content c with Some l => Some (l, r) | None => None end
  | None => None
  end.

(* ------------------------------------------------------------------ GeneralizedTime *)
(* civil fields in the time's own zone; zone offset in whole minutes (0 = "Z").
   time.Parse / Time.Format are Go's time package (trusted); the model states which
   strings they map to which fields for the layout "20060102150405Z0700". *)
Record gtime := { gY : Z; gMo : N; gD : N; gh : N; gmi : N; gs : N; goff : Z }.

Definition is_digit (c : N) : bool := (48 <=? c) && (c <=? 57).
Definition d2 (n : N) : bytes := [48 + n / 10; 48 + n mod 10].
Definition d4 (n : N) : bytes := [48 + n / 1000; 48 + (n / 100) mod 10; 48 + (n / 10) mod 10; 48 + n mod 10].
Definition p2 (a b : N) : option N :=
  if is_digit a && is_digit b then Some ((a - 48) * 10 + (b - 48)) else None.

Definition leap (y : N) : bool :=
  ((y mod 4 =? 0) && negb (y mod 100 =? 0)) || (y mod 400 =? 0).
Definition days_in (mo y : N) : N :=
  match mo with
  | 2 => if leap y then 29 else 28
  | 4 | 6 | 9 | 11 => 30
  | _ => 31
  end.
Definition civil_ok (y mo d h mi s : N) : bool :=
  (1 <=? mo) && (mo <=? 12) && (1 <=? d) && (d <=? days_in mo y) &&
  (h <? 24) && (mi <? 60) && (s <? 60).

(* zone suffix: "Z", or sign hh mm with hh <= 24, mm <= 59 and not 00:00 (Format prints Z for offset 0) *)
Definition zone_of (z : bytes) : option Z :=
  match z with
  | [x] => if x =? 90 then Some 0%Z else None
  | [sg; a; b; c; d] =>
      match p2 a b, p2 c d with
      | Some hh, Some mm =>
          if (hh <=? 24) && (mm <=? 59) && negb ((hh =? 0) && (mm =? 0)) then
            if sg =? 43 then Some (Z.of_N (hh * 60 + mm))
            else if sg =? 45 then Some (- Z.of_N (hh * 60 + mm))%Z
            else None
          else None
      | _, _ => None
      end
  | _ => None
  end.

Definition gtime_of_content (c : bytes) : option gtime :=
  match c with
  | y1 :: y2 :: y3 :: y4 :: m1 :: m2 :: dd1 :: dd2 :: h1 :: h2 :: n1 :: n2 :: s1 :: s2 :: z =>
      match p2 y1 y2, p2 y3 y4, p2 m1 m2, p2 dd1 dd2, p2 h1 h2, p2 n1 n2, p2 s1 s2, zone_of z with
      | Some ya, Some yb, Some mo, Some d, Some h, Some mi, Some s, Some off =>
          let y := ya * 100 + yb in
          if civil_ok y mo d h mi s
          then Some {| gY := Z.of_N y; gMo := mo; gD := d; gh := h; gmi := mi; gs := s; goff := off |}
          else None
      | _, _, _, _, _, _, _, _ => None
      end
  | _ => None
  end.
Definition read_gentime (s : bytes) : option (gtime * bytes) :=
  match read_asn1_tag 24 s with
  | Some (c, r) => match gtime_of_content c with Some t => Some (t, r) | None => None end
  | None => None
  end.

(* Time.Format(generalizedTimeFormatStr) for years 0..9999, |offset| < 100 h *)
Definition zone_bytes (off : Z) : bytes :=
  if (off =? 0)%Z then [90]
  else let a := Z.to_N (Z.abs off) in
       (if (off <? 0)%Z then 45 else 43) :: d2 (a / 60) ++ d2 (a mod 60).
Definition gentime_content (t : gtime) : bytes :=
  d4 (Z.to_N (gY t)) ++ d2 (gMo t) ++ d2 (gD t) ++ d2 (gh t) ++ d2 (gmi t) ++ d2 (gs t) ++ zone_bytes (goff t).

(* ------------------------------------------------------------------ Builder: content encoders *)
(* addASN1Signed: length loop, then bytes from the most significant one *)
Fixpoint int_len (fuel : nat) (i : Z) : nat :=
  match fuel with
  | O => 1
  | S f => if ((128 <=? i) || (i <? -128))%Z then S (int_len f (Z.shiftr i 8)) else 1%nat
  end.
Definition nth_byte (v : Z) (k : nat) : N := Z.to_N ((Z.shiftr v (8 * Z.of_nat k)) mod 256).
Definition int64_content (v : Z) : bytes :=
  map (nth_byte v) (rev (seq 0 (int_len 8 v))).

(* AddASN1Uint64 *)
Fixpoint uint_len (fuel : nat) (i : N) : nat :=
  match fuel with
  | O => 1
  | S f => if 128 <=? i then S (uint_len f (i / 256)) else 1%nat
  end.
Definition uint64_content (v : N) : bytes :=
  map (nth_byte (Z.of_N v)) (rev (seq 0 (uint_len 9 v))).

(* big.Int.Bytes(): minimal big-endian magnitude *)
Definition byte_len (n : N) : nat := N.to_nat ((N.size n + 7) / 8).
Definition mag_bytes (n : N) : bytes := be_n (byte_len n) n.

Definition bigint_content (z : Z) : bytes :=
  if (z <? 0)%Z then
    let bs := compl (mag_bytes (Z.to_N (- z - 1))) in
    match bs with
    | [] => [255]
    | b0 :: _ => if b0 <? 128 then 255 :: bs else bs
    end
  else if (z =? 0)%Z then [0]
  else
    let bs := mag_bytes (Z.to_N z) in
    match bs with
    | b0 :: _ => if 128 <=? b0 then 0 :: bs else bs
    | [] => bs
    end.

(* addBase128Int(n int64) *)
Fixpoint b128_len (fuel : nat) (i : Z) : nat :=
  match fuel with
  | O => O
  | S f => if (0 <? i)%Z then S (b128_len f (Z.shiftr i 7)) else O
  end.
Definition base128_bytes (n : Z) : bytes :=
  let len := if (n =? 0)%Z then 1%nat else b128_len 10 n in
  map (fun i => let o := Z.to_N ((Z.shiftr n (7 * Z.of_nat i)) mod 128) in
                if Nat.eqb i 0 then o else o + 128)
      (rev (seq 0 len)).

Definition wrap64 (z : Z) : Z :=
  let m := (z mod Z.of_N two64)%Z in
  if (m <? Z.of_N two63)%Z then m else (m - Z.of_N two64)%Z.

Definition is_valid_oid (oid : list Z) : bool :=
  match oid with
  | a :: b :: _ =>
      negb ((2 <? a)%Z || ((a <=? 1)%Z && (40 <=? b)%Z)) && forallb (fun v => (0 <=? v)%Z) oid
  | _ => false
  end.
Definition oid_content (oid : list Z) : option bytes :=
  if is_valid_oid oid then
    match oid with
    | a :: b :: rest =>
        Some (base128_bytes (wrap64 (a * 40 + b)) ++ flat_map base128_bytes rest)
    | _ => None
    end
  else None.

(* ------------------------------------------------------------------ Builder: programs *)
Inductive w : Type :=
| WU8 (n : N) | WU16 (n : N) | WU24 (n : N) | WU32 (n : N)
| WRaw (bs : bytes)
| WLen (k : nat) (body : list w)          (* AddUint{8,16,24,32}LengthPrefixed, k = 1..4 *)
| WAsn1 (tag : N) (body : list w)         (* AddASN1 *)
| WInt64 (z : Z) | WInt64Tag (z : Z) (tag : N) | WEnum (z : Z) | WUint64 (n : N) | WBigInt (z : Z)
| WOctets (bs : bytes) | WBitString (bs : bytes) | WBool (b : bool) | WNull
| WOid (arcs : list Z) | WGenTime (t : gtime).

(* DER length octets chosen by flushChild *)
Definition asn1_len_octets (len : N) : option bytes :=
  if 4294967294 <? len then None
  else if 16777215 <? len then Some (132 :: be_n 4 len)
  else if 65535 <? len then Some (131 :: be_n 3 len)
  else if 255 <? len then Some (130 :: be_n 2 len)
  else if 127 <? len then Some (129 :: be_n 1 len)
  else Some [len].

(* -- high-level (specification) builder: an element is header ++ content -- *)
Definition h_asn1 (tag : N) (content : option bytes) : option bytes :=
  if tag mod 32 =? 31 then None else
  match content with
  | Some c => match asn1_len_octets (blen c) with
              | Some p => Some (tag :: p ++ c)
              | None => None
              end
  | None => None
  end.
Definition h_len (k : nat) (content : option bytes) : option bytes :=
  match content with
  | Some c => if blen c <? 256 ^ N.of_nat k then Some (be_n k (blen c) ++ c) else None
  | None => None
  end.

Definition gentime_year_ok (t : gtime) : bool := ((0 <=? gY t) && (gY t <=? 9999))%Z.

Fixpoint build_w (x : w) : option bytes :=
  let build_all := fix go (l : list w) : option bytes :=
      match l with
      | [] => Some []
      | y :: t => match build_w y, go t with
                  | Some a, Some b => Some (a ++ b)
                  | _, _ => None
                  end
      end in
  match x with
  | WU8 n => Some (be_n 1 n)
  | WU16 n => Some (be_n 2 n)
  | WU24 n => Some (be_n 3 n)
  | WU32 n => Some (be_n 4 n)
  | WRaw bs => Some bs
  | WLen k body => h_len k (build_all body)
  | WAsn1 tag body => h_asn1 tag (build_all body)
  | WInt64 z => h_asn1 2 (Some (int64_content z))
  | WInt64Tag z tag => h_asn1 tag (Some (int64_content z))
  | WEnum z => h_asn1 10 (Some (int64_content z))
  | WUint64 n => h_asn1 2 (Some (uint64_content n))
  | WBigInt z => h_asn1 2 (Some (bigint_content z))
  | WOctets bs => h_asn1 4 (Some bs)
  | WBitString bs => h_asn1 3 (Some (0 :: bs))
  | WBool b => h_asn1 1 (Some [if b then 255 else 0])
  | WNull => Some [5; 0]
  | WOid arcs => h_asn1 6 (oid_content arcs)
  | WGenTime t => if gentime_year_ok t then h_asn1 24 (Some (gentime_content t)) else None
  end.
Fixpoint build (l : list w) : option bytes :=
  match l with
  | [] => Some []
  | y :: t => match build_w y, build t with
              | Some a, Some b => Some (a ++ b)
              | _, _ => None
              end
  end.

(* -- low-level builder: the shared result buffer, the reserved length bytes and
      flushChild's back-patching (with the content shift for long-form DER lengths) -- *)
Fixpoint upd (i : nat) (x : N) (l : bytes) : bytes :=
  match l, i with
  | [], _ => []
  | _ :: t, O => x :: t
  | h :: t, S i' => h :: upd i' x t
  end.
(* copy(r[dst:], r[src:]) with memmove semantics *)
Definition copy_within (r : bytes) (dst src : nat) : bytes :=
  firstn dst r ++ firstn (length r - dst) (skipn src r).
(* for i := n-1 .. 0 { res[off+i] = uint8(l); l >>= 8 } ; returns the residual l *)
Fixpoint write_len (n off : nat) (l : N) (res : bytes) : bytes * N :=
  match n with
  | O => (res, l)
  | S i => write_len i off (l / 256) (upd (off + i) (l mod 256) res)
  end.

Definition l_flush (is_asn1 : bool) (pending offset : nat) (res : bytes) : option bytes :=
  let len := N.of_nat (length res - pending - offset) in
  if is_asn1 then
    if 4294967294 <? len then None else
    let '(lenLen, lenByte, len') :=
      if 16777215 <? len then (5%nat, 132, len)
      else if 65535 <? len then (4%nat, 131, len)
      else if 255 <? len then (3%nat, 130, len)
      else if 127 <? len then (2%nat, 129, len)
      else (1%nat, len, 0) in
    let res1 := upd offset lenByte res in
    let extra := (lenLen - 1)%nat in
    let res2 := if Nat.eqb extra 0 then res1
                else let r := res1 ++ repeat 0 extra in
                     let child_start := (offset + pending)%nat in
                     copy_within r (child_start + extra) child_start in
    let '(res3, l) := write_len extra (S offset) len' res2 in
    if l =? 0 then Some res3 else None
  else
    let '(res3, l) := write_len pending offset len res in
    if l =? 0 then Some res3 else None.

(* AddASN1(tag, f): tag byte, one reserved length byte, continuation, flush *)
Definition l_asn1 (tag : N) (f : bytes -> option bytes) (res : bytes) : option bytes :=
  if tag mod 32 =? 31 then None else
  let res0 := res ++ [tag] in
  match f (res0 ++ [0]) with
  | Some r2 => l_flush true 1 (length res0) r2
  | None => None
  end.
Definition l_add (bs : option bytes) (res : bytes) : option bytes :=
  match bs with Some b => Some (res ++ b) | None => None end.

Fixpoint l_w (x : w) (res : bytes) : option bytes :=
  let l_all := fix go (l : list w) (res : bytes) : option bytes :=
      match l with
      | [] => Some res
      | y :: t => match l_w y res with Some r' => go t r' | None => None end
      end in
  match x with
  | WU8 n => Some (res ++ be_n 1 n)
  | WU16 n => Some (res ++ be_n 2 n)
  | WU24 n => Some (res ++ be_n 3 n)
  | WU32 n => Some (res ++ be_n 4 n)
  | WRaw bs => Some (res ++ bs)
  | WLen k body =>
      match l_all body (res ++ repeat 0 k) with
      | Some r2 => l_flush false k (length res) r2
      | None => None
      end
  | WAsn1 tag body => l_asn1 tag (l_all body) res
  | WInt64 z => l_asn1 2 (l_add (Some (int64_content z))) res
  | WInt64Tag z tag => l_asn1 tag (l_add (Some (int64_content z))) res
  | WEnum z => l_asn1 10 (l_add (Some (int64_content z))) res
  | WUint64 n => l_asn1 2 (l_add (Some (uint64_content n))) res
  | WBigInt z => l_asn1 2 (l_add (Some (bigint_content z))) res
  | WOctets bs => l_asn1 4 (l_add (Some bs)) res
  | WBitString bs => l_asn1 3 (l_add (Some (0 :: bs))) res
  | WBool b => l_asn1 1 (l_add (Some [if b then 255 else 0])) res
  | WNull => Some (res ++ [5; 0])
  | WOid arcs => l_asn1 6 (l_add (oid_content arcs)) res
  | WGenTime t => if gentime_year_ok t then l_asn1 24 (l_add (Some (gentime_content t))) res else None
  end.
Fixpoint l_build (l : list w) (res : bytes) : option bytes :=
  match l with
  | [] => Some res
  | y :: t => match l_w y res with Some r' => l_build t r' | None => None end
  end.

(* ------------------------------------------------------------------ String: read programs *)
Inductive r : Type :=
| RU8 | RU16 | RU24 | RU32
| RBytes (n : N)                          (* ReadBytes(n) *)
| RSkip (n : N)
| RLen (k : nat) (body : list r)          (* Read...LengthPrefixed (k=4: ReadUint32 + ReadBytes), then body on the child *)
| RAsn1 (tag : N) (body : list r)         (* ReadASN1(tag), then body on the contents *)
| RAsn1Element (tag : N)
| RAnyAsn1 | RAnyAsn1Element
| RSkipAsn1 (tag : N)
| RInt (signed : bool) (bits : N)         (* ReadASN1Integer into intN / uintN *)
| RBigInt
| RInt64Tag (tag : N)
| REnum
| RBool | ROid | ROctets | RBitString | RBitStringBytes | RGenTime | RNull
| RPeek (tag : N)
| ROptAsn1 (tag : N)
| RSkipOpt (tag : N)
| ROptInt (tag : N) (signed : bool) (bits : N) (dflt : Z)
| ROptBigInt (tag : N) (dflt : Z)
| ROptOctets (tag : N)
| ROptBool (dflt : bool).

Inductive v : Type :=
| VN (n : N) | VZ (z : Z) | VBool (b : bool) | VBytes (bs : bytes) | VUnit
| VBits (bs : bytes) (bitlen : Z)
| VOid (l : list Z)
| VTime (t : gtime)
| VTagged (tag : N) (bs : bytes)
| VOpt (present : bool) (x : v)           (* optional readers: (present, value or default) *)
| VNest (vs : list v) (rest : bytes).      (* values read from a child String and what it still held *)

Definition ret {A} (f : A -> v) (x : option (A * bytes)) : option (v * bytes) :=
  match x with Some (a, s') => Some (f a, s') | None => None end.

Definition read_int (signed : bool) (bits : N) (s : bytes) : option (Z * bytes) :=
  if signed then read_int_signed 2 bits s else read_int_unsigned bits s.

Fixpoint rd (x : r) (s : bytes) : option (v * bytes) :=
  let rd_all := fix go (l : list r) (s : bytes) : option (list v * bytes) :=
      match l with
      | [] => Some ([], s)
      | y :: t => match rd y s with
                  | Some (a, s') => match go t s' with
                                    | Some (vs, s'') => Some (a :: vs, s'')
                                    | None => None
                                    end
                  | None => None
                  end
      end in
  let nest (body : list r) (child : option (bytes * bytes)) : option (v * bytes) :=
      match child with
      | Some (c, s') => match rd_all body c with
                        | Some (vs, crest) => Some (VNest vs crest, s')
                        | None => None
                        end
      | None => None
      end in
  match x with
  | RU8 => ret VN (read_uint 1 s)
  | RU16 => ret VN (read_uint 2 s)
  | RU24 => ret VN (read_uint 3 s)
  | RU32 => ret VN (read_uint 4 s)
  | RBytes n => ret VBytes (take n s)
  | RSkip n => ret (fun _ => VUnit) (take n s)
  | RLen k body => nest body (read_length_prefixed (N.of_nat k) s)
  | RAsn1 tag body => nest body (read_asn1_tag tag s)
  | RAsn1Element tag => ret VBytes (read_asn1_element_tag tag s)
  | RAnyAsn1 => match read_any_asn1 s with Some (t, c, s') => Some (VTagged t c, s') | None => None end
  | RAnyAsn1Element => match read_any_asn1_element s with Some (t, c, s') => Some (VTagged t c, s') | None => None end
  | RSkipAsn1 tag => ret (fun _ => VUnit) (read_asn1_tag tag s)
  | RInt sg bits => ret VZ (read_int sg bits s)
  | RBigInt => ret VZ (read_bigint s)
  | RInt64Tag tag => ret VZ (read_int_signed tag 64 s)
  | REnum => ret VZ (read_int_signed 10 64 s)
  | RBool => ret VBool (read_bool s)
  | ROid => ret VOid (read_oid s)
  | ROctets => ret VBytes (read_asn1_tag 4 s)
  | RBitString => match read_bitstring s with Some (d, n, s') => Some (VBits d n, s') | None => None end
  | RBitStringBytes => ret VBytes (read_bitstring_bytes s)
  | RGenTime => ret VTime (read_gentime s)
  | RNull => ret (fun _ => VUnit) (read_asn1_tag 5 s)
  | RPeek tag => Some (VBool (peek_tag tag s), s)
  | ROptAsn1 tag =>
      if peek_tag tag s then ret (fun c => VOpt true (VBytes c)) (read_asn1_tag tag s)
      else Some (VOpt false (VBytes []), s)
  | RSkipOpt tag =>
      if peek_tag tag s then ret (fun _ => VUnit) (read_asn1_tag tag s) else Some (VUnit, s)
  | ROptInt tag sg bits dflt =>
      if peek_tag tag s then
        match read_asn1_tag tag s with
        | Some (c, s') => match read_int sg bits c with
                          | Some (z, []) => Some (VOpt true (VZ z), s')
                          | _ => None
                          end
        | None => None
        end
      else Some (VOpt false (VZ dflt), s)
  | ROptBigInt tag dflt =>
      if peek_tag tag s then
        match read_asn1_tag tag s with
        | Some (c, s') => match read_bigint c with
                          | Some (z, []) => Some (VOpt true (VZ z), s')
                          | _ => None
                          end
        | None => None
        end
      else Some (VOpt false (VZ dflt), s)
  | ROptOctets tag =>
      if peek_tag tag s then
        match read_asn1_tag tag s with
        | Some (c, s') => match read_asn1_tag 4 c with
                          | Some (o, []) => Some (VOpt true (VBytes o), s')
                          | _ => None
                          end
        | None => None
        end
      else Some (VOpt false (VBytes []), s)
  | ROptBool dflt =>
      if peek_tag 1 s then ret (fun b => VOpt true (VBool b)) (read_bool s)
      else Some (VOpt false (VBool dflt), s)
  end.

Fixpoint rds (l : list r) (s : bytes) : option (list v * bytes) :=
  match l with
  | [] => Some ([], s)
  | y :: t => match rd y s with
              | Some (a, s') => match rds t s' with
                                | Some (vs, s'') => Some (a :: vs, s'')
                                | None => None
                                end
              | None => None
              end
  end.

(* ------------------------------------------------------------------ matching readers *)
(* [expect x y] = the value reader y must return for what writer x wrote, when y is a
   reader that matches x (None: not a matching pair / outside the readable domain). *)
Definition int_of_w (x : w) : option Z :=
  match x with
  | WInt64 z => if fits_signed 64 z then Some z else None
  | WUint64 n => if fits_unsigned 64 n then Some (Z.of_N n) else None
  | WBigInt z => Some z
  | _ => None
  end.

Definition arcs_readable (l : list Z) : bool :=
  match l with
  | a :: b :: rest => ((a * 40 + b <? 268435456)%Z) && forallb (fun z => (z <? 268435456)%Z) rest
  | _ => false
  end.
Definition gtime_ok (t : gtime) : bool :=
  ((0 <=? gY t) && (gY t <=? 9999))%Z &&
  civil_ok (Z.to_N (gY t)) (gMo t) (gD t) (gh t) (gmi t) (gs t) &&
  ((-1500 <? goff t) && (goff t <? 1500))%Z.

(* Go has integer kinds of 8, 16, 32 and 64 bits *)
Definition int_reader_value (sg : bool) (bits : N) (z : Z) : option v :=
  if negb (bits <=? 64) then None
  else if sg then (if fits_signed bits z then Some (VZ z) else None)
  else (if (0 <=? z)%Z && fits_unsigned bits (Z.to_N z) then Some (VZ z) else None).

(* a reader that leaves its input untouched on an input whose first byte is [next]
   (None = empty input): PeekASN1Tag always, the optional readers when their tag is absent *)
Definition tag_absent (tag : N) (next : option N) : bool :=
  match next with Some b => negb (b =? tag) | None => true end.
Definition absent_value (y : r) (next : option N) : option v :=
  match y with
  | RPeek tag => Some (VBool (negb (tag_absent tag next)))
  | ROptAsn1 tag => if tag_absent tag next then Some (VOpt false (VBytes [])) else None
  | RSkipOpt tag => if tag_absent tag next then Some VUnit else None
  | ROptInt tag _ _ dflt => if tag_absent tag next then Some (VOpt false (VZ dflt)) else None
  | ROptBigInt tag dflt => if tag_absent tag next then Some (VOpt false (VZ dflt)) else None
  | ROptOctets tag => if tag_absent tag next then Some (VOpt false (VBytes [])) else None
  | ROptBool dflt => if tag_absent 1 next then Some (VOpt false (VBool dflt)) else None
  | _ => None
  end.
(* first byte of what the remaining writers produce, followed by [tail] *)
Definition next_byte (ws : list w) (tail : bytes) : option N :=
  match build ws with Some b => hd_error (b ++ tail) | None => None end.

Fixpoint expect (y : r) (x : w) : option v :=
  let expect_all := fix go (rs : list r) (ws : list w) (tail : bytes) : option (list v) :=
      match rs with
      | [] => match ws with [] => Some [] | _ => None end
      | y' :: rt =>
          match absent_value y' (next_byte ws tail) with
          | Some a => match go rt ws tail with Some l => Some (a :: l) | None => None end
          | None =>
              match ws with
              | x' :: wt => match expect y' x', go rt wt tail with
                            | Some a, Some l => Some (a :: l)
                            | _, _ => None
                            end
              | [] => None
              end
          end
      end in
  let nested (rbody : list r) (wbody : list w) : option v :=
      match rbody with
      | [] => match build wbody with Some c => Some (VNest [] c) | None => None end
      | _ => match expect_all rbody wbody [] with Some vs => Some (VNest vs []) | None => None end
      end in
  let element (f : N -> bytes -> option v) : option v :=
      match x with
      | WRaw _ | WU8 _ | WU16 _ | WU24 _ | WU32 _ | WLen _ _ => None
      | _ => match build_w x with Some (t :: el) => f t (t :: el) | _ => None end
      end in
  match y with
  | RU8 => match x with WU8 n => Some (VN (n mod 256)) | _ => None end
  | RU16 => match x with WU16 n => Some (VN (n mod 65536)) | _ => None end
  | RU24 => match x with WU24 n => Some (VN (n mod 16777216)) | _ => None end
  | RU32 => match x with WU32 n => Some (VN (n mod 4294967296)) | _ => None end
  | RBytes n => match x with WRaw bs => if n =? blen bs then Some (VBytes bs) else None | _ => None end
  | RSkip n => match x with WRaw bs => if n =? blen bs then Some VUnit else None | _ => None end
  | RLen k rbody =>
      match x with WLen k' wbody => if Nat.eqb k k' then nested rbody wbody else None | _ => None end
  | RAsn1 tag rbody =>
      match x with
      | WAsn1 tag' wbody => if tag =? tag' then nested rbody wbody else None
      | WNull => match rbody with [] => if tag =? 5 then Some (VNest [] []) else None | _ => None end
      | _ => None
      end
  | RAsn1Element tag => element (fun t el => if t =? tag then Some (VBytes el) else None)
  | RAnyAsn1Element => element (fun t el => Some (VTagged t el))
  | RAnyAsn1 =>
      match x with
      | WAsn1 tag wbody => match build wbody with Some c => Some (VTagged tag c) | None => None end
      | WOctets bs => Some (VTagged 4 bs)
      | _ => None
      end
  | RSkipAsn1 tag =>
      match x with
      | WAsn1 tag' _ => if tag =? tag' then Some VUnit else None
      | WOctets _ => if tag =? 4 then Some VUnit else None
      | _ => None
      end
  | RInt sg bits => match int_of_w x with Some z => int_reader_value sg bits z | None => None end
  | RBigInt => match int_of_w x with Some z => Some (VZ z) | None => None end
  | RInt64Tag tag =>
      match x with
      | WInt64Tag z tag' => if (tag =? tag') && fits_signed 64 z then Some (VZ z) else None
      | WInt64 z => if (tag =? 2) && fits_signed 64 z then Some (VZ z) else None
      | _ => None
      end
  | REnum => match x with WEnum z => if fits_signed 64 z then Some (VZ z) else None | _ => None end
  | RBool => match x with WBool b => Some (VBool b) | _ => None end
  | ROptBool _ => match x with WBool b => Some (VOpt true (VBool b)) | _ => None end
  | ROid => match x with WOid arcs => if arcs_readable arcs then Some (VOid arcs) else None | _ => None end
  | ROctets => match x with WOctets bs => Some (VBytes bs) | _ => None end
  | RBitString => match x with WBitString bs => Some (VBits bs (8 * Z.of_nat (length bs))%Z) | _ => None end
  | RBitStringBytes => match x with WBitString bs => Some (VBytes bs) | _ => None end
  | RGenTime => match x with WGenTime t => if gtime_ok t then Some (VTime t) else None | _ => None end
  | RNull => match x with WNull => Some VUnit | _ => None end
  | RPeek _ => None
  | ROptAsn1 tag =>
      match x with
      | WAsn1 tag' wbody =>
          if tag =? tag' then match build wbody with Some c => Some (VOpt true (VBytes c)) | None => None end
          else None
      | _ => None
      end
  | RSkipOpt tag => match x with WAsn1 tag' _ => if tag =? tag' then Some VUnit else None | _ => None end
  | ROptInt tag sg bits _ =>
      match x with
      | WAsn1 tag' [xi] =>
          if tag =? tag' then
            match int_of_w xi with
            | Some z => match int_reader_value sg bits z with Some a => Some (VOpt true a) | None => None end
            | None => None
            end
          else None
      | _ => None
      end
  | ROptBigInt tag _ =>
      match x with
      | WAsn1 tag' [xi] =>
          if tag =? tag' then match int_of_w xi with Some z => Some (VOpt true (VZ z)) | None => None end
          else None
      | _ => None
      end
  | ROptOctets tag =>
      match x with
      | WAsn1 tag' [WOctets bs] => if tag =? tag' then Some (VOpt true (VBytes bs)) else None
      | _ => None
      end
  end.

(* [tail] = the bytes that follow the written program in the String being read *)
Fixpoint expects (rs : list r) (ws : list w) (tail : bytes) : option (list v) :=
  match rs with
  | [] => match ws with [] => Some [] | _ => None end
  | y :: rt =>
      match absent_value y (next_byte ws tail) with
      | Some a => match expects rt ws tail with Some l => Some (a :: l) | None => None end
      | None =>
          match ws with
          | x :: wt => match expect y x, expects rt wt tail with
                       | Some a, Some l => Some (a :: l)
                       | _, _ => None
                       end
          | [] => None
          end
      end
  end.

(* canonical reader of a writer *)
Fixpoint reader_of (x : w) : r :=
  match x with
  | WU8 _ => RU8 | WU16 _ => RU16 | WU24 _ => RU24 | WU32 _ => RU32
  | WRaw bs => RBytes (blen bs)
  | WLen k body => RLen k (map reader_of body)
  | WAsn1 tag body => RAsn1 tag (map reader_of body)
  | WInt64 _ => RInt true 64 | WInt64Tag _ tag => RInt64Tag tag | WEnum _ => REnum
  | WUint64 _ => RInt false 64 | WBigInt _ => RBigInt
  | WOctets _ => ROctets | WBitString _ => RBitString | WBool _ => RBool | WNull => RNull
  | WOid _ => ROid | WGenTime _ => RGenTime
  end.

(* ------------------------------------------------------------------ correspondence cases *)
Definition gtime_eqb (a b : gtime) : bool :=
  (gY a =? gY b)%Z && (gMo a =? gMo b) && (gD a =? gD b) && (gh a =? gh b) &&
  (gmi a =? gmi b) && (gs a =? gs b) && (goff a =? goff b)%Z.

Fixpoint v_eqb (a b : v) : bool :=
  match a, b with
  | VN x, VN y => x =? y
  | VZ x, VZ y => (x =? y)%Z
  | VBool x, VBool y => Bool.eqb x y
  | VBytes x, VBytes y => bytes_eqb x y
  | VUnit, VUnit => true
  | VBits x n, VBits y m => bytes_eqb x y && (n =? m)%Z
  | VOid x, VOid y => list_eqb Z.eqb x y
  | VTime x, VTime y => gtime_eqb x y
  | VTagged t x, VTagged u y => (t =? u) && bytes_eqb x y
  | VOpt p x, VOpt q y => Bool.eqb p q && v_eqb x y
  | VNest xs xr, VNest ys yr =>
      (fix go (l1 l2 : list v) : bool :=
         match l1, l2 with
         | [], [] => true
         | x :: t1, y :: t2 => v_eqb x y && go t1 t2
         | _, _ => false
         end) xs ys && bytes_eqb xr yr
  | _, _ => false
  end.

Definition readres := option (list v * bytes).
Definition readres_eqb : readres -> readres -> bool :=
  option_eqb (prod_eqb (list_eqb v_eqb) bytes_eqb).

(* stream prog: write program, read program, trailing bytes, what Builder.Bytes returned
   (None = error), what the String methods returned (None = some method reported false).
   The low-level builder model is the one that is run (it equals [build], see C21Proofs). *)
Definition prog := (list w * list r * bytes * option bytes * readres)%type.
Definition check_prog (c : prog) : bool :=
  let '(ws, rs, rest, built, got) := c in
  match l_build ws [] with
  | None => match built with None => true | Some _ => false end
  | Some bs =>
      match built with
      | None => false
      | Some obs => bytes_eqb bs obs && option_eqb bytes_eqb (build ws) (Some obs) &&
                    readres_eqb (rds rs (bs ++ rest)) got
      end
  end.

(* stream rcase: read program run on arbitrary (malformed, mutated) input *)
Definition rcase := (list r * bytes * readres)%type.
Definition check_rcase (c : rcase) : bool :=
  let '(rs, input, got) := c in readres_eqb (rds rs input) got.
