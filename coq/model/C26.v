(* C26 — model of tls/prf.go and the key-derivation part of tls/key_schedule.go.
   Executable definitions only.  The hash functions are parameters (Section
   variables) so that the theorems hold for every hash; [check_*] instantiate
   them with the Gallina MD5 / SHA-1 / SHA-256 / SHA-384 of coq/lib.

   Go slices are lists; [make([]byte, n)] is [repeat 0 n]; [copy(dst[j:], src)]
   is [copy_at]; a Go panic is [None]; a returned error is [Err]. *)
From Coq Require Import List NArith Bool Arith.
From Verif Require Import Harness Sha256 Sha512 Sha1 Md5 Hmac.
Import ListNotations.

(* ---------- Go primitives ---------- *)
(* copy(dst[j:], src) for j <= len dst: overwrites min(len dst - j, len src) bytes *)
Definition copy_at (dst : bytes) (j : nat) (src : bytes) : bytes :=
  firstn j dst ++ firstn (length dst - j) src ++ skipn (j + length src) dst.

Definition zeros (n : nat) : bytes := repeat 0%N n.

(* for i, b := range r2 { r[i] ^= b }   (len r2 <= len r, else Go would panic) *)
Fixpoint xor_into (r r2 : bytes) : bytes :=
  match r, r2 with
  | x :: r', y :: r2' => N.lxor x y :: xor_into r' r2'
  | _, [] => r
  | [], _ => []
  end.

(* ---------- labels ---------- *)
Definition label_master : bytes := [109;97;115;116;101;114;32;115;101;99;114;101;116]%N.        (* "master secret" *)
Definition label_keyexp : bytes := [107;101;121;32;101;120;112;97;110;115;105;111;110]%N.       (* "key expansion" *)
Definition label_cfin : bytes := [99;108;105;101;110;116;32;102;105;110;105;115;104;101;100]%N.  (* "client finished" *)
Definition label_sfin : bytes := [115;101;114;118;101;114;32;102;105;110;105;115;104;101;100]%N. (* "server finished" *)

Definition VersionTLS10 : N := 769.
Definition VersionTLS11 : N := 770.
Definition VersionTLS12 : N := 771.

(* ---------- splitPreMasterSecret ---------- *)
Definition split_premaster (secret : bytes) : bytes * bytes :=
  (firstn ((length secret + 1) / 2) secret, skipn (length secret / 2) secret).

(* ---------- pHash: the Go loop ----------
     h := hmac.New(hash, secret); h.Write(seed); a := h.Sum(nil)
     j := 0
     for j < len(result) {
        b := HMAC(secret, a ++ seed); copy(result[j:], b); j += len(b)
        a = HMAC(secret, a)
     }
   [hm] is HMAC for the chosen hash.  The loop is bounded by fuel
   [S (length result)]; this is enough whenever HMAC outputs are non-empty. *)
Section PHASH.
  Variable hm : bytes -> bytes -> bytes.

  Fixpoint p_hash_loop (fuel : nat) (secret seed a : bytes) (j : nat) (result : bytes) : bytes :=
    match fuel with
    | O => result
    | S f =>
        if Nat.ltb j (length result) then
          let b := hm secret (a ++ seed) in
          p_hash_loop f secret seed (hm secret a) (j + length b) (copy_at result j b)
        else result
    end.

  Definition p_hash (result secret seed : bytes) : bytes :=
    p_hash_loop (S (length result)) secret seed (hm secret seed) 0 result.

  (* prf12(hash)(result, secret, label, seed) *)
  Definition prf12 (result secret label seed : bytes) : bytes :=
    p_hash result secret (label ++ seed).
End PHASH.

(* ---------- everything that selects a hash ---------- *)
Inductive prf_kind := Prf10 | Prf12_256 | Prf12_384.

(* a Go (value, error) result *)
Inductive res (A : Type) := Ok (a : A) | Err.
Arguments Ok {A} a.
Arguments Err {A}.

Section TLS.
  Variables md5_f sha1_f sha256_f sha384_f : bytes -> bytes.

  Definition hm_md5 := hmac md5_f 64.
  Definition hm_sha1 := hmac sha1_f 64.
  Definition hm_sha256 := hmac sha256_f 64.
  Definition hm_sha384 := hmac sha384_f 128.

  (* prf10(result, secret, label, seed) *)
  Definition prf10 (result secret label seed : bytes) : bytes :=
    let label_and_seed := label ++ seed in
    let '(s1, s2) := split_premaster secret in
    let r1 := p_hash hm_md5 result s1 label_and_seed in
    let r2 := p_hash hm_sha1 (zeros (length result)) s2 label_and_seed in
    xor_into r1 r2.

  (* prfAndHashForVersion: which PRF; None = panic("unknown version") *)
  Definition prf_kind_for (version : N) (sha384_suite : bool) : option prf_kind :=
    if N.eqb version VersionTLS10 || N.eqb version VersionTLS11 then Some Prf10
    else if N.eqb version VersionTLS12 then Some (if sha384_suite then Prf12_384 else Prf12_256)
    else None.

  Definition prf_of (k : prf_kind) (result secret label seed : bytes) : bytes :=
    match k with
    | Prf10 => prf10 result secret label seed
    | Prf12_256 => prf12 hm_sha256 result secret label seed
    | Prf12_384 => prf12 hm_sha384 result secret label seed
    end.

  (* prfForVersion(version, suite)(make([]byte, n), secret, label, seed) *)
  Definition prf (version : N) (sha384_suite : bool) (n : nat) (secret label seed : bytes) : option bytes :=
    match prf_kind_for version sha384_suite with
    | Some k => Some (prf_of k (zeros n) secret label seed)
    | None => None
    end.

  (* masterFromPreMasterSecret *)
  Definition master_from_premaster (version : N) (sha384_suite : bool) (pms cr sr : bytes) : option bytes :=
    prf version sha384_suite 48 pms label_master (cr ++ sr).

  (* keysFromMasterSecret: (clientMAC, serverMAC, clientKey, serverKey, clientIV, serverIV) *)
  Definition six := (bytes * bytes * bytes * bytes * bytes * bytes)%type.

  Definition key_block (version : N) (sha384_suite : bool) (master cr sr : bytes) (n : nat) : option bytes :=
    prf version sha384_suite n master label_keyexp (sr ++ cr).

  Definition split_key_block (km : bytes) (macLen keyLen ivLen : nat) : six :=
    let clientMAC := firstn macLen km in
    let km := skipn macLen km in
    let serverMAC := firstn macLen km in
    let km := skipn macLen km in
    let clientKey := firstn keyLen km in
    let km := skipn keyLen km in
    let serverKey := firstn keyLen km in
    let km := skipn keyLen km in
    let clientIV := firstn ivLen km in
    let km := skipn ivLen km in
    let serverIV := firstn ivLen km in
    (clientMAC, serverMAC, clientKey, serverKey, clientIV, serverIV).

  Definition keys_from_master (version : N) (sha384_suite : bool) (master cr sr : bytes)
             (macLen keyLen ivLen : nat) : option six :=
    match key_block version sha384_suite master cr sr (2 * macLen + 2 * keyLen + 2 * ivLen) with
    | Some km => Some (split_key_block km macLen keyLen ivLen)
    | None => None
    end.

  (* finishedHash: Write appends to every running hash; Sum() *)
  Definition finished_hash_sum (k : prf_kind) (msgs : list bytes) : bytes :=
    let all := concat msgs in
    match k with
    | Prf10 => md5_f all ++ sha1_f all
    | Prf12_256 => sha256_f all
    | Prf12_384 => sha384_f all
    end.

  (* clientSum / serverSum *)
  Definition finished_sum (version : N) (sha384_suite : bool) (server : bool)
             (master : bytes) (msgs : list bytes) : option bytes :=
    match prf_kind_for version sha384_suite with
    | Some k => Some (prf_of k (zeros 12) master (if server then label_sfin else label_cfin)
                             (finished_hash_sum k msgs))
    | None => None
    end.

  (* ekmFromMasterSecret(...)(label, context, length): context = None is a nil slice *)
  Definition reserved_label (label : bytes) : bool :=
    bytes_eqb label label_cfin || bytes_eqb label label_sfin ||
    bytes_eqb label label_master || bytes_eqb label label_keyexp.

  (* byte(n>>8), byte(n) *)
  Definition u16_bytes (n : N) : bytes :=
    [N.land (N.shiftr n 8) 255; N.land n 255].

  Definition ekm_seed (cr sr : bytes) (context : option bytes) : bytes :=
    cr ++ sr ++ match context with
                | Some c => u16_bytes (N.of_nat (length c)) ++ c
                | None => []
                end.

  Definition ekm (version : N) (sha384_suite : bool) (master cr sr label : bytes)
             (context : option bytes) (n : nat) : option (res bytes) :=
    if reserved_label label then Some Err
    else
      match context with
      | Some c => if N.leb 65536 (N.of_nat (length c)) then Some Err
                  else match prf version sha384_suite n master label (ekm_seed cr sr context) with
                       | Some out => Some (Ok out) | None => None end
      | None => match prf version sha384_suite n master label (ekm_seed cr sr context) with
                | Some out => Some (Ok out) | None => None end
      end.
End TLS.

(* ---------- TLS 1.3: HKDF and the RFC 8446 section 7.1 functions ---------- *)
Section TLS13.
  Variable H : bytes -> bytes.   (* suite hash *)
  Variable B : nat.              (* its block size *)
  Variable hl : nat.             (* its output size (c.hash.Size()) *)

  Definition hm13 := hmac H B.

  (* hkdf.Extract(hash, secret, salt): empty salt is replaced by hl zero bytes *)
  Definition hkdf_extract (secret salt : bytes) : bytes :=
    let salt := match salt with [] => zeros hl | _ => salt end in
    hm13 salt secret.

  (* c.extract(newSecret, currentSecret): nil newSecret -> hl zero bytes *)
  Definition extract (new_secret : option bytes) (current : bytes) : bytes :=
    let ns := match new_secret with None => zeros hl | Some s => s end in
    hkdf_extract ns current.

  (* hkdf.Expand(...).Read(out) on a fresh reader (x/crypto/hkdf): counter starts at 1,
     prev = T(counter-1), each round appends T(counter) = HMAC(prk, prev ++ info ++ [counter]) *)
  Fixpoint expand_loop (fuel : nat) (prk info prev : bytes) (counter : N) (remaining : nat) : bytes :=
    match fuel with
    | O => []
    | S f =>
        if Nat.eqb remaining 0 then []
        else
          let t := hm13 prk (prev ++ info ++ [counter]) in
          firstn remaining t ++
          expand_loop f prk info t (N.land (counter + 1) 255) (remaining - length t)
    end.

  (* None = "hkdf: entropy limit reached" *)
  Definition hkdf_expand (prk info : bytes) (n : nat) : option bytes :=
    if Nat.ltb (255 * hl) n then None
    else Some (expand_loop n prk info [] 1%N n).

  (* cryptobyte.Builder.AddUint8LengthPrefixed: None = length overflow (BytesOrPanic panics) *)
  Definition u8_prefixed (b : bytes) : option bytes :=
    if Nat.ltb 255 (length b) then None else Some (N.of_nat (length b) :: b).

  Definition tls13_prefix : bytes := [116;108;115;49;51;32]%N.   (* "tls13 " *)

  (* AddUint16(uint16(length)): the conversion truncates *)
  Definition hkdf_label (label context : bytes) (n : nat) : option bytes :=
    match u8_prefixed (tls13_prefix ++ label), u8_prefixed context with
    | Some l, Some c => Some (u16_bytes (N.of_nat n mod 65536) ++ l ++ c)
    | _, _ => None
    end.

  (* expandLabel; None = panic *)
  Definition expand_label (secret label context : bytes) (n : nat) : option bytes :=
    match hkdf_label label context n with
    | Some info => hkdf_expand secret info n
    | None => None
    end.

  (* deriveSecret(secret, label, transcript): transcript = None is a nil hash (hash of nothing) *)
  Definition derive_secret (secret label : bytes) (transcript : option (list bytes)) : option bytes :=
    let th := H (match transcript with None => [] | Some ms => concat ms end) in
    expand_label secret label th hl.

  Definition label_key : bytes := [107;101;121]%N.
  Definition label_iv : bytes := [105;118]%N.
  Definition label_finished : bytes := [102;105;110;105;115;104;101;100]%N.
  Definition label_traffic_upd : bytes := [116;114;97;102;102;105;99;32;117;112;100]%N.
  Definition label_exp_master : bytes := [101;120;112;32;109;97;115;116;101;114]%N.
  Definition label_exporter : bytes := [101;120;112;111;114;116;101;114]%N.

  Definition traffic_key (secret : bytes) (keyLen : nat) : option (bytes * bytes) :=
    match expand_label secret label_key [] keyLen with
    | Some k => match expand_label secret label_iv [] 12 with
                | Some iv => Some (k, iv) | None => None end
    | None => None
    end.

  Definition next_traffic_secret (secret : bytes) : option bytes :=
    expand_label secret label_traffic_upd [] hl.

  Definition finished13 (base_key : bytes) (transcript : list bytes) : option bytes :=
    match expand_label base_key label_finished [] hl with
    | Some fk => Some (hm13 fk (H (concat transcript)))
    | None => None
    end.

  Definition exporter13 (master : bytes) (transcript : list bytes) (label context : bytes) (n : nat) : option bytes :=
    match derive_secret master label_exp_master (Some transcript) with
    | Some exp_master =>
        match derive_secret exp_master label None with
        | Some secret => expand_label secret label_exporter (H context) n
        | None => None
        end
    | None => None
    end.
End TLS13.

(* ================= correspondence cases =================
   Lengths are given as N in the cases (no large nat numerals in generated
   files) and converted with N.to_nat. *)
Inductive alg := MD5 | SHA1 | SHA256 | SHA384.

Definition hash_of (a : alg) : bytes -> bytes :=
  match a with MD5 => md5 | SHA1 => sha1 | SHA256 => sha256 | SHA384 => sha384 end.
Definition hmac_of (a : alg) : bytes -> bytes -> bytes :=
  match a with MD5 => hmac_md5 | SHA1 => hmac_sha1 | SHA256 => hmac_sha256 | SHA384 => hmac_sha384 end.
Definition block_of (a : alg) : nat := match a with SHA384 => 128 | _ => 64 end.
Definition size_of (a : alg) : nat := match a with MD5 => 16 | SHA1 => 20 | SHA256 => 32 | SHA384 => 48 end.

Definition rprf := prf md5 sha1 sha256 sha384.

Definition six_eqb (a b : six) : bool :=
  let '(a1, a2, a3, a4, a5, a6) := a in
  let '(b1, b2, b3, b4, b5, b6) := b in
  bytes_eqb a1 b1 && bytes_eqb a2 b2 && bytes_eqb a3 b3 && bytes_eqb a4 b4 && bytes_eqb a5 b5 && bytes_eqb a6 b6.

Definition res_eqb (a b : res bytes) : bool :=
  match a, b with Ok x, Ok y => bytes_eqb x y | Err, Err => true | _, _ => false end.

(* a byte string in a case: literal, or b repeated n times (long contexts) *)
Inductive bspec := Lit (b : bytes) | Rep (b n : N).
Definition bytes_of (s : bspec) : bytes :=
  match s with Lit b => b | Rep b n => repeat b (N.to_nat n) end.

(* an observed output: in full, or (for long outputs) its length and a rolling
   checksum h' = (33 h + x + 1) mod 2^56, which separates any two strings of equal
   length that differ in one byte (x -> 33 h + x + 1 and h -> 33 h + c are injective mod 2^56) *)
Definition bsum (l : bytes) : N :=
  fold_left (fun h x => N.land (N.shiftl h 5 + h + x + 1) 72057594037927935%N) l 5381%N.
Inductive obs := Full (b : bytes) | Sum (len h : N).
Definition obs_eqb (m : bytes) (o : obs) : bool :=
  match o with
  | Full b => bytes_eqb m b
  | Sum len h => N.eqb (N.of_nat (length m)) len && N.eqb (bsum m) h
  end.
Definition oobs_eqb (m : option bytes) (o : option obs) : bool :=
  match m, o with Some x, Some y => obs_eqb x y | None, None => true | _, _ => false end.

(* stream hcase: the Gallina hashes and HMACs against Go's standard library *)
Inductive hcase :=
| HHash (a : alg) (msg out : bytes)
| HHmac (a : alg) (key msg out : bytes).

Definition check_hcase (c : hcase) : bool :=
  match c with
  | HHash a msg out => bytes_eqb (hash_of a msg) out
  | HHmac a key msg out => bytes_eqb (hmac_of a key msg) out
  end.

(* stream case: TLS 1.0 - 1.2 (prf.go).  Observed values come from the verif hook;
   [None] = the Go call panicked. *)
Inductive case :=
| CSplit (secret s1 s2 : bytes)
| CPHash (a : alg) (secret seed : bytes) (n : N) (out : obs)
| CPrf (version : N) (sha384_suite : bool) (secret label seed : bytes) (n : N) (out : option obs)
| CMaster (version : N) (sha384_suite : bool) (pms cr sr : bytes) (out : option bytes)
| CKeys (version : N) (sha384_suite : bool) (master cr sr : bytes) (macLen keyLen ivLen : N) (out : option six)
| CFinished (version : N) (sha384_suite : bool) (master : bytes) (msgs : list bytes)
            (sum client server : option bytes)
| CEkm (version : N) (sha384_suite : bool) (master cr sr label : bytes) (context : option bspec) (n : N)
       (out : option (res bytes)).

Definition check_case (c : case) : bool :=
  match c with
  | CSplit secret s1 s2 =>
      let '(m1, m2) := split_premaster secret in bytes_eqb m1 s1 && bytes_eqb m2 s2
  | CPHash a secret seed n out =>
      obs_eqb (p_hash (hmac_of a) (zeros (N.to_nat n)) secret seed) out
  | CPrf v s secret label seed n out =>
      oobs_eqb (rprf v s (N.to_nat n) secret label seed) out
  | CMaster v s pms cr sr out =>
      option_eqb bytes_eqb (master_from_premaster md5 sha1 sha256 sha384 v s pms cr sr) out
  | CKeys v s master cr sr ml kl il out =>
      option_eqb six_eqb (keys_from_master md5 sha1 sha256 sha384 v s master cr sr
                                           (N.to_nat ml) (N.to_nat kl) (N.to_nat il)) out
  | CFinished v s master msgs sum cl sv =>
      option_eqb bytes_eqb
        (match prf_kind_for v s with
         | Some k => Some (finished_hash_sum md5 sha1 sha256 sha384 k msgs) | None => None end) sum &&
      option_eqb bytes_eqb (finished_sum md5 sha1 sha256 sha384 v s false master msgs) cl &&
      option_eqb bytes_eqb (finished_sum md5 sha1 sha256 sha384 v s true master msgs) sv
  | CEkm v s master cr sr label ctx n out =>
      option_eqb res_eqb (ekm md5 sha1 sha256 sha384 v s master cr sr label
                              (match ctx with Some b => Some (bytes_of b) | None => None end)
                              (N.to_nat n)) out
  end.

(* stream case13: TLS 1.3 (key_schedule.go); [a] is the suite hash *)
Inductive case13 :=
| XExpandLabel (a : alg) (secret : bytes) (label context : bspec) (n : N) (out : option obs)
| XDerive (a : alg) (secret label : bytes) (transcript : option (list bytes)) (out : option bytes)
| XExtract (a : alg) (new_secret : option bytes) (current : bytes) (out : bytes)
| XTrafficKey (a : alg) (secret : bytes) (keyLen : N) (out : option (bytes * bytes))
| XNext (a : alg) (secret : bytes) (out : option bytes)
| XFinished (a : alg) (base : bytes) (transcript : list bytes) (out : option bytes)
| XExporter (a : alg) (master : bytes) (transcript : list bytes) (label context : bytes) (n : N)
            (out : option bytes).

Definition check_case13 (c : case13) : bool :=
  match c with
  | XExpandLabel a secret label ctx n out =>
      oobs_eqb (expand_label (hash_of a) (block_of a) (size_of a) secret
                             (bytes_of label) (bytes_of ctx) (N.to_nat n)) out
  | XDerive a secret label tr out =>
      option_eqb bytes_eqb (derive_secret (hash_of a) (block_of a) (size_of a) secret label tr) out
  | XExtract a ns cur out =>
      bytes_eqb (extract (hash_of a) (block_of a) (size_of a) ns cur) out
  | XTrafficKey a secret kl out =>
      option_eqb (prod_eqb bytes_eqb bytes_eqb)
                 (traffic_key (hash_of a) (block_of a) (size_of a) secret (N.to_nat kl)) out
  | XNext a secret out =>
      option_eqb bytes_eqb (next_traffic_secret (hash_of a) (block_of a) (size_of a) secret) out
  | XFinished a base tr out =>
      option_eqb bytes_eqb (finished13 (hash_of a) (block_of a) (size_of a) base tr) out
  | XExporter a master tr label ctx n out =>
      option_eqb bytes_eqb (exporter13 (hash_of a) (block_of a) (size_of a) master tr label ctx (N.to_nat n)) out
  end.
