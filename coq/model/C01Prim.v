(* C01Prim.v — outcome type and checked primitives shared by the C01 and C02
   models.  Gallina functions are total, so "does not panic" would be vacuous
   unless the model can panic: indexing, slicing and dereferencing are partial
   here exactly where they are partial in Go, and [make] requests are logged. *)
From Coq Require Import List NArith ZArith Bool.
Import ListNotations.

Inductive res (A : Type) := Ok (a : A) | Err | Panic | OutOfFuel.
Arguments Ok {A} a.
Arguments Err {A}.
Arguments Panic {A}.
Arguments OutOfFuel {A}.

Definition bind {A B} (r : res A) (f : A -> res B) : res B :=
  match r with Ok a => f a | Err => Err | Panic => Panic | OutOfFuel => OutOfFuel end.
Notation "x <- r ;; k" := (bind r (fun x => k)) (at level 61, r at next level, right associativity).

(* l[i] *)
Definition idx {A} (l : list A) (i : nat) : res A :=
  match nth_error l i with Some x => Ok x | None => Panic end.
(* l[i:j] *)
Definition slice {A} (l : list A) (i j : nat) : res (list A) :=
  if (Nat.leb i j && Nat.leb j (length l))%bool then Ok (firstn (j - i) (skipn i l)) else Panic.
(* *p *)
Definition deref {A} (p : option A) : res A := match p with Some a => Ok a | None => Panic end.

Definition is_panic {A} (r : res A) : bool := match r with Panic => true | _ => false end.
Definition bad {A} (r : res A) : bool := match r with Panic | OutOfFuel => true | _ => false end.

(* outcome classes printed by the harness: 0 ok, 1 err, 2 panic, 3 hang/out of fuel *)
Definition class {A} (r : res A) : N :=
  match r with Ok _ => 0 | Err => 1 | Panic => 2 | OutOfFuel => 3 end%N.
