(* C33 — JSON encodings of zcrypto value types round-trip.  MODEL (executable only).

   Every MarshalJSON/UnmarshalJSON pair is modelled as
     Go value --glue--> auxiliary struct --encoding/json--> tree
   where the auxiliary struct is a [fields] list (C33Json.v) and the glue is the
   hand-written part of the Go method (name lookup, nil checks, consistency
   checks, dot notation, hex, ...).  Name tables are regenerated from the built
   code (gen/C33Tables_gen.v).  Go ints are Z; byte strings are Coq strings;
   *big.Int values are their big-endian magnitude ([None] = nil pointer). *)
From Coq Require Import List NArith ZArith Bool String Ascii.
From VerifModel Require Import C33Json.
From VerifGen Require Import C33Tables_gen.
Import ListNotations.
Local Open Scope string_scope.

(* ---------- tables ---------- *)
Fixpoint lookupZ {B} (t : list (Z * B)) (v : Z) : option B :=
  match t with [] => None | (k, s) :: r => if Z.eqb k v then Some s else lookupZ r v end.
Fixpoint rlookup (t : list (Z * string)) (s : string) : option Z :=
  match t with [] => None | (k, n) :: r => if String.eqb n s then Some k else rlookup r s end.
Fixpoint slookup (t : list (string * Z)) (s : string) : option Z :=
  match t with [] => None | (n, k) :: r => if String.eqb n s then Some k else slookup r s end.
Definition name_of (t : list (Z * string)) (dflt : Z -> string) (v : Z) : string :=
  match lookupZ t v with Some s => s | None => dflt v end.
Definition unknown (_ : Z) : string := "unknown".
Definition unknown_dot (v : Z) : string := "unknown." ++ dec_of_Z v.

Definition int64_lo : Z := (- 2 ^ 63)%Z.
Definition int64_hi : Z := (2 ^ 63 - 1)%Z.
Definition k_i64 (omit : bool) := k_int omit int64_lo int64_hi.
Definition k_u8 (omit : bool) := k_int omit 0 255.
Definition k_u16 (omit : bool) := k_int omit 0 65535.
Definition k_u32 (omit : bool) := k_int omit 0 4294967295.

(* "0x" ++ upper-case hex of the big-endian bytes *)
Definition hex16 (v : Z) : string :=
  "0x" ++ hex_enc true (bs [Z.to_N (v / 256); Z.to_N (v mod 256)]).
Definition hex8 (v : Z) : string := "0x" ++ hex_enc true (bs [Z.to_N v]).

(* ================= enumerated types ================= *)

(* tls.TLSVersion: aux {name string; value int}; value decoded by number, name checked *)
Definition version_fields := FCons "name" (k_str false) (FCons "value" (k_i64 false) FEnd).
Definition version_name := name_of tls_version_names unknown.
Definition version_to_json (v : Z) : json := enc (obj version_fields) (version_name v, (v, tt)).
Definition version_of_json (j : json) : res Z :=
  rbind (dec (obj version_fields) j) (fun a =>
    let '(name, (value, _)) := a in
    let v := (value mod 65536)%Z in            (* TLSVersion(aux.Value): int -> uint16 *)
    if String.eqb (version_name v) name then Ok v else Err).

(* hex/name/value triples: CipherSuiteID, CurveID (uint16); CompressionMethod, PointFormat (uint8) *)
Definition hnv_fields (hi : Z) :=
  FCons "hex" (k_str false) (FCons "name" (k_str false) (FCons "value" (k_int false 0 hi) FEnd)).
Definition hnv_to_json (hi : Z) (hex : Z -> string) (nm : Z -> string) (v : Z) : json :=
  enc (obj (hnv_fields hi)) (hex v, (nm v, (v, tt))).
Definition hnv_of_json (hi : Z) (nm : Z -> string) (j : json) : res Z :=
  rbind (dec (obj (hnv_fields hi)) j) (fun a =>
    let '(_, (name, (value, _))) := a in
    if String.eqb (nm value) name then Ok value else Err).

Definition cipher_name := name_of cipher_suite_names unknown.
Definition cipher_to_json := hnv_to_json 65535 hex16 cipher_name.
Definition cipher_of_json := hnv_of_json 65535 cipher_name.
Definition curve_name := name_of curve_names unknown.
Definition curve_to_json := hnv_to_json 65535 hex16 curve_name.
Definition curve_of_json := hnv_of_json 65535 curve_name.
Definition compression_name := name_of compression_names unknown.
Definition compression_to_json := hnv_to_json 255 hex8 compression_name.
Definition compression_of_json := hnv_of_json 255 compression_name.
Definition point_format_name := name_of point_format_names unknown.
Definition point_format_to_json := hnv_to_json 255 hex8 point_format_name.
Definition point_format_of_json := hnv_of_json 255 point_format_name.

(* tls.SignatureAndHash: two names, decoded by name with the "unknown.N" fall-back *)
Definition sighash_fields :=
  FCons "signature_algorithm" (k_str false) (FCons "hash_algorithm" (k_str false) FEnd).
Definition sig_name := name_of signature_names unknown_dot.
Definition hash_name := name_of hash_names unknown_dot.
(* strconv.ParseInt(s, 10, 32) with the error ignored: 0 on a syntax error,
   the nearest bound on a range error; then uint8(...) *)
Definition is_digit_c (c : ascii) : bool := let n := N_of_ascii c in ((48 <=? n) && (n <=? 57))%N.
Fixpoint all_digits (s : string) : bool :=
  match s with EmptyString => true | String c r => is_digit_c c && all_digits r end.
Definition parse_int32_lenient (s : string) : Z :=
  let body (sign : Z) (r : string) : Z :=
    match r with
    | EmptyString => 0%Z
    | _ => if all_digits r then
             match parse_N r with
             | Some n => let z := (sign * Z.of_N n)%Z in
                         Z.max (- 2 ^ 31) (Z.min (2 ^ 31 - 1) z)
             | None => 0%Z
             end
           else 0%Z
    end in
  match s with
  | EmptyString => 0%Z
  | String c r => if Ascii.eqb c "+"%char then body 1%Z r
                  else if Ascii.eqb c "-"%char then body (-1)%Z r else body 1%Z s
  end.
Definition code_of_name (t : list (Z * string)) (n : string) : Z :=
  match rlookup t n with
  | Some k => k
  | None => ((parse_int32_lenient (trim_prefix_or_same "unknown." n)) mod 256)%Z
  end.
Definition sighash_to_json (s h : Z) : json := enc (obj sighash_fields) (sig_name s, (hash_name h, tt)).
Definition sighash_of_json (j : json) : res (Z * Z) :=
  rbind (dec (obj sighash_fields) j) (fun a =>
    let '(sn, (hn, _)) := a in Ok (code_of_name signature_names sn, code_of_name hash_names hn)).

(* tls.ClientAuthType (int): a bare JSON string, stringer names *)
Definition client_auth_name (v : Z) : string :=
  name_of client_auth_names (fun v => "ClientAuthType(" ++ dec_of_Z v ++ ")") v.
Fixpoint unsnoc (s : string) : option (string * ascii) :=
  match s with
  | EmptyString => None
  | String c EmptyString => Some (EmptyString, c)
  | String c r => match unsnoc r with Some (h, l) => Some (String c h, l) | None => None end
  end.
Definition client_auth_to_json (v : Z) : json := JStr (client_auth_name v).
Definition client_auth_of_json (j : json) : res Z :=
  match j with
  | JStr name =>
      match rlookup client_auth_names name with
      | Some k => Ok k
      | None =>
          match trim_prefix "ClientAuthType(" name with
          | Some r =>
              match unsnoc r with
              | Some (body, l) =>
                  if Ascii.eqb l ")"%char then
                    match parse_int 64 body with
                    | Some n => if String.eqb (client_auth_name n) name then Ok n else Err
                    | None => Err
                    end
                  else Err
              | None => Err
              end
          | None => Err
          end
      end
  | _ => Err
  end.

(* x509.KeyUsage (int): nine omitempty flags and the value; decoded from the value alone *)
Definition ku_fields :=
  FCons "digital_signature" (k_bool true) (FCons "content_commitment" (k_bool true)
  (FCons "key_encipherment" (k_bool true) (FCons "data_encipherment" (k_bool true)
  (FCons "key_agreement" (k_bool true) (FCons "certificate_sign" (k_bool true)
  (FCons "crl_sign" (k_bool true) (FCons "encipher_only" (k_bool true)
  (FCons "decipher_only" (k_bool true) (FCons "value" (k_u32 false) FEnd))))))))).
Definition bit (v : Z) (i : Z) : bool := Z.testbit v i.
Definition key_usage_to_json (v : Z) : json :=
  enc (obj ku_fields)
    (bit v 0, (bit v 1, (bit v 2, (bit v 3, (bit v 4, (bit v 5, (bit v 6, (bit v 7, (bit v 8,
     ((v mod 2 ^ 32)%Z, tt)))))))))).
Definition key_usage_of_json (j : json) : res Z :=
  rbind (dec (obj ku_fields) j) (fun a =>
    let '(_, (_, (_, (_, (_, (_, (_, (_, (_, (value, _)))))))))) := a in Ok value).

(* pkix.AuxOID: dot notation in a JSON string; Atoi per part, negative parts rejected *)
Definition c_auxoid : codec (list Z) (list Z) :=
  {| enc := fun o => JStr (oid_str o);
     dec := fun j => match j with
                     | JStr s => match parse_oid 64 s with
                                 | Some o => if forallb (fun z => (0 <=? z)%Z) o then Ok o else Err
                                 | None => Err
                                 end
                     | _ => Err end |}.

(* x509.PublicKeyAlgorithm: aux {name omitempty; oid *AuxOID omitempty}; decoded by name, unknown names give 0 *)
Definition pubkey_fields := FCons "name" (k_str true) (FCons "oid" (k_ptr true c_auxoid) FEnd).
Definition pubkey_alg_name (v : Z) : string :=
  if ((0 <=? v) && (v <? pubkey_alg_count))%Z then name_of pubkey_alg_names (fun _ => "") v
  else name_of pubkey_alg_names (fun _ => "") 0.
Definition pubkey_alg_to_json (v : Z) : json :=
  enc (obj pubkey_fields) (pubkey_alg_name v, (None, tt)).
Definition pubkey_alg_of_json (j : json) : res Z :=
  rbind (dec (obj pubkey_fields) j) (fun a =>
    let '(name, _) := a in
    Ok (match slookup pubkey_name_to_alg name with Some k => k | None => 0%Z end)).

(* x509.SignatureAlgorithm: aux {name omitempty; oid AuxOID}; the OID written is the
   one of the LAST matching row of signatureAlgorithmDetails, decoding takes the
   FIRST row with that OID, except RSA-PSS which is decoded by name *)
Definition sigalg_fields :=
  FCons "name" (k_str true) (FCons "oid" (k_val c_auxoid [] (fun _ => false)) FEnd).
Definition sig_alg_name (v : Z) : string :=
  if ((0 <? v) && (v <? sig_alg_count))%Z then name_of sig_alg_names dec_of_Z v else dec_of_Z v.
Definition oid_eqb (a b : list Z) : bool :=
  (fix go (a b : list Z) : bool :=
     match a, b with [], [] => true | x :: a', y :: b' => Z.eqb x y && go a' b' | _, _ => false end) a b.
Definition last_oid_of (v : Z) : list Z :=
  fold_left (fun acc row => if Z.eqb (fst row) v then snd row else acc) sig_alg_details [].
Definition first_algo_of (o : list Z) : Z :=
  match find (fun row => oid_eqb (snd row) o) sig_alg_details with Some row => fst row | None => 0%Z end.
Definition pss_algs : list Z := pss_alg_codes.   (* SHA256/384/512WithRSAPSS *)
Definition sig_alg_to_json (v : Z) : json :=
  enc (obj sigalg_fields) (sig_alg_name v, (last_oid_of v, tt)).
Definition sig_alg_of_json (j : json) : res Z :=
  rbind (dec (obj sigalg_fields) j) (fun a =>
    let '(name, (o, _)) := a in
    if oid_eqb o pss_oid then
      Ok (match find (fun alg => String.eqb (sig_alg_name alg) name) pss_algs with Some alg => alg | None => 0%Z end)
    else Ok (first_algo_of o)).

(* json.TLSCurveID: {name; id}, decoded from id alone *)
Definition ecid_fields := FCons "name" (k_str false) (FCons "id" (k_u16 false) FEnd).
(* UnmarshalJSON's auxiliary struct has the id member only *)
Definition ecid_dec_fields := FCons "id" (k_u16 false) FEnd.
Definition ecid_name := name_of ec_id_names unknown.
Definition c_ecid : codec Z Z :=
  {| enc := fun v => enc (obj ecid_fields) (ecid_name v, (v, tt));
     dec := fun j => rbind (dec (obj ecid_dec_fields) j) (fun a => let '(id, _) := a in Ok id) |}.

(* ================= key parameters (json/*.go) ================= *)
Fixpoint strip0 (s : string) : string :=
  match s with
  | String c r => if Ascii.eqb c zero then strip0 r else s
  | EmptyString => EmptyString
  end.
Definition bits_of (s : string) : Z := (8 * Z.of_N (slen s))%Z.

(* cryptoParameter{*big.Int}: {"value": Bytes() or null, "length": 8*len}; decoding always
   allocates the Int: SetBytes(raw) *)
Definition cparam_fields := FCons "value" k_bytes_null (FCons "length" (k_i64 false) FEnd).
Definition c_cparam : codec (option string) string :=
  {| enc := fun p => enc (obj cparam_fields)
                       (p, (match p with Some b => bits_of b | None => 0%Z end, tt));
     dec := fun j => rbind (dec (obj cparam_fields) j) (fun a =>
                       let '(raw, _) := a in
                       Ok (strip0 (match raw with Some b => b | None => EmptyString end))) |}.

(* ECPoint{X, Y *big.Int} *)
Definition ecpoint_t := (option string * option string)%type.
Definition ecpoint_fields := FCons "x" (k_ptr false c_cparam) (FCons "y" (k_ptr true c_cparam) FEnd).
Definition ecpoint_enc (p : ecpoint_t) : json :=
  enc (obj ecpoint_fields)
    (Some (fst p), (match snd p with Some y => Some (Some y) | None => None end, tt)).
(* repaired UnmarshalJSON: members that are absent stay nil *)
Definition ecpoint_dec (j : json) : res ecpoint_t :=
  rbind (dec (obj ecpoint_fields) j) (fun a => let '(x, (y, _)) := a in Ok (x, y)).
(* the code before the repair: p.X = aux.X.Int; p.Y = aux.Y.Int *)
Definition deref {A} (o : option A) : res A := match o with Some a => Ok a | None => Panic end.
Definition ecpoint_dec_unrepaired (j : json) : res ecpoint_t :=
  rbind (dec (obj ecpoint_fields) j) (fun a =>
    let '(x, (y, _)) := a in
    rbind (deref x) (fun x' => rbind (deref y) (fun y' => Ok (Some x', Some y')))).
Definition c_ecpoint : codec ecpoint_t ecpoint_t := {| enc := ecpoint_enc; dec := ecpoint_dec |}.

(* DHParams: prime and generator are always written, the rest only when non-nil *)
Definition dh_t := (option string * (option string * (option string * (option string *
                   (option string * (option string * (option string * unit)))))))%type.
Definition dh_fields :=
  FCons "prime" (k_ptr false c_cparam) (FCons "generator" (k_ptr false c_cparam)
  (FCons "server_public" (k_ptr true c_cparam) (FCons "server_private" (k_ptr true c_cparam)
  (FCons "client_public" (k_ptr true c_cparam) (FCons "client_private" (k_ptr true c_cparam)
  (FCons "session_key" (k_ptr true c_cparam) FEnd)))))).
Definition wrap (o : option string) : option (option string) :=
  match o with Some b => Some (Some b) | None => None end.
Definition dh_enc (p : dh_t) : json :=
  let '(pr, (g, (sp, (sk, (cp, (ck, (ss, _))))))) := p in
  enc (obj dh_fields) (Some pr, (Some g, (wrap sp, (wrap sk, (wrap cp, (wrap ck, (wrap ss, tt))))))).
Definition dh_dec (j : json) : res dh_t := dec (obj dh_fields) j.
Definition c_dh : codec dh_t dh_t := {| enc := dh_enc; dec := dh_dec |}.

(* ECDHPrivateParams and ECDHParams are plain structs *)
Definition ecdhpriv_t := (string * (Z * unit))%type.
Definition ecdhpriv_fields := FCons "value" k_bytes_omit (FCons "length" (k_i64 true) FEnd).
Definition c_ecdhpriv := obj ecdhpriv_fields.
Definition ecdh_t := (Z * (option ecpoint_t * (option ecdhpriv_t * (option ecpoint_t * (option ecdhpriv_t * unit)))))%type.
Definition ecdh_fields :=
  FCons "curve_id" (k_val c_ecid 0%Z (fun v => Z.eqb v 0))
  (FCons "server_public" (k_ptr true c_ecpoint) (FCons "server_private" (k_ptr true c_ecdhpriv)
  (FCons "client_public" (k_ptr true c_ecpoint) (FCons "client_private" (k_ptr true c_ecdhpriv) FEnd)))).
Definition c_ecdh : codec ecdh_t ecdh_t := obj ecdh_fields.

(* RSAPublicKey{*rsa.PublicKey}: exponent is a json.Number *)
(* encoding/json stores a JSON string into a json.Number when it is a valid number literal;
   big.Int.SetString(_, 10) then accepts it only if it is an integer: "-7", "0", "12" but not
   "+7", "07", "1.5", "1e3", "" *)
Definition json_int_lit (s : string) : option Z :=
  let nonneg (r : string) : option Z :=
    match r with
    | EmptyString => None
    | String c r' =>
        if all_digits r then
          (if Ascii.eqb c "0"%char then (if is_empty_s r' then Some 0%Z else None)
           else match parse_N r with Some n => Some (Z.of_N n) | None => None end)
        else None
    end in
  match s with
  | String c r => if Ascii.eqb c "-"%char then option_map Z.opp (nonneg r) else nonneg s
  | EmptyString => None
  end.
Definition k_number : fkind Z (option Z) :=
  {| emit := fun z => Some (JNum z);
     absorb := fun o => match o with
                        | None => Ok None
                        | Some (JNum z) => Ok (Some z)
                        | Some (JStr s) => match json_int_lit s with Some z => Ok (Some z) | None => Err end
                        | Some _ => Err end |}.
Definition rsapub_fields :=
  FCons "exponent" k_number (FCons "modulus" k_bytes_null (FCons "length" (k_i64 false) FEnd)).
Definition rsapub_t := option (Z * string).
Definition rsapub_enc (p : rsapub_t) : json :=
  enc (obj rsapub_fields)
    (match p with
     | None => (0%Z, (None, (0%Z, tt)))
     | Some (e, n) => (e, (Some n, (bits_of n, tt)))
     end).
Definition rsapub_dec (j : json) : res rsapub_t :=
  rbind (dec (obj rsapub_fields) j) (fun a =>
    let '(e, (m, (len, _))) := a in
    match e with
    | None => Err                                    (* SetString("") fails *)
    | Some e' =>
        let raw := match m with Some b => b | None => EmptyString end in
        if Z.eqb (bits_of raw) len then Ok (Some (e', strip0 raw)) else Err
    end).
Definition c_rsapub : codec rsapub_t rsapub_t := {| enc := rsapub_enc; dec := rsapub_dec |}.

Definition rsaclient_t := (Z * (string * unit))%type.
Definition rsaclient_fields :=
  FCons "length" (k_u16 true) (FCons "encrypted_pre_master_secret" k_bytes_omit FEnd).
Definition c_rsaclient := obj rsaclient_fields.

(* ================= pkix ================= *)
Definition oid_t := list Z.
Definition parse_oid_res (bits : N) (s : string) : res oid_t := of_opt (parse_oid bits s).

(* AttributeTypeAndValue: value None = not a string (written as "") *)
Definition atv_fields := FCons "type" (k_str true) (FCons "value" (k_str true) FEnd).
Definition c_atv : codec (oid_t * option string) (oid_t * string) :=
  {| enc := fun a => enc (obj atv_fields)
                       (oid_str (fst a), (match snd a with Some s => s | None => EmptyString end, tt));
     dec := fun j => rbind (dec (obj atv_fields) j) (fun a =>
                       let '(ty, (v, _)) := a in
                       if is_empty_s ty then Ok ([], v)
                       else rbind (parse_oid_res 64 ty) (fun o => Ok (o, v))) |}.

(* OtherName{TypeID, Value.Bytes} *)
Definition othername_fields := FCons "id" (k_str true) (FCons "value" k_bytes_omit FEnd).
Definition c_othername : codec (oid_t * string) (oid_t * string) :=
  {| enc := fun a => enc (obj othername_fields) (oid_str (fst a), (snd a, tt));
     dec := fun j => rbind (dec (obj othername_fields) j) (fun a =>
                       let '(id, (v, _)) := a in
                       if is_empty_s id then Err
                       else rbind (parse_oid_res 64 id) (fun o => Ok (o, v))) |}.

Definition edi_t := (string * (string * unit))%type.
Definition edi_fields := FCons "name_assigner" (k_str true) (FCons "party_name" (k_str false) FEnd).
Definition c_edi := obj edi_fields.

(* Extension{Id, Critical, Value} *)
Definition ext_fields := FCons "id" (k_str true) (FCons "critical" (k_bool false) (FCons "value" k_bytes_omit FEnd)).
Definition ext_t := (oid_t * (bool * string))%type.
Definition c_ext : codec ext_t ext_t :=
  {| enc := fun e => let '(id, (crit, v)) := e in enc (obj ext_fields) (oid_str id, (crit, (v, tt)));
     dec := fun j => rbind (dec (obj ext_fields) j) (fun a =>
                       let '(id, (crit, (v, _))) := a in
                       rbind (parse_oid_res 64 id) (fun o => Ok (o, (crit, v)))) |}.

(* Name.  Marshalling walks n.ToRDNSequence() (flattened here: a list of
   attributes, value None = not a string) and sorts the values into 17 lists by
   attribute type; unknown types are dropped.  Unmarshalling fills the typed
   members, Names (fixed order) and ExtraNames (second and later CN / serial). *)
Definition o_cn : oid_t := [2; 5; 4; 3]%Z.
Definition o_surname : oid_t := [2; 5; 4; 4]%Z.
Definition o_serial : oid_t := [2; 5; 4; 5]%Z.
Definition o_country : oid_t := [2; 5; 4; 6]%Z.
Definition o_locality : oid_t := [2; 5; 4; 7]%Z.
Definition o_province : oid_t := [2; 5; 4; 8]%Z.
Definition o_street : oid_t := [2; 5; 4; 9]%Z.
Definition o_org : oid_t := [2; 5; 4; 10]%Z.
Definition o_ou : oid_t := [2; 5; 4; 11]%Z.
Definition o_postal : oid_t := [2; 5; 4; 17]%Z.
Definition o_given : oid_t := [2; 5; 4; 42]%Z.
Definition o_orgid : oid_t := [2; 5; 4; 97]%Z.
Definition o_dc : oid_t := [0; 9; 2342; 19200300; 100; 1; 25]%Z.
Definition o_email : oid_t := [1; 2; 840; 113549; 1; 9; 1]%Z.
Definition o_jl : oid_t := [1; 3; 6; 1; 4; 1; 311; 60; 2; 1; 1]%Z.
Definition o_jp : oid_t := [1; 3; 6; 1; 4; 1; 311; 60; 2; 1; 2]%Z.
Definition o_jc : oid_t := [1; 3; 6; 1; 4; 1; 311; 60; 2; 1; 3]%Z.

Definition attr := (oid_t * option string)%type.
Definition bucket (o : oid_t) (attrs : list attr) : list string :=
  flat_map (fun a => match snd a with
                     | Some s => if oid_eqb (fst a) o then [s] else []
                     | None => [] end) attrs.
Definition ls := k_list c_str.
Definition name_fields :=
  FCons "common_name" ls (FCons "serial_number" ls (FCons "country" ls (FCons "locality" ls
  (FCons "province" ls (FCons "street_address" ls (FCons "organization" ls
  (FCons "organizational_unit" ls (FCons "postal_code" ls (FCons "domain_component" ls
  (FCons "email_address" ls (FCons "given_name" ls (FCons "surname" ls
  (FCons "jurisdiction_country" ls (FCons "jurisdiction_locality" ls
  (FCons "jurisdiction_province" ls (FCons "organization_id" ls FEnd)))))))))))))))).
Definition name_aux (attrs : list attr) :=
  (bucket o_cn attrs, (bucket o_serial attrs, (bucket o_country attrs, (bucket o_locality attrs,
  (bucket o_province attrs, (bucket o_street attrs, (bucket o_org attrs, (bucket o_ou attrs,
  (bucket o_postal attrs, (bucket o_dc attrs, (bucket o_email attrs, (bucket o_given attrs,
  (bucket o_surname attrs, (bucket o_jc attrs, (bucket o_jl attrs, (bucket o_jp attrs,
  (bucket o_orgid attrs, tt))))))))))))))))).
Definition name_enc (attrs : list attr) : json := enc (obj name_fields) (name_aux attrs).

Record name_dec := {
  n_country : list string; n_org : list string; n_ou : list string; n_locality : list string;
  n_province : list string; n_street : list string; n_postal : list string; n_dc : list string;
  n_email : list string; n_given : list string; n_surname : list string; n_orgids : list string;
  n_jc : list string; n_jl : list string; n_jp : list string;
  n_cn : string; n_serial : string;
  n_names : list (oid_t * string); n_extra : list (oid_t * string) }.
Definition atvs (o : oid_t) (l : list string) : list (oid_t * string) := map (fun s => (o, s)) l.
Definition hd_s (l : list string) : string := match l with s :: _ => s | [] => EmptyString end.
Definition name_of_aux (a : list string * (list string * (list string * (list string * (list string *
   (list string * (list string * (list string * (list string * (list string * (list string *
   (list string * (list string * (list string * (list string * (list string * (list string * unit)))))))))))))))))
   : name_dec :=
  let '(cn, (serial, (country, (locality, (province, (street, (org, (ou, (postal, (dc, (email,
       (given, (surname, (jc, (jl, (jp, (orgid, _))))))))))))))))) := a in
  {| n_country := country; n_org := org; n_ou := ou; n_locality := locality; n_province := province;
     n_street := street; n_postal := postal; n_dc := dc; n_email := email; n_given := given;
     n_surname := surname; n_orgids := orgid; n_jc := jc; n_jl := jl; n_jp := jp;
     n_cn := hd_s cn; n_serial := hd_s serial;
     n_names := atvs o_country country ++ atvs o_org org ++ atvs o_ou ou ++ atvs o_locality locality
                ++ atvs o_province province ++ atvs o_street street ++ atvs o_postal postal
                ++ atvs o_dc dc ++ atvs o_email email ++ atvs o_jc jc ++ atvs o_jl jl ++ atvs o_jp jp
                ++ atvs o_orgid orgid ++ atvs o_given given ++ atvs o_surname surname
                ++ atvs o_cn cn ++ atvs o_serial serial;
     n_extra := atvs o_cn (tl cn) ++ atvs o_serial (tl serial) |}.
Definition name_decode (j : json) : res name_dec := rmap name_of_aux (dec (obj name_fields) j).
Definition c_name : codec (list attr) name_dec := {| enc := name_enc; dec := name_decode |}.

(* ================= x509 general names / name constraints ================= *)
(* net.IP as text; only 4-byte addresses are modelled; "" decodes to a nil IP *)
Definition c_ip : codec string string :=
  {| enc := fun ip => JStr (ip4_str ip);
     dec := fun j => match j with
                     | JStr s => if is_empty_s s then Ok EmptyString else of_opt (parse_ip4 s)
                     | JNull => Ok EmptyString     (* a TextUnmarshaler is not called for null: nil IP *)
                     | _ => Err end |}.
Definition gn_fields :=
  FCons "directory_names" (k_list c_name) (FCons "dns_names" ls (FCons "edi_party_names" (k_list c_edi)
  (FCons "email_addresses" ls (FCons "ip_addresses" (k_list c_ip) (FCons "other_names" (k_list c_othername)
  (FCons "registered_ids" ls (FCons "uniform_resource_identifiers" ls FEnd))))))).
Definition gn_t := (list (list attr) * (list string * (list edi_t * (list string * (list string *
                   (list (oid_t * string) * (list oid_t * (list string * unit))))))))%type.
Definition gn_dec_t := (list name_dec * (list string * (list edi_t * (list string * (list string *
                   (list (oid_t * string) * (list oid_t * (list string * unit))))))))%type.
Definition gn_enc (g : gn_t) : json :=
  let '(dn, (dns, (edi, (em, (ip, (ot, (reg, (uri, _)))))))) := g in
  enc (obj gn_fields) (dn, (dns, (edi, (em, (ip, (ot, (map oid_str reg, (uri, tt)))))))).
Fixpoint mapR {A B} (f : A -> res B) (l : list A) : res (list B) :=
  match l with
  | [] => Ok []
  | x :: r => rbind (f x) (fun y => rbind (mapR f r) (fun t => Ok (y :: t)))
  end.
Definition gn_decode (j : json) : res gn_dec_t :=
  rbind (dec (obj gn_fields) j) (fun a =>
    let '(dn, (dns, (edi, (em, (ip, (ot, (reg, (uri, _)))))))) := a in
    rbind (mapR (parse_oid_res 32) reg) (fun reg' =>
      Ok (dn, (dns, (edi, (em, (ip, (ot, (reg', (uri, tt)))))))))).
Definition c_gn : codec gn_t gn_dec_t := {| enc := gn_enc; dec := gn_decode |}.

(* GeneralSubtreeIP for an IPv4 network (address, prefix length) *)
Definition subtree_ip_t := (string * Z)%type.
Definition subip_fields :=
  FCons "cidr" (k_str true) (FCons "begin" (k_str true) (FCons "end" (k_str true) (FCons "mask" (k_str true) FEnd))).
Definition subip_enc (g : subtree_ip_t) : json :=
  let '(ip, n) := g in
  let m := mask4 (Z.to_N n) in
  let ipb := sbytes ip in
  let b := zip_with N.land ipb m in
  let e := zip_with N.lor ipb (map (fun x => 255 - x)%N m) in
  enc (obj subip_fields)
    (ip4_str ip ++ "/" ++ dec_of_Z n, (ip4_str (bs b), (ip4_str (bs e), (ip4_str (bs m), tt)))).
Definition subip_dec (j : json) : res subtree_ip_t :=
  rbind (dec (obj subip_fields) j) (fun a =>
    let '(cidr, _) := a in
    match split_on "/"%char cidr with
    | [addr; m] =>
        match parse_ip4 addr, parse_N m with
        | Some ip, Some n => if (n <=? 32)%N then Ok (ip, Z.of_N n) else Err
        | _, _ => Err
        end
    | _ => Err
    end).
Definition c_subip : codec subtree_ip_t subtree_ip_t := {| enc := subip_enc; dec := subip_dec |}.

(* NameConstraints: GeneralSubtree{String,Name,Edi,Oid} carry only Data into JSON *)
Definition half_fields {B B'} (p : string) (rest : fields B B') :=
  FCons (p ++ "_names") ls (FCons (p ++ "_email_addresses") ls (FCons (p ++ "_uris") ls
  (FCons (p ++ "_ip_addresses") (k_list c_subip) (FCons (p ++ "_directory_names") (k_list c_name)
  (FCons (p ++ "_edi_party_names") (k_list c_edi) (FCons (p ++ "_registred_id") ls rest)))))).
Definition nc_fields := FCons "critical" (k_bool false) (half_fields "permitted" (half_fields "excluded" FEnd)).
Definition nc_half (N : Type) :=
  (list string * (list string * (list string * (list subtree_ip_t * (list N * (list edi_t * list oid_t))))))%type.
Definition nc_t := (bool * (nc_half (list attr) * nc_half (list attr)))%type.
Definition nc_dec_t := (bool * (nc_half name_dec * nc_half name_dec))%type.
Definition nc_enc (c : nc_t) : json :=
  let '(crit, ((pd, (pe, (pu, (pi, (pn, (px, pr)))))), (ed, (ee, (eu, (ei, (en, (ex, er)))))))) := c in
  enc (obj nc_fields)
    (crit, (pd, (pe, (pu, (pi, (pn, (px, (map oid_str pr,
           (ed, (ee, (eu, (ei, (en, (ex, (map oid_str er, tt))))))))))))))).
Definition nc_decode (j : json) : res nc_dec_t :=
  rbind (dec (obj nc_fields) j) (fun a =>
    let '(crit, (pd, (pe, (pu, (pi, (pn, (px, (pr,
           (ed, (ee, (eu, (ei, (en, (ex, (er, _))))))))))))))) := a in
    rbind (mapR (parse_oid_res 32) pr) (fun pr' =>
    rbind (mapR (parse_oid_res 32) er) (fun er' =>
      Ok (crit, ((pd, (pe, (pu, (pi, (pn, (px, pr')))))), (ed, (ee, (eu, (ei, (en, (ex, er'))))))))))).
Definition c_nc : codec nc_t nc_dec_t := {| enc := nc_enc; dec := nc_decode |}.

(* ================= fingerprints and CT ================= *)
Definition c_fingerprint : codec string string :=
  {| enc := fun f => JStr (hex_enc false f);
     dec := fun j => match j with
                     | JStr s => of_opt (hex_dec s)
                     | JNull => Ok EmptyString       (* UnmarshalJSON("null"): the string stays "" *)
                     | _ => Err end |}.

Fixpoint take_s (n : nat) (s : string) : option string :=
  match n with
  | O => Some EmptyString
  | S n' => match s with String c r => match take_s n' r with Some t => Some (String c t) | None => None end
                       | EmptyString => None end
  end.
(* ct.DigitallySigned{hash, sig uint8; signature}: base64 of the TLS encoding *)
Definition ds_t := (Z * (Z * string))%type.
Definition ds_bytes (d : ds_t) : string :=
  let '(h, (s, sg)) := d in
  let l := slen sg in
  bs [Z.to_N h; Z.to_N s; (l / 256)%N; (l mod 256)%N] ++ sg.
Definition ds_marshal (d : ds_t) : res json :=
  if (65535 <? slen (snd (snd d)))%N then Err else Ok (JStr (b64enc (ds_bytes d))).
Definition ds_parse (raw : string) : res ds_t :=
  match raw with
  | String h (String s (String l1 (String l0 r))) =>
      let n := (N_of_ascii l1 * 256 + N_of_ascii l0)%N in
      match take_s (N.to_nat n) r with
      | Some sg => Ok (Z.of_N (N_of_ascii h), (Z.of_N (N_of_ascii s), sg))
      | None => Err
      end
  | _ => Err
  end.
Definition ds_unmarshal (j : json) : res ds_t :=
  match j with
  | JStr s => match b64dec s with Some raw => ds_parse raw | None => Err end
  | _ => Err
  end.

(* ct.SHA256Hash: 32 bytes, base64 *)
Definition sha256_marshal (h : string) : json := JStr (b64enc h).
Definition sha256_unmarshal (j : json) : res string :=
  match j with
  | JStr s => match b64dec s with
              | Some raw => if Nat.eqb (String.length raw) 32 then Ok raw else Err
              | None => Err end
  | _ => Err
  end.

(* ================= one value type for the correspondence streams ================= *)
Inductive ty :=
| TVersion | TCipher | TCompression | TCurve | TPointFormat | TSigHash | TClientAuth | TKeyUsage
| TPubKeyAlg | TSigAlg | TEcId
| TCParam | TECPoint | TDH | TECDHPriv | TECDH | TRSAPub | TRSAClient
| TAuxOID | TATV | TOtherName | TEDI | TExt | TName | TGN | TSubIP | TNC
| TFingerprint | TDS | TSHA256.

Inductive val :=
| VInt (t : ty) (v : Z)                 (* the one-integer enumerated types *)
| VSigHash (s h : Z)
| VCParam (p : option string) | VCParamD (p : string)
| VECPoint (p : ecpoint_t) | VDH (p : dh_t) | VECDHPriv (p : ecdhpriv_t) | VECDH (p : ecdh_t)
| VRSAPub (p : rsapub_t) | VRSAClient (p : rsaclient_t)
| VAuxOID (o : oid_t) | VATV (a : oid_t * option string) | VATVD (a : oid_t * string)
| VOtherName (a : oid_t * string) | VEDI (e : edi_t) | VExt (e : ext_t)
| VName (n : list attr) | VNameD (n : name_dec)
| VGN (g : gn_t) | VGND (g : gn_dec_t) | VSubIP (g : subtree_ip_t) | VNC (c : nc_t) | VNCD (c : nc_dec_t)
| VFingerprint (f : string) | VDS (d : ds_t) | VSHA256 (h : string).

Definition to_json (v : val) : res json :=
  match v with
  | VInt TVersion x => Ok (version_to_json x)
  | VInt TCipher x => Ok (cipher_to_json x)
  | VInt TCompression x => Ok (compression_to_json x)
  | VInt TCurve x => Ok (curve_to_json x)
  | VInt TPointFormat x => Ok (point_format_to_json x)
  | VInt TClientAuth x => Ok (client_auth_to_json x)
  | VInt TKeyUsage x => Ok (key_usage_to_json x)
  | VInt TPubKeyAlg x => Ok (pubkey_alg_to_json x)
  | VInt TSigAlg x => Ok (sig_alg_to_json x)
  | VInt TEcId x => Ok (enc c_ecid x)
  | VInt _ _ => Err
  | VSigHash s h => Ok (sighash_to_json s h)
  | VCParam p => Ok (enc c_cparam p)
  | VECPoint p => Ok (enc c_ecpoint p)
  | VDH p => Ok (enc c_dh p)
  | VECDHPriv p => Ok (enc c_ecdhpriv p)
  | VECDH p => Ok (enc c_ecdh p)
  | VRSAPub p => Ok (enc c_rsapub p)
  | VRSAClient p => Ok (enc c_rsaclient p)
  | VAuxOID o => Ok (enc c_auxoid o)
  | VATV a => Ok (enc c_atv a)
  | VOtherName a => Ok (enc c_othername a)
  | VEDI e => Ok (enc c_edi e)
  | VExt e => Ok (enc c_ext e)
  | VName n => Ok (enc c_name n)
  | VGN g => Ok (enc c_gn g)
  | VSubIP g => Ok (enc c_subip g)
  | VNC c => Ok (enc c_nc c)
  | VFingerprint f => Ok (enc c_fingerprint f)
  | VDS d => ds_marshal d
  | VSHA256 h => Ok (sha256_marshal h)
  | VCParamD _ | VATVD _ | VNameD _ | VGND _ | VNCD _ => Err
  end.

Definition of_json (t : ty) (j : json) : res val :=
  match t with
  | TVersion => rmap (VInt t) (version_of_json j)
  | TCipher => rmap (VInt t) (cipher_of_json j)
  | TCompression => rmap (VInt t) (compression_of_json j)
  | TCurve => rmap (VInt t) (curve_of_json j)
  | TPointFormat => rmap (VInt t) (point_format_of_json j)
  | TSigHash => rmap (fun p => VSigHash (fst p) (snd p)) (sighash_of_json j)
  | TClientAuth => rmap (VInt t) (client_auth_of_json j)
  | TKeyUsage => rmap (VInt t) (key_usage_of_json j)
  | TPubKeyAlg => rmap (VInt t) (pubkey_alg_of_json j)
  | TSigAlg => rmap (VInt t) (sig_alg_of_json j)
  | TEcId => rmap (VInt t) (dec c_ecid j)
  | TCParam => rmap VCParamD (dec c_cparam j)
  | TECPoint => rmap VECPoint (dec c_ecpoint j)
  | TDH => rmap VDH (dec c_dh j)
  | TECDHPriv => rmap VECDHPriv (dec c_ecdhpriv j)
  | TECDH => rmap VECDH (dec c_ecdh j)
  | TRSAPub => rmap VRSAPub (dec c_rsapub j)
  | TRSAClient => rmap VRSAClient (dec c_rsaclient j)
  | TAuxOID => rmap VAuxOID (dec c_auxoid j)
  | TATV => rmap VATVD (dec c_atv j)
  | TOtherName => rmap VOtherName (dec c_othername j)
  | TEDI => rmap VEDI (dec c_edi j)
  | TExt => rmap VExt (dec c_ext j)
  | TName => rmap VNameD (dec c_name j)
  | TGN => rmap VGND (dec c_gn j)
  | TSubIP => rmap VSubIP (dec c_subip j)
  | TNC => rmap VNCD (dec c_nc j)
  | TFingerprint => rmap VFingerprint (dec c_fingerprint j)
  | TDS => rmap VDS (ds_unmarshal j)
  | TSHA256 => rmap VSHA256 (sha256_unmarshal j)
  end.

Definition ty_of (v : val) : ty :=
  match v with
  | VInt t _ => t | VSigHash _ _ => TSigHash
  | VCParam _ | VCParamD _ => TCParam | VECPoint _ => TECPoint | VDH _ => TDH
  | VECDHPriv _ => TECDHPriv | VECDH _ => TECDH | VRSAPub _ => TRSAPub | VRSAClient _ => TRSAClient
  | VAuxOID _ => TAuxOID | VATV _ | VATVD _ => TATV | VOtherName _ => TOtherName | VEDI _ => TEDI
  | VExt _ => TExt | VName _ | VNameD _ => TName | VGN _ | VGND _ => TGN | VSubIP _ => TSubIP
  | VNC _ | VNCD _ => TNC | VFingerprint _ => TFingerprint | VDS _ => TDS | VSHA256 _ => TSHA256
  end.

(* ---------- equality of observations ---------- *)
Definition s_eqb := String.eqb.
Fixpoint leqb {A} (e : A -> A -> bool) (a b : list A) : bool :=
  match a, b with [], [] => true | x :: a', y :: b' => e x y && leqb e a' b' | _, _ => false end.
Definition oeqb {A} (e : A -> A -> bool) (a b : option A) : bool :=
  match a, b with None, None => true | Some x, Some y => e x y | _, _ => false end.
Definition peqb {A B} (ea : A -> A -> bool) (eb : B -> B -> bool) (a b : A * B) : bool :=
  ea (fst a) (fst b) && eb (snd a) (snd b).
Definition ueqb (_ _ : unit) : bool := true.
Definition os_eqb := oeqb s_eqb.
Definition ls_eqb := leqb s_eqb.
Definition oid_eq := oid_eqb.
Definition ecpoint_eqb : ecpoint_t -> ecpoint_t -> bool := peqb os_eqb os_eqb.
Definition ecdhpriv_eqb : ecdhpriv_t -> ecdhpriv_t -> bool := peqb s_eqb (peqb Z.eqb ueqb).
Definition edi_eqb : edi_t -> edi_t -> bool := peqb s_eqb (peqb s_eqb ueqb).
Definition atvd_eqb : oid_t * string -> oid_t * string -> bool := peqb oid_eq s_eqb.
Definition attr_eqb : attr -> attr -> bool := peqb oid_eq os_eqb.
Definition subip_eqb : subtree_ip_t -> subtree_ip_t -> bool := peqb s_eqb Z.eqb.
Definition name_dec_eqb (a b : name_dec) : bool :=
  ls_eqb (n_country a) (n_country b) && ls_eqb (n_org a) (n_org b) && ls_eqb (n_ou a) (n_ou b)
  && ls_eqb (n_locality a) (n_locality b) && ls_eqb (n_province a) (n_province b)
  && ls_eqb (n_street a) (n_street b) && ls_eqb (n_postal a) (n_postal b) && ls_eqb (n_dc a) (n_dc b)
  && ls_eqb (n_email a) (n_email b) && ls_eqb (n_given a) (n_given b) && ls_eqb (n_surname a) (n_surname b)
  && ls_eqb (n_orgids a) (n_orgids b) && ls_eqb (n_jc a) (n_jc b) && ls_eqb (n_jl a) (n_jl b)
  && ls_eqb (n_jp a) (n_jp b) && s_eqb (n_cn a) (n_cn b) && s_eqb (n_serial a) (n_serial b)
  && leqb atvd_eqb (n_names a) (n_names b) && leqb atvd_eqb (n_extra a) (n_extra b).
Definition gn_gen_eqb {N} (e : N -> N -> bool) :=
  peqb (leqb e) (peqb ls_eqb (peqb (leqb edi_eqb) (peqb ls_eqb (peqb ls_eqb
       (peqb (leqb atvd_eqb) (peqb (leqb oid_eq) (peqb ls_eqb ueqb))))))).
Definition half_eqb {N} (e : N -> N -> bool) : nc_half N -> nc_half N -> bool :=
  peqb ls_eqb (peqb ls_eqb (peqb ls_eqb (peqb (leqb subip_eqb) (peqb (leqb e) (peqb (leqb edi_eqb) (leqb oid_eq)))))).

Definition val_eqb (a b : val) : bool :=
  match a, b with
  | VInt t x, VInt t' y => Z.eqb x y && (match t, t' with
      | TVersion, TVersion | TCipher, TCipher | TCompression, TCompression | TCurve, TCurve
      | TPointFormat, TPointFormat | TClientAuth, TClientAuth | TKeyUsage, TKeyUsage
      | TPubKeyAlg, TPubKeyAlg | TSigAlg, TSigAlg | TEcId, TEcId => true | _, _ => false end)
  | VSigHash s h, VSigHash s' h' => Z.eqb s s' && Z.eqb h h'
  | VCParam p, VCParam q => os_eqb p q
  | VCParamD p, VCParamD q => s_eqb p q
  | VECPoint p, VECPoint q => ecpoint_eqb p q
  | VDH p, VDH q =>
      peqb os_eqb (peqb os_eqb (peqb os_eqb (peqb os_eqb (peqb os_eqb (peqb os_eqb (peqb os_eqb ueqb)))))) p q
  | VECDHPriv p, VECDHPriv q => ecdhpriv_eqb p q
  | VECDH p, VECDH q =>
      peqb Z.eqb (peqb (oeqb ecpoint_eqb) (peqb (oeqb ecdhpriv_eqb) (peqb (oeqb ecpoint_eqb)
           (peqb (oeqb ecdhpriv_eqb) ueqb)))) p q
  | VRSAPub p, VRSAPub q => oeqb (peqb Z.eqb s_eqb) p q
  | VRSAClient p, VRSAClient q => peqb Z.eqb (peqb s_eqb ueqb) p q
  | VAuxOID p, VAuxOID q => oid_eq p q
  | VATV p, VATV q => attr_eqb p q
  | VATVD p, VATVD q => atvd_eqb p q
  | VOtherName p, VOtherName q => atvd_eqb p q
  | VEDI p, VEDI q => edi_eqb p q
  | VExt p, VExt q => peqb oid_eq (peqb Bool.eqb s_eqb) p q
  | VName p, VName q => leqb attr_eqb p q
  | VNameD p, VNameD q => name_dec_eqb p q
  | VGN p, VGN q => gn_gen_eqb (leqb attr_eqb) p q
  | VGND p, VGND q => gn_gen_eqb name_dec_eqb p q
  | VSubIP p, VSubIP q => subip_eqb p q
  | VNC p, VNC q => peqb Bool.eqb (peqb (half_eqb (leqb attr_eqb)) (half_eqb (leqb attr_eqb))) p q
  | VNCD p, VNCD q => peqb Bool.eqb (peqb (half_eqb name_dec_eqb) (half_eqb name_dec_eqb)) p q
  | VFingerprint p, VFingerprint q => s_eqb p q
  | VDS p, VDS q => peqb Z.eqb (peqb Z.eqb s_eqb) p q
  | VSHA256 p, VSHA256 q => s_eqb p q
  | _, _ => false
  end.

Definition res_eqb {A} (e : A -> A -> bool) (a b : res A) : bool :=
  match a, b with
  | Ok x, Ok y => e x y
  | Err, Err => true
  | Panic, Panic => true
  | _, _ => false
  end.

(* ---------- correspondence cases ---------- *)
(* rt: (value, what Marshal returned as a tree, what Unmarshal of those bytes returned) *)
Definition rt := (val * res json * res val)%type.
Definition check_rt (c : rt) : bool :=
  let '(v, oj, od) := c in
  res_eqb json_eqb (to_json v) oj &&
  match oj with
  | Ok j => res_eqb val_eqb (of_json (ty_of v) j) od
  | _ => true
  end.

(* dec: (type, an arbitrary tree, what Unmarshal of its JSON text returned) *)
Definition dcase := (ty * json * res val)%type.
Definition check_dcase (c : dcase) : bool :=
  let '(t, j, od) := c in res_eqb val_eqb (of_json t j) od.

(* xenum: every code point below 2^bits of a one-integer type: checksum over the
   encoded tree and over the decoded value, folded in increasing order *)
Definition xstep (t : ty) (h : N) (v : N) : N :=
  match to_json (VInt t (Z.of_N v)) with
  | Ok j =>
      let h1 := jhash h j in
      match of_json t j with
      | Ok (VInt _ d) => mix (mix h1 1) (Z.to_N (d mod Z.of_N P))
      | Ok _ => mix h1 2
      | Err => mix h1 3
      | Panic => mix h1 4
      end
  | _ => mix h 5
  end.
Definition enum_hash (t : ty) (bits : nat) : N := fold_left (xstep t) (nrange bits) 0%N.
Definition xenum := (ty * nat * N)%type.
Definition check_xenum (c : xenum) : bool := let '(t, bits, h) := c in N.eqb (enum_hash t bits) h.

(* sighash: all 2^8 signature codes (hash fixed) and all 2^8 hash codes (signature fixed) *)
Definition xsighash := N.
Definition sighash_step (h : N) (sv : N * N) : N :=
  let j := sighash_to_json (Z.of_N (fst sv)) (Z.of_N (snd sv)) in
  let h1 := jhash h j in
  match sighash_of_json j with
  | Ok (s, hh) => mix (mix h1 (Z.to_N s)) (Z.to_N hh)
  | _ => mix h1 999
  end.
Definition sighash_hash : N :=
  fold_left sighash_step (map (fun s => (s, 4%N)) (nrange 8) ++ map (fun h => (1%N, h)) (nrange 8)) 0%N.
Definition check_xsighash (h : xsighash) : bool := N.eqb sighash_hash h.
