(* C19 — strict DER decoding is canonical in both ASN.1 codecs.  Executable only.
   The cryptobyte readers and Builder encoders are the shared model of model/C21.v.
   This file adds the encoding/asn1 primitives (asn1.go: parseBool, checkInteger,
   parseInt64, parseInt32, parseBigInt, parseBitString, parseBase128Int,
   parseObjectIdentifier, parseTagAndLength — strict mode, AllowPermissiveParsing
   off) and its encoders (marshal.go: int64Encoder, makeBigInt, appendBase128Int,
   oidEncoder, bitStringEncoder, appendLength, appendTagAndLength), and the
   exhaustive-enumeration support of the correspondence run. *)
From Coq Require Import List NArith ZArith Bool Arith.
From Verif Require Import Harness.
From VerifModel Require Import C21.
Import ListNotations.
Open Scope N_scope.

(* ------------------------------------------------------------------ encoding/asn1: parsers *)
Definition a_parse_bool (bs : bytes) : option bool :=
  match bs with
  | [b] => if b =? 0 then Some false else if b =? 255 then Some true else None
  | _ => None
  end.

(* checkInteger, strict *)
Definition a_check_integer (bs : bytes) : bool :=
  match bs with
  | [] => false
  | [_] => true
  | b0 :: b1 :: _ => negb (((b0 =? 0) && (b1 <? 128)) || ((b0 =? 255) && (128 <=? b1)))
  end.

(* parseInt64: the same accumulate / shift-up / shift-down as cryptobyte's asn1Signed
   (including the "more than 8 bytes" rejection) *)
Definition a_parse_int64 (bs : bytes) : option Z :=
  if a_check_integer bs then asn1_signed bs else None.
Definition a_parse_int32 (bs : bytes) : option Z :=
  if a_check_integer bs then
    match a_parse_int64 bs with
    | Some z => if fits_signed 32 z then Some z else None
    | None => None
    end
  else None.
Definition a_parse_bigint (bs : bytes) : option Z :=
  if a_check_integer bs then Some (bigint_of_bytes bs) else None.

(* parseBitString: (Bytes, BitLength) *)
Definition a_parse_bitstring (bs : bytes) : option (bytes * Z) :=
  match bs with
  | [] => None
  | pad :: data =>
      if (7 <? pad) || ((blen bs =? 1) && (0 <? pad)) then None
      else if last bs 0 mod 2 ^ pad =? 0
           then Some (data, (8 * Z.of_nat (length data) - Z.of_N pad)%Z)
           else None
  end.

(* parseBase128Int: at most 5 octets, value <= MaxInt32, leading 0x80 rejected *)
Fixpoint a_base128_from (shifted ret : N) (s : bytes) : option (N * bytes) :=
  match s with
  | [] => None
  | b :: s' =>
      if shifted =? 5 then None else
      if (shifted =? 0) && (b =? 128) then None else
      let ret' := ret * 128 + b mod 128 in
      if b <? 128 then (if 2147483647 <? ret' then None else Some (ret', s'))
      else a_base128_from (shifted + 1) ret' s'
  end.
Definition a_base128 (s : bytes) : option (N * bytes) := a_base128_from 0 0 s.

Fixpoint a_arcs (fuel : nat) (s : bytes) : option (list Z) :=
  match s with
  | [] => Some []
  | _ => match fuel with
         | O => None
         | S f => match a_base128 s with
                  | Some (v, s') => match a_arcs f s' with
                                    | Some l => Some (Z.of_N v :: l)
                                    | None => None
                                    end
                  | None => None
                  end
         end
  end.
Definition a_parse_oid (bs : bytes) : option (list Z) :=
  match bs with
  | [] => None
  | _ => match a_base128 bs with
         | Some (v, s') =>
             match a_arcs (length s') s' with
             | Some l => if v <? 80 then Some (Z.of_N (v / 40) :: Z.of_N (v mod 40) :: l)
                         else Some (2%Z :: Z.of_N (v - 80) :: l)
             | None => None
             end
         | None => None
         end
  end.

(* parseTagAndLength from the start of s: (class, compound, tag, length), rest *)
Record taglen := { t_class : N; t_compound : bool; t_tag : N; t_length : N }.

Fixpoint a_length_loop (n : nat) (len : N) (s : bytes) : option (N * bytes) :=
  match n with
  | O => Some (len, s)
  | S n' =>
      match s with
      | [] => None                                   (* truncated *)
      | b :: s' =>
          if 8388608 <=? len then None               (* length too large *)
          else let len' := len * 256 + b in
               if len' =? 0 then None                (* superfluous leading zeros *)
               else a_length_loop n' len' s'
      end
  end.

Definition a_parse_tag_and_length (s : bytes) : option (taglen * bytes) :=
  match s with
  | [] => None
  | b :: s1 =>
      let class := b / 64 in
      let compound := 32 <=? b mod 64 in
      let tag0 := b mod 32 in
      let tagr := if tag0 =? 31
                  then match a_base128 s1 with
                       | Some (t, s2) => if t <? 31 then None else Some (t, s2)
                       | None => None
                       end
                  else Some (tag0, s1) in
      match tagr with
      | None => None
      | Some (tag, s2) =>
          match s2 with
          | [] => None
          | lb :: s3 =>
              if lb <? 128 then
                Some ({| t_class := class; t_compound := compound; t_tag := tag; t_length := lb |}, s3)
              else
                let numBytes := lb mod 128 in
                if numBytes =? 0 then None else
                match a_length_loop (N.to_nat numBytes) 0 s3 with
                | Some (len, s4) =>
                    if len <? 128 then None
                    else Some ({| t_class := class; t_compound := compound; t_tag := tag; t_length := len |}, s4)
                | None => None
                end
          end
      end
  end.

(* ------------------------------------------------------------------ encoding/asn1: encoders *)
(* int64Encoder.Len: two loops *)
Fixpoint a_len_pos (fuel : nat) (i : Z) : nat :=
  match fuel with O => 0%nat | S f => if (127 <? i)%Z then S (a_len_pos f (Z.shiftr i 8)) else 0%nat end.
Fixpoint a_len_neg (fuel : nat) (i : Z) : nat :=
  match fuel with O => 0%nat | S f => if (i <? -128)%Z then S (a_len_neg f (Z.shiftr i 8)) else 0%nat end.
Fixpoint shiftr8 (k : nat) (i : Z) : Z := match k with O => i | S k' => shiftr8 k' (Z.shiftr i 8) end.
Definition a_int64_len (i : Z) : nat :=
  let n1 := a_len_pos 8 i in
  let i1 := shiftr8 n1 i in
  (1 + n1 + a_len_neg 8 i1)%nat.
Definition a_int64_bytes (i : Z) : bytes :=
  map (nth_byte i) (rev (seq 0 (a_int64_len i))).

(* makeBigInt is the code of cryptobyte's AddASN1BigInt: C21.bigint_content;
   appendBase128Int / base128IntLength is the code of addBase128Int: C21.base128_bytes *)

(* makeObjectIdentifier + oidEncoder *)
Definition a_oid_bytes (oid : list Z) : option bytes :=
  match oid with
  | a :: b :: rest =>
      if (2 <? a)%Z || ((a <? 2)%Z && (40 <=? b)%Z) then None
      else Some (base128_bytes (a * 40 + b) ++ flat_map base128_bytes rest)
  | _ => None
  end.

(* bitStringEncoder *)
Definition a_bitstring_bytes (d : bytes) (bitlen : Z) : bytes :=
  Z.to_N ((8 - bitlen mod 8) mod 8) :: d.

(* lengthLength / appendLength *)
Fixpoint a_length_length (fuel : nat) (i : N) : nat :=
  match fuel with O => 1%nat | S f => if 255 <? i then S (a_length_length f (i / 256)) else 1%nat end.
Definition a_length_bytes (i : N) : bytes := be_n (a_length_length 8 i) i.

Definition a_tag_and_length_bytes (t : taglen) : bytes :=
  let b := t_class t * 64 + (if t_compound t then 32 else 0) in
  let ident := if 31 <=? t_tag t then (b + 31) :: base128_bytes (Z.of_N (t_tag t)) else [b + t_tag t] in
  ident ++ (if 128 <=? t_length t
            then (128 + N.of_nat (a_length_length 8 (t_length t))) :: a_length_bytes (t_length t)
            else [t_length t]).

(* ------------------------------------------------------------------ correspondence: exhaustive enumeration *)
(* rolling checksum: 31 bits, no division (N.modulo is too slow under vm_compute for
   the 10^7-element domains) *)
Definition M31 : N := 2147483647.
Definition lo31 (x : N) : N := N.land x M31.
Definition mix (h x : N) : N := lo31 (h * 33 + lo31 x + 1).
Definition mixz (h : N) (z : Z) : N :=
  if (z <? 0)%Z then mix (mix h 1) (Z.to_N (- z)) else mix (mix h 0) (Z.to_N z).
Definition mix_bytes (h : N) (bs : bytes) : N := fold_left mix bs (mix h (blen bs)).
Definition mix_zs (h : N) (l : list Z) : N := fold_left mixz l (mix h (N.of_nat (length l))).
Definition obs_optz (h : N) (o : option Z) : N :=
  match o with None => mix h 0 | Some z => mixz (mix h 1) z end.

(* observables of one byte string, per kind; the Go harness folds the same numbers in
   the same order.  Content kinds wrap the content in a short-form element for the
   cryptobyte readers (contents here are at most 4 bytes). *)
Definition el (tag : N) (c : bytes) : bytes := tag :: blen c :: c.

Definition obs_integer (h : N) (c : bytes) : N :=
  let h := obs_optz h (a_parse_int64 c) in
  let h := obs_optz h (a_parse_int32 c) in
  let h := obs_optz h (a_parse_bigint c) in
  let h := obs_optz h (option_map fst (read_int_signed 2 64 (el 2 c))) in
  let h := obs_optz h (option_map fst (read_int_unsigned 64 (el 2 c))) in
  let h := obs_optz h (option_map fst (read_bigint (el 2 c))) in
  obs_optz h (option_map fst (read_int_signed 2 8 (el 2 c))).

Definition obs_bool (h : N) (c : bytes) : N :=
  let f o := match o with None => 0 | Some false => 1 | Some true => 2 end in
  mix (mix h (f (a_parse_bool c))) (f (option_map fst (read_bool (el 1 c)))).

Definition obs_bits (h : N) (c : bytes) : N :=
  let f h o := match o with None => mix h 0 | Some (d, n) => mixz (mix_bytes (mix h 1) d) n end in
  let h := f h (a_parse_bitstring c) in
  let h := f h (match read_bitstring (el 3 c) with Some (d, n, _) => Some (d, n) | None => None end) in
  match read_bitstring_bytes (el 3 c) with Some (d, _) => mix_bytes (mix h 1) d | None => mix h 0 end.

Definition obs_oid (h : N) (c : bytes) : N :=
  let f h o := match o with None => mix h 0 | Some l => mix_zs (mix h 1) l end in
  f (f h (a_parse_oid c)) (option_map fst (read_oid (el 6 c))).

(* a header string followed by padding: encoding/asn1 parses the header alone, cryptobyte
   needs the element to be there *)
Definition obs_header_asn1 (h : N) (c : bytes) : N :=
  match a_parse_tag_and_length c with
  | None => mix h 0
  | Some (t, rest) =>
      mix (mix (mix (mix (mix (mix h 1) (t_class t)) (if t_compound t then 1 else 0)) (t_tag t)) (t_length t)) (blen rest)
  end.
Definition pad300 : bytes := nrep 0 300.
Definition obs_header_cb (h : N) (c : bytes) : N :=
  match read_asn1 (c ++ pad300) with
  | None => mix h 0
  | Some (tag, hl, elem, rest) => mix (mix (mix (mix h 1) tag) hl) (blen elem)
  end.

Definition obs_kind (kind : N) : N -> bytes -> N :=
  match kind with
  | 0 => obs_integer
  | 1 => obs_bool
  | 2 => obs_bits
  | 3 => obs_oid
  | 4 => obs_header_asn1
  | _ => obs_header_cb
  end.

Definition alphabet (id : N) : list N :=
  match id with
  | 0 => map N.of_nat (seq 0 256)
  | 1 => [0; 1; 127; 128; 129; 130; 131; 132; 255]
  | 2 => [0; 1; 2; 39; 40; 79; 80; 127; 128; 129; 130; 255]
  | _ => [0; 1; 2; 39; 40; 79; 80; 126; 127; 128; 129; 130; 191; 192; 254; 255]
  end.

(* every extension of the prefix by at most [depth] bytes of the alphabet, depth first,
   the prefix itself included *)
Fixpoint enum (alpha : list N) (depth : nat) (pre_rev : bytes) (f : N -> bytes -> N) (h : N) : N :=
  let h := f h (rev pre_rev) in
  match depth with
  | O => h
  | S d => fold_left (fun h b => enum alpha d (b :: pre_rev) f h) alpha h
  end.

(* (kind, alphabet id, prefix, depth, checksum observed on the implementation) *)
Definition xcase := (N * N * bytes * nat * N)%type.
Definition check_xcase (x : xcase) : bool :=
  let '(kind, aid, prefix, depth, h) := x in
  enum (alphabet aid) depth (rev prefix) (obs_kind kind) 0 =? h.

(* ------------------------------------------------------------------ correspondence: single cases *)
(* what each codec returned for one byte string, for localisation and for the longer /
   random / structured inputs.  kinds as above; 6 = GeneralizedTime content (cryptobyte). *)
Inductive res :=
| RInts (a64 a32 abig c64 cu64 cbig c8 : option Z)
| RBools (a c : option bool)
| RBits (a c : option (bytes * Z)) (cbytes : option bytes)
| ROids (a c : option (list Z))
| RHdrA (r : option (N * bool * N * N * N))     (* class, compound, tag, length, bytes left *)
| RHdrC (r : option (N * N * N))                (* tag, header length, element length *)
| RTime (r : option gtime).

Definition model_res (kind : N) (c : bytes) : res :=
  match kind with
  | 0 => RInts (a_parse_int64 c) (a_parse_int32 c) (a_parse_bigint c)
               (option_map fst (read_int_signed 2 64 (el 2 c))) (option_map fst (read_int_unsigned 64 (el 2 c)))
               (option_map fst (read_bigint (el 2 c))) (option_map fst (read_int_signed 2 8 (el 2 c)))
  | 1 => RBools (a_parse_bool c) (option_map fst (read_bool (el 1 c)))
  | 2 => RBits (a_parse_bitstring c)
               (match read_bitstring (el 3 c) with Some (d, n, _) => Some (d, n) | None => None end)
               (option_map fst (read_bitstring_bytes (el 3 c)))
  | 3 => ROids (a_parse_oid c) (option_map fst (read_oid (el 6 c)))
  | 4 => RHdrA (match a_parse_tag_and_length c with
                | Some (t, rest) => Some (t_class t, t_compound t, t_tag t, t_length t, blen rest)
                | None => None end)
  | 5 => RHdrC (match read_asn1 c with
                | Some (tag, hl, elem, rest) => Some (tag, hl, blen elem)
                | None => None end)
  | _ => RTime (gtime_of_content c)
  end.

Definition oz_eqb := option_eqb Z.eqb.
Definition obits_eqb := option_eqb (prod_eqb bytes_eqb Z.eqb).
Definition res_eqb (x y : res) : bool :=
  match x, y with
  | RInts a b c d e f g, RInts a' b' c' d' e' f' g' =>
      oz_eqb a a' && oz_eqb b b' && oz_eqb c c' && oz_eqb d d' && oz_eqb e e' && oz_eqb f f' && oz_eqb g g'
  | RBools a c, RBools a' c' => option_eqb Bool.eqb a a' && option_eqb Bool.eqb c c'
  | RBits a c d, RBits a' c' d' => obits_eqb a a' && obits_eqb c c' && option_eqb bytes_eqb d d'
  | ROids a c, ROids a' c' => option_eqb (list_eqb Z.eqb) a a' && option_eqb (list_eqb Z.eqb) c c'
  | RHdrA r, RHdrA r' =>
      option_eqb (fun p q => match p, q with
                             | (a, b, c, d, e), (a', b', c', d', e') =>
                                 (a =? a') && Bool.eqb b b' && (c =? c') && (d =? d') && (e =? e')
                             end) r r'
  | RHdrC r, RHdrC r' =>
      option_eqb (fun p q => match p, q with (a, b, c), (a', b', c') => (a =? a') && (b =? b') && (c =? c') end) r r'
  | RTime r, RTime r' => option_eqb gtime_eqb r r'
  | _, _ => false
  end.

(* (kind, input, observed) *)
Definition dcase := (N * bytes * res)%type.
Definition check_dcase (c : dcase) : bool :=
  let '(kind, input, got) := c in res_eqb (model_res kind input) got.
