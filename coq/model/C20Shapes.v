(* C20Shapes — the closed set of statement shapes in which the Go code tests
   asn1.AllowPermissiveParsing (P), the shapes of error handling around a
   mode-dependent call, and a tiny statement language whose only mode tests are
   those shapes.  Executable definitions only.

   Shapes of a use of P (classified by harness/c20/sites.go from the go/ast):
     StrictOnlyReject            if C && !P { …only `return …, err` / loops and ifs around it… }
     StrictOnlySetErrThenReturn  if !P { if bad { err = e } }   directly followed by the function's `return`
     PermEscapeThenReject        if P { anything }   followed, to the end of the block, by statements that only
                                 reject and end in `return …, err`
     PermCondEscapeThenReject    if C && P { anything }   directly followed by   if C { …return …, err }
     PermElseReject              if P { anything } else { …return …, err }
     PUnknown                    anything else
   In each of the five named shapes strict-mode execution differs from
   permissive-mode execution only where strict mode rejects. *)
From Coq Require Import List Bool Arith.
Import ListNotations.

Inductive pshape :=
| StrictOnlyReject | StrictOnlySetErrThenReturn | PermEscapeThenReject
| PermCondEscapeThenReject | PermElseReject | PUnknown.

(* error handling of a call whose result depends on the mode:
   Propagate  the error is returned            Guarded  the error is returned in strict mode (a P shape decides)
   Returned   the call's results are returned  Swallow  anything else (error dropped, or mapped to a value) *)
Inductive cshape := Propagate | Guarded | Returned | Swallow.

Definition pshape_conservative (s : pshape) : bool :=
  match s with PUnknown => false | _ => true end.

Definition cshape_conservative (s : cshape) : bool :=
  match s with Swallow => false | _ => true end.

Section Lang.
  Variable S : Type.

  (* a mode-dependent callee: new state, or an error *)
  Definition callee := bool -> S -> option S.

  Inductive stmt :=
  | Skip
  | Seq (a b : stmt)
  | Eff (f : S -> S)                     (* any mode-independent effect *)
  | Rej                                  (* return …, err *)
  | Ret                                  (* return …, nil *)
  | Cont                                 (* continue *)
  | If (c : S -> bool) (a b : stmt)      (* mode-independent test *)
  | Loop (n : S -> nat) (body : stmt)    (* for range …: n iterations; Cont ends one *)
  | Call (f : callee) (onerr : stmt)     (* s, err = f(…); if err != nil { onerr } *)
  | StrictOnly (c : S -> bool) (a : stmt)                   (* if c && !P { a } *)
  | PermEscape (c : option (S -> bool)) (a rej : stmt)      (* if c && P { a }; if c { rej }   (None: no c) *)
  | PermElse (a b : stmt)                                   (* if P { a } else { b } *)
  | IfModeRaw (a b : stmt).                                 (* if P { a } else { b }, no restriction: PUnknown *)

  Inductive out := ONext (s : S) | ORej | ORet (s : S) | OCont (s : S).

  Definition test (c : option (S -> bool)) (s : S) : bool :=
    match c with Some f => f s | None => true end.

  Fixpoint iter (run : S -> out) (k : nat) (s : S) : out :=
    match k with
    | O => ONext s
    | Datatypes.S k' =>
        match run s with
        | ONext s' | OCont s' => iter run k' s'
        | ORej => ORej
        | ORet s' => ORet s'
        end
    end.

  Fixpoint exec (perm : bool) (st : stmt) (s : S) : out :=
    match st with
    | Skip => ONext s
    | Seq a b => match exec perm a s with ONext s' => exec perm b s' | o => o end
    | Eff f => ONext (f s)
    | Rej => ORej
    | Ret => ORet s
    | Cont => OCont s
    | If c a b => if c s then exec perm a s else exec perm b s
    | Loop n body => iter (exec perm body) (n s) s
    | Call f onerr => match f perm s with Some s' => ONext s' | None => exec perm onerr s end
    | StrictOnly c a => if c s && negb perm then exec perm a s else ONext s
    | PermEscape c a rej =>
        if test c s then
          match (if perm then exec perm a s else ONext s) with
          | ONext s' => exec perm rej s'
          | o => o
          end
        else ONext s
    | PermElse a b | IfModeRaw a b => if perm then exec perm a s else exec perm b s
    end.

  (* strict-mode execution certainly ends in a rejection *)
  Fixpoint no_escape (st : stmt) : bool :=      (* strict mode never leaves by Ret / Cont *)
    match st with
    | Skip | Eff _ | Rej => true
    | Ret | Cont | Loop _ _ => false
    | Seq a b | If _ a b => no_escape a && no_escape b
    | Call _ onerr => no_escape onerr
    | StrictOnly _ a => no_escape a
    | PermEscape _ _ rej => no_escape rej
    | PermElse _ b | IfModeRaw _ b => no_escape b
    end.

  Fixpoint must_rej (st : stmt) : bool :=
    match st with
    | Rej => true
    | Seq a b => must_rej a || (no_escape a && must_rej b)
    | If _ a b => must_rej a && must_rej b
    | PermEscape None _ rej => must_rej rej
    | PermElse _ b | IfModeRaw _ b => must_rej b
    | _ => false
    end.

  (* strict-mode execution either rejects or falls through with the state unchanged *)
  Fixpoint rej_or_skip (st : stmt) : bool :=
    match st with
    | Skip | Rej => true
    | Seq a b | If _ a b => rej_or_skip a && rej_or_skip b
    | Loop _ body => rej_or_skip body
    | _ => false
    end.

  (* every mode test has a conservative shape and every mode-dependent call is handled *)
  Fixpoint conservative (st : stmt) : bool :=
    match st with
    | Skip | Eff _ | Rej | Ret | Cont => true
    | Seq a b | If _ a b => conservative a && conservative b
    | Loop _ body => conservative body
    | Call _ onerr => must_rej onerr
    | StrictOnly _ a => rej_or_skip a
    | PermEscape _ _ rej => must_rej rej
    | PermElse _ b => must_rej b
    | IfModeRaw _ _ => false
    end.

  (* the premise about the callees: each is itself a conservative extension *)
  Definition callee_conservative (f : callee) : Prop :=
    forall s s', f false s = Some s' -> f true s = Some s'.

  Fixpoint callees_ok (st : stmt) : Prop :=
    match st with
    | Skip | Eff _ | Rej | Ret | Cont => True
    | Seq a b | If _ a b | PermElse a b | IfModeRaw a b => callees_ok a /\ callees_ok b
    | Loop _ body => callees_ok body
    | Call f onerr => callee_conservative f /\ callees_ok onerr
    | StrictOnly _ a => callees_ok a
    | PermEscape _ a rej => callees_ok a /\ callees_ok rej
    end.

  (* ---- the skeleton of x509.parseCertificate: three propagating decodes
     (public key, subject, issuer), then the loop over the extensions in which
     the handler of the extension at hand is selected by [sel] and every
     handler has the Guarded shape  `if err != nil { if P { continue }; return nil, err }` *)
  Definition guarded (f : callee) : stmt := Call f (PermEscape None Cont Rej).
  Definition propagating (f : callee) : stmt := Call f Rej.
  Definition swallowing (f : callee) : stmt := Call f Skip.

  Fixpoint dispatch (sel : S -> nat) (k : nat) (hs : list callee) : stmt :=
    match hs with
    | [] => Skip
    | h :: r => If (fun s => Nat.eqb (sel s) k) (guarded h) (dispatch sel (Datatypes.S k) r)
    end.

  Definition parse_certificate_skeleton (pubkey subject issuer : callee) (next : S -> S)
             (n_ext : S -> nat) (sel : S -> nat) (handlers : list callee) : stmt :=
    Seq (propagating pubkey)
   (Seq (propagating subject)
   (Seq (propagating issuer)
   (Seq (Loop n_ext (Seq (dispatch sel 0 handlers) (Eff next)))
        Ret))).
End Lang.

Arguments Skip {S}. Arguments Seq {S}. Arguments Eff {S}. Arguments Rej {S}. Arguments Ret {S}.
Arguments Cont {S}. Arguments If {S}. Arguments Loop {S}. Arguments Call {S}. Arguments StrictOnly {S}.
Arguments PermEscape {S}. Arguments PermElse {S}. Arguments IfModeRaw {S}.
Arguments ONext {S}. Arguments ORej {S}. Arguments ORet {S}. Arguments OCont {S}.
Arguments exec {S}. Arguments conservative {S}. Arguments callees_ok {S}. Arguments must_rej {S}.
Arguments callee_conservative {S}. Arguments guarded {S}. Arguments propagating {S}. Arguments swallowing {S}.
Arguments dispatch {S}. Arguments parse_certificate_skeleton {S}.

(* the statement each P shape stands for (c, a, r arbitrary) *)
Definition shape_stmt {S} (sh : pshape) (c : S -> bool) (a r : stmt S) : stmt S :=
  match sh with
  | StrictOnlyReject => StrictOnly c (Seq (If c Rej Skip) Skip)
  | StrictOnlySetErrThenReturn => Seq (StrictOnly (fun _ => true) (If c Rej Skip)) Ret
  | PermEscapeThenReject => PermEscape None a Rej
  | PermCondEscapeThenReject => PermEscape (Some c) a Rej
  | PermElseReject => PermElse a Rej
  | PUnknown => IfModeRaw a r
  end.
