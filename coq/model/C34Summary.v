(* C34 — the discipline that the generated lock/access summary of tls/conn.go
   (coq/gen/C34Summary_gen.v) is checked against.  Definitions only.

   Field policies (LtsPhase.xpolicy), read off the comments in the Conn struct
   and the code:
     XGuarded in      everything the record reader owns
     XGuarded hs      handshakeErr, handshakeLog
     XPost out        the write side: owned by the handshake while it runs or
                      after it failed (nobody else can get past Handshake()),
                      guarded by c.out once the handshake is complete
     XHsConst         "constant after handshake": written only by the handshake
     XAtomic          handshakeStatus, activeCall
     XReadOnly        conn, isClient, config (set by the constructor)
   Lock order: handshakeMutex < in < out while the first handshake runs,
   in < handshakeMutex < out once it is complete (renegotiation takes
   handshakeMutex while holding in); acquisitions made without knowing the phase
   must respect both. *)
From Coq Require Import String.
From Coq Require Import List Bool Arith.
From Verif Require Import Lts LtsPhase.
From VerifGen Require Import C34Summary_gen.
Import ListNotations.
Open Scope string_scope.

Definition hs : lock := "handshakeMutex".

Definition inb (x : string) (l : list string) : bool := existsb (String.eqb x) l.

Definition in_fields : list string :=
  ["rawInput"; "input"; "hand"; "retryCount"; "handshakes";
   "in.err"; "in.version"; "in.cipher"; "in.mac"; "in.seq"; "in.scratchBuf";
   "in.nextCipher"; "in.nextMac"; "in.trafficSecret"].
Definition hs_fields : list string := ["handshakeErr"; "handshakeLog"].
Definition out_fields : list string :=
  ["out.err"; "out.version"; "out.cipher"; "out.mac"; "out.seq"; "out.scratchBuf";
   "out.nextCipher"; "out.nextMac"; "out.trafficSecret";
   "sendBuf"; "buffering"; "bytesSent"; "packetsSent"; "tmp";
   "closeNotifyErr"; "closeNotifySent";
   "@writeRecord"].   (* event marker written by the summariser at every writeRecordLocked *)
Definition const_after_handshake : list string :=
  ["vers"; "haveVers"; "didResume"; "cipherSuite"; "ocspResponse"; "scts";
   "peerCertificates"; "verifiedChains"; "serverName"; "secureRenegotiation"; "ekm";
   "resumptionSecret"; "ticketKeys"; "clientFinishedIsFirst"; "clientFinished";
   "serverFinished"; "clientProtocol"].
Definition atomics : list string := ["handshakeStatus"; "activeCall"].
Definition constants : list string := ["conn"; "isClient"; "config"; "handshakeFn"].

Definition pol (x : var) : option xpolicy :=
  if inb x in_fields then Some (XGuarded "in")
  else if inb x hs_fields then Some (XGuarded hs)
  else if inb x out_fields then Some (XPost "out")
  else if inb x const_after_handshake then Some XHsConst
  else if inb x atomics then Some XAtomic
  else if inb x constants then Some XReadOnly
  else None.

Definition rank1 (l : lock) : nat :=
  if String.eqb l hs then 0 else if String.eqb l "in" then 1 else 2.
Definition rank2 (l : lock) : nat :=
  if String.eqb l "in" then 0 else if String.eqb l hs then 1 else 2.

Definition is_reset (a : xstep) : bool := match a with Reset => true | _ => false end.
Definition no_reset (p : xprog) : bool := negb (existsb is_reset p).

Definition lift (p : prog) : xprog := map B p.

Definition all_paths : list xprog := map snd entries ++ map (fun g => lift (snd g)) spawned.
(* the paths that exist when Config.Renegotiation = RenegotiateNever (the default) *)
Definition race_paths : list xprog := filter no_reset all_paths.

Definition known_lock (l : lock) : bool := inb l [hs; "in"; "out"].
Definition locks_known (p : xprog) : bool :=
  forallb (fun a => match a with B (Acquire l) | B (Release l) => known_lock l | _ => true end) p.

Definition has_entry (name : string) : bool := existsb (fun e => String.eqb (fst e) name) entries.

(* the renegotiation edge exists in the summary (otherwise the two-rank argument would be vacuous) *)
Definition has_reset_path : bool := existsb (fun p => negb (no_reset p)) all_paths.
Definition has_init_path : bool :=
  existsb (fun p => existsb (fun a => match a with AssertP PInit => true | _ => false end) p) all_paths.

(* Same-critical-section obligation (TLS 1.3 key update): once the handshake is
   complete, the write traffic secret is only replaced in a critical section of
   c.out in which a record (the KeyUpdate message) has been written before -
   sending the KeyUpdate and switching the key are one step for every other
   holder of c.out.  [rec] = a record was written since c.out was last taken. *)
Fixpoint key_switch_atomic (h : list lock) (k : know) (rec : bool) (p : xprog) : bool :=
  match p with
  | [] => true
  | a :: r =>
      let rec' :=
        match a with
        | B (Acquire "out") | B (Release "out") => false
        | B (Write "@writeRecord") => true
        | _ => rec
        end in
      (match a with
       | B (Write "out.trafficSecret") => if know_eqb k KDone then rec && mem_inb "out" h else true
       | _ => true
       end) && key_switch_atomic (xheld_after h a) (know_after hs h k a) rec' r
  end.

Definition writes_out_secret (p : xprog) : bool :=
  existsb (fun a => match a with B (Write "out.trafficSecret") => true | _ => false end) p.

Definition check_keyupdate : bool :=
  forallb (key_switch_atomic [] KUnknown false) all_paths
  && existsb writes_out_secret all_paths.

(* data races: every path that does not renegotiate *)
Definition check_races : bool := forallb (xdisc_from hs pol [] KUnknown) race_paths.
(* lock order: every path *)
Definition check_order : bool := forallb (xordered_from hs rank1 rank2 [] KUnknown) all_paths.

Definition check_rest : bool :=
  forallb locks_known all_paths
  (* the methods the handshake code of the other files calls, under the lock sets it holds *)
  && forallb (fun c => xdisc_from hs pol [hs; "in"] KInit (snd c)) callees
  && forallb (fun c => xordered_from hs rank1 rank2 [hs; "in"] KInit (snd c)) callees
  && forallb (fun c => xordered_from hs rank1 rank2 ["in"] KDone (snd c)) callees
  && forallb (fun c => locks_known (snd c)) callees
  (* the summary covers the seven calls of the property *)
  && forallb has_entry ["Read"; "Write"; "Handshake"; "ConnectionState"; "SetDeadline"; "CloseWrite"; "Close"]
  && has_reset_path && has_init_path.

Definition summary_ok : bool := check_races && check_order && check_keyupdate && check_rest.
