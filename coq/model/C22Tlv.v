(* C22Tlv — executable model of the DER identifier/length layer of
   /repo/encoding/asn1 (strict mode, AllowPermissiveParsing = false):
     parseBase128Int, parseTagAndLength, invalidLength      (asn1.go)
     appendBase128Int, appendLength, appendTagAndLength     (marshal.go)
   plus the element splitter used for SEQUENCE OF / SET OF contents.
   Shared by C22 (RDN sequences) and C06 (certificate raw fields).
   Bytes are N < 256.  Go works with (slice, offset); the model works with the
   remaining suffix, which is the same information. *)
From Coq Require Import List NArith Bool Arith.
From Verif Require Import Harness.
Import ListNotations.
Open Scope N_scope.

Record tl := mkTl { t_class : N; t_comp : bool; t_tag : N; t_len : N }.

Definition tl_eqb (a b : tl) : bool :=
  (t_class a =? t_class b) && Bool.eqb (t_comp a) (t_comp b) &&
  (t_tag a =? t_tag b) && (t_len a =? t_len b).

Definition max_int32 : N := 2147483647.

(* parseBase128Int: [shifted] counts the groups read so far, [acc] is ret64.
   Errors: a 6th group, a leading 0x80, value > MaxInt32, truncation. *)
Fixpoint parse_b128 (shifted : nat) (acc : N) (bs : bytes) : option (N * bytes) :=
  match bs with
  | [] => None
  | b :: r =>
      if Nat.eqb shifted 5 then None
      else if Nat.eqb shifted 0 && (b =? 128) then None
      else
        let acc' := acc * 128 + b mod 128 in
        if b <? 128
        then (if max_int32 <? acc' then None else Some (acc', r))
        else parse_b128 (S shifted) acc' r
  end.

(* the long-form length loop of parseTagAndLength *)
Fixpoint parse_len_bytes (n : nat) (acc : N) (bs : bytes) : option (N * bytes) :=
  match n with
  | O => Some (acc, bs)
  | S n' =>
      match bs with
      | [] => None
      | b :: r =>
          if 8388608 <=? acc then None            (* ret.length >= 1<<23 *)
          else
            let acc' := acc * 256 + b in
            if acc' =? 0 then None                (* superfluous leading zeros *)
            else parse_len_bytes n' acc' r
      end
  end.

(* parseTagAndLength: header and the bytes after it *)
Definition parse_tl (bs : bytes) : option (tl * bytes) :=
  match bs with
  | [] => None
  | b :: r =>
      let cls := b / 64 in
      let comp := 32 <=? b mod 64 in
      let tag0 := b mod 32 in
      let tagr :=
        if tag0 =? 31
        then match parse_b128 0 0 r with
             | Some (t, r') => if t <? 31 then None else Some (t, r')   (* non-minimal tag *)
             | None => None
             end
        else Some (tag0, r) in
      match tagr with
      | None => None
      | Some (tag, r1) =>
          match r1 with
          | [] => None
          | lb :: r2 =>
              if lb <? 128 then Some (mkTl cls comp tag lb, r2)
              else
                let nb := lb mod 128 in
                if nb =? 0 then None                                   (* indefinite length *)
                else match parse_len_bytes (N.to_nat nb) 0 r2 with
                     | None => None
                     | Some (len, r3) =>
                         if len <? 128 then None                       (* non-minimal length *)
                         else Some (mkTl cls comp tag len, r3)
                     end
          end
      end
  end.

(* one element: header, content, rest.  invalidLength = content longer than what is left *)
Definition take_tlv (bs : bytes) : option (tl * bytes * bytes) :=
  match parse_tl bs with
  | None => None
  | Some (t, r) =>
      if N.of_nat (length r) <? t_len t then None
      else Some (t, firstn (N.to_nat (t_len t)) r, skipn (N.to_nat (t_len t)) r)
  end.

(* the bytes of the first element of [bs] given what follows it *)
Definition raw_prefix (bs rest : bytes) : bytes :=
  firstn (length bs - length rest) bs.

(* contents of a SEQUENCE OF / SET OF: list of (header, content); [fuel >= length bs] suffices *)
Fixpoint split_tlvs (fuel : nat) (bs : bytes) : option (list (tl * bytes)) :=
  match bs with
  | [] => Some []
  | _ :: _ =>
      match fuel with
      | O => None
      | S f =>
          match take_tlv bs with
          | None => None
          | Some (t, c, rest) =>
              match split_tlvs f rest with
              | None => None
              | Some l => Some ((t, c) :: l)
              end
          end
      end
  end.

(* ---- encoder side ---- *)

(* groups above the lowest one, most significant first, continuation bit set *)
Fixpoint b128_hi (fuel : nat) (m : N) : bytes :=
  match fuel with
  | O => []
  | S f => if m =? 0 then [] else b128_hi f (m / 128) ++ [128 + m mod 128]
  end.
(* appendBase128Int for 0 <= n < 2^63 *)
Definition enc_b128 (n : N) : bytes := b128_hi 9 (n / 128) ++ [n mod 128].

Fixpoint be_hi (fuel : nat) (m : N) : bytes :=
  match fuel with
  | O => []
  | S f => if m =? 0 then [] else be_hi f (m / 256) ++ [m mod 256]
  end.
(* appendLength (lengthLength bytes, big endian) for 0 <= n < 2^63 *)
Definition be_bytes (n : N) : bytes := be_hi 8 (n / 256) ++ [n mod 256].

Definition enc_len (n : N) : bytes :=
  if 128 <=? n then let bs := be_bytes n in (128 + N.of_nat (length bs)) :: bs else [n].

(* appendTagAndLength *)
Definition enc_tl (t : tl) : bytes :=
  let b0 := t_class t * 64 + (if t_comp t then 32 else 0) in
  (if 31 <=? t_tag t then (b0 + 31) :: enc_b128 (t_tag t) else [b0 + t_tag t])
  ++ enc_len (t_len t).

Definition tlv (cls : N) (comp : bool) (tag : N) (content : bytes) : bytes :=
  enc_tl (mkTl cls comp tag (N.of_nat (length content))) ++ content.

(* ---- OBJECT IDENTIFIER content ---- *)
Definition oid := list N.
Definition oid_eqb : oid -> oid -> bool := list_eqb N.eqb.

(* the base-128 groups of a whole OID body in one pass (parseBase128Int called
   repeatedly until the bytes are used up) *)
Fixpoint parse_arcs (shifted : nat) (acc : N) (bs : bytes) : option (list N) :=
  match bs with
  | [] => if Nat.eqb shifted 0 then Some [] else None
  | b :: r =>
      if Nat.eqb shifted 5 then None
      else if Nat.eqb shifted 0 && (b =? 128) then None
      else
        let acc' := acc * 128 + b mod 128 in
        if b <? 128
        then (if max_int32 <? acc' then None
              else match parse_arcs 0 0 r with
                   | Some l => Some (acc' :: l)
                   | None => None
                   end)
        else parse_arcs (S shifted) acc' r
  end.

(* parseObjectIdentifier *)
Definition parse_oid (bs : bytes) : option oid :=
  match parse_arcs 0 0 bs with
  | Some (v :: arcs) =>
      Some (if v <? 80 then (v / 40) :: (v mod 40) :: arcs else 2 :: (v - 80) :: arcs)
  | _ => None
  end.

(* makeObjectIdentifier + oidEncoder *)
Definition enc_oid (o : oid) : option bytes :=
  match o with
  | a :: b :: rest =>
      if (2 <? a) || ((a <? 2) && (40 <=? b)) then None
      else Some (concat (map enc_b128 ((a * 40 + b) :: rest)))
  | _ => None
  end.
