(* C10 — model of verifier/graph.go: Graph.AddCert / Graph.AddRoot.  Executable only.

   Go state                                   model
   g.nodes (creation order)                   g_nodes
   g.nodesBySubjectAndKey                     index of g_nodes ((subject, SPKI) is the node)
   g.nodesBySubject[s] (slice order)          the nodes of g_nodes with subject s, in order
   g.edges (by certificate fingerprint)       g_edges (insertion order; compared sorted)
   g.missingIssuerNode[raw issuer] (edge set) g_missing : (raw issuer, fingerprint) pairs
   n.childrenBySubjectAndKey[k] (edge set)    g_children : (n, k, fingerprint) triples
   n.parentsBySubjectAndKey[k]  (edge set)    g_parents  : (n, k, fingerprint) triples
   n.rootEdges (edge set)                     g_roots    : (n, fingerprint) pairs
   addOrPanic                                 the boolean returned next to the new state

   Pointers to edges are modelled by the certificate fingerprint that keys
   g.edges; pointers to nodes by the (subject, SPKI) pair. *)
From Coq Require Import List NArith ZArith Bool Arith.
From Verif Require Import Harness.
From Verif Require Export AbsCertG.
Import ListNotations.

Record edge := mkEdge {
  e_cert  : cert;
  e_iss   : option node;   (* GraphEdge.issuer (nil = None) *)
  e_child : node;          (* GraphEdge.child *)
  e_root  : bool
}.
Definition e_fp (e : edge) : N := c_fp (e_cert e).

Definition trip := (node * node * N)%type.
Definition trip_eqb (a b : trip) : bool :=
  node_eqb (fst (fst a)) (fst (fst b)) && node_eqb (snd (fst a)) (snd (fst b)) && N.eqb (snd a) (snd b).
Definition miss := (N * N)%type.
Definition miss_eqb (a b : miss) : bool := N.eqb (fst a) (fst b) && N.eqb (snd a) (snd b).

Record graph := mkGraph {
  g_nodes    : list node;
  g_edges    : list edge;
  g_missing  : list miss;
  g_children : list trip;
  g_parents  : list trip;
  g_roots    : list (node * N)
}.

Definition empty_graph : graph := mkGraph [] [] [] [] [] [].
Definition rt_eqb (a b : node * N) : bool := node_eqb (fst a) (fst b) && N.eqb (snd a) (snd b).

Definition has_fp (f : N) (es : list edge) : bool := existsb (fun e => N.eqb (e_fp e) f) es.
Definition find_edge (f : N) (es : list edge) : option edge := find (fun e => N.eqb (e_fp e) f) es.

(* adding the elements of [new] one after the other with addOrPanic to a set
   that holds [old]: does one of the additions panic? *)
Fixpoint add_all_panics {A} (eqb : A -> A -> bool) (new old : list A) : bool :=
  match new with
  | [] => false
  | x :: r => existsb (eqb x) old || add_all_panics eqb r (old ++ [x])
  end.

Definition set_iss (e : edge) (n : node) : edge := mkEdge (e_cert e) (Some n) (e_child e) (e_root e).
Definition set_root (e : edge) : edge := mkEdge (e_cert e) (e_iss e) (e_child e) true.

(* does the new node [nd] verify the certificate of the dangling edge recorded as [m]? *)
Definition fixable (nd : node) (es : list edge) (m : miss) : bool :=
  match find_edge (snd m) es with
  | Some ce => verifies nd (e_cert ce)
  | None => false
  end.

Definition child_of (es : list edge) (f : N) : node :=
  match find_edge f es with
  | Some ce => e_child ce
  | None => (0, 0)%N
  end.

(* AddCert: the new state and whether an addOrPanic call panicked on the way *)
Definition add_cert (g : graph) (c : cert) : graph * bool :=
  if has_fp (c_fp c) (g_edges g) then (g, false) else      (* ContainsCertificate: already represented *)
  let nd := node_of c in
  let isnew := negb (mem_node nd (g_nodes g)) in
  let nodes1 := if isnew then g_nodes g ++ [nd] else g_nodes g in
  (* potentialIssuers = nodesBySubject[RawIssuer] in slice order; the first whose key verifies c *)
  let iss := find (issues c) nodes1 in
  let edges1 := g_edges g ++ [mkEdge c iss nd false] in
  let children1 := match iss with Some p => g_children g ++ [(p, nd, c_fp c)] | None => g_children g end in
  let parents1 := match iss with Some p => g_parents g ++ [(nd, p, c_fp c)] | None => g_parents g end in
  let missing1 := match iss with Some _ => g_missing g | None => g_missing g ++ [(c_iss c, c_fp c)] end in
  let panic1 :=
    match iss with
    | Some p => existsb (trip_eqb (p, nd, c_fp c)) (g_children g) || existsb (trip_eqb (nd, p, c_fp c)) (g_parents g)
    | None => existsb (miss_eqb (c_iss c, c_fp c)) (g_missing g)
    end in
  if negb isnew then (mkGraph nodes1 edges1 missing1 children1 parents1 (g_roots g), panic1) else
  (* the node is new: does it issue an edge parked under its name? *)
  let cands := filter (fun m => N.eqb (fst m) (c_subj c)) missing1 in
  let fixed := map snd (filter (fixable nd edges1) cands) in
  let edges2 := map (fun ce => if memN (e_fp ce) fixed then set_iss ce nd else ce) edges1 in
  let newc := map (fun f => (nd, child_of edges1 f, f)) fixed in
  let newp := map (fun f => (child_of edges1 f, nd, f)) fixed in
  let missing2 := filter (fun m => negb (N.eqb (fst m) (c_subj c) && memN (snd m) fixed)) missing1 in
  (mkGraph nodes1 edges2 missing2 (children1 ++ newc) (parents1 ++ newp) (g_roots g),
   panic1 || add_all_panics trip_eqb newc children1 || add_all_panics trip_eqb newp parents1).

(* AddRoot: AddCert, then FindEdge(fingerprint).root = true, and the edge is
   entered into its child's rootEdges unless it is there already *)
Definition add_root (g : graph) (c : cert) : graph * bool :=
  let '(g1, p) := add_cert g c in
  let entry := (child_of (g_edges g1) (c_fp c), c_fp c) in
  (mkGraph (g_nodes g1)
           (map (fun e => if N.eqb (e_fp e) (c_fp c) then set_root e else e) (g_edges g1))
           (g_missing g1) (g_children g1) (g_parents g1)
           (if existsb (rt_eqb entry) (g_roots g1) then g_roots g1 else g_roots g1 ++ [entry]),
   p || negb (has_fp (c_fp c) (g_edges g1))).   (* FindEdge = nil would be a nil dereference *)

Inductive op := AddCert (c : cert) | AddRoot (c : cert).
Definition op_cert (o : op) : cert := match o with AddCert c => c | AddRoot c => c end.

Definition step (g : graph) (o : op) : graph * bool :=
  match o with AddCert c => add_cert g c | AddRoot c => add_root g c end.

(* None = the implementation panics somewhere in the sequence *)
Fixpoint run (g : graph) (ops : list op) : option graph :=
  match ops with
  | [] => Some g
  | o :: r => let '(g', p) := step g o in if p then None else run g' r
  end.

(* ---- observers of the public API ---- *)
Definition is_root (g : graph) (c : cert) : bool :=
  match find_edge (c_fp c) (g_edges g) with Some e => e_root e | None => false end.

(* ---- observables ---- *)
Definition M : N := 17592186044416%N.   (* 2^44 > any node code *)
Definition code_edge (e : edge) : N :=
  ((((e_fp e) * M + code_onode (e_iss e)) * M + code_node (e_child e)) * 2 + (if e_root e then 1 else 0))%N.
Definition code_trip (t : trip) : N :=
  ((code_node (fst (fst t)) * M + code_node (snd (fst t))) * M + snd t)%N.
Definition code_miss (m : miss) : N := (fst m * M + snd m)%N.
Definition code_rt (x : node * N) : N := (code_node (fst x) * M + snd x)%N.

(* dump printed by the harness: nodes in creation order; the sets as lists in any order *)
Definition eobs := (N * option node * node * bool)%type.
Definition code_eobs (e : eobs) : N :=
  let '(f, i, c, r) := e in
  ((((f * M) + code_onode i) * M + code_node c) * 2 + (if r then 1 else 0))%N.
Definition dump := (list node * list eobs * list miss * list trip * list trip * list (node * N))%type.

Definition dump_eqb (g : graph) (d : dump) : bool :=
  let '(ns, es, ms, cs, ps, rs) := d in
  list_eqb node_eqb (g_nodes g) ns &&
  list_eqb N.eqb (sortN (map code_edge (g_edges g))) (sortN (map code_eobs es)) &&
  list_eqb N.eqb (sortN (map code_miss (g_missing g))) (sortN (map code_miss ms)) &&
  list_eqb N.eqb (sortN (map code_trip (g_children g))) (sortN (map code_trip cs)) &&
  list_eqb N.eqb (sortN (map code_trip (g_parents g))) (sortN (map code_trip ps)) &&
  list_eqb N.eqb (sortN (map code_rt (g_roots g))) (sortN (map code_rt rs)).

(* ---- checksums: h' = (33 h + x + 1) mod 2^32, computed in the same traversal order by the harness ---- *)
Definition mix (h x : N) : N := N.land (h * 33 + x + 1) 4294967295%N.
Definition PANIC : N := 4294967296%N.     (* not a checksum value *)
Definition mix_node (h : N) (n : node) : N := mix (mix h (fst n)) (snd n).
Definition mix_onode (h : N) (o : option node) : N :=
  match o with None => mix h 0 | Some n => mix_node (mix h 1) n end.

(* canonical order = ascending code; the fields are then mixed one by one *)
Fixpoint insert_by {A} (key : A -> N) (x : A) (l : list A) : list A :=
  match l with
  | [] => [x]
  | y :: r => if N.leb (key x) (key y) then x :: l else y :: insert_by key x r
  end.
Definition sort_by {A} (key : A -> N) (l : list A) : list A := fold_right (insert_by key) [] l.

Definition hash_graph (h : N) (g : graph) : N :=
  let h1 := fold_left mix_node (g_nodes g) (mix h 11) in
  let h2 := fold_left (fun h e => mix (mix_node (mix_onode (mix h (e_fp e)) (e_iss e)) (e_child e)) (if e_root e then 1 else 0))
                      (sort_by code_edge (g_edges g)) (mix h1 12) in
  let h3 := fold_left (fun h m => mix (mix h (fst m)) (snd m)) (sort_by code_miss (g_missing g)) (mix h2 13) in
  let ht := fun h (t : trip) => mix (mix_node (mix_node h (fst (fst t))) (snd (fst t))) (snd t) in
  let h4 := fold_left ht (sort_by code_trip (g_children g)) (mix h3 14) in
  let h5 := fold_left ht (sort_by code_trip (g_parents g)) (mix h4 15) in
  fold_left (fun h x => mix (mix_node h (fst x)) (snd x)) (sort_by code_rt (g_roots g)) (mix h5 16).

(* ---- correspondence cases.  Ops refer to the certificates of a universe by index. ---- *)
Definition uop := (bool * nat)%type.     (* (AddRoot?, index) *)
Fixpoint ops_of (u : list cert) (l : list uop) : option (list op) :=
  match l with
  | [] => Some []
  | (r, i) :: t =>
      match nth_error u i, ops_of u t with
      | Some c, Some t' => Some ((if r then AddRoot c else AddCert c) :: t')
      | _, _ => None
      end
  end.

(* one run: the op sequence; after each op the checksum of the implementation's
   graph dump, or PANIC when the implementation panicked (the run stops there);
   optionally the full dump of the final graph *)
Definition run_obs := (list uop * list N * option dump)%type.

Fixpoint check_steps (g : graph) (ops : list op) (hs : list N) (fin : option dump) : bool :=
  match ops, hs with
  | [], [] => match fin with Some d => dump_eqb g d | None => true end
  | o :: r, h :: hs' =>
      let '(g', p) := step g o in
      if p then N.eqb h PANIC && match hs' with [] => true | _ => false end
      else N.eqb h (hash_graph 0 g') && check_steps g' r hs' fin
  | _, _ => false
  end.

Definition check_run (u : list cert) (r : run_obs) : bool :=
  let '(l, hs, fin) := r in
  match ops_of u l with
  | Some ops => check_steps empty_graph ops hs fin
  | None => false
  end.

(* a case: one universe and the runs made over it *)
Definition case := (list cert * list run_obs)%type.
Definition check_case (c : case) : bool := forallb (check_run (fst c)) (snd c).

(* ---- exhaustive stream: every order of an op multiset, every prefix state,
   folded into one checksum in the traversal order the harness uses ---- *)
Fixpoint perm_hash (fuel : nat) (g : graph) (rest : list op) (h : N) : N :=
  match fuel with
  | O => h
  | S f =>
      fold_left (fun h p =>
                   let '(g', pn) := step g (fst p) in
                   if pn then mix h 999 else perm_hash f g' (snd p) (hash_graph h g'))
                (picks [] rest) h
  end.

(* (universe, op multiset, checksum over all orders and prefixes) *)
Definition xcase := (list cert * list uop * N)%type.
Definition check_xcase (x : xcase) : bool :=
  let '(u, l, h) := x in
  match ops_of u l with
  | Some ops => N.eqb (perm_hash (length ops) empty_graph ops 0%N) h
  | None => false
  end.
