(* C34 — model of the activeCall interlock between tls.Conn.Write and
   tls.Conn.Close (tls/conn.go).  Executable definitions only.

   Go:  activeCall int32: low bit = Close has been called, the rest = 2 x
        (number of goroutines inside Write).
        Write:  loop { x := load; if x&1 != 0 { return ErrClosed }; if CAS(x, x+2) break }
                defer add(-2); ... takes c.out, writes records
        Close:  loop { x := load; if x&1 != 0 { return ErrClosed }; if CAS(x, x|1) break }
                if x != 0 { return conn.Close() }      (a Write is in flight: do not wait for c.out)
                closeNotify (takes c.out, sends the alert); conn.Close()
   The harness drives a client connection through a transport whose Write
   parks until released; at most one Write is in the transport at a time
   (a second one would wait for c.out and is not scripted). *)
From Coq Require Import List NArith Bool Arith.
From Verif Require Import Harness.
Import ListNotations.
Open Scope N_scope.

Inductive acevent := EWrite | ERelease | EClose.

Record acstate := mkAc {
  ac : N;            (* the activeCall word *)
  parked : nat;      (* Writes parked in the transport *)
  tclosed : bool }.  (* transport closed *)

Definition ac_init : acstate := mkAc 0 0 false.

Definition closed_bit (s : acstate) : bool := N.odd (ac s).

(* observation codes: 0 parked, 1 returned ErrClosed, 2 returned nil, 3 returned another error, 4 nothing to release;
   the flag: a close_notify record was written during the call *)
Definition acobs := (N * bool)%type.

Definition ac_step (s : acstate) (e : acevent) : acstate * acobs :=
  match e with
  | EWrite =>
      if closed_bit s then (s, (1, false))
      else (mkAc (ac s + 2) (S (parked s)) (tclosed s), (0, false))
  | ERelease =>
      match parked s with
      | O => (s, (4, false))
      | S p => (mkAc (ac s - 2) p (tclosed s), ((if tclosed s then 3 else 2), false))
      end
  | EClose =>
      if closed_bit s then (s, (1, false))
      else if N.eqb (ac s) 0
           then (mkAc 1 (parked s) true, (2, true))             (* nobody in Write: alert, then close *)
           else (mkAc (N.lor (ac s) 1) (parked s) true, (2, false)) (* Write in flight: just close the transport *)
  end.

Fixpoint ac_run (s : acstate) (es : list acevent) : list acobs :=
  match es with
  | [] => []
  | e :: r => let '(s', o) := ac_step s e in o :: ac_run s' r
  end.

Fixpoint ac_after (s : acstate) (es : list acevent) : acstate :=
  match es with
  | [] => s
  | e :: r => ac_after (fst (ac_step s e)) r
  end.

(* ---- correspondence case: (script, observations of the real Write/Close) ---- *)
Definition accase := (list acevent * list acobs)%type.
Definition check_accase (c : accase) : bool :=
  let '(es, obs) := c in
  list_eqb (prod_eqb N.eqb Bool.eqb) (ac_run ac_init es) obs.
