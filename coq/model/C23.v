(* C23 — model of /repo/rsa (rsa.go, pkcs1v15.go): the RSA fork that replaced
   bigmod by math/big.  Executable definitions only.

   *big.Int values are [option Z] (None = nil pointer).  Every operation
   returns an [outcome]: a value, an error, or a run-time panic (nil
   dereference, negative slice bound, division by zero, crypto.Hash.Size of an
   unknown hash) — the property says malformed public keys give errors, never
   panics, so the panics of the primitives are part of the model.

   Mirrors the code after the repairs
     19ff9dc fix: rsa.VerifyPKCS1v15 and VerifyPSS call checkPub
     bd00636 fix: rsa.SignPKCS1v15 and SignPSS call checkPub
   The code before the repairs is kept as [verify_pkcs1v15_unchecked] /
   [sign_pkcs1v15_unchecked] for the refutation witnesses. *)
From Coq Require Import List ZArith NArith Bool Zpow_facts.
From Verif Require Import Harness.
Import ListNotations.
Open Scope Z_scope.

Inductive outcome (A : Type) : Type :=
| Ok (a : A)
| Err
| Panic.
Arguments Ok {A} a.
Arguments Err {A}.
Arguments Panic {A}.

Definition bind {A B} (o : outcome A) (f : A -> outcome B) : outcome B :=
  match o with Ok a => f a | Err => Err | Panic => Panic end.

Definition bigint := option Z.

(* ---------------------------------------------------------------- bytes *)
(* new(big.Int).SetBytes: big-endian unsigned *)
Definition os2ip (b : bytes) : Z :=
  fold_left (fun acc x => acc * 256 + Z.of_N x) b 0.

(* big-endian, exactly [len] bytes, of z mod 256^len
   (z >> 8 and z & 255: linear time on binary Z, unlike / and mod) *)
Fixpoint i2osp (len : nat) (z : Z) : bytes :=
  match len with
  | O => []
  | S l => i2osp l (Z.shiftr z 8) ++ [Z.to_N (Z.land z 255)]
  end.

(* big.Int.BitLen (of the absolute value) *)
Definition bitlen (z : Z) : Z :=
  let a := Z.abs z in if a =? 0 then 0 else Z.log2 a + 1.

(* (BitLen+7)/8 *)
Definition bytelen (z : Z) : Z := (bitlen z + 7) / 8.

(* big.Int.Bytes: minimal big-endian encoding of |z| *)
Definition big_bytes (z : Z) : bytes := i2osp (Z.to_nat (bytelen z)) (Z.abs z).

Definition zlen {A} (l : list A) : Z := Z.of_nat (length l).

(* em := make([]byte, k); copy(em[len(em)-len(b):], b)
   — a negative slice bound panics *)
Definition left_pad (k : Z) (b : bytes) : outcome bytes :=
  if k <? zlen b then Panic
  else Ok (repeat 0%N (Z.to_nat (k - zlen b)) ++ b).

(* ---------------------------------------------------------------- math/big *)
(* extended Euclid: invariant r_i = s_i*n + t_i*x ; returns (gcd, t) *)
Fixpoint inv_loop (fuel : nat) (r0 r1 t0 t1 : Z) : Z * Z :=
  match fuel with
  | O => (r0, t0)
  | S f => if r1 =? 0 then (r0, t0)
           else let q := r0 / r1 in inv_loop f r1 (r0 - q * r1) t1 (t0 - q * t1)
  end.

(* big.Int.ModInverse(x, n) for n <> 0 (the sign of n is ignored): None = nil *)
Definition mod_inverse (x n : Z) : option Z :=
  let n := Z.abs n in
  let '(g, t) := inv_loop (S (Z.to_nat (2 * Z.log2_up n + 2))) n (x mod n) 0 1 in
  if g =? 1 then Some (t mod n) else None.

(* big.Int.ModInverse(x, n) including n = 0: a negative x is first reduced with
   Mod (division by zero), otherwise GCD(x, 0) = x, invertible iff x = 1 *)
Definition go_mod_inverse (x n : Z) : outcome bigint :=
  if n =? 0 then (if x <? 0 then Panic else if x =? 1 then Ok (Some 1) else Ok None)
  else Ok (mod_inverse x n).

(* big.Int.Mod: Euclidean modulus; division by zero panics *)
Definition go_mod (x y : Z) : outcome Z :=
  if y =? 0 then Panic else Ok (x mod (Z.abs y)).

(* a nil result that is used afterwards is a nil dereference *)
Definition deref (o : outcome bigint) : outcome Z :=
  bind o (fun v => match v with Some z => Ok z | None => Panic end).

(* The model is parametrised by the modular exponentiation [powmod x y n]
   (x^y mod n for n > 0).  THE MODEL is the instance [powmod := Zpow_mod]
   (Zpow_facts: square and multiply on Z); every theorem is about that
   instance.  The correspondence run instantiates it with an equal function
   that computes on machine words (model/C23Fast.v, equality proved in
   proof/C23FastProofs.v), because binary Z takes seconds per exponentiation. *)
Section WithPowmod.
Variable powmod : Z -> Z -> Z -> Z.

(* big.Int.Exp(x, y, m) on non-nil arguments; None = nil result
   (y < 0 and x not invertible modulo m).
   For y < 0 math/big exponentiates the inverse of x but keeps the sign rule
   "negative iff x < 0 and y odd" of the original x, then maps a negative
   result r to |m| - r. *)
Definition go_exp_z (x y m : Z) : option Z :=
  if y <? 0 then
    if m =? 0 then Some 1
    else match mod_inverse x m with
         | None => None
         | Some i =>
             let r := powmod i (- y) (Z.abs m) in
             Some (if (x <? 0) && Z.odd y && negb (r =? 0) then Z.abs m - r else r)
         end
  else if m =? 0 then Some (x ^ y)
  else Some (powmod x y (Z.abs m)).

(* with nil arguments: x and y are dereferenced, m may be nil (= no modulus) *)
Definition go_exp (x y m : bigint) : outcome bigint :=
  match x, y with
  | Some x', Some y' => Ok (go_exp_z x' y' (match m with Some m' => m' | None => 0 end))
  | _, _ => Panic
  end.

(* ---------------------------------------------------------------- keys *)
Record pubkey := { pN : bigint; pE : bigint }.

Record privkey := {
  pub : pubkey;
  pD : bigint;
  primes : list Z;
  pre_dp : bigint; pre_dq : bigint; pre_qinv : bigint   (* Precomputed.Dp, Dq, Qinv *)
}.

(* checkPub: true = no error *)
Definition check_pub (k : pubkey) : bool :=
  match pN k with
  | None => false
  | Some _ => match pE k with
              | None => false
              | Some e => 2 <=? e
              end
  end.

(* PublicKey.Size: (N.BitLen()+7)/8, nil N is a nil dereference *)
Definition pub_size (k : pubkey) : outcome Z :=
  match pN k with None => Panic | Some n => Ok (bytelen n) end.

(* ---------------------------------------------------------------- rsa.go encrypt *)
Definition encrypt (k : pubkey) (plaintext : bytes) : outcome bytes :=
  let m := os2ip plaintext in
  match pN k with
  | None => Panic                                   (* m.Cmp(pub.N) *)
  | Some n =>
      if n <=? m then Err
      else bind (deref (go_exp (Some m) (pE k) (Some n)))
                (fun c => left_pad (bytelen n) (big_bytes c))
  end.

(* ---------------------------------------------------------------- rsa.go decrypt *)
(* the CRT recombination exactly as written: h = m1 - m2; if h < 0 { h += p };
   h = h*qinv mod p; m = h*q + m2 *)
Definition garner (p q qinv m1 m2 : Z) : outcome Z :=
  let h := m1 - m2 in
  let h := if h <? 0 then h + p else h in
  bind (go_mod (h * qinv) p) (fun h => Ok (h * q + m2)).

Definition decrypt_crt (c p q : Z) (dp dq qinv : bigint) : outcome Z :=
  bind (deref (go_exp (Some c) dp (Some p))) (fun m1 =>
  bind (deref (go_exp (Some c) dq (Some q))) (fun m2 =>
  match qinv with
  | None => Panic
  | Some qi => garner p q qi m1 m2
  end)).

Definition decrypt_plain (c : Z) (d : bigint) (n : Z) : outcome Z :=
  deref (go_exp (Some c) d (Some n)).

Definition uses_crt (k : privkey) : bool :=
  (Nat.eqb (length (primes k)) 2) && (match pre_dp k with Some _ => true | None => false end).

Definition decrypt (k : privkey) (ciphertext : bytes) (check : bool) : outcome bytes :=
  let c := os2ip ciphertext in
  match pN (pub k) with
  | None => Panic
  | Some n =>
      if n <=? c then Err
      else
        bind (if uses_crt k
              then decrypt_crt c (nth 0 (primes k) 0) (nth 1 (primes k) 0)
                               (pre_dp k) (pre_dq k) (pre_qinv k)
              else decrypt_plain c (pD k) n)
        (fun m =>
           bind (if check
                 then bind (deref (go_exp (Some m) (pE (pub k)) (Some n)))
                           (fun c1 => if c1 =? c then Ok tt else Err)
                 else Ok tt)
           (fun _ => left_pad (bytelen n) (big_bytes m)))
  end.

(* PrivateKey.Precompute (Dp, Dq, Qinv; the deprecated CRTValues are not
   modelled — decrypt never reads them).  Primes[0], Primes[1] out of range
   panic; modulus zero panics *)
Definition precompute (k : privkey) : outcome privkey :=
  match pre_dp k with
  | Some _ => Ok k
  | None =>
      match primes k, pD k with
      | p :: q :: _, Some d =>
          bind (go_mod d (p - 1)) (fun dp =>
          bind (go_mod d (q - 1)) (fun dq =>
          bind (go_mod_inverse q p) (fun qinv =>
          Ok {| pub := pub k; pD := pD k; primes := primes k;
                pre_dp := Some dp; pre_dq := Some dq; pre_qinv := qinv |})))
      | _, _ => Panic
      end
  end.

(* ---------------------------------------------------------------- pkcs1v15.go *)
(* crypto.Hash codes; crypto.Hash.Size panics outside 1..19 *)
Definition hash_size (h : N) : option Z :=
  match h with
  | 1 => Some 16%Z | 2 => Some 16%Z | 3 => Some 20%Z | 4 => Some 28%Z | 5 => Some 32%Z
  | 6 => Some 48%Z | 7 => Some 64%Z | 8 => Some 36%Z | 9 => Some 20%Z
  | 10 => Some 28%Z | 11 => Some 32%Z | 12 => Some 48%Z | 13 => Some 64%Z
  | 14 => Some 28%Z | 15 => Some 32%Z | 16 => Some 32%Z | 17 => Some 32%Z
  | 18 => Some 48%Z | 19 => Some 64%Z
  | _ => None
  end%N.

(* hashPrefixes *)
Definition hash_prefix (h : N) : option bytes :=
  match h with
  | 2 => Some [0x30; 0x20; 0x30; 0x0c; 0x06; 0x08; 0x2a; 0x86; 0x48; 0x86; 0xf7; 0x0d; 0x02; 0x05; 0x05; 0x00; 0x04; 0x10]
  | 3 => Some [0x30; 0x21; 0x30; 0x09; 0x06; 0x05; 0x2b; 0x0e; 0x03; 0x02; 0x1a; 0x05; 0x00; 0x04; 0x14]
  | 4 => Some [0x30; 0x2d; 0x30; 0x0d; 0x06; 0x09; 0x60; 0x86; 0x48; 0x01; 0x65; 0x03; 0x04; 0x02; 0x04; 0x05; 0x00; 0x04; 0x1c]
  | 5 => Some [0x30; 0x31; 0x30; 0x0d; 0x06; 0x09; 0x60; 0x86; 0x48; 0x01; 0x65; 0x03; 0x04; 0x02; 0x01; 0x05; 0x00; 0x04; 0x20]
  | 6 => Some [0x30; 0x41; 0x30; 0x0d; 0x06; 0x09; 0x60; 0x86; 0x48; 0x01; 0x65; 0x03; 0x04; 0x02; 0x02; 0x05; 0x00; 0x04; 0x30]
  | 7 => Some [0x30; 0x51; 0x30; 0x0d; 0x06; 0x09; 0x60; 0x86; 0x48; 0x01; 0x65; 0x03; 0x04; 0x02; 0x03; 0x05; 0x00; 0x04; 0x40]
  | 8 => Some []
  | 9 => Some [0x30; 0x20; 0x30; 0x08; 0x06; 0x06; 0x28; 0xcf; 0x06; 0x03; 0x00; 0x31; 0x04; 0x14]
  | _ => None
  end%N.

(* the part of pkcs1v15ConstructEM before pub.Size(): hash-length check and prefix lookup *)
Definition em_prefix (hash : N) (hashed : bytes) : outcome bytes :=
  if (hash =? 0)%N then Ok []
  else match hash_size hash with
       | None => Panic                               (* crypto: Size of unknown hash function *)
       | Some sz =>
           if negb (zlen hashed =? sz) then Err
           else match hash_prefix hash with
                | None => Err
                | Some p => Ok p
                end
       end.

Definition em_layout (k : Z) (prefix hashed : bytes) : bytes :=
  [0; 1]%N ++ repeat 255%N (Z.to_nat (k - zlen prefix - zlen hashed - 3))
           ++ [0%N] ++ prefix ++ hashed.

Definition construct_em (k : pubkey) (hash : N) (hashed : bytes) : outcome bytes :=
  bind (em_prefix hash hashed) (fun prefix =>
  bind (pub_size k) (fun sz =>
    if sz <? zlen prefix + zlen hashed + 2 + 8 + 1 then Err
    else Ok (em_layout sz prefix hashed))).

(* errors of encrypt / pkcs1v15ConstructEM are mapped to ErrVerification; a panic stays a panic *)
Definition verify_pkcs1v15_unchecked (k : pubkey) (hash : N) (hashed sig : bytes) : outcome unit :=
  bind (pub_size k) (fun sz =>
    if negb (sz =? zlen sig) then Err
    else bind (encrypt k sig) (fun em =>
         bind (construct_em k hash hashed) (fun expected =>
           if bytes_eqb em expected then Ok tt else Err))).

Definition verify_pkcs1v15 (k : pubkey) (hash : N) (hashed sig : bytes) : outcome unit :=
  if check_pub k then verify_pkcs1v15_unchecked k hash hashed sig else Err.

Definition sign_pkcs1v15_unchecked (k : privkey) (hash : N) (hashed : bytes) : outcome bytes :=
  bind (construct_em (pub k) hash hashed) (fun em => decrypt k em true).

Definition sign_pkcs1v15 (k : privkey) (hash : N) (hashed : bytes) : outcome bytes :=
  if check_pub (pub k) then sign_pkcs1v15_unchecked k hash hashed else Err.

(* ---- PKCS #1 v1.5 encryption padding ---- *)
(* nonZeroRandomBytes: the inner loop re-reads one byte and xors it with 0x42
   until the byte is non-zero; a short random stream is an error *)
Fixpoint fix_zero (b : N) (stream : bytes) : option (N * bytes) :=
  if negb (b =? 0)%N then Some (b, stream)
  else match stream with
       | [] => None
       | x :: r => fix_zero (N.lxor x 0x42) r
       end.

Fixpoint fix_zeros (s stream : bytes) : option (bytes * bytes) :=
  match s with
  | [] => Some ([], stream)
  | b :: s' =>
      match fix_zero b stream with
      | None => None
      | Some (b', stream') =>
          match fix_zeros s' stream' with
          | None => None
          | Some (r, stream'') => Some (b' :: r, stream'')
          end
      end
  end.

Definition nonzero_random (n : nat) (stream : bytes) : option bytes :=
  if Nat.ltb (length stream) n then None
  else match fix_zeros (firstn n stream) (skipn n stream) with
       | None => None
       | Some (ps, _) => Some ps
       end.

Definition encrypt_pkcs1v15 (k : pubkey) (random msg : bytes) : outcome bytes :=
  if negb (check_pub k) then Err
  else bind (pub_size k) (fun sz =>
    if sz - 11 <? zlen msg then Err
    else match nonzero_random (Z.to_nat (sz - zlen msg - 3)) random with
         | None => Err
         | Some ps => encrypt k ([0; 2]%N ++ ps ++ [0%N] ++ msg)
         end).

(* decryptPKCS1v15: the constant-time scan for the first zero byte after em[0..1],
   written as the fold it is.  state = (lookingForIndex, index) *)
Definition scan_zero (em : bytes) : bool * Z :=
  let '(looking, index, _) :=
    fold_left (fun st b =>
                 let '(looking, index, i) := st in
                 let eq0 := (b =? 0)%N in
                 (looking && negb eq0, (if looking && eq0 then i else index), i + 1))
              (skipn 2 em) (true, 0, 2) in
  (looking, index).

(* (valid, em, index) *)
Definition unpad_pkcs1v15 (k : privkey) (ciphertext : bytes) : outcome (bool * bytes * Z) :=
  bind (pub_size (pub k)) (fun sz =>
    if sz <? 11 then Err
    else bind (decrypt k ciphertext false) (fun em =>
      let first0 := (nth 0 em 1 =? 0)%N in
      let second2 := (nth 1 em 0 =? 2)%N in
      let '(looking, index) := scan_zero em in
      let valid := first0 && second2 && negb looking && (10 <=? index) in
      Ok (valid, em, if valid then index + 1 else 0))).

Definition decrypt_pkcs1v15 (k : privkey) (ciphertext : bytes) : outcome bytes :=
  if negb (check_pub (pub k)) then Err
  else bind (unpad_pkcs1v15 k ciphertext) (fun r =>
    let '(valid, em, index) := r in
    if valid then Ok (skipn (Z.to_nat index) em) else Err).

(* ---------------------------------------------------------------- correspondence *)
(* A case is a group: one key, an environment of literal byte strings, and a
   list of operations with the observation made on the implementation.  Byte
   arguments are small specifications (literal, reference into the
   environment, pseudo-random, mutation) that the Go harness and the model
   expand identically, and long outputs are compared through their length and a
   31-bit rolling checksum: Coq needs ~0.3 ms per byte of literal data in a
   case file, so the data is kept out of the terms. *)
Inductive obs :=
| OBytes (b : bytes)        (* returned bytes / nil error *)
| OSum (len : N) (sum : N)  (* returned bytes, as length and checksum *)
| OErr                      (* non-nil error *)
| OPanic                    (* recovered run-time panic *)
| OBig (l : list bigint).   (* big.Int results *)

Definition bigint_eqb (a b : bigint) : bool := option_eqb Z.eqb a b.

(* h' = (h*31 + x + 1) land (2^31-1), as vh.Mix31 *)
Definition bsum (b : bytes) : N :=
  fold_left (fun h x => N.land (h * 31 + x + 1) 2147483647) b 7%N.

(* model result against observation *)
Definition obs_eqb (a b : obs) : bool :=
  match a, b with
  | OBytes x, OBytes y => bytes_eqb x y
  | OBytes x, OSum l h => N.eqb (N.of_nat (length x)) l && N.eqb (bsum x) h
  | OErr, OErr => true
  | OPanic, OPanic => true
  | OBig x, OBig y => list_eqb bigint_eqb x y
  | _, _ => false
  end.

Definition obs_bytes (o : outcome bytes) : obs :=
  match o with Ok b => OBytes b | Err => OErr | Panic => OPanic end.
Definition obs_unit (o : outcome unit) : obs :=
  match o with Ok _ => OBytes [] | Err => OErr | Panic => OPanic end.

(* byte-string specifications *)
Inductive bspec :=
| BLit (b : bytes)
| BRef (i : nat)                          (* i-th literal of the group's environment *)
| BGen (seed : N) (len : nat)             (* pseudo-random *)
| BXor (s : bspec) (pos : nat) (mask : N) (* one byte changed *)
| BDrop (s : bspec) (n : nat)             (* without the first n bytes *)
| BApp (a b : bspec).

Fixpoint prng_bytes (x : N) (len : nat) : bytes :=
  match len with
  | O => []
  | S l => let x' := N.land (x * 1103515245 + 12345) 2147483647 in
           N.land (N.shiftr x' 16) 255 :: prng_bytes x' l
  end.

Fixpoint xor_at (b : bytes) (pos : nat) (mask : N) : bytes :=
  match b, pos with
  | [], _ => []
  | x :: r, O => N.lxor x mask :: r
  | x :: r, S p => x :: xor_at r p mask
  end.

Fixpoint bs_eval (env : list bytes) (s : bspec) : bytes :=
  match s with
  | BLit b => b
  | BRef i => nth i env []
  | BGen seed len => prng_bytes seed len
  | BXor s pos mask => xor_at (bs_eval env s) pos mask
  | BDrop s n => skipn n (bs_eval env s)
  | BApp a b => bs_eval env a ++ bs_eval env b
  end.

(* math/big primitives: Exp, ModInverse, Bytes/SetBytes/BitLen *)
Inductive bigop :=
| BExp (x y m : Z)
| BInv (x n : Z)
| BBytes (x : Z).

Definition run_bigop (o : bigop) : obs :=
  match o with
  | BExp x y m => OBig [go_exp_z x y m]
  | BInv x n => match go_mod_inverse x n with Ok r => OBig [r] | Err => OErr | Panic => OPanic end
  | BBytes x => OBig [Some (bitlen x); Some (os2ip (big_bytes x)); Some (zlen (big_bytes x))]
  end.

Definition bigcase := (bigop * obs)%type.
Definition check_bigcase (c : bigcase) : bool := obs_eqb (run_bigop (fst c)) (snd c).

(* public-key operations *)
Inductive pubop :=
| PCheckPub
| PEncrypt (pt : bspec)
| PConstructEM (hash : N) (hashed : bspec)
| PVerify15 (hash : N) (hashed sig : bspec)
| PEncrypt15 (random msg : bspec).

Definition run_pubop (k : pubkey) (env : list bytes) (o : pubop) : obs :=
  match o with
  | PCheckPub => if check_pub k then OBytes [] else OErr
  | PEncrypt pt => obs_bytes (encrypt k (bs_eval env pt))
  | PConstructEM h d => obs_bytes (construct_em k h (bs_eval env d))
  | PVerify15 h d s => obs_unit (verify_pkcs1v15 k h (bs_eval env d) (bs_eval env s))
  | PEncrypt15 r m => obs_bytes (encrypt_pkcs1v15 k (bs_eval env r) (bs_eval env m))
  end.

Definition pubcase := (pubkey * list bytes * list (pubop * obs))%type.
Definition check_pubcase (c : pubcase) : bool :=
  let '(k, env, ops) := c in
  forallb (fun oo => obs_eqb (run_pubop k env (fst oo)) (snd oo)) ops.

(* private-key operations *)
Inductive privop :=
| VDecrypt (ct : bspec) (check : bool)
| VSign15 (hash : N) (hashed : bspec)
| VDecrypt15 (ct : bspec)
| VPrecompute.

Definition run_privop (k : privkey) (env : list bytes) (o : privop) : obs :=
  match o with
  | VDecrypt ct chk => obs_bytes (decrypt k (bs_eval env ct) chk)
  | VSign15 h d => obs_bytes (sign_pkcs1v15 k h (bs_eval env d))
  | VDecrypt15 ct => obs_bytes (decrypt_pkcs1v15 k (bs_eval env ct))
  | VPrecompute =>
      match precompute k with
      | Ok k' => OBig [pre_dp k'; pre_dq k'; pre_qinv k']
      | Err => OErr
      | Panic => OPanic
      end
  end.

Definition privcase := (privkey * list bytes * list (privop * obs))%type.
Definition check_privcase (c : privcase) : bool :=
  let '(k, env, ops) := c in
  forallb (fun oo => obs_eqb (run_privop k env (fst oo)) (snd oo)) ops.

End WithPowmod.

(* constructors used by the generated case files *)
(* big integers and byte strings are written as big-endian base-2^56 limbs: Coq
   parses a 300-digit decimal numeral in ~0.1 s and a 128-element byte list in
   ~20 ms, but 19 seventeen-digit numerals in about a millisecond *)
Definition zl (limbs : list N) : Z :=
  fold_left (fun acc x => Z.shiftl acc 56 + Z.of_N x) limbs 0.
(* the byte string of length len whose big-endian value is zl limbs *)
Definition bl (len : nat) (limbs : list N) : bytes := i2osp len (zl limbs).
Definition mk_pub (n e : bigint) : pubkey := {| pN := n; pE := e |}.
Definition mk_priv (n e d : bigint) (ps : list Z) (dp dq qinv : bigint) : privkey :=
  {| pub := mk_pub n e; pD := d; primes := ps; pre_dp := dp; pre_dq := dq; pre_qinv := qinv |}.
