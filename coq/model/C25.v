(* C25 — model of the TLS record layer of /repo/tls/conn.go, executable only.

   extractPadding            -> extract_padding   (uint / int32 arithmetic bit for bit)
   halfConn.incSeq        -> inc_seq           (None = the wrap-around panic)
   halfConn.explicitNonceLen -> explicit_nonce_len
   halfConn.encrypt       -> half_encrypt
   halfConn.decrypt       -> half_decrypt
   prefixNonceAEAD/xorNonceAEAD (cipher_suites.go) -> inner_nonce
   Conn.maxPayloadSizeForWrite -> max_payload_for_write
   Conn.writeRecordLocked -> write_loop,  Conn.Write -> conn_write
   Conn.readRecordOrCCS / Read, data phase -> rx_record / read_app
   readFromUntil over a segmented transport -> fill / read_app_segs

   Bytes are N, Go ints are Z, the 64-bit sequence number is an N.
   The primitives (stream cipher, CBC mode, AEAD, MAC) are Section variables;
   the correspondence run instantiates them with the toy primitives at the
   end of this file, which the Go harness injects into the real record layer
   as spies. *)
From Coq Require Import List NArith ZArith Bool Arith.
From Verif Require Import Harness.
Import ListNotations.
Local Open Scope Z_scope.

(* ------------------------------------------------------------------ bytes *)
Definition zlen {A} (l : list A) : Z := Z.of_nat (length l).
Definition ztake {A} (n : Z) (l : list A) : list A := firstn (Z.to_nat n) l.
Definition zdrop {A} (n : Z) (l : list A) : list A := skipn (Z.to_nat n) l.
(* byte(n) of a Go int: low eight bits, two's complement *)
Definition byteZ (n : Z) : N := Z.to_N (n mod 256).
(* byte(n >> 8), byte(n) *)
Definition be16 (n : Z) : bytes := [byteZ (n / 256); byteZ n].
Fixpoint be_n (k : nat) (s : N) : bytes :=
  match k with
  | O => []
  | S k' => be_n k' (s / 256)%N ++ [(s mod 256)%N]
  end.
Definition unbe (l : bytes) : N := fold_left (fun a b => (a * 256 + b)%N) l 0%N.
(* hc.seq[:] *)
Definition seq8 (s : N) : bytes := be_n 8 s.
Definition hd0 (l : bytes) : N := nth 0 l 0%N.
Definition wf_bytes (l : bytes) : Prop := Forall (fun b => (b < 256)%N) l.

(* ---------------------------------------------------------- extractPadding *)
Definition two64 : N := 18446744073709551616%N.
(* uint(a) - uint(b) for a, b < 2^64 *)
Definition sub64 (a b : N) : N := (if b <=? a then a - b else two64 - (b - a))%N.
(* ^t on a 64-bit uint *)
Definition not64 (t : N) : N := (two64 - 1 - t)%N.
(* byte(int32(^t) >> 31): all ones iff bit 31 of ^t is set *)
Definition msb_mask (t : N) : N := if N.testbit (not64 t) 31 then 255%N else 0%N.

(* the loop body, walking the payload from its last byte: l = reversed payload *)
Fixpoint pad_loop (l : bytes) (p i good : N) : N :=
  match l with
  | [] => good
  | b :: r =>
      let mask := msb_mask (sub64 p i) in
      (* good &^= mask&paddingLen ^ mask&b *)
      pad_loop r p (i + 1)%N (N.ldiff good (N.lxor (N.land mask p) (N.land mask b)))
  end.

(* good &= good<<4; good &= good<<2; good &= good<<1; good = uint8(int8(good)>>7) *)
Definition collapse (g : N) : N :=
  let g1 := N.land g ((g * 16) mod 256)%N in
  let g2 := N.land g1 ((g1 * 4) mod 256)%N in
  let g3 := N.land g2 ((g2 * 2) mod 256)%N in
  if N.testbit g3 7 then 255%N else 0%N.

(* (toRemove, good) *)
Definition extract_padding (payload : bytes) : N * N :=
  match rev payload with
  | [] => (0%N, 0%N)
  | p :: _ =>
      let n := N.of_nat (length payload) in
      let good0 := msb_mask (sub64 (n - 1)%N p) in
      let to_check := N.min 256 n in
      let good := collapse (pad_loop (firstn (N.to_nat to_check) (rev payload)) p 0%N good0) in
      ((N.land p good + 1)%N, good)
  end.

(* the specification it is proved equal to (proof/C25Proofs.v) *)
Definition padding_ok (payload : bytes) (p : N) : bool :=
  (N.to_nat p + 1 <=? length payload)%nat &&
  forallb (N.eqb p) (firstn (N.to_nat p + 1) (rev payload)).
Definition extract_padding_ref (payload : bytes) : N * N :=
  match rev payload with
  | [] => (0%N, 0%N)
  | p :: _ => if padding_ok payload p then ((p + 1)%N, 255%N) else (1%N, 0%N)
  end.

(* ---------------------------------------------------------- record layer *)
Inductive kind :=
| KNull                              (* hc.cipher == nil *)
| KStream (ms : Z)                   (* cipher.Stream + MAC of size ms *)
| KCbc (bs ms : Z)                   (* cbcMode with block size bs + MAC of size ms *)
| KAead (explicit ovh : Z).          (* aead with explicitNonceLen and Overhead *)

Record hstate := {
  version : Z;
  knd : kind;
  seqno : N;      (* hc.seq as a number *)
  civ : bytes;    (* chaining value held inside the CBC mode *)
  spos : Z        (* bytes of key stream consumed by the stream cipher *)
}.

Definition VersionTLS10 := 769.
Definition VersionTLS11 := 770.
Definition VersionTLS12 := 771.
Definition VersionTLS13 := 772.
Definition max_plaintext := 16384.
Definition max_ciphertext := 18432.
Definition max_ciphertext13 := 16640.
Definition alert_unexpected_message := 10.
Definition alert_bad_record_mac := 20.
Definition alert_record_overflow := 22.
Definition alert_decode_error := 50.
Definition alert_protocol_version := 70.
Definition err_rand := 1000.

Inductive outcome (A : Type) := Ok (a : A) | Err (code : Z) | Panic.
Arguments Ok {A} a. Arguments Err {A} code. Arguments Panic {A}.

(* every call the record layer makes on a primitive, in order *)
Inductive call :=
| CMac (x : bytes)                 (* bytes written between Reset and Sum *)
| CMacExtra (x : bytes)            (* bytes written after Sum *)
| CStreamX (pos : Z) (x : bytes)   (* XORKeyStream at key-stream offset pos *)
| CSeal (n ad p : bytes)
| COpen (n ad c : bytes)
| CCbc (iv x : bytes).             (* CryptBlocks with the mode's current IV *)

Definition inc_seq (s : N) : option N :=
  if (s =? 18446744073709551615)%N then None else Some (s + 1)%N.

Definition explicit_nonce_len (st : hstate) : Z :=
  match knd st with
  | KNull => 0
  | KStream _ => 0
  | KAead e _ => e
  | KCbc bs _ => if version st >=? VersionTLS11 then bs else 0
  end.

Definition is_cbc (k : kind) : bool := match k with KCbc _ _ => true | _ => false end.

(* record[3], record[4] = byte(n>>8), byte(n) *)
Definition set_len (hdr : bytes) (n : Z) : bytes := firstn 3 hdr ++ be16 n.
Definition set_rec_len (rec : bytes) : bytes :=
  set_len (firstn 5 rec) (zlen rec - 5) ++ skipn 5 rec.

(* state of the CBC mode after CryptBlocks over ciphertext ct *)
Definition next_iv (bs : Z) (iv ct : bytes) : bytes :=
  match ct with [] => iv | _ => zdrop (zlen ct - bs) ct end.

(* how many bytes of config.rand() one encrypt consumes *)
Definition rnd_used (st : hstate) : Z :=
  let e := explicit_nonce_len st in
  if (0 <? e) && (is_cbc (knd st) || (16 <=? e)) then e else 0.

Section RecordLayer.
  Variable stream : Z -> bytes -> bytes.
  Variable cbc_enc cbc_dec : bytes -> bytes -> bytes.   (* iv -> data -> data *)
  Variable seal : bytes -> bytes -> bytes -> bytes.     (* nonce -> ad -> plaintext *)
  Variable aopen : bytes -> bytes -> bytes -> option bytes.
  Variable mac : bytes -> bytes.

  Definition with_seq (st : hstate) (s : N) : hstate :=
    {| version := version st; knd := knd st; seqno := s; civ := civ st; spos := spos st |}.

  (* n := len(record) - recordHeaderLen; record[3..4] = n; hc.incSeq() *)
  Definition finish (rec : bytes) (st : hstate) (calls : list call)
    : outcome (bytes * hstate * list call) :=
    match inc_seq (seqno st) with
    | None => Panic
    | Some s => Ok (set_rec_len rec, with_seq st s, calls)
    end.

  (* halfConn.encrypt(record = hdr, payload, rand) *)
  Definition half_encrypt (st : hstate) (hdr payload rnd : bytes)
    : outcome (bytes * hstate * list call) :=
    match knd st with
    | KNull => Ok (hdr ++ payload, st, [])
    | k =>
      let e := explicit_nonce_len st in
      let from_rand := (0 <? e) && (is_cbc k || (16 <=? e)) in
      if from_rand && (zlen rnd <? e) then Err err_rand else
      let en : bytes :=
        if 0 <? e then (if from_rand then ztake e rnd else ztake e (seq8 (seqno st))) else [] in
      let s8 := seq8 (seqno st) in
      match k with
      | KNull => Panic
      | KStream ms =>
          let x := s8 ++ hdr ++ payload in
          let m := mac x in
          let body := stream (spos st) payload ++ stream (spos st + zlen payload) m in
          finish (hdr ++ en ++ body)
            {| version := version st; knd := k; seqno := seqno st; civ := civ st;
               spos := spos st + zlen payload + zlen m |}
            [CMac x; CStreamX (spos st) payload; CStreamX (spos st + zlen payload) m]
      | KAead _ ovh =>
          let nonce := match en with [] => s8 | _ => en end in
          if version st =? VersionTLS13 then
            let inner := en ++ payload ++ [hd0 hdr] in
            let n := zlen payload + 1 + ovh in
            let hdr' := set_len (23%N :: skipn 1 hdr) n in
            finish (hdr' ++ seal nonce hdr' inner) st [CSeal nonce hdr' inner]
          else
            let ad := s8 ++ hdr in
            finish (hdr ++ en ++ seal nonce ad payload) st [CSeal nonce ad payload]
      | KCbc bs ms =>
          let x := s8 ++ hdr ++ payload in
          let m := mac x in
          let plen := zlen payload + zlen m in
          let padl := bs - plen mod bs in
          let dst := payload ++ m ++ repeat (byteZ (padl - 1)) (Z.to_nat padl) in
          let iv := match en with [] => civ st | _ => en end in
          let ct := cbc_enc iv dst in
          finish (hdr ++ en ++ ct)
            {| version := version st; knd := k; seqno := seqno st; civ := next_iv bs iv ct;
               spos := spos st |}
            [CMac x; CCbc iv dst]
      end
    end.

  (* TLS 1.3 inner plaintext: strip zero padding, last non-zero byte is the type.
     r is the reversed plaintext. *)
  Fixpoint scan13 (r : bytes) : option (N * bytes) :=
    match r with
    | [] => None
    | b :: r' => if (b =? 0)%N then scan13 r' else Some (b, r')
    end.
  Definition tls13_inner (pt : bytes) (typ : N) : outcome (bytes * N) :=
    if negb (typ =? 23)%N then Err alert_unexpected_message
    else if zlen pt >? max_plaintext + 1 then Err alert_record_overflow
    else match pt with
         | [] => Ok ([], typ)
         | _ => match scan13 (rev pt) with
                | None => Err alert_unexpected_message
                | Some (t, r') => Ok (rev r', t)
                end
         end.

  (* the MAC branch shared by stream and CBC: payload is the decrypted body *)
  Definition mac_check (st : hstate) (hdr payload : bytes) (ms padl : Z) (padgood : N)
    : outcome (bytes * list call) :=
    if zlen payload <? ms then Err alert_bad_record_mac else
    let n0 := zlen payload - ms - padl in
    let n := if n0 <? 0 then 0 else n0 in
    let hdr' := set_len hdr n in
    let remote := ztake ms (zdrop n payload) in
    let x := seq8 (seqno st) ++ hdr' ++ ztake n payload in
    let local := mac x in
    let calls := [CMac x; CMacExtra (zdrop (n + ms) payload)] in
    if bytes_eqb local remote && (padgood =? 255)%N
    then Ok (ztake n payload, calls) else Err alert_bad_record_mac.

  (* halfConn.decrypt(record): (plaintext, type, new state, calls) *)
  Definition half_decrypt (st : hstate) (rec : bytes)
    : outcome (bytes * N * hstate * list call) :=
    if zlen rec <? 5 then Panic else
    let hdr := firstn 5 rec in
    let typ := hd0 rec in
    let payload := skipn 5 rec in
    if (version st =? VersionTLS13) && (typ =? 20)%N then Ok (payload, typ, st, []) else
    let done (pt : bytes) (t : N) (st' : hstate) (calls : list call) :=
      match inc_seq (seqno st') with
      | None => Panic
      | Some s => Ok (pt, t, with_seq st' s, calls)
      end in
    let e := explicit_nonce_len st in
    match knd st with
    | KNull => done payload typ st []
    | KStream ms =>
        let p := stream (spos st) payload in
        let st1 := {| version := version st; knd := knd st; seqno := seqno st; civ := civ st;
                      spos := spos st + zlen payload |} in
        let c0 := [CStreamX (spos st) payload] in
        (* plaintext is still nil here: the TLS 1.3 block sees an empty plaintext *)
        let pre := if version st =? VersionTLS13 then tls13_inner [] typ else Ok ([], typ) in
        match pre with
        | Err a => Err a
        | Panic => Panic
        | Ok (_, typ') =>
            match mac_check st hdr p ms 0 255%N with
            | Err a => Err a
            | Panic => Panic
            | Ok (pt, c1) => done pt typ' st1 (c0 ++ c1)
            end
        end
    | KAead _ ovh =>
        if zlen payload <? e then Err alert_bad_record_mac else
        let nonce := match ztake e payload with [] => seq8 (seqno st) | en => en end in
        let body := zdrop e payload in
        let ad := if version st =? VersionTLS13 then hdr
                  else seq8 (seqno st) ++ firstn 3 hdr ++ be16 (zlen body - ovh) in
        match aopen nonce ad body with
        | None => Err alert_bad_record_mac
        | Some pt =>
            let c0 := [COpen nonce ad body] in
            if version st =? VersionTLS13 then
              match tls13_inner pt typ with
              | Err a => Err a
              | Panic => Panic
              | Ok (pt', typ') => done pt' typ' st c0
              end
            else done pt typ st c0
        end
    | KCbc bs ms =>
        let min_payload := e + (let a := ms + 1 in a + (bs - a mod bs) mod bs) in
        if negb (zlen payload mod bs =? 0) || (zlen payload <? min_payload)
        then Err alert_bad_record_mac else
        let iv := if 0 <? e then ztake e payload else civ st in
        let body := if 0 <? e then zdrop e payload else payload in
        let p := cbc_dec iv body in
        let st1 := {| version := version st; knd := knd st; seqno := seqno st;
                      civ := next_iv bs iv body; spos := spos st |} in
        let c0 := [CCbc iv body] in
        let '(padl, padgood) := extract_padding p in
        let pre := if version st =? VersionTLS13 then tls13_inner [] typ else Ok ([], typ) in
        match pre with
        | Err a => Err a
        | Panic => Panic
        | Ok (_, typ') =>
            match mac_check st hdr p ms (Z.of_N padl) padgood with
            | Err a => Err a
            | Panic => Panic
            | Ok (pt, c1) => done pt typ' st1 (c0 ++ c1)
            end
        end
    end.

  (* ------------------------------------------------ writing: fragmentation *)
  Record conn_w := {
    cw_hs : hstate;          (* c.out, c.vers = version cw_hs *)
    cw_bytes : Z;            (* c.bytesSent *)
    cw_pkts : Z;             (* c.packetsSent *)
    cw_dyn_off : bool;       (* config.DynamicRecordSizingDisabled *)
    cw_beast_off : bool      (* config.DisableTLS10BEASTMitigation *)
  }.

  (* (size, packetsSent afterwards) *)
  Definition max_payload_for_write (c : conn_w) (typ : N) : Z * Z :=
    if cw_dyn_off c || negb (typ =? 23)%N then (max_plaintext, cw_pkts c)
    else if cw_bytes c >=? 131072 then (max_plaintext, cw_pkts c)
    else
      let st := cw_hs c in
      let pb0 := 1208 - 5 - explicit_nonce_len st in
      let pb1 := match knd st with
                 | KNull => pb0
                 | KStream ms => pb0 - ms
                 | KAead _ ovh => pb0 - ovh
                 | KCbc bs ms => Z.land pb0 (Z.lnot (bs - 1)) - 1 - ms
                 end in
      let pb := if version st =? VersionTLS13 then pb1 - 1 else pb1 in
      let pkt := cw_pkts c in
      if pkt >? 1000 then (max_plaintext, pkt + 1)
      else (Z.min (pb * (pkt + 1)) max_plaintext, pkt + 1).

  Definition wire_version (v : Z) : Z :=
    if v =? 0 then VersionTLS10 else if v =? VersionTLS13 then VersionTLS12 else v.

  Definition rec_header (typ : N) (v m : Z) : bytes := typ :: be16 (wire_version v) ++ be16 m.

  (* one element per record written: (plaintext fragment, wire record, calls) *)
  Definition wrec := (bytes * bytes * list call)%type.

  (* the loop of writeRecordLocked; fuel = length data is enough *)
  Fixpoint write_loop (fuel : nat) (c : conn_w) (typ : N) (data rnd : bytes)
    : outcome (list wrec * conn_w * bytes) :=
    match data with
    | [] => Ok ([], c, rnd)
    | _ =>
      match fuel with
      | O => Panic
      | S f =>
        let '(mp, pk) := max_payload_for_write c typ in
        let m := Z.min (zlen data) mp in
        if m <=? 0 then Panic else
        let st := cw_hs c in
        let frag := ztake m data in
        match half_encrypt st (rec_header typ (version st) m) frag rnd with
        | Err a => Err a
        | Panic => Panic
        | Ok (rec, st', calls) =>
            let c' := {| cw_hs := st'; cw_bytes := cw_bytes c + zlen rec; cw_pkts := pk;
                         cw_dyn_off := cw_dyn_off c; cw_beast_off := cw_beast_off c |} in
            match write_loop f c' typ (zdrop m data) (zdrop (rnd_used st) rnd) with
            | Err a => Err a
            | Panic => Panic
            | Ok (rs, c'', rnd'') => Ok ((frag, rec, calls) :: rs, c'', rnd'')
            end
        end
      end
    end.

  (* Conn.Write(b) in the data phase, including the TLS 1.0 1/n-1 split *)
  Definition conn_write (c : conn_w) (b rnd : bytes) : outcome (list wrec * conn_w * bytes) :=
    let st := cw_hs c in
    if (1 <? zlen b) && (version st =? VersionTLS10) && negb (cw_beast_off c) && is_cbc (knd st)
    then
      match write_loop 1 c 23%N (firstn 1 b) rnd with
      | Err a => Err a
      | Panic => Panic
      | Ok (r1, c1, rnd1) =>
          match write_loop (length b) c1 23%N (skipn 1 b) rnd1 with
          | Err a => Err a
          | Panic => Panic
          | Ok (r2, c2, rnd2) => Ok (r1 ++ r2, c2, rnd2)
          end
      end
    else write_loop (length b) c 23%N b rnd.

  Fixpoint conn_writes (c : conn_w) (ws : list bytes) (rnd : bytes)
    : outcome (list wrec * conn_w * bytes) :=
    match ws with
    | [] => Ok ([], c, rnd)
    | b :: r =>
        match conn_write c b rnd with
        | Err a => Err a
        | Panic => Panic
        | Ok (r1, c1, rnd1) =>
            match conn_writes c1 r rnd1 with
            | Err a => Err a
            | Panic => Panic
            | Ok (r2, c2, rnd2) => Ok (r1 ++ r2, c2, rnd2)
            end
        end
    end.

  (* ------------------------------------------------ reading: data phase *)
  (* how a Read ends *)
  Inductive rx_end :=
  | EndEOF                    (* io.EOF: transport closed at a record boundary, or close_notify *)
  | EndUnexpectedEOF          (* transport closed inside a record *)
  | EndHeader                 (* RecordHeaderError (version mismatch, oversized record) *)
  | EndLocal (alert : Z)      (* alert sent by this side *)
  | EndRemote (alert : Z)     (* fatal alert received *)
  | EndOther                  (* too many ignored records *)
  | EndHandshake.             (* a handshake record arrived: outside this model (C32) *)

  Inductive rx_step (B : Type) :=
  | RxRec (typ : N) (data : bytes) (st : hstate) (rest : B)
  | RxEnd (e : rx_end).
  Arguments RxRec {B}. Arguments RxEnd {B}.

  (* what readRecordOrCCS does once the header (and then the whole record) is
     in c.rawInput: limits, decrypt.  raw holds at least 5 bytes when called. *)
  Definition rx_header (st : hstate) (raw : bytes) : option Z :=
    let vers := Z.of_N (nth 1 raw 0%N) * 256 + Z.of_N (nth 2 raw 0%N) in
    let n := Z.of_N (nth 3 raw 0%N) * 256 + Z.of_N (nth 4 raw 0%N) in
    if negb (version st =? VersionTLS13) && negb (vers =? version st) then None else
    if ((version st =? VersionTLS13) && (n >? max_ciphertext13)) || (n >? max_ciphertext)
    then None else Some n.

  Definition rx_decrypt {B} (st : hstate) (rec : bytes) (rest : B) : rx_step B :=
    match half_decrypt st rec with
    | Panic => RxEnd EndOther
    | Err a => RxEnd (EndLocal a)
    | Ok (data, typ, st', _) =>
        if zlen data >? max_plaintext then RxEnd (EndLocal alert_record_overflow)
        else RxRec typ data st' rest
    end.

  (* one record from a flat buffer: buf is everything the transport will ever
     deliver from here on *)
  Definition rx_record (st : hstate) (buf : bytes) : rx_step bytes :=
    if zlen buf <? 5 then RxEnd (match buf with [] => EndEOF | _ => EndUnexpectedEOF end) else
    match rx_header st buf with
    | None => RxEnd EndHeader
    | Some n =>
        if zlen buf <? 5 + n then RxEnd EndUnexpectedEOF else
        rx_decrypt st (ztake (5 + n) buf) (zdrop (5 + n) buf)
    end.

  (* readFromUntil over a segmented transport: raw = c.rawInput, segs = what
     the successive transport reads return; false = the transport ended first *)
  Fixpoint fill (raw : bytes) (segs : list bytes) (n : Z) : bytes * list bytes * bool :=
    if zlen raw >=? n then (raw, segs, true) else
    match segs with
    | [] => (raw, [], false)
    | s :: r => fill (raw ++ s) r n
    end.

  (* one record from (rawInput, pending transport segments) *)
  Definition rx_record_segs (st : hstate) (b : bytes * list bytes) : rx_step (bytes * list bytes) :=
    let '(raw1, segs1, ok1) := fill (fst b) (snd b) 5 in
    if negb ok1 then RxEnd (match raw1 with [] => EndEOF | _ => EndUnexpectedEOF end) else
    match rx_header st raw1 with
    | None => RxEnd EndHeader
    | Some n =>
        let '(raw2, segs2, ok2) := fill raw1 segs1 (5 + n) in
        if negb ok2 then RxEnd EndUnexpectedEOF else
        rx_decrypt st (ztake (5 + n) raw2) (zdrop (5 + n) raw2, segs2)
    end.

  (* repeated Read until an error: (application data delivered, how it ended).
     retry = c.retryCount.  fuel: one unit per record. *)
  Fixpoint read_loop {B} (step : hstate -> B -> rx_step B)
           (fuel : nat) (st : hstate) (retry : Z) (buf : B) : bytes * rx_end :=
    match fuel with
    | O => ([], EndOther)
    | S f =>
      match step st buf with
      | RxEnd e => ([], e)
      | RxRec typ data st' rest =>
        let is_null := match knd st' with KNull => true | _ => false end in
        if is_null && (typ =? 23)%N then ([], EndLocal alert_unexpected_message) else
        let retry1 := if negb (typ =? 21)%N && negb (typ =? 20)%N && (0 <? zlen data) then 0 else retry in
        let again := if retry1 + 1 >? 16 then ([], EndOther) else read_loop step f st' (retry1 + 1) rest in
        if (typ =? 21)%N then
          if negb (zlen data =? 2) then ([], EndLocal alert_unexpected_message) else
          let lvl := nth 0 data 0%N in let desc := Z.of_N (nth 1 data 0%N) in
          if desc =? 0 then ([], EndEOF) else
          if version st' =? VersionTLS13 then ([], EndRemote desc) else
          if (lvl =? 1)%N then again
          else if (lvl =? 2)%N then ([], EndRemote desc)
          else ([], EndLocal alert_unexpected_message)
        else if (typ =? 20)%N then
          if negb (zlen data =? 1) || negb (nth 0 data 0%N =? 1)%N then ([], EndLocal alert_decode_error) else
          if version st' =? VersionTLS13 then again
          else ([], EndLocal alert_unexpected_message)
        else if (typ =? 23)%N then
          match data with
          | [] => again
          | _ => let '(d, e) := read_loop step f st' retry1 rest in (data ++ d, e)
          end
        else if (typ =? 22)%N then
          match data with
          | [] => ([], EndLocal alert_unexpected_message)
          | _ => ([], EndHandshake)
          end
        else ([], EndLocal alert_unexpected_message)
      end
    end.

  Definition read_app := read_loop rx_record.
  Definition read_app_segs (fuel : nat) (st : hstate) (retry : Z) (raw : bytes) (segs : list bytes) :=
    read_loop rx_record_segs fuel st retry (raw, segs).
End RecordLayer.
Arguments RxRec {B}. Arguments RxEnd {B}.

(* the 12-byte nonce handed to the inner AEAD by the two wrappers of cipher_suites.go *)
Inductive nonce_wrap := WrapNone | WrapPrefix (prefix : bytes) | WrapXor (mask : bytes).
Fixpoint xor_bytes (a b : bytes) : bytes :=
  match a, b with
  | x :: a', y :: b' => N.lxor x y :: xor_bytes a' b'
  | _, _ => a
  end.
Definition inner_nonce (w : nonce_wrap) (n : bytes) : bytes :=
  match w with
  | WrapNone => n
  | WrapPrefix p => firstn 4 p ++ firstn 8 (n ++ repeat 0%N 8)
  | WrapXor m => firstn 4 m ++ xor_bytes (skipn 4 m) (firstn 8 n)
  end.

(* ------------------------------------------------ toy primitives (spies) *)
Definition mixN (h x : N) : N := ((h * 31 + x + 1) mod 1000000007)%N.
Definition thash (l : bytes) : N := fold_left mixN l 7%N.
(* a second, independent rolling hash: the toy tag carries both accumulators in
   full (4 + 4 bytes), so it is injective in them; a change of a single byte
   always changes the first accumulator (31^k is invertible mod the prime), any
   other change collides with probability ~1e-18 *)
Definition mixN2 (h x : N) : N := ((h * 257 + x + 3) mod 998244353)%N.
Definition thash2 (l : bytes) : N := fold_left mixN2 l 11%N.
Definition tag_bytes (x : bytes) (k : Z) : bytes :=
  let a1 := thash x in let a2 := thash2 x in
  firstn (Z.to_nat k)
    (be_n 4 a1 ++ be_n 4 a2 ++
     map (fun i => (mixN (mixN a1 (N.of_nat i)) a2 mod 256)%N) (seq 0 (Z.to_nat k))).
(* length-prefixed (injective) encoding of a field *)
Definition lp (l : bytes) : bytes := be16 (zlen l) ++ l.
Definition toy_mac (ms : Z) (x : bytes) : bytes := tag_bytes x ms.
Fixpoint xor_ks (pos : Z) (x : bytes) : bytes :=
  match x with
  | [] => []
  | b :: r => N.lxor b (Z.to_N ((pos * 37 + 11) mod 256)) :: xor_ks (pos + 1) r
  end.
Definition toy_stream := xor_ks.
Definition toy_tag (ovh : Z) (w : nonce_wrap) (n ad p : bytes) : bytes :=
  tag_bytes (lp (inner_nonce w n) ++ lp ad ++ p) ovh.
Definition toy_seal (ovh : Z) (w : nonce_wrap) (n ad p : bytes) : bytes :=
  xor_ks (Z.of_N (thash (inner_nonce w n) mod 256)) p ++ toy_tag ovh w n ad p.
Definition toy_open (ovh : Z) (w : nonce_wrap) (n ad c : bytes) : option bytes :=
  if zlen c <? ovh then None else
  let body := ztake (zlen c - ovh) c in
  let p := xor_ks (Z.of_N (thash (inner_nonce w n) mod 256)) body in
  if bytes_eqb (zdrop (zlen c - ovh) c) (toy_tag ovh w n ad p) then Some p else None.
Fixpoint blk_add (i : Z) (sign : Z) (x : bytes) : bytes :=
  match x with
  | [] => []
  | b :: r => Z.to_N ((Z.of_N b + sign * (i * 29 + 5)) mod 256) :: blk_add (i + 1) sign r
  end.
Fixpoint tcbc_enc (fuel : nat) (bs : Z) (iv x : bytes) : bytes :=
  match fuel with
  | O => []
  | S f => if (zlen x <? bs) || (bs <=? 0) then [] else
           let c := blk_add 0 1 (xor_bytes (ztake bs x) iv) in
           c ++ tcbc_enc f bs c (zdrop bs x)
  end.
Fixpoint tcbc_dec (fuel : nat) (bs : Z) (iv x : bytes) : bytes :=
  match fuel with
  | O => []
  | S f => if (zlen x <? bs) || (bs <=? 0) then [] else
           let c := ztake bs x in
           xor_bytes (blk_add 0 (-1) c) iv ++ tcbc_dec f bs c (zdrop bs x)
  end.
Definition toy_cbc_enc (bs : Z) (iv x : bytes) := tcbc_enc (length x) bs iv x.
Definition toy_cbc_dec (bs : Z) (iv x : bytes) := tcbc_dec (length x) bs iv x.

Definition kind_ms (k : kind) : Z := match k with KStream ms => ms | KCbc _ ms => ms | _ => 0 end.
Definition kind_bs (k : kind) : Z := match k with KCbc bs _ => bs | _ => 1 end.
Definition kind_ovh (k : kind) : Z := match k with KAead _ o => o | _ => 0 end.

Definition t_encrypt (w : nonce_wrap) (st : hstate) :=
  half_encrypt toy_stream (toy_cbc_enc (kind_bs (knd st))) (toy_seal (kind_ovh (knd st)) w)
               (toy_mac (kind_ms (knd st))) st.
Definition t_decrypt (w : nonce_wrap) (st : hstate) :=
  half_decrypt toy_stream (toy_cbc_dec (kind_bs (knd st))) (toy_open (kind_ovh (knd st)) w)
               (toy_mac (kind_ms (knd st))) st.

(* ------------------------------------------------ correspondence cases *)
Definition call_eqb (a b : call) : bool :=
  match a, b with
  | CMac x, CMac y => bytes_eqb x y
  | CMacExtra x, CMacExtra y => bytes_eqb x y
  | CStreamX p x, CStreamX q y => (p =? q) && bytes_eqb x y
  | CSeal n a p, CSeal n' a' p' => bytes_eqb n n' && bytes_eqb a a' && bytes_eqb p p'
  | COpen n a p, COpen n' a' p' => bytes_eqb n n' && bytes_eqb a a' && bytes_eqb p p'
  | CCbc i x, CCbc j y => bytes_eqb i j && bytes_eqb x y
  | _, _ => false
  end.

(* inner nonce is what the spy sees: rewrite the model's calls accordingly *)
Definition spy_view (w : nonce_wrap) (c : call) : call :=
  match c with
  | CSeal n a p => CSeal (inner_nonce w n) a p
  | COpen n a p => COpen (inner_nonce w n) a p
  | c => c
  end.

(* stream pad: (payload, toRemove, good) *)
Definition pad := (bytes * N * N)%type.
Definition check_pad (c : pad) : bool :=
  let '(payload, rm, good) := c in
  let '(rm', good') := extract_padding payload in
  (rm =? rm')%N && (good =? good')%N.

(* stream xpad: for one payload length L, every padding byte p and every
   single-position deviation, folded into one checksum in the harness's order *)
Definition gen_payload (f : nat -> N) (L : nat) : bytes := rev (map f (seq 0 L)).
Definition pad_variants (L : nat) (p : N) : list bytes :=
  gen_payload (fun _ => p) L ::
  gen_payload (fun j => if (N.of_nat j <=? p)%N then p else N.lxor p 170) L ::
  flat_map (fun k =>
      [ gen_payload (fun j => if (j =? k)%nat then N.lxor p 1 else p) L;
        gen_payload (fun j => if (j =? k)%nat then ((N.of_nat k * 13 + 5) mod 256)%N else p) L ])
    (seq 0 L).
Definition hash_pad (h : N) (payload : bytes) : N :=
  let '(rm, good) := extract_padding payload in mixN (mixN h rm) good.
Definition xpad_hash (L : nat) : N :=
  fold_left (fun h p => fold_left hash_pad (pad_variants L p) h)
            (map N.of_nat (seq 0 256)) 0%N.
Definition xpad := (nat * N)%type.
Definition check_xpad (c : xpad) : bool := let '(L, h) := c in (xpad_hash L =? h)%N.

(* stream enc: one encrypt on a half-connection with spy primitives.
   observed: 0 = record, 1 = error, 2 = panic *)
Definition eobs := (Z * bytes * N * list call)%type.   (* class, record, seq afterwards, calls *)
Definition enc := (nonce_wrap * hstate * bytes * bytes * bytes * eobs)%type.
Definition check_enc (c : enc) : bool :=
  let '(w, st, hdr, payload, rnd, (cls, rec, s', calls)) := c in
  match t_encrypt w st hdr payload rnd with
  | Ok (rec', st', calls') =>
      (cls =? 0) && bytes_eqb rec rec' && (s' =? seqno st')%N &&
      list_eqb call_eqb calls (map (spy_view w) calls')
  | Err _ => cls =? 1
  | Panic => cls =? 2
  end.

(* stream dec: one decrypt.  observed class: -1 = ok, 300 = panic, else alert *)
Definition dobs := (Z * bytes * N * N * list call)%type. (* class, plaintext, type, seq afterwards, calls *)
Definition dec := (nonce_wrap * hstate * bytes * dobs)%type.
Definition check_dec (c : dec) : bool :=
  let '(w, st, rec, (cls, pt, typ, s', calls)) := c in
  match t_decrypt w st rec with
  | Ok (pt', typ', st', calls') =>
      (cls =? -1) && bytes_eqb pt pt' && (typ =? typ')%N && (s' =? seqno st')%N &&
      list_eqb call_eqb calls (map (spy_view w) calls')
  | Err a => (cls =? a) && (s' =? seqno st)%N
  | Panic => cls =? 300
  end.

(* ---- lengths only: the same loop without the contents (proved equal to the
   record lengths of write_loop under the length laws of the primitives) ---- *)
(* wire length of the record that carries m plaintext bytes *)
Definition enc_len (st : hstate) (m : Z) : Z :=
  5 + match knd st with
      | KNull => m
      | KStream ms => m + ms
      | KCbc bs ms => explicit_nonce_len st + (m + ms) + (bs - (m + ms) mod bs)
      | KAead e ovh => if version st =? VersionTLS13 then e + m + 1 + ovh else e + m + ovh
      end.

Definition mk_conn_w (st : hstate) (bs ps : Z) (dyn beast : bool) : conn_w :=
  {| cw_hs := st; cw_bytes := bs; cw_pkts := ps; cw_dyn_off := dyn; cw_beast_off := beast |}.

(* (record wire lengths, bytesSent, packetsSent) for one writeRecordLocked of n bytes *)
Fixpoint frag_lens (fuel : nat) (st : hstate) (bs ps : Z) (dyn : bool) (typ : N) (n : Z)
  : list Z * Z * Z :=
  if n <=? 0 then ([], bs, ps) else
  match fuel with
  | O => ([], bs, ps)
  | S f =>
      let '(mp, pk) := max_payload_for_write (mk_conn_w st bs ps dyn false) typ in
      let m := Z.min n mp in
      if m <=? 0 then ([], bs, ps) else
      let l := enc_len st m in
      let '(ls, b, p) := frag_lens f st (bs + l) pk dyn typ (n - m) in
      (l :: ls, b, p)
  end.

Definition write_lens (st : hstate) (bs ps : Z) (dyn beast : bool) (n : Z) : list Z * Z * Z :=
  if (1 <? n) && (version st =? VersionTLS10) && negb beast && is_cbc (knd st) then
    let '(l1, b1, p1) := frag_lens 1 st bs ps dyn 23%N 1 in
    let '(l2, b2, p2) := frag_lens (Z.to_nat n) st b1 p1 dyn 23%N (n - 1) in
    (l1 ++ l2, b2, p2)
  else frag_lens (Z.to_nat n) st bs ps dyn 23%N n.

Fixpoint writes_lens (st : hstate) (bs ps : Z) (dyn beast : bool) (ns : list Z) : list Z * Z * Z :=
  match ns with
  | [] => ([], bs, ps)
  | n :: r =>
      let '(l1, b1, p1) := write_lens st bs ps dyn beast n in
      let '(l2, b2, p2) := writes_lens st b1 p1 dyn beast r in
      (l1 ++ l2, b2, p2)
  end.

(* stream frag: a data-phase Conn writing; only lengths travel.
   (hstate, bytesSent, packetsSent, dynOff, beastOff, write lengths,
    observed wire record lengths, bytesSent and packetsSent afterwards) *)
Definition t_writes (w : nonce_wrap) (c : conn_w) :=
  let k := knd (cw_hs c) in
  conn_writes toy_stream (toy_cbc_enc (kind_bs k)) (toy_seal (kind_ovh k) w) (toy_mac (kind_ms k)) c.
Definition frag := (hstate * Z * Z * bool * bool * list Z * (list Z * Z * Z))%type.
Definition check_frag (c : frag) : bool :=
  let '(st, bs, ps, dyn, beast, lens, (rlens, bs', ps')) := c in
  let '(ls, b, p) := writes_lens st bs ps dyn beast lens in
  list_eqb Z.eqb rlens ls && (bs' =? b) && (ps' =? p).

(* stream wire: the same with contents: (wrap, conn, writes, rnd, observed wire bytes, observed calls) *)
Definition wire := (nonce_wrap * hstate * Z * Z * bool * bool * list bytes * bytes * (bytes * list call))%type.
Definition check_wire (c : wire) : bool :=
  let '(w, st, bs, ps, dyn, beast, ws, rnd, (wirebytes, calls)) := c in
  match t_writes w (mk_conn_w st bs ps dyn beast) ws rnd with
  | Ok (rs, _, _) =>
      bytes_eqb wirebytes (concat (map (fun r => snd (fst r)) rs)) &&
      list_eqb call_eqb calls (map (spy_view w) (concat (map snd rs)))
  | _ => false
  end.

(* stream rx: a data-phase Conn reading a (possibly corrupted) wire:
   (wrap, reader state, wire, observed delivered bytes, observed end class) *)
Definition end_code (e : rx_end) : Z :=
  match e with
  | EndEOF => 0 | EndUnexpectedEOF => 1 | EndHeader => 2 | EndLocal a => 1000 + a
  | EndRemote a => 2000 + a | EndOther => 3 | EndHandshake => 4
  end.
Definition t_read (w : nonce_wrap) (st : hstate) (buf : bytes) :=
  let k := knd st in
  read_app toy_stream (toy_cbc_dec (kind_bs k)) (toy_open (kind_ovh k) w) (toy_mac (kind_ms k))
           (S (length buf)) st 0 buf.
Definition rx := (nonce_wrap * hstate * bytes * (bytes * Z))%type.
Definition check_rx (c : rx) : bool :=
  let '(w, st, buf, (got, cls)) := c in
  let '(d, e) := t_read w st buf in
  bytes_eqb got d && (cls =? end_code e).
