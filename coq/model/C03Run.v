(* C03 — the check functions of the correspondence streams, instantiated with the regenerated
   tables (gen/C03Tables_gen.v) and, for dsa.Verify, with the word-level modular exponentiation
   of model/C23Fast.v (equal to Zpow_mod: proof/C23FastProofs.v). *)
From Coq Require Import List ZArith NArith Bool Zpow_facts.
From VerifGen Require Import C03Tables_gen.
From VerifModel Require Import C23 C23Fast C03.
Definition check_signcase := C03.check_signcase x509_details ocsp_details.
Definition check_checkcase := C03.check_checkcase x509_details.
Definition check_psscase := C03.check_psscase.
Definition check_dsacase := C03.check_dsacase fast_powmod.
