(* C03 — the check functions of the correspondence streams, instantiated with the regenerated
   tables (gen/C03Tables_gen.v). *)
From Coq Require Import List ZArith NArith Bool.
From VerifGen Require Import C03Tables_gen.
From VerifModel Require Import C23 C03.
Definition check_signcase := C03.check_signcase x509_details ocsp_details.
Definition check_checkcase := C03.check_checkcase x509_details.
Definition check_psscase := C03.check_psscase.
