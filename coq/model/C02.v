(* C02 — Operations on any parsed certificate are total and deterministic.  MODEL.

   Three hand-written pieces of x509 where a panic or a non-deterministic
   result can live, modelled with the checked primitives of C01Prim.v:
   (1) the certificate-policies JSON view: the arrays that the policies branch of
       parseCertificate fills, and CertificatePoliciesData.MarshalJSON over them
       (the code before the repair, which indexes flat lists, and the repaired code);
   (2) purgeNameDuplicates: a Go map used as a set, then sort.Strings — the map
       iteration order is a parameter of the model;
   (3) parsePublicKey -> CheckSignatureFromKey: which key shapes reach which
       verification primitive, with the primitives' panic conditions. *)
From Coq Require Import List NArith ZArith Bool String Ascii.
From VerifModel Require Import C01Prim.
Import ListNotations.

(* ================= (1) certificate policies ================= *)
(* one userNotice qualifier as decoded: explicit text present iff its bytes are
   non-empty; notice reference present iff organisation bytes or numbers are non-nil.
   Texts and organisations are abstract identifiers. *)
Record notice := { n_text : option N; n_ref : option (N * list N) }.
(* one PolicyInformation: identifier, CPS URIs, user notices (in qualifier order) *)
Record policy := { p_id : N; p_cps : list N; p_notices : list notice }.

(* what the policies branch of parseCertificate stores (all outer arrays have one row per policy) *)
Record arrays := {
  a_ids : list N;
  a_cps : list (list N);
  a_texts : list (list N);            (* ParsedExplicitTexts *)
  a_orgs : list (list N);             (* ParsedNoticeRefOrganization *)
  a_nums : list (list (list N));      (* NoticeRefNumbers *)
  a_notices : list (list notice) }.   (* UserNotices *)

Definition texts_of (ns : list notice) : list N :=
  flat_map (fun n => match n_text n with Some t => [t] | None => [] end) ns.
Definition orgs_of (ns : list notice) : list N :=
  flat_map (fun n => match n_ref n with Some (o, _) => [o] | None => [] end) ns.
Definition nums_of (ns : list notice) : list (list N) :=
  flat_map (fun n => match n_ref n with Some (_, k) => [k] | None => [] end) ns.

Definition policies_parse (ps : list policy) : arrays :=
  {| a_ids := map p_id ps;
     a_cps := map p_cps ps;
     a_texts := map (fun p => texts_of (p_notices p)) ps;
     a_orgs := map (fun p => orgs_of (p_notices p)) ps;
     a_nums := map (fun p => nums_of (p_notices p)) ps;
     a_notices := map p_notices ps |}.

(* the JSON view: per policy (id, cps, user notices (text, optional reference)) *)
Definition jnotice := (N * option (N * list N))%type.
Definition jpolicy := (N * list N * list jnotice)%type.

(* the code before the repair:
     for idx2, text := range ExplicitTexts[idx] {
       if len(NoticeRefOrganization[idx]) > 0 { org := NoticeRefOrganization[idx][idx2]; num := NoticeRefNumbers[idx][idx2] ... } } *)
Fixpoint notices_unrepaired (texts : list N) (orgs : list N) (nums : list (list N)) (idx2 : nat) : res (list jnotice) :=
  match texts with
  | [] => Ok []
  | t :: rest =>
      n <- (match orgs with
            | [] => Ok (t, None)
            | _ => o <- idx orgs idx2 ;; k <- idx nums idx2 ;; Ok (t, Some (o, k))
            end) ;;
      r <- notices_unrepaired rest orgs nums (S idx2) ;;
      Ok (n :: r)
  end.

(* the repaired code: for _, notice := range UserNotices[idx] { if notice.ExplicitText == nil { continue } ... } *)
Definition notices_repaired (ns : list notice) : list jnotice :=
  flat_map (fun n => match n_text n with Some t => [(t, n_ref n)] | None => [] end) ns.

Fixpoint policies_json_from (repaired : bool) (a : arrays) (ids : list N) (i : nat) : res (list jpolicy) :=
  match ids with
  | [] => Ok []
  | id :: rest =>
      cps <- idx (a_cps a) i ;;
      ns <- (if repaired then (un <- idx (a_notices a) i ;; Ok (notices_repaired un))
             else (t <- idx (a_texts a) i ;; o <- idx (a_orgs a) i ;; k <- idx (a_nums a) i ;;
                   notices_unrepaired t o k 0)) ;;
      r <- policies_json_from repaired a rest (S i) ;;
      Ok ((id, cps, ns) :: r)
  end.
Definition policies_json (repaired : bool) (a : arrays) : res (list jpolicy) :=
  policies_json_from repaired a (a_ids a) 0.

(* ================= (2) purgeNameDuplicates ================= *)
(* bytewise lexicographic order, as Go compares strings *)
Fixpoint lex_leb (a b : string) : bool :=
  match a, b with
  | EmptyString, _ => true
  | String _ _, EmptyString => false
  | String x a', String y b' =>
      let nx := N_of_ascii x in let ny := N_of_ascii y in
      if (nx <? ny)%N then true else if (ny <? nx)%N then false else lex_leb a' b'
  end.
Fixpoint insert (x : string) (l : list string) : list string :=
  match l with
  | [] => [x]
  | y :: r => if lex_leb x y then x :: l else y :: insert x r
  end.
Definition sort_strings (l : list string) : list string := fold_right insert [] l.
Fixpoint mem (x : string) (l : list string) : bool :=
  match l with [] => false | y :: r => String.eqb x y || mem x r end.
(* the key set of the map, in first-insertion order *)
Fixpoint dedup (l : list string) (seen : list string) : list string :=
  match l with
  | [] => []
  | x :: r => if mem x seen then dedup r seen else x :: dedup r (x :: seen)
  end.
(* [order] is the order in which range-over-map yields the keys: any permutation of them *)
Definition purge_with (order : list string -> list string) (names : list string) : list string :=
  sort_strings (order (dedup names [])).
Definition purge (names : list string) : list string := purge_with (fun l => l) names.

(* ================= (3) parsePublicKey -> CheckSignatureFromKey ================= *)
(* what parsePublicKey finds inside the SubjectPublicKeyInfo *)
Inductive spki :=
| SRsa (n e : Z)                 (* a well-formed RSAPublicKey SEQUENCE { n, e } without trailing data *)
| SRsaBad                        (* not that *)
| SDsa (p q g y : Z) | SDsaBad
| SEc (curve_ok point_ok : bool)
| SEd (len : N)                  (* Ed25519: length of the BIT STRING contents *)
| SX (len : N)                   (* X25519 *)
| SOther.                        (* any other algorithm: (nil, nil) *)

Inductive key := KRsa (n e : Z) | KDsa (p q g y : Z) | KEc | KEd (len : N) | KX (len : N) | KNil.

(* [perm] = asn1.AllowPermissiveParsing; [repaired] = the Ed25519 length check is "!= 32" instead of "> 32" *)
Definition parse_pk (repaired perm : bool) (s : spki) : res key :=
  match s with
  | SRsa n e =>
      if perm then Ok (KRsa n e)
      else if (n <=? 0)%Z then Err else if (e <=? 0)%Z then Err else Ok (KRsa n e)
  | SRsaBad => Err
  | SDsa p q g y =>
      if ((y <=? 0) || (p <=? 0) || (q <=? 0) || (g <=? 0))%Z then Err else Ok (KDsa p q g y)
  | SDsaBad => Err
  | SEc c p => if c && p then Ok KEc else Err
  | SEd len =>
      if repaired then (if (len =? 32)%N then Ok (KEd len) else Err)
      else (if (32 <? len)%N then Err else Ok (KEd len))
  | SX len => if (32 <? len)%N then Err else Ok (KX len)
  | SOther => Ok KNil
  end.

(* signature algorithm classes as CheckSignatureFromKey's first switch sees them *)
Inductive algo := AHash (pss : bool) | AEd | AMd2 | AUnknown.

(* Outcome of CheckSignatureFromKey: Ok tt = returned (nil or an error, which depends on the
   signature), Panic = a verification primitive was entered outside its precondition.
   rsa.VerifyPKCS1v15/VerifyPSS call checkPub first (N, E non-nil, E >= 2), then compare the
   message with N before big.Int.Exp: no panic for any integers.  dsa.Verify returns false for
   P = 0, r/s out of range, non-invertible s.  ed25519.Verify panics unless len(pub) = 32. *)
Definition dispatch (a : algo) (k : key) : res unit :=
  match a with
  | AMd2 | AUnknown => Ok tt                  (* InsecureAlgorithmError / ErrUnsupportedAlgorithm *)
  | _ =>
      match k with
      | KRsa _ _ => Ok tt
      | KDsa _ _ _ _ => Ok tt
      | KEc => Ok tt
      | KEd len => if (len =? 32)%N then Ok tt else Panic
      | KX _ | KNil => Ok tt                  (* ErrUnsupportedAlgorithm *)
      end
  end.

(* parseCertificate's self-signature test: only for self-issued certificates *)
Definition self_sig_check (repaired perm self_issued : bool) (a : algo) (s : spki) : res unit :=
  k <- parse_pk repaired perm s ;;
  if self_issued then dispatch a k else Ok tt.

(* ================= correspondence cases ================= *)
Definition N_eqb := N.eqb.
Fixpoint leqb {A} (e : A -> A -> bool) (a b : list A) : bool :=
  match a, b with [], [] => true | x :: a', y :: b' => e x y && leqb e a' b' | _, _ => false end.
Definition oeqb {A} (e : A -> A -> bool) (a b : option A) : bool :=
  match a, b with None, None => true | Some x, Some y => e x y | _, _ => false end.
Definition ref_eqb (a b : N * list N) : bool := N.eqb (fst a) (fst b) && leqb N.eqb (snd a) (snd b).
Definition jnotice_eqb (a b : jnotice) : bool := N.eqb (fst a) (fst b) && oeqb ref_eqb (snd a) (snd b).
Definition jpolicy_eqb (a b : jpolicy) : bool :=
  let '(i, c, n) := a in let '(i', c', n') := b in
  N.eqb i i' && leqb N.eqb c c' && leqb jnotice_eqb n n'.

(* pcase: the policies of a generated certificate, and the JSON view the implementation
   produced for the parsed certificate ([None] = MarshalJSON panicked) *)
Definition pcase := (list policy * option (list jpolicy))%type.
Definition check_pcase (c : pcase) : bool :=
  let '(ps, obs) := c in
  match policies_json true (policies_parse ps), obs with
  | Ok j, Some j' => leqb jpolicy_eqb j j'
  | Panic, None => true
  | _, _ => false
  end.

(* ncase: input of purgeNameDuplicates and its output *)
Definition ncase := (list string * list string)%type.
Definition check_ncase (c : ncase) : bool := let '(i, o) := c in leqb String.eqb (purge i) o.

(* kcase: (permissive, spki shape, algorithm class, parse class, verification class)
   classes: 0 returned, 1 error, 2 panic; verification class 9 = not attempted *)
Definition kcase := (bool * spki * algo * N * N)%type.
Definition check_kcase (c : kcase) : bool :=
  let '(perm, s, a, pc, vc) := c in
  match parse_pk true perm s with
  | Ok k => N.eqb pc 0 && N.eqb vc (match dispatch a k with Ok _ => 0 | Panic => 2 | _ => 1 end)
  | Err => N.eqb pc 1 && N.eqb vc 9
  | _ => false
  end.
