(* C03 — dsa.Verify evaluated with the word-level modular exponentiation of model/C23Fast.v
   (equal to Zpow_mod on all arguments: proof/C23FastProofs.v, fast_powmod_eq). *)
From Coq Require Import ZArith NArith Bool Zpow_facts.
From VerifModel Require Import C23 C23Fast C03.
Definition check_dsacase := C03.check_dsacase fast_powmod.
