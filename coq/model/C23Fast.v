(* C23 — the modular exponentiation used by the correspondence run:
   the same square-and-multiply as Zpow_facts.Zpow_mod, computed on
   Bignums.BigN (machine words under vm_compute) instead of binary Z.
   proof/C23FastProofs.v proves [fast_powmod x y n = Zpow_mod x y n] for all
   arguments, hence [check_*case fast_powmod c = check_*case Zpow_mod c]. *)
From Coq Require Import ZArith NArith Bool Zpow_facts.
From Bignums Require Import BigN.
From VerifModel Require Import C23.
Open Scope Z_scope.

Fixpoint fast_pos (a : bigN) (m : positive) (n : bigN) : bigN :=
  match m with
  | xH => BigN.modulo a n
  | xO m' => let z := fast_pos a m' n in BigN.modulo (BigN.mul z z) n
  | xI m' => let z := fast_pos a m' n in
             BigN.modulo (BigN.mul (BigN.modulo (BigN.mul z z) n) a) n
  end.

Definition fast_powmod (x y n : Z) : Z :=
  match y with
  | Zpos p =>
      if (0 <=? x) && (0 <? n)
      then BigN.to_Z (fast_pos (BigN.of_N (Z.to_N x)) p (BigN.of_N (Z.to_N n)))
      else Zpow_mod x y n
  | _ => Zpow_mod x y n
  end.

Definition check_bigcase := C23.check_bigcase fast_powmod.
Definition check_pubcase := C23.check_pubcase fast_powmod.
Definition check_privcase := C23.check_privcase fast_powmod.
